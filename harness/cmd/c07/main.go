// C07: live SQL.  Random write histories (insert / update / delete / upsert, some in transactions) are
// applied through sqlgen to an in-memory MySQL stand-in (pkg/fakesql); every committed row change is
// turned into the RowsEvent the go-mysql syncer would deliver and fed, with random delays, to the real
// livesql.Binlog.RunPollLoop through the verif-tagged constructor.  Live queries run inside
// reactive.Rerunner computations.  Oracle: at quiescence every live query holds exactly what a direct
// SELECT on the final table returns, and an undecodable event reached the tracker and invalidated every
// live query on its table.  The tracker's observation points give the exact order of registrations and
// event processing with the invalidation verdicts; the Coq model (Sql/Live.v) must predict them.
package main

import (
	"context"
	"database/sql/driver"
	"encoding/json"
	"fmt"
	"io/ioutil"
	"path/filepath"
	"reflect"
	"runtime"
	"sort"
	"strconv"
	"strings"
	"sync"
	"time"

	"github.com/samsarahq/thunder/livesql"
	"github.com/samsarahq/thunder/reactive"
	"github.com/samsarahq/thunder/sqlgen"
	"github.com/samsarahq/thunder/verifhook"
	"github.com/siddontang/go-mysql/replication"
	"verifharness/pkg/fakesql"
	"verifharness/pkg/livesim"
	"verifharness/pkg/vh"
)

type Case struct {
	Seed   uint64 `json:"seed"`
	Preset string `json:"preset,omitempty"`
	Origin string `json:"origin,omitempty"`
	// Intense (failing-input search): more live queries and operations, three times as many undecodable
	// events, events held back longer, writes issued while queries are still on their first run.
	Intense bool `json:"intense,omitempty"`
	// Burst: before the ordinary history, more row events than the binlog reader's update queue holds
	// (1024) are delivered at once while the applying goroutine is held back by an update delay.
	Burst bool `json:"burst,omitempty"`
}

const database = "testdb"

type quietLogger struct {
	mu   sync.Mutex
	errs []string
}

func (l *quietLogger) Debug(string, ...interface{}) {}
func (l *quietLogger) Info(string, ...interface{})  {}
func (l *quietLogger) Warn(string, ...interface{})  {}
func (l *quietLogger) Error(msg string, tags ...interface{}) {
	l.mu.Lock()
	l.errs = append(l.errs, fmt.Sprint(append([]interface{}{msg}, tags...)...))
	l.mu.Unlock()
}

// ---- one pushed event ----

type pushed struct {
	table       string
	kind        string // write update delete
	rows        [][]interface{}
	undecodable string // "" or the reason
	foreign     bool   // other database / unknown table: RunPollLoop ignores it
	what        string
	layout      *livesim.MySQLOrder // the version of the table the images were written under
	tableMap    bool                // a TableMapEvent (never reaches the tracker)
	unknown     bool                // a rows event of our database for a table that is not registered (skipped)
	forceID     uint64              // table id of an event without a layout
	sentDB      string              // schema name and table id the event went out with
	sentID      uint64
	batch       int                 // the operation (statement / transaction) that produced it
}

// fetch is one information_schema.columns lookup RunPollLoop made: the table asked for and the answer it got.
type fetch struct {
	table string
	cols  []string
}

// ---- tracker trace ----

type tev struct {
	kind     string // add remove process
	rid      int
	table    string
	filter   sqlgen.Filter
	ev       *pushed
	obsErr   bool
	verdicts map[int]bool
}

type liveQuery struct {
	id     int
	table  string
	filter sqlgen.Filter
	key    string

	held    []string
	runs    int
	err     error
	lastReg int // rid registered by the latest run
	doneRid int // rid current when the latest run returned
	runReg  int // rid registered so far by the run in progress (0 = none yet)
}

// goid is the id of the calling goroutine (the rerunner runs a live query's function, its registration
// and its SELECT on one goroutine).
func goid() int {
	var buf [64]byte
	n := runtime.Stack(buf[:], false)
	f := strings.Fields(string(buf[:n]))
	if len(f) < 2 {
		return -1
	}
	id, _ := strconv.Atoi(f[1])
	return id
}

type env struct {
	mu        sync.Mutex
	queries   []*liveQuery
	rids      map[interface{}]int
	ridQuery  map[int]*liveQuery
	invalid   map[int]bool
	removed   map[int]bool
	trace     []tev
	pending   []*pushed // committed, not yet delivered
	inflight  []*pushed // delivered to the channel, expected at the tracker, in order
	processed int
	broken    string
	nextRid   int
	running   map[int]*liveQuery // goroutine -> live query whose function is running on it
	readEarly []string
	runMu     sync.Mutex
	layoutMu  sync.Mutex
	needMap   map[string]bool // the next rows event of the table is preceded by a TableMapEvent
	stream    []*pushed       // everything pushed into the syncer's channel, in order
	fetches   []fetch         // the information_schema lookups RunPollLoop made, in order (under layoutMu)
	blind     map[string]bool // tables whose last lookup came back empty: reopened at the next opportunity
}

var envs sync.Map // tracker -> *env

func filterKey(table string, f sqlgen.Filter) string {
	var ns []string
	for n := range f {
		ns = append(ns, n)
	}
	sort.Strings(ns)
	var b strings.Builder
	b.WriteString(table)
	for _, n := range ns {
		v := reflect.ValueOf(f[n])
		s := "nil"
		if v.IsValid() {
			if v.Kind() == reflect.Ptr {
				if v.IsNil() {
					s = "nilptr"
				} else {
					s = fmt.Sprintf("&%#v", v.Elem().Interface())
				}
			} else {
				s = fmt.Sprintf("%#v", v.Interface())
			}
		}
		fmt.Fprintf(&b, "|%s=%s", n, s)
	}
	return b.String()
}

func hook(point string, args ...interface{}) {
	if len(args) == 0 {
		return
	}
	ei, ok := envs.Load(args[0])
	if !ok {
		return
	}
	e := ei.(*env)
	e.mu.Lock()
	defer e.mu.Unlock()
	switch point {
	case "livesql.register":
		r, table, filter := args[1], args[2].(string), args[3].(sqlgen.Filter)
		e.nextRid++
		rid := e.nextRid
		e.rids[r] = rid
		key := filterKey(table, filter)
		for _, q := range e.queries {
			if q.key == key {
				e.ridQuery[rid] = q
				q.lastReg = rid
				q.runReg = rid
			}
		}
		e.trace = append(e.trace, tev{kind: "register", rid: rid, table: table, filter: filter})
	case "livesql.tracker.add":
		e.trace = append(e.trace, tev{kind: "add", rid: e.rids[args[1]]})
	case "livesql.tracker.remove":
		rid := e.rids[args[1]]
		e.removed[rid] = true
		e.trace = append(e.trace, tev{kind: "remove", rid: rid})
	case "livesql.tracker.process":
		info := livesql.VerifDescribeUpdate(args[1])
		vs := livesql.VerifVerdicts(args[0], args[1])
		t := tev{kind: "process", table: info.Table, obsErr: info.Err != nil, verdicts: map[int]bool{}}
		for r, v := range vs {
			rid := e.rids[r]
			t.verdicts[rid] = v
			if v {
				e.invalid[rid] = true
			}
		}
		if len(e.inflight) == 0 {
			e.broken = "tracker processed an update nobody delivered"
		} else {
			t.ev = e.inflight[0]
			e.inflight = e.inflight[1:]
			if t.ev.table != info.Table {
				e.broken = "processed update for " + info.Table + " but the next delivered event was for " + t.ev.table
			}
		}
		e.processed++
		e.trace = append(e.trace, t)
	}
}

// ---- generators ----

func sp(s string) *string { return &s }
func ip(i int64) *int64   { return &i }
func bp(b bool) *bool     { return &b }

func genUser(r *vh.Rng, id int64) *livesim.LUser {
	u := &livesim.LUser{Id: id, Owner: int32(1 + r.Intn(3)), Name: r.Pick([]string{"a", "b", ""}), Active: r.Bool(),
		Level: livesim.Level([]int{0, 1, 200}[r.Intn(3)]), Tag: r.Pick([]string{"", "t"}),
		Big: []uint64{0, 7, 3000000000}[r.Intn(3)]}
	switch r.Intn(3) {
	case 1:
		u.Nick = sp("x")
	case 2:
		u.Nick = sp("")
	}
	switch r.Intn(4) {
	case 1:
		u.Score = ip(0)
	case 2:
		u.Score = ip(5)
	case 3:
		u.Score = ip(-1)
	}
	switch r.Intn(3) {
	case 1:
		u.Blob = []byte{}
	case 2:
		u.Blob = []byte("z")
	}
	return u
}

var itemKeys = []string{"k1", "k2", "k3", "k4", "k5"}
var times = []time.Time{time.Date(2020, 1, 2, 3, 4, 5, 0, time.UTC), time.Date(1999, 12, 31, 23, 59, 59, 0, time.UTC)}

func genItem(r *vh.Rng, key string) *livesim.LItem {
	it := &livesim.LItem{Key: key, Qty: uint16([]int{0, 1, 40000}[r.Intn(3)]), Price: []float64{0, 1.5, -2}[r.Intn(3)],
		When: times[r.Intn(2)], Count: int32([]int{0, 3}[r.Intn(2)])}
	switch r.Intn(3) {
	case 1:
		t := livesim.Title("n")
		it.Note = &t
	case 2:
		t := livesim.Title("")
		it.Note = &t
	}
	switch r.Intn(3) {
	case 1:
		it.Flag = bp(true)
	case 2:
		it.Flag = bp(false)
	}
	switch r.Intn(3) {
	case 1:
		x := int8(-3)
		it.Small = &x
	case 2:
		x := int8(0)
		it.Small = &x
	}
	return it
}

// words that also occur in error-handling code paths: decode errors quote table, column and value
var errorWords = []string{"open", "closed", "EOF", "timeout", "context canceled", "sql: database is closed", "abc"}

func genOrder(r *vh.Rng, id int64) *livesim.LOrder {
	o := &livesim.LOrder{Id: id, State: r.Pick(errorWords), Timeout: int32([]int{0, 30}[r.Intn(2)])}
	switch r.Intn(3) {
	case 1:
		o.ClosedAt = ip(0)
	case 2:
		o.ClosedAt = ip(5)
	}
	o.Consent = []livesim.Consent{livesim.No, livesim.Yes, livesim.Unanswered, livesim.Unanswered}[r.Intn(4)]
	return o
}

// genFilter draws a filter over columns of the table from the same value domain as the rows.
func genFilter(r *vh.Rng, table string) sqlgen.Filter {
	f := sqlgen.Filter{}
	n := r.Intn(3)
	for i := 0; i < n; i++ {
		if table == "closed_orders" {
			o := genOrder(r, 1)
			switch r.Intn(6) {
			case 4:
				f["consent"] = o.Consent // Unanswered: consent IS NULL
			case 5:
				if r.Bool() {
					f["consent"] = nil
				} else {
					c := o.Consent
					f["consent"] = &c
				}
			case 0:
				f["state"] = o.State
			case 1:
				f["closed_at"] = o.ClosedAt
			case 2:
				f["timeout"] = o.Timeout
			case 3:
				f["id"] = int64(1 + r.Intn(4))
			}
		} else if table == "users" {
			u := genUser(r, 1)
			switch r.Intn(9) {
			case 0:
				f["owner"] = u.Owner
			case 1:
				f["name"] = u.Name
			case 2:
				if u.Nick == nil && r.Bool() {
					f["nick"] = nil
				} else {
					f["nick"] = u.Nick
				}
			case 3:
				f["score"] = u.Score
			case 4:
				f["tag"] = u.Tag
			case 5:
				f["active"] = u.Active
			case 6:
				f["level"] = u.Level
			case 7:
				f["big"] = u.Big
			case 8:
				if u.Nick != nil {
					f["nick"] = *u.Nick // non-pointer value on a pointer column
				} else {
					f["id"] = int64(1 + r.Intn(6))
				}
			}
		} else {
			it := genItem(r, "k1")
			switch r.Intn(8) {
			case 0:
				f["qty"] = it.Qty
			case 1:
				f["price"] = it.Price
			case 2:
				f["note"] = it.Note
			case 3:
				f["when"] = it.When
			case 4:
				f["flag"] = it.Flag
			case 5:
				f["count"] = it.Count
			case 6:
				f["small"] = it.Small
			case 7:
				f["key"] = itemKeys[r.Intn(len(itemKeys))]
			}
		}
	}
	return f
}

func printRow(tbl *sqlgen.Table, x interface{}) string {
	e := reflect.ValueOf(x).Elem()
	var xs []string
	for _, c := range tbl.Columns {
		f := e.FieldByIndex(c.Index)
		if f.Kind() == reflect.Ptr {
			if f.IsNil() {
				xs = append(xs, c.Name+"=nil")
				continue
			}
			xs = append(xs, fmt.Sprintf("%s=&%#v", c.Name, f.Elem().Interface()))
			continue
		}
		if t, ok := f.Interface().(time.Time); ok {
			xs = append(xs, c.Name+"="+t.UTC().Format(time.RFC3339Nano))
			continue
		}
		xs = append(xs, fmt.Sprintf("%s=%#v", c.Name, f.Interface()))
	}
	return "{" + strings.Join(xs, " ") + "}"
}

func selectRows(ctx context.Context, ldb *livesql.LiveDB, schema *sqlgen.Schema, table string, f sqlgen.Filter) ([]string, error) {
	tbl := schema.ByName[table]
	var out []string
	if table == "closed_orders" {
		var rows []*livesim.LOrder
		if err := ldb.Query(ctx, &rows, f, nil); err != nil {
			return nil, err
		}
		for _, x := range rows {
			out = append(out, printRow(tbl, x))
		}
	} else if table == "users" {
		var rows []*livesim.LUser
		if err := ldb.Query(ctx, &rows, f, nil); err != nil {
			return nil, err
		}
		for _, x := range rows {
			out = append(out, printRow(tbl, x))
		}
	} else {
		var rows []*livesim.LItem
		if err := ldb.Query(ctx, &rows, f, nil); err != nil {
			return nil, err
		}
		for _, x := range rows {
			out = append(out, printRow(tbl, x))
		}
	}
	sort.Strings(out)
	return out, nil
}

// ---- one history ----

type result struct {
	c        Case
	failures []vh.Failure
	hist     []string
	e        *env
	layouts  map[string]*livesim.MySQLOrder   // current version per table
	versions map[string][]*livesim.MySQLOrder // every version, for the model's tables
	key      string
	nontriv  bool
	sample   map[string]interface{}
}

func (res *result) fail(sig, detail string) {
	res.failures = append(res.failures, vh.Failure{Signature: sig, Detail: detail, Case: res.c})
}

func runCase(schema *sqlgen.Schema, c Case) (res *result) {
	res = &result{c: c, layouts: map[string]*livesim.MySQLOrder{}, versions: map[string][]*livesim.MySQLOrder{}}
	defer func() {
		if p := recover(); p != nil {
			res.fail("harness-panic", fmt.Sprint(p))
		}
	}()
	r := vh.NewRng(c.Seed)
	srv := fakesql.NewServer()
	defer srv.Close()
	for _, d := range livesim.Catalogue {
		m := livesim.Layout(r, d)
		res.layouts[d.Name] = m
		res.versions[d.Name] = []*livesim.MySQLOrder{m}
		m.Create(srv)
	}
	var layoutMu sync.Mutex
	fr := r.Fork() // the lookups happen on RunPollLoop's goroutine: their own generator
	var e *env
	blindPct := 5
	if c.Intense {
		blindPct = 12
	}
	if c.Preset != "" || c.Burst {
		blindPct = 0
	}
	conn := livesim.WrapDB(srv, func(table string) []string {
		layoutMu.Lock()
		defer layoutMu.Unlock()
		var cols []string
		if m := res.layouts[table]; m != nil {
			cols = m.ColumnNames()
		}
		// the source asked for the columns momentarily does not show the table (a lagging replica, a table being
		// renamed into place): the lookup comes back empty, RunPollLoop caches a column map that expects no columns
		// and every rows event of the table is undecodable until its next table id
		if cols != nil && fr.Chance(blindPct) {
			cols = nil
			if e != nil {
				e.blind[table] = true
			}
		}
		if e != nil {
			e.fetches = append(e.fetches, fetch{table: table, cols: cols})
		}
		return cols
	})
	defer conn.Close()
	db := sqlgen.NewDB(conn, schema)
	ldb := livesql.NewLiveDB(db)
	lg := &quietLogger{}
	vb := livesql.NewVerifBinlog(ldb, database, lg)
	layoutMu.Lock()
	e = &env{rids: map[interface{}]int{}, ridQuery: map[int]*liveQuery{}, invalid: map[int]bool{}, removed: map[int]bool{},
		running: map[int]*liveQuery{}, needMap: map[string]bool{"users": true, "items": true, "closed_orders": true},
		blind: map[string]bool{}}
	layoutMu.Unlock()
	// every SELECT issued from a live query's function: the dependency must already be registered
	srv.FailNext = func(kind, sql string) error {
		if kind != "query" || !strings.HasPrefix(strings.ToUpper(strings.TrimSpace(sql)), "SELECT") {
			return nil
		}
		g := goid()
		e.runMu.Lock()
		q := e.running[g]
		e.runMu.Unlock()
		if q != nil { // issued by a live query's function (never while the oracle holds e.mu)
			e.mu.Lock()
			e.trace = append(e.trace, tev{kind: "read", rid: q.runReg})
			if q.runReg == 0 {
				e.readEarly = append(e.readEarly, q.key)
			}
			e.mu.Unlock()
		}
		return nil
	}
	res.e = e
	envs.Store(ldb.VerifTracker(), e)
	defer envs.Delete(ldb.VerifTracker())
	loopDone := make(chan error, 1)
	go func() { loopDone <- vb.RunPollLoop() }()

	bg := context.Background()
	// initial contents (no events: the hook is installed afterwards)
	userIDs := map[int64]bool{}
	itemIDs := map[string]bool{}
	for i := 0; i < 1+r.Intn(4); i++ {
		id := int64(1 + r.Intn(6))
		if !userIDs[id] {
			userIDs[id] = true
			if _, err := ldb.InsertRow(bg, genUser(r, id)); err != nil {
				res.fail("harness-setup", err.Error())
				return
			}
		}
	}
	for i := 0; i < 1+r.Intn(3); i++ {
		k := itemKeys[r.Intn(len(itemKeys))]
		if !itemIDs[k] {
			itemIDs[k] = true
			if _, err := ldb.InsertRow(bg, genItem(r, k)); err != nil {
				res.fail("harness-setup", err.Error())
				return
			}
		}
	}

	for i := 0; i < r.Intn(3); i++ {
		if _, err := ldb.UpsertRow(bg, genOrder(r, int64(1+r.Intn(4)))); err != nil {
			res.fail("harness-setup", err.Error())
			return
		}
	}

	corruptPct := 12
	if c.Intense {
		corruptPct = 35
	}
	minimal := c.Preset == "undecodable-event-after-schema-change"
	if minimal { // one live query on all users, one upsert, the event carries one column more than the cached column map
		corruptPct = 100
	}
	curBatch, multiRow := 0, 0
	srv.OnCommit(func(table string, before, after []driver.Value) {
		layoutMu.Lock()
		m := res.layouts[table]
		layoutMu.Unlock()
		var b, a []interface{}
		if before != nil {
			b = m.BinlogRow(before)
		}
		if after != nil {
			a = m.BinlogRow(after)
		}
		p := &pushed{table: table, layout: m, batch: curBatch}
		switch {
		case b == nil:
			p.kind, p.rows = "write", [][]interface{}{a}
		case a == nil:
			p.kind, p.rows = "delete", [][]interface{}{b}
		default:
			p.kind, p.rows = "update", [][]interface{}{b, a}
		}
		e.mu.Lock()
		// row changes of one transaction on one table and of one kind travel in one rows event (MySQL packs the
		// rows a statement changes into as few events as fit)
		if n := len(e.pending); n > 0 && r.Chance(60) {
			last := e.pending[n-1]
			if !last.tableMap && !last.foreign && !last.unknown && last.table == table && last.kind == p.kind &&
				last.layout == m && last.undecodable == "" && last.batch == curBatch {
				last.rows = append(last.rows, p.rows...)
				last.what = fmt.Sprintf("%s %s (table id %d) %v", last.kind, table, m.TableID, last.rows)
				multiRow++
				e.mu.Unlock()
				return
			}
		}
		if r.Chance(corruptPct) {
			how := r.Intn(3)
			if minimal {
				how = 0
			}
			switch how {
			case 0: // the table gained a column the cached column map does not know
				for i := range p.rows {
					p.rows[i] = append(p.rows[i], int32(0))
				}
				p.undecodable = "column-count"
			case 1: // a column changed type: text where an integer is expected
				j := -1
				for k, cm := range m.Cols {
					if cm.Type == fakesql.Int && !strings.HasPrefix(cm.Name, "x_extra") && p.rows[len(p.rows)-1][k] != nil {
						j = k
					}
				}
				if j >= 0 {
					p.rows[len(p.rows)-1][j] = r.Pick(errorWords)
					p.undecodable = "type-mismatch"
				}
			case 2:
				if p.kind == "update" {
					p.rows = p.rows[:1]
					p.undecodable = "odd-update-rows"
				}
			}
		}
		p.what = fmt.Sprintf("%s %s (table id %d) %v", p.kind, table, m.TableID, p.rows)
		if e.needMap[table] || r.Chance(40) { // MySQL sends the table map before the rows events of a statement
			e.needMap[table] = false
			e.pending = append(e.pending, &pushed{table: table, tableMap: true, layout: m})
		}
		e.pending = append(e.pending, p)
		e.mu.Unlock()
	})

	deliver := func(n int) {
		e.mu.Lock()
		if n > len(e.pending) {
			n = len(e.pending)
		}
		batch := e.pending[:n]
		e.pending = e.pending[n:]
		for _, p := range batch {
			if !p.foreign && !p.tableMap && !p.unknown {
				e.inflight = append(e.inflight, p)
			}
			e.stream = append(e.stream, p)
		}
		e.mu.Unlock()
		for _, p := range batch {
			var ev *replication.BinlogEvent
			dbn := database
			if p.foreign {
				dbn = "otherdb"
			}
			id := uint64(1)
			if p.layout != nil {
				id = p.layout.TableID
			} else if p.forceID != 0 {
				id = p.forceID
			}
			p.sentDB, p.sentID = dbn, id
			switch {
			case p.tableMap:
				n := 1
				if p.layout != nil {
					n = len(p.layout.Cols)
				}
				ev = livesim.TableMapEvent(dbn, p.table, id, n)
			case p.kind == "write":
				ev = livesim.RowsEvent(dbn, p.table, id, nil, p.rows[0])
				ev.Event.(*replication.RowsEvent).Rows = p.rows // one image per inserted row
			case p.kind == "delete":
				ev = livesim.RowsEvent(dbn, p.table, id, p.rows[0], nil)
				ev.Event.(*replication.RowsEvent).Rows = p.rows // one image per deleted row
			default:
				ev = livesim.RowsEvent(dbn, p.table, id, p.rows[0], p.rows[0])
				ev.Event.(*replication.RowsEvent).Rows = p.rows
			}
			vb.Events <- ev
		}
	}

	// live queries
	nq := 1 + r.Intn(3)
	if c.Intense {
		nq = 2 + r.Intn(4)
	}
	if minimal {
		nq = 1
	}
	keys := map[string]bool{}
	var rerunners []*reactive.Rerunner
	for i := 0; i < nq; i++ {
		table := "users"
		if k := r.Intn(100); k < 30 {
			table = "items"
		} else if k < 50 {
			table = "closed_orders"
		}
		f := genFilter(r, table)
		if minimal {
			table, f = "users", sqlgen.Filter{}
		}
		k := filterKey(table, f)
		if keys[k] {
			continue
		}
		keys[k] = true
		q := &liveQuery{id: len(e.queries), table: table, filter: f, key: k}
		e.mu.Lock()
		e.queries = append(e.queries, q)
		e.mu.Unlock()
	}
	for _, q := range e.queries {
		q := q
		rr := reactive.NewRerunner(bg, func(ctx context.Context) (interface{}, error) {
			g := goid()
			e.mu.Lock()
			q.runReg = 0
			e.mu.Unlock()
			e.runMu.Lock()
			e.running[g] = q
			e.runMu.Unlock()
			rows, err := selectRows(ctx, ldb, schema, q.table, q.filter)
			e.runMu.Lock()
			delete(e.running, g)
			e.runMu.Unlock()
			e.mu.Lock()
			q.held, q.err = rows, err
			q.runs++
			q.doneRid = q.lastReg
			e.mu.Unlock()
			return nil, nil
		}, time.Millisecond, false)
		rerunners = append(rerunners, rr)
		if r.Chance(50) {
			time.Sleep(time.Duration(r.Intn(1500)) * time.Microsecond)
		}
	}
	defer func() {
		for _, rr := range rerunners {
			rr.Stop()
		}
	}()

	if c.Burst {
		vb.SetUpdateDelay(400 * time.Millisecond)
		for i := 0; i < 1100; i++ {
			curBatch++ // every upsert is its own statement: one rows event each
			var err error
			if r.Chance(60) {
				_, err = ldb.UpsertRow(bg, genUser(r, int64(1+r.Intn(6))))
			} else {
				_, err = ldb.UpsertRow(bg, genItem(r, itemKeys[r.Intn(len(itemKeys))]))
			}
			if err != nil {
				res.fail("harness-write-failed", err.Error())
				return
			}
		}
		deliver(1 << 20)
		time.Sleep(30 * time.Millisecond)
		vb.SetUpdateDelay(0)
		res.hist = append(res.hist, "burst:1100-events-against-a-held-applier")
		userIDs, itemIDs = map[int64]bool{}, map[string]bool{}
		for _, row := range srv.Rows("users") {
			userIDs[row[0].(int64)] = true // id and key are the first struct columns
		}
		for _, row := range srv.Rows("items") {
			itemIDs[row[0].(string)] = true
		}
	}

	// write history
	nops := 3 + r.Intn(8)
	if c.Intense {
		nops = 6 + r.Intn(14)
	}
	if minimal {
		nops = 1
		for _, q := range e.queries { // let the live query finish its first run
			for i := 0; i < 2000; i++ {
				e.mu.Lock()
				done := q.runs > 0
				e.mu.Unlock()
				if done {
					break
				}
				time.Sleep(time.Millisecond)
			}
		}
	}
	var opsDesc []string
	for i := 0; i < nops; i++ {
		curBatch++
		ctx := bg
		inTx := r.Chance(20)
		var commit func() error
		if inTx {
			txctx, tx, err := ldb.WithTx(bg)
			if err == nil {
				ctx = txctx
				commit = tx.Commit
				if r.Chance(15) {
					commit = tx.Rollback
				}
			}
		}
		nin := 1
		if commit != nil {
			nin = 1 + r.Intn(4)
		}
		for k := 0; k < nin; k++ {
			var err error
			var what string
			if r.Chance(65) || minimal {
				id := int64(1 + r.Intn(6))
				u := genUser(r, id)
				switch op := r.Intn(4); {
				case op == 0 && !userIDs[id] && commit == nil:
					_, err = ldb.InsertRow(ctx, u)
					what = "insert"
				case op == 1 && userIDs[id]:
					err = ldb.DeleteRow(ctx, u)
					what = "delete"
				case op == 2 && userIDs[id]:
					err = ldb.UpdateRow(ctx, u)
					what = "update"
				default:
					_, err = ldb.UpsertRow(ctx, u)
					what = "upsert"
				}
				opsDesc = append(opsDesc, fmt.Sprintf("%s users %d", what, id))
			} else if r.Chance(40) {
				id := int64(1 + r.Intn(4))
				o := genOrder(r, id)
				if r.Chance(25) {
					err = ldb.DeleteRow(ctx, o) // of a missing row: no change, no event
					what = "delete"
				} else {
					_, err = ldb.UpsertRow(ctx, o)
					what = "upsert"
				}
				opsDesc = append(opsDesc, fmt.Sprintf("%s closed_orders %d", what, id))
			} else {
				k := itemKeys[r.Intn(len(itemKeys))]
				it := genItem(r, k)
				switch op := r.Intn(4); {
				case op == 0 && !itemIDs[k] && commit == nil:
					_, err = ldb.InsertRow(ctx, it)
					what = "insert"
				case op == 1 && itemIDs[k]:
					err = ldb.DeleteRow(ctx, it)
					what = "delete"
				case op == 2 && itemIDs[k]:
					err = ldb.UpdateRow(ctx, it)
					what = "update"
				default:
					_, err = ldb.UpsertRow(ctx, it)
					what = "upsert"
				}
				opsDesc = append(opsDesc, fmt.Sprintf("%s items %s", what, k))
			}
			res.hist = append(res.hist, "op:"+what)
			if err != nil {
				res.fail("harness-write-failed", err.Error())
				return
			}
		}
		if commit != nil {
			if err := commit(); err != nil {
				res.fail("harness-commit-failed", err.Error())
				return
			}
			res.hist = append(res.hist, "op:transaction")
		}
		// refresh the id sets from the server
		userIDs, itemIDs = map[int64]bool{}, map[string]bool{}
		for _, row := range srv.Rows("users") {
			for j, cm := range livesim.Def("users").Cols {
				if cm.Name == "id" {
					userIDs[row[j].(int64)] = true
				}
			}
		}
		for _, row := range srv.Rows("items") {
			for j, cm := range livesim.Def("items").Cols {
				if cm.Name == "key" {
					itemIDs[row[j].(string)] = true
				}
			}
		}
		alterPct := 12
		if c.Intense {
			alterPct = 25
		}
		if !minimal && commit == nil && r.Chance(alterPct) {
			// ALTER TABLE.  The binlog is drained first: livesql reads information_schema when it meets the first
			// rows event after a new table id, and documents that a schema read "too new" for events still in
			// flight is a race it does not handle.
			deliver(1 << 20)
			for i := 0; i < 4000; i++ {
				e.mu.Lock()
				n := len(e.inflight)
				e.mu.Unlock()
				if n == 0 {
					break
				}
				time.Sleep(500 * time.Microsecond)
			}
			table := "users"
			if k := r.Intn(100); k < 30 {
				table = "items"
			} else if k < 50 {
				table = "closed_orders"
			}
			layoutMu.Lock()
			nm, kind := res.layouts[table].Alter(r)
			res.layouts[table] = nm
			res.versions[table] = append(res.versions[table], nm)
			layoutMu.Unlock()
			e.mu.Lock()
			e.needMap[table] = true
			e.mu.Unlock()
			res.hist = append(res.hist, "alter:"+kind)
			opsDesc = append(opsDesc, fmt.Sprintf("alter %s %s -> %v", table, kind, nm.ColumnNames()))
		}
		if r.Chance(10) { // an event of another database: ignored by RunPollLoop
			e.mu.Lock()
			if r.Chance(30) {
				e.pending = append(e.pending, &pushed{table: "users", tableMap: true, foreign: true, forceID: 4242})
			}
			e.pending = append(e.pending, &pushed{table: "users", kind: "write", rows: [][]interface{}{{int64(1)}}, foreign: true})
			e.mu.Unlock()
		}
		if r.Chance(8) { // a table of our database that is not registered with sqlgen: skipped, no column lookup
			e.mu.Lock()
			if r.Bool() {
				e.pending = append(e.pending, &pushed{table: "audit_log", tableMap: true, unknown: true})
			}
			e.pending = append(e.pending, &pushed{table: "audit_log", kind: []string{"write", "delete"}[r.Intn(2)], rows: [][]interface{}{{int64(7), "x"}}, unknown: true})
			e.mu.Unlock()
		}
		// a table whose column lookup came back empty is reopened (new table id) once the binlog is drained, so that
		// its events become decodable again
		layoutMu.Lock()
		var blindTables []string
		for t := range e.blind {
			blindTables = append(blindTables, t)
		}
		sort.Strings(blindTables)
		layoutMu.Unlock()
		if len(blindTables) > 0 && commit == nil && r.Chance(50) {
			deliver(1 << 20)
			for i := 0; i < 4000; i++ {
				e.mu.Lock()
				n := len(e.inflight)
				e.mu.Unlock()
				if n == 0 {
					break
				}
				time.Sleep(500 * time.Microsecond)
			}
			layoutMu.Lock()
			for _, t := range blindTables {
				nm := res.layouts[t].Reopen()
				res.layouts[t] = nm
				res.versions[t] = append(res.versions[t], nm)
				delete(e.blind, t)
			}
			layoutMu.Unlock()
			e.mu.Lock()
			for _, t := range blindTables {
				e.needMap[t] = true
			}
			e.mu.Unlock()
			res.hist = append(res.hist, "alter:reopen-after-empty-lookup")
		}
		hold := 4
		if c.Intense {
			hold = 8 // events stay undelivered across more operations
		}
		switch k := r.Intn(hold); {
		case k == 0 || k >= 4:
		case k == 1:
			deliver(1)
		default:
			deliver(1 << 20)
		}
		if r.Chance(40) {
			time.Sleep(time.Duration(r.Intn(2000)) * time.Microsecond)
		}
	}
	deliver(1 << 20)

	// quiescence: every delivered event has reached the tracker, and every live query's current
	// registration is the one its latest completed run made and has not been invalidated
	deadline := time.Now().Add(4 * time.Second)
	stallLimit := 250 * time.Millisecond
	if c.Burst { // the applier is held for 400ms and then has 1100 updates to work through
		deadline = time.Now().Add(10 * time.Second)
		stallLimit = 1500 * time.Millisecond
	}
	stalledSince := time.Time{}
	lastProcessed := -1
	for {
		e.mu.Lock()
		if e.processed != lastProcessed { // progress at the tracker: not stalled
			lastProcessed = e.processed
			stalledSince = time.Time{}
		}
		allProcessed := len(e.inflight) == 0
		settled := true
		for _, q := range e.queries {
			if q.runs == 0 || q.doneRid != q.lastReg || e.invalid[q.lastReg] {
				settled = false
			}
		}
		e.mu.Unlock()
		if allProcessed && settled {
			break
		}
		if !allProcessed && settled {
			// events stuck in flight: dropped by RunPollLoop (the defect F20) or still on their way
			if stalledSince.IsZero() {
				stalledSince = time.Now()
			} else if time.Since(stalledSince) > stallLimit {
				break
			}
		} else {
			stalledSince = time.Time{}
		}
		if time.Now().After(deadline) {
			res.fail("no-quiescence", "live queries did not settle in time")
			break
		}
		time.Sleep(500 * time.Microsecond)
	}
	time.Sleep(2 * time.Millisecond)

	// oracle
	e.mu.Lock()
	defer e.mu.Unlock()
	undecodable := 0
	for _, p := range e.inflight {
		if p.undecodable != "" {
			res.fail("undecodable-event-dropped", fmt.Sprintf("a %s event on %s never reached the tracker (logged: %v)", p.undecodable, p.table, lg.errs))
		} else {
			res.fail("event-never-processed", p.what)
		}
	}
	for _, t := range e.trace {
		if t.kind == "process" && t.ev != nil && t.ev.undecodable != "" {
			undecodable++
			if !t.obsErr {
				res.fail("undecodable-event-decoded", t.ev.what)
			}
			for rid, v := range t.verdicts {
				if q := e.ridQuery[rid]; q != nil && q.table == t.table && !v {
					res.fail("undecodable-event-does-not-invalidate", fmt.Sprintf("live query %s kept after %s", q.key, t.ev.what))
				}
			}
		}
	}
	for _, k := range e.readEarly {
		res.fail("select-before-dependency-registered", "live query "+k+" ran its SELECT before its dependency was in the tracker")
	}
	if e.broken != "" && len(res.failures) == 0 {
		res.fail("trace-pairing-broken", e.broken)
	}
	for _, q := range e.queries {
		if q.err != nil {
			res.fail("live-query-error", q.err.Error())
			continue
		}
		want, err := selectRows(bg, ldb, schema, q.table, q.filter)
		if err != nil {
			res.fail("harness-select-failed", err.Error())
			continue
		}
		if strings.Join(want, "\n") != strings.Join(q.held, "\n") {
			sig := "live-query-stale"
			res.fail(sig, fmt.Sprintf("live query %s holds %v, the table now gives %v; history %v; pending undecodable events in this run: %d", q.key, q.held, want, opsDesc, undecodable))
		}
	}
	nproc := 0
	for _, t := range e.trace {
		if t.kind == "process" {
			nproc++
			res.hist = append(res.hist, "event:"+t.ev.kind)
			if t.ev.undecodable != "" {
				res.hist = append(res.hist, "event:undecodable:"+t.ev.undecodable)
			}
			inv := false
			for _, v := range t.verdicts {
				inv = inv || v
			}
			if inv {
				res.hist = append(res.hist, "event:invalidates-some-query")
				res.nontriv = true
			}
		}
	}
	res.hist = append(res.hist, fmt.Sprintf("queries:%d", len(e.queries)))
	if multiRow > 0 {
		res.hist = append(res.hist, "event:multi-row")
	}
	res.key = fmt.Sprint(c.Seed)
	res.sample = map[string]interface{}{"queries": func() []string {
		var ks []string
		for _, q := range e.queries {
			ks = append(ks, q.key)
		}
		return ks
	}(), "history": opsDesc, "events_processed": nproc}

	vb.Stop()
	select {
	case <-loopDone:
	case <-time.After(time.Second):
		res.fail("poll-loop-did-not-stop", "")
	}
	return res
}

func main() {
	o := vh.ParseFlags()
	run := vh.NewRun("C07", o)
	run.Rule = "one case = one history: 2 tables (MySQL column order permuted, sometimes an extra column), 1-3 live queries with filters over 0-2 columns (NULL, pointer, implicitnull, bool, named, unsigned, float, time values), 3-10 write operations (insert/update/delete/upsert, 20% in transactions of 1-3 statements, some rolled back), events delivered immediately / one at a time / held back, 12% of events made undecodable (column count, type mismatch, odd update rows), events of another database; non-trivial = at least one delivered event invalidated a live query; distinct by seed"
	reactive.WriteThenReadDelay = 0
	verifhook.Set(hook)
	schema := livesim.NewSchema()
	r := vh.NewRng(o.Seed)

	var cases []Case
	searching := o.Search != ""
	if searching {
		// failing-input search: a history is determined by its seed, so the variants of a disagreeing history
		// are fresh histories drawn with the intense settings (its own seed first, then neighbours)
		if b, err := ioutil.ReadFile(o.Search); err == nil {
			for _, line := range strings.Split(string(b), "\n") {
				var w struct {
					Case Case `json:"case"`
				}
				if strings.TrimSpace(line) != "" && json.Unmarshal([]byte(line), &w) == nil && len(cases) < o.N {
					w.Case.Intense, w.Case.Origin = true, "search-seed"
					cases = append(cases, w.Case)
				}
			}
		}
		for len(cases) < o.N {
			cases = append(cases, Case{Seed: r.U64(), Intense: true, Burst: r.Chance(3), Origin: "search"})
		}
	} else if o.Replay != "" {
		var c Case
		if vh.ReadReplayCase(o.Replay, &c) {
			c.Origin = "replay"
			cases = append(cases, c)
		}
	} else {
		for _, f := range vh.CorpusFiles(o.Corpus) {
			var c Case
			if vh.ReadReplayCase(f, &c) {
				c.Origin = "corpus:" + filepath.Base(f)
				cases = append(cases, c)
			}
		}
		for i := 0; i < o.N; i++ {
			cases = append(cases, Case{Seed: r.U64(), Burst: i%125 == 62, Origin: "generated"}) // 4 bursts per 500 histories
		}
	}

	results := make([]*result, len(cases))
	var wg sync.WaitGroup
	sem := make(chan struct{}, 6)
	for i, c := range cases {
		run.LogCase(i, c)
		wg.Add(1)
		sem <- struct{}{}
		go func(i int, c Case) {
			defer wg.Done()
			defer func() { <-sem }()
			results[i] = runCase(schema, c)
		}(i, c)
	}
	wg.Wait()

	g := livesim.NewTerms()
	var terms []string
	if searching {
		for i, res := range results {
			for _, f := range res.failures {
				run.Fail(i, f.Signature, f.Detail, f.Case)
			}
			run.Count(res.key, res.nontriv)
		}
		run.Finish()
		return
	}
	for i, res := range results {
		for _, f := range res.failures {
			run.Fail(i, f.Signature, f.Detail, f.Case)
		}
		for _, h := range res.hist {
			run.Hist(h)
		}
		run.Count(res.key, res.nontriv)
		if res.nontriv && res.sample != nil {
			run.Sample(res.sample)
		}
		if res.e != nil && res.e.broken == "" {
			terms = append(terms, fmt.Sprintf("(%d%%nat, %s)", i, caseTerm(g, schema, res)))
		}
	}
	const shard = 100
	for start := 0; start < len(terms); start += shard {
		end := start + shard
		if end > len(terms) {
			end = len(terms)
		}
		run.WriteCasesV(fmt.Sprintf("cases_%d.v", start), []string{"Sql.Codec", "Sql.Live", "Sql.LiveCt"},
			g.Prelude()+"Definition mm (_ : nat) cs := live_mismatches_ct PT cs.\n", "mm", 0, terms[start:end])
	}
	run.Finish()
}

// ---- Coq term of one trace ----

func caseTerm(g *livesim.Terms, schema *sqlgen.Schema, res *result) string {
	var tabs []string
	for _, d := range livesim.Catalogue {
		tabs = append(tabs, fmt.Sprintf("(%s, %s)", vh.CoqString(d.Name), livesim.TableTerm(schema.ByName[d.Name])))
	}
	// the event stream as pushed into the syncer's channel
	var stream []string
	for _, p := range res.e.stream {
		switch {
		case p.tableMap:
			stream = append(stream, fmt.Sprintf("PTableMap %s %s %s", vh.CoqString(p.sentDB), vh.CoqString(p.table), vh.CoqZ(int64(p.sentID))))
		default:
			var rows []string
			for _, row := range p.rows {
				rows = append(rows, g.Srcs(row))
			}
			kind := map[string]string{"write": "EWrite", "update": "EUpdate", "delete": "EDelete"}[p.kind]
			stream = append(stream, fmt.Sprintf("PRows %s %s %s %s", vh.CoqString(p.sentDB), vh.CoqString(p.table), kind, vh.CoqList(rows)))
		}
	}
	// the information_schema lookups RunPollLoop made, with the answers it got
	var answers []string
	for _, f := range res.e.fetches {
		var cols []string
		for _, c := range f.cols {
			cols = append(cols, vh.CoqString(c))
		}
		answers = append(answers, fmt.Sprintf("(%s, %s)", vh.CoqString(f.table), vh.CoqList(cols)))
	}
	regs := map[int]tev{}
	var evs []string
	for _, t := range res.e.trace {
		switch t.kind {
		case "register":
			regs[t.rid] = t
		case "add":
			rg := regs[t.rid]
			evs = append(evs, fmt.Sprintf("TAdd %d%%nat %s %s", t.rid, vh.CoqString(rg.table), g.Filter(rg.filter)))
		case "remove":
			evs = append(evs, fmt.Sprintf("TRemove %d%%nat", t.rid))
		case "read":
			evs = append(evs, fmt.Sprintf("TRead %d%%nat", t.rid))
		case "process":
			var rids []int
			for rid := range t.verdicts {
				rids = append(rids, rid)
			}
			sort.Ints(rids)
			var vs []string
			for _, rid := range rids {
				vs = append(vs, fmt.Sprintf("(%d%%nat, %s)", rid, vh.CoqBool(t.verdicts[rid])))
			}
			evs = append(evs, fmt.Sprintf("TProcess %s %s %s", vh.CoqString(t.table), vh.CoqBool(t.obsErr), vh.CoqList(vs)))
		}
	}
	return fmt.Sprintf("mk_lcase %s %s\n %s\n %s\n %s", vh.CoqString(database), vh.CoqList(tabs), vh.CoqList(stream), vh.CoqList(answers), vh.CoqList(evs))
}
