package main

import (
	"errors"
	"fmt"
	"reflect"
	"strings"
	"time"

	"verifharness/pkg/vh"
)

// ---- static catalogue: what reflect.StructOf cannot make (named types) ----

type MyBool bool
type MyInt8 int8
type MyInt32 int32
type MyInt64 int64
type MyUint16 uint16
type MyUint64 uint64
type MyFloat32 float32
type MyFloat64 float64
type MyString string

// Blob is a *named* byte slice: not an entry of scalarArgParsers, so the builder treats it as a list of uint8.
type Blob []byte

type Color int32
type Mode string
type Level uint8

// Shade and Unit are enums registered with aliases: several names for one value, at the start, in the middle and at the
// end of the alphabet (every registered name must be accepted and arrive as the shared value).
type Shade int32
type Unit string

// TU is the catalogue's encoding.TextUnmarshaler: accepts "tu:"+x and stores x.
type TU struct{ S string }

func (t *TU) UnmarshalText(b []byte) error {
	s := string(b)
	if !strings.HasPrefix(s, "tu:") {
		return errors.New("TU: missing prefix")
	}
	t.S = s[3:]
	return nil
}

type Inner struct {
	N int32   `graphql:"n"`
	S *string `graphql:"s"`
	L []int64 `graphql:"l,optional"`
}

type Pair struct {
	K string
	V *Inner
	C Color `graphql:",optional"`
}

type Deep struct {
	P  Pair
	Ps []Pair    `graphql:"ps,optional"`
	Q  *Pair     `graphql:"q"`
	T  time.Time `graphql:"t,optional"`
	B  []byte
}

type Misc struct {
	U8  uint8
	U   uint
	I   int
	F32 float32
	E   Mode
	X   TU
	XP  *TU
	LL  [][]int16
	LP  []*MyInt32
	OB  bool `graphql:"ob,optional"`
}

type Opts struct {
	A *int16     `graphql:"a,optional"`
	B MyString   `graphql:"b,optional"`
	C []*Inner   `graphql:"c,optional"`
	D *time.Time `graphql:"d"`
	E *Level     `graphql:"e"`
	F float64    `graphql:"f,optional"`
	G *[]byte    `graphql:"g"`
	H Inner      `graphql:"h,optional"`
}

// Palette: aliased enums as plain, optional and pointer members, in lists and in a nested input object.
type Palette struct {
	Main   Shade    `graphql:"main"`
	Others []Shade  `graphql:"others,optional"`
	U      *Unit    `graphql:"u"`
	Us     []*Unit  `graphql:"us,optional"`
	In     *Swatch  `graphql:"in"`
	Ins    []Swatch `graphql:"ins,optional"`
}
type Swatch struct {
	S Shade `graphql:"s,optional"`
	U Unit  `graphql:"u"`
}

// Tree is a self-referencing input object (the builder's typeCache closes the cycle).
type Tree struct {
	V    int32  `graphql:"v"`
	Kids []Tree `graphql:"kids,optional"`
	Next *Tree  `graphql:"next"`
}

// Item is what the paginated field p lists.
type Item struct {
	Id int64 `graphql:"id,key"`
}

type enumInfo struct {
	rt    reflect.Type
	names []string      // sorted
	vals  []interface{} // parallel
	mp    interface{}   // map[string]T for schema.Enum
	zero  interface{}
}

var enums = []*enumInfo{
	{rt: reflect.TypeOf(Color(0)), names: []string{"BLUE", "GREEN", "RED"}, vals: []interface{}{Color(7), Color(2), Color(1)},
		mp: map[string]Color{"RED": 1, "GREEN": 2, "BLUE": 7}, zero: Color(0)},
	{rt: reflect.TypeOf(Mode("")), names: []string{"FAST", "SLOW"}, vals: []interface{}{Mode("f"), Mode("s")},
		mp: map[string]Mode{"FAST": "f", "SLOW": "s"}, zero: Mode("")},
	{rt: reflect.TypeOf(Level(0)), names: []string{"HIGH", "LOW"}, vals: []interface{}{Level(255), Level(0)},
		mp: map[string]Level{"LOW": 0, "HIGH": 255}, zero: Level(0)},
	{rt: reflect.TypeOf(Shade(0)), names: []string{"AAA_DARK", "BLACK", "GRAY", "GREY", "SLATE", "WHITE", "ZINC_WHITE"},
		vals: []interface{}{Shade(0), Shade(0), Shade(1), Shade(1), Shade(1), Shade(2), Shade(2)},
		mp:   map[string]Shade{"AAA_DARK": 0, "BLACK": 0, "GRAY": 1, "GREY": 1, "SLATE": 1, "WHITE": 2, "ZINC_WHITE": 2}, zero: Shade(0)},
	{rt: reflect.TypeOf(Unit("")), names: []string{"K", "KB", "KIB", "M", "MB"},
		vals: []interface{}{Unit("k"), Unit("k"), Unit("k"), Unit("m"), Unit("m")},
		mp:   map[string]Unit{"K": "k", "KB": "k", "KIB": "k", "M": "m", "MB": "m"}, zero: Unit("")},
}

func enumOf(rt reflect.Type) *enumInfo {
	for _, e := range enums {
		if e.rt == rt {
			return e
		}
	}
	return nil
}

var scalarTypes = map[string]reflect.Type{
	"bool": reflect.TypeOf(false), "int8": reflect.TypeOf(int8(0)), "int16": reflect.TypeOf(int16(0)),
	"int32": reflect.TypeOf(int32(0)), "int64": reflect.TypeOf(int64(0)), "int": reflect.TypeOf(int(0)),
	"uint8": reflect.TypeOf(uint8(0)), "uint16": reflect.TypeOf(uint16(0)), "uint32": reflect.TypeOf(uint32(0)),
	"uint64": reflect.TypeOf(uint64(0)), "uint": reflect.TypeOf(uint(0)),
	"float32": reflect.TypeOf(float32(0)), "float64": reflect.TypeOf(float64(0)), "string": reflect.TypeOf(""),
	"bytes": reflect.TypeOf([]byte{}), "time": reflect.TypeOf(time.Time{}),
	"MyBool": reflect.TypeOf(MyBool(false)), "MyInt8": reflect.TypeOf(MyInt8(0)), "MyInt32": reflect.TypeOf(MyInt32(0)),
	"MyInt64": reflect.TypeOf(MyInt64(0)), "MyUint16": reflect.TypeOf(MyUint16(0)), "MyUint64": reflect.TypeOf(MyUint64(0)),
	"MyFloat32": reflect.TypeOf(MyFloat32(0)), "MyFloat64": reflect.TypeOf(MyFloat64(0)), "MyString": reflect.TypeOf(MyString("")),
	"Color": reflect.TypeOf(Color(0)), "Mode": reflect.TypeOf(Mode("")), "Level": reflect.TypeOf(Level(0)),
	"TU": reflect.TypeOf(TU{}), "Blob": reflect.TypeOf(Blob{}),
	"Shade": reflect.TypeOf(Shade(0)), "Unit": reflect.TypeOf(Unit("")),
}

var scalarNames = []string{"bool", "int8", "int16", "int32", "int64", "int", "uint8", "uint16", "uint32", "uint64", "uint",
	"float32", "float64", "string", "bytes", "time", "MyBool", "MyInt8", "MyInt32", "MyInt64", "MyUint16", "MyUint64",
	"MyFloat32", "MyFloat64", "MyString", "Color", "Mode", "Level", "TU", "Blob", "Shade", "Unit", "Shade", "Unit"}

var namedStructs = map[string]reflect.Type{
	"Inner": reflect.TypeOf(Inner{}), "Pair": reflect.TypeOf(Pair{}), "Deep": reflect.TypeOf(Deep{}),
	"Misc": reflect.TypeOf(Misc{}), "Opts": reflect.TypeOf(Opts{}), "Tree": reflect.TypeOf(Tree{}),
	"Hidden": reflect.TypeOf(Hidden{}), "Dashed": reflect.TypeOf(Dashed{}), "DashedDup": reflect.TypeOf(DashedDup{}),
	"Neighbours": reflect.TypeOf(Neighbours{}), "Palette": reflect.TypeOf(Palette{}), "Swatch": reflect.TypeOf(Swatch{}),
}
var namedStructNames = []string{"Inner", "Pair", "Deep", "Misc", "Opts", "Tree", "Hidden", "Dashed", "DashedDup", "Neighbours", "Palette", "Swatch"}

// ---- type descriptions (serialisable: replay files rebuild the reflect.Type from them) ----

type TyDesc struct {
	K      string      `json:"k"` // scalar | named | ptr | list | struct (top level; nested only in build cases) | raw (a kind without parser) | cat (build catalogue)
	Name   string      `json:"name,omitempty"`
	Elem   *TyDesc     `json:"elem,omitempty"`
	Fields []FieldDesc `json:"fields,omitempty"`
}
type FieldDesc struct {
	Name string  `json:"name"` // graphql name (lower-case first letter); Go name is the capitalised form
	Opt  bool    `json:"opt,omitempty"`
	Tag  *string `json:"tag,omitempty"` // when set: the raw text of the graphql tag (build cases)
	T    *TyDesc `json:"t"`
}

func (d *TyDesc) reflectType() reflect.Type {
	switch d.K {
	case "scalar":
		t, ok := scalarTypes[d.Name]
		if !ok {
			panic("unknown scalar " + d.Name)
		}
		return t
	case "named":
		t, ok := namedStructs[d.Name]
		if !ok {
			panic("unknown struct " + d.Name)
		}
		return t
	case "raw":
		t, ok := rawKinds[d.Name]
		if !ok {
			panic("unknown raw kind " + d.Name)
		}
		return t
	case "cat":
		t, ok := buildCatalogue[d.Name]
		if !ok {
			panic("unknown catalogue struct " + d.Name)
		}
		return t
	case "ptr":
		return reflect.PtrTo(d.Elem.reflectType())
	case "list":
		return reflect.SliceOf(d.Elem.reflectType())
	case "struct":
		var fs []reflect.StructField
		for _, f := range d.Fields {
			tag := f.Name
			if f.Opt {
				tag += ",optional"
			}
			if f.Tag != nil {
				tag = *f.Tag
			}
			fs = append(fs, reflect.StructField{Name: strings.ToUpper(f.Name[:1]) + f.Name[1:], Type: f.T.reflectType(),
				Tag: reflect.StructTag(`graphql:"` + tag + `"`)})
		}
		return reflect.StructOf(fs)
	}
	panic("bad TyDesc kind " + d.K)
}

func genScalarDesc(r *vh.Rng) *TyDesc { return &TyDesc{K: "scalar", Name: r.Pick(scalarNames)} }

func genNonPtr(r *vh.Rng, depth int) *TyDesc {
	switch k := r.Intn(100); {
	case k < 60 || depth <= 0:
		return genScalarDesc(r)
	case k < 80:
		return &TyDesc{K: "named", Name: r.Pick(namedStructNames)}
	default:
		return &TyDesc{K: "list", Elem: genElem(r, depth-1)}
	}
}

// genElem: anything makeArgParser accepts (pointer allowed at the top only).
func genElem(r *vh.Rng, depth int) *TyDesc {
	if r.Chance(25) {
		return &TyDesc{K: "ptr", Elem: genNonPtr(r, depth)}
	}
	return genNonPtr(r, depth)
}

func genTop(r *vh.Rng) *TyDesc {
	n := 1 + r.Intn(4)
	d := &TyDesc{K: "struct"}
	for i := 0; i < n; i++ {
		d.Fields = append(d.Fields, FieldDesc{Name: fmt.Sprintf("a%d", i), Opt: r.Chance(25), T: genElem(r, 2)})
	}
	return d
}

// ---- model types: read back from the reflect.Type the builder is given ----

type MTy struct {
	K      string // bool int f32 f64 string bytes time enum text ptr opt list struct
	IK     string // I8 ... UInt
	Enum   *enumInfo
	Elem   *MTy
	Fields []MField
	RT     reflect.Type
	Cut    bool // recursive struct type beyond the unfolding depth: never holds a value (generators stop above it)
}
type MField struct {
	Name  string
	Index int
	T     *MTy
}

var tuType = reflect.TypeOf(TU{})
var timeType = reflect.TypeOf(time.Time{})
var bytesType = reflect.TypeOf([]byte{})

func lowerFirst(s string) string { return strings.ToLower(s[:1]) + s[1:] }

// recursion depth to which a self-referencing struct type is unfolded into the (finite) model type
const unfoldDepth = 3

func mtyOf(rt reflect.Type) *MTy { return mtyOfD(rt, map[reflect.Type]int{}) }

func mtyOfD(rt reflect.Type, seen map[reflect.Type]int) *MTy {
	if e := enumOf(rt); e != nil {
		return &MTy{K: "enum", Enum: e, RT: rt}
	}
	switch rt {
	case tuType:
		return &MTy{K: "text", RT: rt}
	case timeType:
		return &MTy{K: "time", RT: rt}
	case bytesType:
		return &MTy{K: "bytes", RT: rt}
	}
	ik := map[reflect.Kind]string{reflect.Int8: "I8", reflect.Int16: "I16", reflect.Int32: "I32", reflect.Int64: "I64", reflect.Int: "IInt",
		reflect.Uint8: "U8", reflect.Uint16: "U16", reflect.Uint32: "U32", reflect.Uint64: "U64", reflect.Uint: "UInt"}
	switch rt.Kind() {
	case reflect.Bool:
		return &MTy{K: "bool", RT: rt}
	case reflect.Float32:
		return &MTy{K: "f32", RT: rt}
	case reflect.Float64:
		return &MTy{K: "f64", RT: rt}
	case reflect.String:
		return &MTy{K: "string", RT: rt}
	case reflect.Ptr:
		return &MTy{K: "ptr", Elem: mtyOfD(rt.Elem(), seen), RT: rt}
	case reflect.Slice:
		return &MTy{K: "list", Elem: mtyOfD(rt.Elem(), seen), RT: rt}
	case reflect.Struct:
		m := &MTy{K: "struct", RT: rt}
		if rt.Name() != "" {
			if seen[rt] >= unfoldDepth {
				m.Cut = true
				return m
			}
			seen[rt]++
			defer func() { seen[rt]-- }()
		}
		for i := 0; i < rt.NumField(); i++ {
			f := rt.Field(i)
			if f.PkgPath != "" {
				continue // unexported: no input field
			}
			tags := strings.Split(f.Tag.Get("graphql"), ",")
			name := tags[0]
			if name == "" {
				name = lowerFirst(f.Name)
			}
			if name == "-" {
				continue
			}
			ft := mtyOfD(f.Type, seen)
			for _, t := range tags[1:] {
				if t == "optional" {
					ft = &MTy{K: "opt", Elem: ft, RT: f.Type}
				}
			}
			m.Fields = append(m.Fields, MField{Name: name, Index: i, T: ft})
		}
		return m
	}
	if k, ok := ik[rt.Kind()]; ok {
		return &MTy{K: "int", IK: k, RT: rt}
	}
	panic("mtyOf: unsupported " + rt.String())
}

// base strips opt and ptr wrappers.
func (m *MTy) base() *MTy {
	for m.K == "opt" || m.K == "ptr" {
		m = m.Elem
	}
	return m
}

// required: a missing/null value is refused.
func (m *MTy) required() bool { return m.K != "opt" && m.K != "ptr" }

func (m *MTy) coq() string {
	switch m.K {
	case "bool":
		return "TBool"
	case "int":
		return "(TInt " + m.IK + ")"
	case "f32":
		return "TF32"
	case "f64":
		return "TF64"
	case "string":
		return "TString"
	case "bytes":
		return "TBytes"
	case "time":
		return "TTime"
	case "text":
		return "TText"
	case "enum":
		var xs []string
		for i, n := range m.Enum.names {
			xs = append(xs, "("+vh.CoqString(n)+", "+scalarVal(reflect.ValueOf(m.Enum.vals[i])).coq()+")")
		}
		return "(TEnum " + scalarVal(reflect.ValueOf(m.Enum.zero)).coq() + " " + vh.CoqList(xs) + ")"
	case "ptr":
		return "(TPtr " + m.Elem.coq() + ")"
	case "opt":
		return "(TOpt " + m.Elem.coq() + ")"
	case "list":
		return "(TList " + m.Elem.coq() + ")"
	case "struct":
		var xs []string
		for _, f := range m.Fields {
			xs = append(xs, "("+vh.CoqString(f.Name)+", "+f.T.coq()+")")
		}
		return "(TStruct " + vh.CoqList(xs) + ")"
	}
	panic("coq: " + m.K)
}

func (m *MTy) shape() string {
	switch m.K {
	case "ptr", "opt", "list":
		return m.K + "(" + m.Elem.shape() + ")"
	case "struct":
		if m.RT.Name() != "" {
			return m.RT.Name()
		}
		return "args"
	case "int":
		return m.IK
	}
	return m.K
}
