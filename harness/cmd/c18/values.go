package main

import (
	"encoding/base64"
	"fmt"
	"math"
	"math/big"
	"reflect"
	"sort"
	"strconv"
	"strings"
	"time"

	"verifharness/pkg/vh"
)

// ---- Val: a Go argument value in canonical, type-directed form ----

type Val struct {
	K  string   `json:"k"` // bool int flt str bytes time text nil ptr nillist list struct
	B  bool     `json:"b,omitempty"`
	I  string   `json:"i,omitempty"` // decimal
	F  float64  `json:"f,omitempty"`
	S  string   `json:"s,omitempty"`
	Y  []int    `json:"y,omitempty"` // bytes
	T  []int64  `json:"t,omitempty"` // year month day hour min sec nsec offset
	P  *Val     `json:"p,omitempty"`
	L  []*Val   `json:"l,omitempty"`
	Fs []VField `json:"fs,omitempty"`
}
type VField struct {
	N string `json:"n"`
	V *Val   `json:"v"`
}

func valEq(a, b *Val) bool {
	if a == nil || b == nil {
		return a == b
	}
	if a.K != b.K {
		return false
	}
	switch a.K {
	case "bool":
		return a.B == b.B
	case "int":
		return a.I == b.I
	case "flt":
		return math.Float64bits(a.F) == math.Float64bits(b.F)
	case "str", "text":
		return a.S == b.S
	case "bytes":
		return reflect.DeepEqual(append([]int{}, a.Y...), append([]int{}, b.Y...))
	case "time":
		return reflect.DeepEqual(a.T, b.T)
	case "nil", "nillist":
		return true
	case "ptr":
		return valEq(a.P, b.P)
	case "list":
		if len(a.L) != len(b.L) {
			return false
		}
		for i := range a.L {
			if !valEq(a.L[i], b.L[i]) {
				return false
			}
		}
		return true
	case "struct":
		if len(a.Fs) != len(b.Fs) {
			return false
		}
		for i := range a.Fs {
			if a.Fs[i].N != b.Fs[i].N || !valEq(a.Fs[i].V, b.Fs[i].V) {
				return false
			}
		}
		return true
	}
	return false
}

// dyadic returns (m, e) with f = m * 2^e exactly, m odd (or 0, 0).
func dyadic(f float64) (*big.Int, int) {
	if f == 0 {
		return big.NewInt(0), 0
	}
	fr, ex := math.Frexp(f)
	m := int64(fr * (1 << 53))
	e := ex - 53
	for m%2 == 0 {
		m /= 2
		e++
	}
	return big.NewInt(m), e
}

func coqBig(z *big.Int) string {
	if z.Sign() < 0 {
		return "(" + z.String() + ")%Z"
	}
	return z.String() + "%Z"
}
func coqDec(s string) string {
	if strings.HasPrefix(s, "-") {
		return "(" + s + ")%Z"
	}
	return s + "%Z"
}

func (v *Val) coq() string {
	switch v.K {
	case "bool":
		return "(GBool " + vh.CoqBool(v.B) + ")"
	case "int":
		return "(GInt " + coqDec(v.I) + ")"
	case "flt":
		m, e := dyadic(v.F)
		return "(GFlt " + coqBig(m) + " " + vh.CoqZ(int64(e)) + ")"
	case "str":
		return "(GStr " + vh.CoqString(v.S) + ")"
	case "text":
		return "(GText " + vh.CoqString(v.S) + ")"
	case "bytes":
		xs := make([]string, len(v.Y))
		for i, b := range v.Y {
			xs[i] = vh.CoqZ(int64(b))
		}
		return "(GBytes " + vh.CoqList(xs) + ")"
	case "time":
		xs := make([]string, len(v.T))
		for i, t := range v.T {
			xs[i] = vh.CoqZ(t)
		}
		return "(GTime (mk_tval " + strings.Join(xs, " ") + "))"
	case "nil":
		return "GNil"
	case "nillist":
		return "GNilList"
	case "ptr":
		return "(GPtr " + v.P.coq() + ")"
	case "list":
		xs := make([]string, len(v.L))
		for i, e := range v.L {
			xs[i] = e.coq()
		}
		return "(GList " + vh.CoqList(xs) + ")"
	case "struct":
		xs := make([]string, len(v.Fs))
		for i, f := range v.Fs {
			xs[i] = "(" + vh.CoqString(f.N) + ", " + f.V.coq() + ")"
		}
		return "(GStruct " + vh.CoqList(xs) + ")"
	}
	panic("Val.coq " + v.K)
}

// scalarVal dumps a scalar reflect.Value by its kind (enum payloads, plain scalars).
func scalarVal(rv reflect.Value) *Val {
	switch rv.Kind() {
	case reflect.Bool:
		return &Val{K: "bool", B: rv.Bool()}
	case reflect.Int, reflect.Int8, reflect.Int16, reflect.Int32, reflect.Int64:
		return &Val{K: "int", I: strconv.FormatInt(rv.Int(), 10)}
	case reflect.Uint, reflect.Uint8, reflect.Uint16, reflect.Uint32, reflect.Uint64:
		return &Val{K: "int", I: strconv.FormatUint(rv.Uint(), 10)}
	case reflect.Float32, reflect.Float64:
		return &Val{K: "flt", F: rv.Float()}
	case reflect.String:
		return &Val{K: "str", S: rv.String()}
	}
	panic("scalarVal: " + rv.Kind().String())
}

// dump: type-directed canonical form of what the resolver received.
func dump(rv reflect.Value, m *MTy) *Val {
	switch m.K {
	case "bool", "int", "f32", "f64", "string", "enum":
		want := map[string]string{"bool": "bool", "int": "int", "f32": "flt", "f64": "flt", "string": "str"}
		v := scalarVal(rv)
		if w, ok := want[m.K]; ok && v.K != w {
			panic("dump: kind")
		}
		if m.K == "int" {
			// width-aware: the value must lie in the range of the declared kind
			bits := map[string]int{"I8": 8, "I16": 16, "I32": 32, "I64": 64, "IInt": 64, "U8": 8, "U16": 16, "U32": 32, "U64": 64, "UInt": 64}[m.IK]
			if rv.Type().Bits() != bits {
				panic("dump: width")
			}
		}
		return v
	case "bytes":
		if rv.IsNil() {
			return &Val{K: "nillist"}
		}
		b := rv.Bytes()
		v := &Val{K: "bytes", Y: []int{}}
		for _, x := range b {
			v.Y = append(v.Y, int(x))
		}
		return v
	case "time":
		t := rv.Interface().(time.Time)
		_, off := t.Zone()
		return &Val{K: "time", T: []int64{int64(t.Year()), int64(t.Month()), int64(t.Day()), int64(t.Hour()), int64(t.Minute()),
			int64(t.Second()), int64(t.Nanosecond()), int64(off)}}
	case "text":
		return &Val{K: "text", S: rv.Interface().(TU).S}
	case "ptr":
		if rv.IsNil() {
			return &Val{K: "nil"}
		}
		return &Val{K: "ptr", P: dump(rv.Elem(), m.Elem)}
	case "opt":
		return dump(rv, m.Elem)
	case "list":
		if rv.IsNil() {
			return &Val{K: "nillist"}
		}
		v := &Val{K: "list", L: []*Val{}}
		for i := 0; i < rv.Len(); i++ {
			v.L = append(v.L, dump(rv.Index(i), m.Elem))
		}
		return v
	case "struct":
		v := &Val{K: "struct"}
		for _, f := range m.Fields {
			v.Fs = append(v.Fs, VField{f.Name, dump(rv.Field(f.Index), f.T)})
		}
		return v
	}
	panic("dump: " + m.K)
}

func zeroVal(m *MTy) *Val { return dump(reflect.New(m.RT).Elem(), m) }

// ---- Lit: GraphQL literal trees (K "null" only before rendering: omitted / $nul) ----

type Lit struct {
	K string   `json:"k"` // null int float str bool enum var list obj
	I string   `json:"i,omitempty"`
	F float64  `json:"f,omitempty"`
	S string   `json:"s,omitempty"`
	B bool     `json:"b,omitempty"`
	L []*Lit   `json:"l,omitempty"`
	O []LField `json:"o,omitempty"`
}
type LField struct {
	N string `json:"n"`
	V *Lit   `json:"v"`
}

func (l *Lit) clone() *Lit {
	if l == nil {
		return nil
	}
	c := *l
	c.L = nil
	for _, e := range l.L {
		c.L = append(c.L, e.clone())
	}
	c.O = nil
	for _, f := range l.O {
		c.O = append(c.O, LField{f.N, f.V.clone()})
	}
	if l.K == "list" && c.L == nil {
		c.L = []*Lit{}
	}
	return &c
}

func fmtFloat(f float64) string {
	s := strconv.FormatFloat(f, 'f', -1, 64)
	if len(s) > 40 {
		s = strconv.FormatFloat(f, 'e', -1, 64)
	}
	if !strings.ContainsAny(s, ".e") {
		s += ".0"
	}
	return s
}

func gqlString(s string) string {
	var b strings.Builder
	b.WriteByte('"')
	for _, c := range s {
		switch c {
		case '"':
			b.WriteString(`\"`)
		case '\\':
			b.WriteString(`\\`)
		case '\n':
			b.WriteString(`\n`)
		case '\t':
			b.WriteString(`\t`)
		default:
			b.WriteRune(c)
		}
	}
	b.WriteByte('"')
	return b.String()
}

// text renders a literal as query text. Nulls must have been removed (deNull).
func (l *Lit) text() string {
	switch l.K {
	case "int":
		return l.I
	case "float":
		return fmtFloat(l.F)
	case "str":
		return gqlString(l.S)
	case "bool":
		if l.B {
			return "true"
		}
		return "false"
	case "enum":
		return l.S
	case "var":
		return "$" + l.S
	case "list":
		xs := make([]string, len(l.L))
		for i, e := range l.L {
			xs[i] = e.text()
		}
		return "[" + strings.Join(xs, ", ") + "]"
	case "obj":
		xs := make([]string, len(l.O))
		for i, f := range l.O {
			xs[i] = f.N + ": " + f.V.text()
		}
		return "{" + strings.Join(xs, ", ") + "}"
	}
	panic("Lit.text: " + l.K)
}

func (l *Lit) coq() string {
	switch l.K {
	case "int":
		return "(LInt " + coqDec(l.I) + ")"
	case "float":
		m, e := dyadic(l.F)
		return "(LFloat " + coqBig(m) + " " + vh.CoqZ(int64(e)) + ")"
	case "str":
		return "(LStr " + vh.CoqString(l.S) + ")"
	case "bool":
		return "(LBool " + vh.CoqBool(l.B) + ")"
	case "enum":
		return "(LEnum " + vh.CoqString(l.S) + ")"
	case "var":
		return "(LVar " + vh.CoqString(l.S) + ")"
	case "list":
		xs := make([]string, len(l.L))
		for i, e := range l.L {
			xs[i] = e.coq()
		}
		return "(LList " + vh.CoqList(xs) + ")"
	case "obj":
		return "(LObj " + coqFields(l.O) + ")"
	}
	panic("Lit.coq: " + l.K)
}

func coqFields(fs []LField) string {
	xs := make([]string, len(fs))
	for i, f := range fs {
		xs[i] = "(" + vh.CoqString(f.N) + ", " + f.V.coq() + ")"
	}
	return vh.CoqList(xs)
}

// deNull prepares a wire tree for the query text: null object fields are left out, nulls inside lists become
// the never-bound variable $nul (this graphql-go version has no null literal).
func deNull(l *Lit) *Lit {
	switch l.K {
	case "null":
		return &Lit{K: "var", S: "nul"}
	case "list":
		c := &Lit{K: "list", L: []*Lit{}}
		for _, e := range l.L {
			c.L = append(c.L, deNull(e))
		}
		return c
	case "obj":
		c := &Lit{K: "obj"}
		for _, f := range l.O {
			if f.V.K == "null" {
				continue
			}
			c.O = append(c.O, LField{f.N, deNull(f.V)})
		}
		return c
	}
	return l.clone()
}

// toJSON: the wire tree as a client would put it into the variables object (after encoding/json).
// explicitNull: keep null object members instead of leaving them out.
func toJSON(l *Lit, explicitNull bool) interface{} {
	switch l.K {
	case "null":
		return nil
	case "int":
		f, _ := strconv.ParseFloat(l.I, 64) // what encoding/json does with the digits
		return f
	case "float":
		return l.F
	case "str", "enum":
		return l.S
	case "bool":
		return l.B
	case "list":
		a := []interface{}{}
		for _, e := range l.L {
			a = append(a, toJSON(e, explicitNull))
		}
		return a
	case "obj":
		m := map[string]interface{}{}
		for _, f := range l.O {
			if f.V.K == "null" && !explicitNull {
				continue
			}
			m[f.N] = toJSON(f.V, explicitNull)
		}
		return m
	}
	panic("toJSON: " + l.K)
}

func coqJV(v interface{}) string {
	switch x := v.(type) {
	case nil:
		return "VNull"
	case bool:
		return "(VBool " + vh.CoqBool(x) + ")"
	case float64:
		m, e := dyadic(x)
		return "(VNum " + coqBig(m) + " " + vh.CoqZ(int64(e)) + ")"
	case string:
		return "(VStr " + vh.CoqString(x) + ")"
	case []interface{}:
		xs := make([]string, len(x))
		for i, e := range x {
			xs[i] = coqJV(e)
		}
		return "(VArr " + vh.CoqList(xs) + ")"
	case map[string]interface{}:
		return "(VObj " + coqVars(x) + ")"
	}
	panic(fmt.Sprintf("coqJV: %T", v))
}

func coqVars(m map[string]interface{}) string {
	keys := make([]string, 0, len(m))
	for k := range m {
		keys = append(keys, k)
	}
	sort.Strings(keys)
	xs := make([]string, len(keys))
	for i, k := range keys {
		xs[i] = "(" + vh.CoqString(k) + ", " + coqJV(m[k]) + ")"
	}
	return vh.CoqList(xs)
}

// ---- generation of in-range values: (expected Go value, wire form) ----

var strPool = []string{"", "x", "hello world", `say "hi"`, `back\slash`, "é", "日本", "RED", "tu:", "$v0", "{a: 1}", "1", "true", "null", "a b  c", "#tag", "line1\nline2"}

func genString(r *vh.Rng) string {
	if forceString != "" {
		return forceString
	}
	if r.Chance(60) {
		return r.Pick(strPool)
	}
	alpha := []rune(`abcXYZ019 _-"\é日$:{}[]`)
	n := r.Intn(8)
	var b []rune
	for i := 0; i < n; i++ {
		b = append(b, alpha[r.Intn(len(alpha))])
	}
	return string(b)
}

var intRange = map[string][2]string{
	"I8": {"-128", "127"}, "I16": {"-32768", "32767"}, "I32": {"-2147483648", "2147483647"},
	"I64": {"-9223372036854775808", "9223372036854775807"}, "IInt": {"-9223372036854775808", "9223372036854775807"},
	"U8": {"0", "255"}, "U16": {"0", "65535"}, "U32": {"0", "4294967295"},
	"U64": {"0", "18446744073709551615"}, "UInt": {"0", "18446744073709551615"},
}

var two53 = new(big.Int).Lsh(big.NewInt(1), 53)

func bigOf(s string) *big.Int {
	z, ok := new(big.Int).SetString(s, 10)
	if !ok {
		panic("bigOf " + s)
	}
	return z
}

// search mode: values hug the boundaries of every width, nil/omitted is frequent
var boundaryBias = false
var nilChance = 30

// genInt: a value within the kind's range and within the float64-exact range |z| <= 2^53.
func genInt(r *vh.Rng, ik string) *big.Int {
	lo, hi := bigOf(intRange[ik][0]), bigOf(intRange[ik][1])
	n53 := new(big.Int).Neg(two53)
	if lo.Cmp(n53) < 0 {
		lo = n53
	}
	if hi.Cmp(two53) > 0 {
		hi = two53
	}
	if boundaryBias && r.Chance(75) {
		// +-1 around every power of two that bounds a width, clipped to the range of this kind
		var c []*big.Int
		for _, k := range []uint{7, 8, 15, 16, 31, 32, 52, 53} {
			p := new(big.Int).Lsh(big.NewInt(1), k)
			for _, d := range []int64{-2, -1, 0, 1} {
				x := new(big.Int).Add(p, big.NewInt(d))
				c = append(c, x, new(big.Int).Neg(x))
			}
		}
		c = append(c, big.NewInt(0), big.NewInt(1), big.NewInt(-1))
		var ok []*big.Int
		for _, x := range c {
			if x.Cmp(lo) >= 0 && x.Cmp(hi) <= 0 {
				ok = append(ok, x)
			}
		}
		return ok[r.Intn(len(ok))]
	}
	switch r.Intn(8) {
	case 0:
		return big.NewInt(0)
	case 1:
		return lo
	case 2:
		return hi
	case 3:
		if lo.Sign() < 0 {
			return big.NewInt(-1)
		}
		return big.NewInt(1)
	case 4:
		return big.NewInt(int64(r.Intn(100)))
	default:
		span := new(big.Int).Sub(hi, lo)
		span.Add(span, big.NewInt(1))
		x := new(big.Int).SetUint64(r.U64())
		x.Mod(x, span)
		return x.Add(x, lo)
	}
}

func genF64(r *vh.Rng) float64 {
	switch r.Intn(6) {
	case 0:
		return 0
	case 1:
		return float64(r.Intn(2000) - 1000)
	case 2:
		return float64(r.Intn(2000)-1000) / 8
	case 3:
		return float64(r.Intn(200000)-100000) / 1000 // not dyadic in decimal: exercises shortest round-trip printing
	default:
		m := float64(int64(r.U64()>>11) | 1)
		if r.Bool() {
			m = -m
		}
		return math.Ldexp(m, r.Intn(121)-60-52)
	}
}

func genF32(r *vh.Rng) float64 {
	switch r.Intn(5) {
	case 0:
		return 0
	case 1:
		return float64(r.Intn(2000) - 1000)
	case 2:
		return float64(r.Intn(2000)-1000) / 8
	default:
		m := float64(int64(r.U64()>>40) | 1) // 24 bits
		if r.Bool() {
			m = -m
		}
		return float64(float32(math.Ldexp(m, r.Intn(81)-40-23)))
	}
}

func daysIn(y, m int) int {
	switch m {
	case 2:
		if (y%4 == 0 && y%100 != 0) || y%400 == 0 {
			return 29
		}
		return 28
	case 4, 6, 9, 11:
		return 30
	}
	return 31
}

// genTime returns the civil fields and the RFC 3339 text the harness formats itself.
func genTime(r *vh.Rng) ([]int64, string) {
	y := 1 + r.Intn(9999)
	if r.Chance(70) {
		y = 1970 + r.Intn(80)
	}
	mo := 1 + r.Intn(12)
	d := 1 + r.Intn(daysIn(y, mo))
	if r.Chance(10) {
		y, mo, d = 2024, 2, 29
	}
	h, mi, s := r.Intn(24), r.Intn(60), r.Intn(60)
	ns, frac := 0, ""
	if nd := r.Intn(10); nd > 0 && r.Chance(60) {
		digits := ""
		for i := 0; i < nd; i++ {
			digits += strconv.Itoa(r.Intn(10))
		}
		frac = "." + digits
		n, _ := strconv.Atoi((digits + "000000000")[:9])
		ns = n
	}
	off, zone := 0, "Z"
	if r.Chance(50) {
		hh, mm := r.Intn(15), []int{0, 15, 30, 45}[r.Intn(4)]
		sign, sg := 1, "+"
		if r.Bool() {
			sign, sg = -1, "-"
		}
		off = sign * (hh*3600 + mm*60)
		zone = fmt.Sprintf("%s%02d:%02d", sg, hh, mm)
	}
	txt := fmt.Sprintf("%04d-%02d-%02dT%02d:%02d:%02d%s%s", y, mo, d, h, mi, s, frac, zone)
	return []int64{int64(y), int64(mo), int64(d), int64(h), int64(mi), int64(s), int64(ns), int64(off)}, txt
}

// genVal returns an in-range value of type m and its wire form.
func genVal(r *vh.Rng, m *MTy, depth int) (*Val, *Lit) {
	switch m.K {
	case "bool":
		b := r.Bool()
		return &Val{K: "bool", B: b}, &Lit{K: "bool", B: b}
	case "int":
		z := genInt(r, m.IK)
		w := &Lit{K: "int", I: z.String()}
		if r.Chance(10) { // an integral float literal is accepted for an integer argument
			f, _ := new(big.Float).SetInt(z).Float64()
			w = &Lit{K: "float", F: f}
		}
		return &Val{K: "int", I: z.String()}, w
	case "f32", "f64":
		f := genF64(r)
		if m.K == "f32" {
			f = genF32(r)
		}
		w := &Lit{K: "float", F: f}
		if f == math.Trunc(f) && math.Abs(f) < 1e15 && r.Chance(50) {
			w = &Lit{K: "int", I: strconv.FormatInt(int64(f), 10)}
		}
		return &Val{K: "flt", F: f}, w
	case "string":
		s := genString(r)
		return &Val{K: "str", S: s}, &Lit{K: "str", S: s}
	case "bytes":
		n := r.Intn(7)
		v := &Val{K: "bytes", Y: []int{}}
		b := []byte{}
		for i := 0; i < n; i++ {
			x := r.Intn(256)
			v.Y = append(v.Y, x)
			b = append(b, byte(x))
		}
		return v, &Lit{K: "str", S: base64.StdEncoding.EncodeToString(b)}
	case "time":
		f, txt := genTime(r)
		return &Val{K: "time", T: f}, &Lit{K: "str", S: txt}
	case "text":
		s := genString(r)
		return &Val{K: "text", S: s}, &Lit{K: "str", S: "tu:" + s}
	case "enum":
		i := r.Intn(len(m.Enum.names))
		w := &Lit{K: "enum", S: m.Enum.names[i]}
		if r.Chance(15) { // a string literal carrying the name is accepted too
			w.K = "str"
		}
		return scalarVal(reflect.ValueOf(m.Enum.vals[i])), w
	case "ptr":
		if r.Chance(nilChance) || m.Elem.base().Cut {
			return &Val{K: "nil"}, &Lit{K: "null"}
		}
		v, w := genVal(r, m.Elem, depth)
		return &Val{K: "ptr", P: v}, w
	case "opt":
		if r.Chance(nilChance + 5) {
			return zeroVal(m.Elem), &Lit{K: "null"}
		}
		return genVal(r, m.Elem, depth)
	case "list":
		n := r.Intn(4)
		if depth <= 0 {
			n = r.Intn(2)
		}
		if m.Elem.base().Cut {
			n = 0
		}
		v, w := &Val{K: "list", L: []*Val{}}, &Lit{K: "list", L: []*Lit{}}
		for i := 0; i < n; i++ {
			ev, ew := genVal(r, m.Elem, depth-1)
			v.L = append(v.L, ev)
			w.L = append(w.L, ew)
		}
		return v, w
	case "struct":
		v, w := &Val{K: "struct"}, &Lit{K: "obj"}
		for _, f := range m.Fields {
			fv, fw := genVal(r, f.T, depth-1)
			v.Fs = append(v.Fs, VField{f.Name, fv})
			w.O = append(w.O, LField{f.Name, fw})
		}
		return v, w
	}
	panic("genVal: " + m.K)
}
