package main

// The argument-parser *builder* (schemabuilder/input.go makeStructParser, getStructObjectFields,
// makeArgParser, makeArgParserInner; reflect.go parseGraphQLFieldInfo) against Args/ModelBuilder.v:
//   - every case carries the raw reflect view of its argument struct (rawCoq -> gty): kinds, type names, field
//     names, PkgPath / Anonymous flags, the graphql tag text, and for every type the three facts the builder asks
//     about it (registered enum, scalarArgParsers entry, TextUnmarshaler); the model's build_top must return the
//     argument type the harness derived (mtyOf) - or refuse exactly when schema.Build refuses;
//   - build cases: argument structs with one unsupported ingredient (a kind without parser, pointer to pointer,
//     unnamed nested struct, embedded field, unknown / repeated tag option, two fields with one name) and their
//     supported neighbours (unexported and "-" fields are skipped, "key" is accepted, the default name);
//   - the value in Selection.Args after PrepareQuery, before Execute (prepared()).

import (
	"context"
	"encoding"
	"fmt"
	"reflect"
	"strings"
	"sync/atomic"
	"time"
	"unsafe"

	"github.com/samsarahq/thunder/graphql"
	"github.com/samsarahq/thunder/graphql/schemabuilder"
	"verifharness/pkg/vh"
)

// ---- catalogue: struct shapes reflect.StructOf cannot make, and kinds without a parser ----

type Emb struct{ N int32 }

// Embeds has an embedded (anonymous) field: refused.
type Embeds struct {
	Emb
	A int32 `graphql:"a"`
}

// Hidden has an unexported field (skipped before anything else is looked at) - even of a kind without parser.
type Hidden struct {
	A    int32 `graphql:"a"`
	note map[string]int
	b    *string
	C    *string `graphql:"c"`
}

// Dashed: a field tagged "-" is skipped, whatever its type and options; "key" is an accepted option; a field
// without name in its tag gets the Go name with a lower-case first letter.
type Dashed struct {
	A      int32          `graphql:"a,key"`
	Skip   chan int       `graphql:"-"`
	Skip2  func()         `graphql:"-,bogus"`
	Plain  string         // no tag: "plain"
	OptNo  *int64         `graphql:",optional"`
	KeyOpt MyString       `graphql:"ko,key,optional"`
	OptKey []Color        `graphql:"ok,optional,key"`
	NoTag  map[string]int `graphql:"-"`
}

type BadOption struct {
	A int32 `graphql:"a,bogus"`
}
type RepeatedOptional struct {
	A int32 `graphql:"a,optional,optional"`
}
type RepeatedKey struct {
	A int32 `graphql:"a,key,key"`
}
type EmptyOption struct {
	A int32 `graphql:"a,"`
}
type SpacedOption struct {
	A int32 `graphql:"a, optional"`
}
type DupName struct {
	A int32  `graphql:"x"`
	B string `graphql:"y"`
	C *int32 `graphql:"x,optional"`
}
type DupDefaultName struct {
	Name string
	N    int32 `graphql:"name"`
}

// DashedDup: the second "x" is skipped, so the name is not taken twice.
type DashedDup struct {
	A int32  `graphql:"x"`
	B string `graphql:"-"`
	C *int32 `graphql:"y"`
}
type HasMap struct {
	M map[string]int32 `graphql:"m"`
}
type HasIface struct {
	I interface{} `graphql:"i"`
}
type HasArray struct {
	A [2]int32 `graphql:"a"`
}
type HasPtrPtr struct {
	P **int32 `graphql:"p"`
}
type HasSliceOfPtrPtr struct {
	P []**string `graphql:"p"`
}
type HasFunc struct {
	F func() int32 `graphql:"f"`
}
type HasChan struct {
	C chan int32 `graphql:"c"`
}
type HasComplex struct {
	C complex128 `graphql:"c"`
}
type HasUintptr struct {
	U uintptr `graphql:"u"`
}
type HasUnsafe struct {
	U unsafe.Pointer `graphql:"u"`
}
type HasUnnamed struct {
	S struct {
		N int32 `graphql:"n"`
	} `graphql:"s"`
}
type HasPtrUnnamed struct {
	S *struct {
		N int32 `graphql:"n"`
	} `graphql:"s"`
}

// DeepBad: the unsupported ingredient sits three levels down, behind an optional list of pointers.
type DeepBad struct {
	A  int32     `graphql:"a"`
	Xs []*HasMap `graphql:"xs,optional"`
}

// EnumSlice etc.: supported neighbours of the above.
type Neighbours struct {
	Cs   []*Color     `graphql:"cs"`
	TUs  [][]TU       `graphql:"tus,optional"`
	In   *Hidden      `graphql:"in"`
	D    Dashed       `graphql:"d,optional"`
	Bs   []Blob       `graphql:"bs,optional"`
	When []*MyFloat64 `graphql:"when,optional"`
}

// build-case catalogue: name -> type
var buildCatalogue = map[string]reflect.Type{
	"Embeds": reflect.TypeOf(Embeds{}), "Hidden": reflect.TypeOf(Hidden{}), "Dashed": reflect.TypeOf(Dashed{}),
	"BadOption": reflect.TypeOf(BadOption{}), "RepeatedOptional": reflect.TypeOf(RepeatedOptional{}),
	"RepeatedKey": reflect.TypeOf(RepeatedKey{}), "EmptyOption": reflect.TypeOf(EmptyOption{}),
	"SpacedOption": reflect.TypeOf(SpacedOption{}), "DupName": reflect.TypeOf(DupName{}),
	"DupDefaultName": reflect.TypeOf(DupDefaultName{}), "DashedDup": reflect.TypeOf(DashedDup{}),
	"HasMap": reflect.TypeOf(HasMap{}), "HasIface": reflect.TypeOf(HasIface{}), "HasArray": reflect.TypeOf(HasArray{}),
	"HasPtrPtr": reflect.TypeOf(HasPtrPtr{}), "HasSliceOfPtrPtr": reflect.TypeOf(HasSliceOfPtrPtr{}),
	"HasFunc": reflect.TypeOf(HasFunc{}), "HasChan": reflect.TypeOf(HasChan{}), "HasComplex": reflect.TypeOf(HasComplex{}),
	"HasUintptr": reflect.TypeOf(HasUintptr{}), "HasUnsafe": reflect.TypeOf(HasUnsafe{}),
	"HasUnnamed": reflect.TypeOf(HasUnnamed{}), "HasPtrUnnamed": reflect.TypeOf(HasPtrUnnamed{}),
	"DeepBad": reflect.TypeOf(DeepBad{}), "Neighbours": reflect.TypeOf(Neighbours{}),
}

// the ones schema.Build accepts (their values go through the ordinary transports as well)
var buildSupported = []string{"Hidden", "Dashed", "DashedDup", "Neighbours"}
var buildRefused = []string{"Embeds", "BadOption", "RepeatedOptional", "RepeatedKey", "EmptyOption", "SpacedOption", "DupName",
	"DupDefaultName", "HasMap", "HasIface", "HasArray", "HasPtrPtr", "HasSliceOfPtrPtr", "HasFunc", "HasChan", "HasComplex",
	"HasUintptr", "HasUnsafe", "HasUnnamed", "HasPtrUnnamed", "DeepBad"}

// kinds without parser, as reflect types for generated (StructOf) argument structs
var rawKinds = map[string]reflect.Type{
	"map":       reflect.TypeOf(map[string]int32{}),
	"iface":     reflect.TypeOf((*interface{})(nil)).Elem(),
	"array":     reflect.TypeOf([3]int16{}),
	"func":      reflect.TypeOf(func() {}),
	"chan":      reflect.TypeOf(make(chan bool)),
	"complex64": reflect.TypeOf(complex64(0)),
	"uintptr":   reflect.TypeOf(uintptr(0)),
	"error":     reflect.TypeOf((*error)(nil)).Elem(),
}
var rawKindNames = []string{"map", "iface", "array", "func", "chan", "complex64", "uintptr", "error"}

// ---- the raw reflect view as a Coq term of type gty ----

var textUnmarshalerType = reflect.TypeOf((*encoding.TextUnmarshaler)(nil)).Elem()

// scalarEntry: the scalarArgParsers entry internal.TypesIdenticalOrScalarAliases(match, typ) selects
// (identical type, or same kind for the kinds internal.IsScalarType lists).
func scalarEntry(rt reflect.Type) string {
	switch rt {
	case bytesType:
		return "ScBytes"
	case timeType:
		return "ScTime"
	}
	switch rt.Kind() {
	case reflect.Bool:
		return "ScBool"
	case reflect.Float32:
		return "ScF32"
	case reflect.Float64:
		return "ScF64"
	case reflect.String:
		return "ScString"
	case reflect.Int8:
		return "(ScInt I8)"
	case reflect.Int16:
		return "(ScInt I16)"
	case reflect.Int32:
		return "(ScInt I32)"
	case reflect.Int64:
		return "(ScInt I64)"
	case reflect.Int:
		return "(ScInt IInt)"
	case reflect.Uint8:
		return "(ScInt U8)"
	case reflect.Uint16:
		return "(ScInt U16)"
	case reflect.Uint32:
		return "(ScInt U32)"
	case reflect.Uint64:
		return "(ScInt U64)"
	case reflect.Uint:
		return "(ScInt UInt)"
	}
	return ""
}

func infoCoq(rt reflect.Type) string {
	en := "None"
	if e := enumOf(rt); e != nil {
		var xs []string
		for i, n := range e.names {
			xs = append(xs, "("+vh.CoqString(n)+", "+scalarVal(reflect.ValueOf(e.vals[i])).coq()+")")
		}
		en = "(Some (" + scalarVal(reflect.ValueOf(e.zero)).coq() + ", " + vh.CoqList(xs) + "))"
	}
	sc := "None"
	if s := scalarEntry(rt); s != "" {
		sc = "(Some " + s + ")"
	}
	return fmt.Sprintf("(mk_tinfo %s %s %s)", en, sc, vh.CoqBool(reflect.PtrTo(rt).Implements(textUnmarshalerType)))
}

func rawCoq(rt reflect.Type) string { return rawCoqD(rt, map[reflect.Type]int{}) }

func rawCoqD(rt reflect.Type, seen map[reflect.Type]int) string {
	switch rt.Kind() {
	case reflect.Ptr:
		return "(RPtr " + rawCoqD(rt.Elem(), seen) + ")"
	case reflect.Slice:
		return "(RSlice " + infoCoq(rt) + " " + rawCoqD(rt.Elem(), seen) + ")"
	case reflect.Struct:
		var fs []string
		cut := false
		if rt.Name() != "" {
			// the same unfolding of self-referencing types as mtyOf
			if seen[rt] >= unfoldDepth {
				cut = true
			} else {
				seen[rt]++
				defer func() { seen[rt]-- }()
			}
		}
		if !cut {
			for i := 0; i < rt.NumField(); i++ {
				f := rt.Field(i)
				ft := "(RLeaf no_info)" // the builder never looks at the type of an unexported field
				if f.PkgPath == "" {
					ft = rawCoqD(f.Type, seen)
				}
				fs = append(fs, fmt.Sprintf("(mk_fmeta %s %s %s %s, %s)", vh.CoqString(f.Name), vh.CoqBool(f.PkgPath != ""),
					vh.CoqBool(f.Anonymous), vh.CoqString(f.Tag.Get("graphql")), ft))
			}
		}
		return "(RStruct " + infoCoq(rt) + " " + vh.CoqString(rt.Name()) + " " + vh.CoqList(fs) + ")"
	}
	return "(RLeaf " + infoCoq(rt) + ")"
}

// ---- generated argument structs with one unsupported ingredient ----

// genBadElem: a type makeArgParser refuses, wrapped in supported layers.
func genBadElem(r *vh.Rng) (*TyDesc, string) {
	var d *TyDesc
	var what string
	switch r.Intn(4) {
	case 0:
		what = "kind-" + r.Pick(rawKindNames)
		d = &TyDesc{K: "raw", Name: strings.TrimPrefix(what, "kind-")}
	case 1:
		what = "ptr-to-ptr"
		d = &TyDesc{K: "ptr", Elem: &TyDesc{K: "ptr", Elem: genNonPtr(r, 1)}}
	case 2:
		what = "unnamed-nested-struct"
		d = &TyDesc{K: "struct", Fields: []FieldDesc{{Name: "n", T: genScalarDesc(r)}}}
	default:
		what = "catalogue"
		d = &TyDesc{K: "cat", Name: r.Pick(buildRefused)}
	}
	for k := r.Intn(3); k > 0; k-- {
		switch {
		case d.K != "ptr" && r.Chance(40):
			d = &TyDesc{K: "ptr", Elem: d}
		default:
			d = &TyDesc{K: "list", Elem: d}
		}
	}
	return d, what
}

func genBuildCase(r *vh.Rng) Case {
	switch k := r.Intn(100); {
	case k < 30:
		// a catalogue struct as the argument struct itself
		if r.Chance(25) {
			n := r.Pick(buildSupported)
			td := &TyDesc{K: "cat", Name: n}
			v, w := genVal(r, mtyOf(td.reflectType()), 2)
			return Case{Ty: td, Class: "build", Build: "accept", What: "cat-" + n, Expect: "echo", Sent: v,
				Sends: []Send{sendLiteral(w), sendVariable(r, w), sendNested(r, w)}}
		}
		n := r.Pick(buildRefused)
		return Case{Ty: &TyDesc{K: "cat", Name: n}, Class: "build", Build: "refuse", What: "cat-" + n, Expect: "any"}
	case k < 75:
		// a generated argument struct with one refused field somewhere
		d := genTop(r)
		bad, what := genBadElem(r)
		at := r.Intn(len(d.Fields) + 1)
		fs := append([]FieldDesc{}, d.Fields[:at]...)
		fs = append(fs, FieldDesc{Name: "bad", Opt: r.Chance(30), T: bad})
		fs = append(fs, d.Fields[at:]...)
		d.Fields = fs
		return Case{Ty: d, Class: "build", Build: "refuse", What: what, Expect: "any"}
	case k < 88:
		// tag variants on a generated struct
		d := genTop(r)
		i := r.Intn(len(d.Fields))
		tags := []string{"%s,bogus", "%s,optional,optional", "%s,key,key", "%s,", "%s,optional,", "%s, key", "%s,Optional", "%s,key,optional,key"}
		tag := fmt.Sprintf(r.Pick(tags), d.Fields[i].Name)
		d.Fields[i].Tag = &tag
		return Case{Ty: d, Class: "build", Build: "refuse", What: "bad-tag", Expect: "any"}
	default:
		// two fields with one name
		d := genTop(r)
		i := r.Intn(len(d.Fields))
		tag := d.Fields[i].Name
		if r.Bool() {
			tag += ",optional"
		}
		d.Fields = append(d.Fields, FieldDesc{Name: "zz", Tag: &tag, T: genElem(r, 1)})
		return Case{Ty: d, Class: "build", Build: "refuse", What: "dup-name", Expect: "any"}
	}
}

// ---- Selection.Args after PrepareQuery ----

// prepared finds the selections of the field (through fragments) and returns the argument values PrepareQuery
// stored in them, in document order.  For the paginated twin the value sits behind ConnectionArgs.Args.
func prepared(ss *graphql.SelectionSet, field string, rt reflect.Type, out *[]reflect.Value) {
	if ss == nil {
		return
	}
	for _, sel := range ss.Selections {
		if sel.Name == field {
			v := reflect.ValueOf(sel.Args)
			if ca, ok := sel.Args.(schemabuilder.ConnectionArgs); ok {
				v = reflect.ValueOf(ca.Args)
				if v.IsValid() && v.Kind() == reflect.Ptr && !v.IsNil() {
					v = v.Elem()
				}
			}
			if v.IsValid() && v.Type() == rt {
				*out = append(*out, v)
			} else {
				*out = append(*out, reflect.Value{})
			}
		}
	}
	for _, fr := range ss.Fragments {
		prepared(fr.SelectionSet, field, rt, out)
	}
}

// probeNoArgs asks for the field n (no argument struct) with the given literal arguments.
func (b *built) probeNoArgs(args []LField) (stage string, client bool, calls int32) {
	atomic.StoreInt32(b.callsN, 0)
	type res struct {
		stage  string
		client bool
	}
	done := make(chan res, 1)
	go func() {
		var r res
		defer func() {
			if e := recover(); e != nil {
				r = res{stage: "panic"}
			}
			done <- r
		}()
		field := "n"
		if len(args) > 0 {
			xs := []string{}
			for _, a := range args {
				xs = append(xs, a.N+": "+a.V.text())
			}
			field += "(" + strings.Join(xs, ", ") + ")"
		}
		q, err := graphql.Parse("query Q { g(x: 1) "+field+" }", nil)
		if err != nil {
			r = res{"parse", isClient(err)}
			return
		}
		ctx, cancel := context.WithTimeout(context.Background(), 5*time.Second)
		defer cancel()
		if err := graphql.PrepareQuery(ctx, b.schema.Query, q.SelectionSet); err != nil {
			r = res{"args", isClient(err)}
			return
		}
		e := graphql.NewExecutor(graphql.NewImmediateGoroutineScheduler())
		if _, err := e.Execute(ctx, b.schema.Query, nil, q); err != nil {
			r = res{"exec", isClient(err)}
			return
		}
		r = res{stage: "ok"}
	}()
	select {
	case r := <-done:
		return r.stage, r.client, atomic.LoadInt32(b.callsN)
	case <-time.After(10 * time.Second):
		return "timeout", false, atomic.LoadInt32(b.callsN)
	}
}

// genSharedVars: a history of operations over one field that share ONE variables map.  Every operation declares the same
// variable names; the first ones give them defaults (different values), the last ones declare them without default (for
// nullable arguments) - nothing is supplied, so each operation must see its own defaults, respectively nil / zero.
func genSharedVars(r *vh.Rng) (Case, bool) {
	td := pickTop(r)
	m := mtyOf(td.reflectType())
	c := Case{Ty: td, Class: "shared-variables", Expect: "echo", SharedVars: true}
	clean := func(w *Lit) bool {
		for _, f := range w.O {
			if f.V.K != "null" && hasNull(f.V) {
				return false
			}
		}
		return true
	}
	shared := map[string]interface{}{}
	if r.Bool() {
		shared["unrelated"] = 1
	}
	n := 2 + r.Intn(2)
	for k := 0; k < n; k++ {
		var v *Val
		var w *Lit
		for try := 0; ; try++ {
			v, w = genVal(r, m, 2)
			if clean(w) {
				break
			}
			if try > 40 {
				return Case{}, false
			}
		}
		if k == n-1 && r.Bool() {
			// last operation: the nullable arguments are left to variables without default
			v2 := &Val{K: "struct"}
			for i, f := range m.Fields {
				switch f.T.K {
				case "ptr":
					w.O[i].V = &Lit{K: "null"}
					v2.Fs = append(v2.Fs, VField{f.Name, &Val{K: "nil"}})
				case "opt":
					w.O[i].V = &Lit{K: "null"}
					v2.Fs = append(v2.Fs, VField{f.Name, zeroVal(f.T.Elem)})
				default:
					v2.Fs = append(v2.Fs, v.Fs[i])
				}
			}
			v = v2
		}
		s := Send{Transport: "default", Vars: shared, Defs: []VarDef{{Name: "nul"}}, Sent: v}
		for i, f := range w.O {
			name := fmt.Sprintf("d%d", i)
			s.Args = append(s.Args, LField{f.N, &Lit{K: "var", S: name}})
			if f.V.K == "null" {
				s.Defs = append(s.Defs, VarDef{Name: name})
				continue
			}
			s.Defs = append(s.Defs, VarDef{Name: name, Default: deNull(f.V)})
		}
		c.Sends = append(c.Sends, s)
	}
	c.Sent = c.Sends[0].Sent
	return c, true
}
