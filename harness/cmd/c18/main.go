// C18: arguments reach resolvers exactly as sent, by literal or by variable.
//
// For a random argument struct type (reflect.StructOf over scalars of every width, named scalars, enums,
// []byte, time.Time, a TextUnmarshaler, pointers, optional tags, lists and catalogue structs) and a random
// in-range value, the same value is sent as a literal in the query text, through variables (top-level and
// nested), as a variable default, and as a supplied variable overriding a different default.  A malformed stream
// mutates the wire form (wrong JSON kind, missing required, null for non-pointer, unknown enum value, bad
// base64/time/text, out-of-range and fractional numbers for integers, unrepresentable float32, unknown field,
// duplicate field, default on a required variable).  The resolver is a reflect.MakeFunc that keeps its argument;
// the harness dumps it type-directed.  The oracle is evaluated on the implementation alone; the observations are
// written as Coq cases for Args/Model.v.
package main

import (
	"bytes"
	"context"
	"encoding/json"
	"fmt"
	"io/ioutil"
	"log"
	"math"
	"math/big"
	"net/http/httptest"
	"path/filepath"
	"reflect"
	"sort"
	"strings"
	"sync"
	"sync/atomic"
	"time"

	"github.com/gorilla/websocket"
	"github.com/samsarahq/thunder/graphql"
	"github.com/samsarahq/thunder/graphql/schemabuilder"
	"verifharness/pkg/vh"
)

type VarDef struct {
	Name    string `json:"name"`
	NonNull bool   `json:"nonnull,omitempty"`
	Default *Lit   `json:"default,omitempty"`
}

type Send struct {
	Transport string                 `json:"transport"`
	Defs      []VarDef               `json:"defs,omitempty"`
	Vars      map[string]interface{} `json:"vars,omitempty"`
	Args      []LField               `json:"args"`
	// Place: where the field stands in the document: "" = operation body, "fragment" = inside a named
	// fragment spread from the operation, "inline" = inside an inline fragment.  Arguments (and the
	// variables and defaults they use) must arrive the same from every place.
	Place string `json:"place,omitempty"`
	// Sels: when present the request selects the field several times (aliases s0, s1, ...), each selection with its
	// own arguments and place; Args/Place above are then unused.
	Sels []Sel `json:"sels,omitempty"`
	// Paginated: the request goes to the paginated field p (same argument struct, registered with
	// schemabuilder.Paginated) with the connection arguments Conn next to the field's own arguments.
	Paginated bool     `json:"paginated,omitempty"`
	Conn      []LField `json:"conn,omitempty"`
	// Sent: when present, the value this send carries (cases whose sends carry different values)
	Sent *Val `json:"sent,omitempty"`
}

type Sel struct {
	Alias  string   `json:"alias"`
	Args   []LField `json:"args"`
	Place  string   `json:"place,omitempty"`
	Expect string   `json:"expect"` // echo | reject : what this selection yields taken on its own
	Sent   *Val     `json:"sent,omitempty"`
}

type Case struct {
	Ty     *TyDesc `json:"ty"`
	Class  string  `json:"class"`  // "valid" or the mutation class
	Expect string  `json:"expect"` // echo | reject | any
	Sent   *Val    `json:"sent,omitempty"`
	Sends  []Send  `json:"sends"`
	// NoEquiv: transports are not expected to agree (integer literal beyond int64: refused by the literal path only)
	NoEquiv bool   `json:"noequiv,omitempty"`
	Origin  string `json:"origin,omitempty"`
	// Build (class "build"): "refuse" = the argument struct holds an ingredient the builder has no parser for (schema.Build
	// must fail), "accept" = a supported neighbour (fields that are skipped, accepted tag options, the default name)
	Build string `json:"build,omitempty"`
	What  string `json:"what,omitempty"` // build cases: the ingredient (histogram label)
	// SharedVars: the sends are a history - operations parsed one after the other with ONE variables map (a client session
	// or a batch of operations sharing a variables object); each must behave as if it were the only one
	SharedVars bool `json:"shared_vars,omitempty"`
}

// ---- rendering the wire form into the transports ----

func sendLiteral(w *Lit) Send {
	return Send{Transport: "literal", Args: deNull(w).O, Defs: []VarDef{{Name: "nul"}}}
}

// sendVariable: every top-level argument through its own variable.
func sendVariable(r *vh.Rng, w *Lit) Send {
	s := Send{Transport: "variable", Vars: map[string]interface{}{}}
	for i, f := range w.O {
		name := fmt.Sprintf("v%d", i)
		s.Defs = append(s.Defs, VarDef{Name: name})
		s.Args = append(s.Args, LField{f.N, &Lit{K: "var", S: name}})
		if f.V.K == "null" && r.Bool() {
			continue // variable left unbound
		}
		s.Vars[name] = toJSON(f.V, r.Bool())
	}
	return s
}

// sendNested: variables at random inner positions of the literal.
func sendNested(r *vh.Rng, w *Lit) Send {
	s := Send{Transport: "nested-variable", Vars: map[string]interface{}{}, Defs: []VarDef{{Name: "nul"}}}
	n := 0
	var cut func(l *Lit, depth int) *Lit
	cut = func(l *Lit, depth int) *Lit {
		if l.K == "null" {
			return &Lit{K: "var", S: "nul"}
		}
		if depth > 0 && r.Chance(35) {
			name := fmt.Sprintf("n%d", n)
			n++
			s.Defs = append(s.Defs, VarDef{Name: name})
			s.Vars[name] = toJSON(l, r.Bool())
			return &Lit{K: "var", S: name}
		}
		switch l.K {
		case "list":
			c := &Lit{K: "list", L: []*Lit{}}
			for _, e := range l.L {
				c.L = append(c.L, cut(e, depth+1))
			}
			return c
		case "obj":
			c := &Lit{K: "obj"}
			for _, f := range l.O {
				if f.V.K == "null" {
					continue
				}
				c.O = append(c.O, LField{f.N, cut(f.V, depth+1)})
			}
			return c
		}
		return l.clone()
	}
	s.Args = cut(w, 0).O
	return s
}

// decoy: a constant of the same shape as l but another value (a default that must lose against a supplied value).
func decoy(l *Lit) *Lit {
	c := deNull(l)
	switch c.K {
	case "int":
		z := bigOf(c.I)
		c.I = z.Add(z, big.NewInt(1)).String()
	case "float":
		c.F = c.F + 1
	case "str":
		c.S = c.S + "x"
	case "bool":
		c.B = !c.B
	case "list":
		c.L = []*Lit{}
	}
	return c
}

// sendNestedDefault: variables at every depth of the argument literal (inside object literals, lists inside objects,
// objects inside lists), each declared with a default: left unsupplied, supplied null (the default applies), supplied
// (the default - a decoy - must lose), or declared without default and supplied.
func sendNestedDefault(r *vh.Rng, w *Lit) Send {
	s := Send{Transport: "nested-default", Vars: map[string]interface{}{}, Defs: []VarDef{{Name: "nul"}}}
	n := 0
	var cut func(l *Lit, depth int) *Lit
	cut = func(l *Lit, depth int) *Lit {
		if l.K == "null" {
			return &Lit{K: "var", S: "nul"}
		}
		if depth > 0 && !hasNull(l) && r.Chance(25+10*depth) {
			name := fmt.Sprintf("e%d", n)
			n++
			d := VarDef{Name: name}
			switch r.Intn(4) {
			case 0:
				d.Default = deNull(l)
			case 1:
				d.Default = deNull(l)
				s.Vars[name] = nil
			case 2:
				d.Default = decoy(l)
				s.Vars[name] = toJSON(l, r.Bool())
			default:
				s.Vars[name] = toJSON(l, r.Bool())
			}
			s.Defs = append(s.Defs, d)
			return &Lit{K: "var", S: name}
		}
		switch l.K {
		case "list":
			c := &Lit{K: "list", L: []*Lit{}}
			for _, e := range l.L {
				c.L = append(c.L, cut(e, depth+1))
			}
			return c
		case "obj":
			c := &Lit{K: "obj"}
			for _, f := range l.O {
				if f.V.K == "null" {
					continue
				}
				c.O = append(c.O, LField{f.N, cut(f.V, depth+1)})
			}
			return c
		}
		return l.clone()
	}
	s.Args = cut(w, 0).O
	return s
}

// sendDefault: every top-level argument through a variable whose default is the value; nothing (or null) supplied.
func sendDefault(r *vh.Rng, w *Lit, nonNull bool) Send {
	s := Send{Transport: "default", Vars: map[string]interface{}{}, Defs: []VarDef{{Name: "nul"}}}
	for i, f := range w.O {
		name := fmt.Sprintf("d%d", i)
		s.Args = append(s.Args, LField{f.N, &Lit{K: "var", S: name}})
		if f.V.K == "null" {
			s.Defs = append(s.Defs, VarDef{Name: name})
			continue
		}
		if hasNull(f.V) { // default values are constants: a null inside cannot be written; bind the variable instead
			s.Defs = append(s.Defs, VarDef{Name: name})
			s.Vars[name] = toJSON(f.V, r.Bool())
			continue
		}
		s.Defs = append(s.Defs, VarDef{Name: name, Default: deNull(f.V), NonNull: nonNull})
		if r.Chance(30) {
			s.Vars[name] = nil // explicit null: the default still applies
		}
	}
	if nonNull {
		s.Transport = "default-on-required"
	}
	return s
}

// sendOverride: defaults carry another value (w2); the variables supply w.
func sendOverride(r *vh.Rng, w, w2 *Lit) Send {
	s := Send{Transport: "default-overridden", Vars: map[string]interface{}{}, Defs: []VarDef{{Name: "nul"}}}
	for i, f := range w.O {
		name := fmt.Sprintf("o%d", i)
		s.Args = append(s.Args, LField{f.N, &Lit{K: "var", S: name}})
		d := VarDef{Name: name}
		if w2.O[i].V.K != "null" && !hasNull(w2.O[i].V) {
			d.Default = deNull(w2.O[i].V)
		}
		if f.V.K == "null" {
			d.Default = nil // a null cannot override a default: leave the variable without one
		} else {
			s.Vars[name] = toJSON(f.V, r.Bool())
		}
		s.Defs = append(s.Defs, d)
	}
	return s
}

// hasNull: a null inside a list (it would have to be written as a variable).
func hasNull(l *Lit) bool {
	for _, e := range l.L {
		if e.K == "null" || hasNull(e) {
			return true
		}
	}
	for _, f := range l.O {
		if hasNull(f.V) {
			return true
		}
	}
	return false
}

func (s *Send) query() string { return s.document("query", "Query") }

// document renders the request as a query or as a mutation (websocket "mutate" messages).
func (s *Send) document(op, root string) string {
	var b strings.Builder
	b.WriteString(op + " Q")
	if len(s.Defs) > 0 {
		xs := []string{}
		for _, d := range s.Defs {
			t := "$" + d.Name + ": X"
			if d.NonNull {
				t += "!"
			}
			if d.Default != nil {
				t += " = " + d.Default.text()
			}
			xs = append(xs, t)
		}
		b.WriteString("(" + strings.Join(xs, ", ") + ")")
	}
	fieldText := func(alias string, args []LField) string {
		field := "f"
		if alias != "" {
			field = alias + ": f"
		}
		if len(args) > 0 {
			xs := []string{}
			for _, a := range args {
				xs = append(xs, a.N+": "+a.V.text())
			}
			field += "(" + strings.Join(xs, ", ") + ")"
		}
		return field
	}
	if len(s.Sels) > 0 {
		body, frags := " { g(x: 1)", ""
		for k, sel := range s.Sels {
			switch sel.Place {
			case "fragment":
				body += fmt.Sprintf(" ...Fr%d", k)
				frags += fmt.Sprintf("\nfragment Fr%d on %s { %s }", k, root, fieldText(sel.Alias, sel.Args))
			case "inline":
				body += " ... on " + root + " { " + fieldText(sel.Alias, sel.Args) + " }"
			default:
				body += " " + fieldText(sel.Alias, sel.Args)
			}
		}
		b.WriteString(body + " }" + frags)
		return b.String()
	}
	field := fieldText("", s.Args)
	if s.Paginated {
		field = "p" + strings.TrimPrefix(fieldText("", append(append([]LField{}, s.Conn...), s.Args...)), "f") + " { totalCount }"
	}
	switch s.Place {
	case "fragment":
		b.WriteString(" { g(x: 1) ...Fr }\nfragment Fr on " + root + " { " + field + " }")
	case "inline":
		b.WriteString(" { g(x: 1) ... on " + root + " { " + field + " } }")
	default:
		b.WriteString(" { g(x: 1) " + field + " }")
	}
	return b.String()
}

// ---- mutations (malformed stream) ----

type node struct {
	get    func() *Lit
	set    func(*Lit)
	ty     *MTy // declared type at this position (with opt/ptr wrappers)
	inList bool
}

func collect(w *Lit, m *MTy, get func() *Lit, set func(*Lit), inList bool, out *[]node) {
	*out = append(*out, node{get, set, m, inList})
	b := m.base()
	switch {
	case w.K == "list" && b.K == "list":
		for i := range w.L {
			i := i
			collect(w.L[i], b.Elem, func() *Lit { return w.L[i] }, func(n *Lit) { w.L[i] = n }, true, out)
		}
	case w.K == "obj" && b.K == "struct":
		for i := range w.O {
			i := i
			var ft *MTy
			for _, f := range b.Fields {
				if f.Name == w.O[i].N {
					ft = f.T
				}
			}
			if ft != nil {
				collect(w.O[i].V, ft, func() *Lit { return w.O[i].V }, func(n *Lit) { w.O[i].V = n }, false, out)
			}
		}
	}
}

var mutationClasses = []string{"wrong-kind", "wrong-kind", "wrong-kind", "null-for-required", "null-for-required", "unknown-enum",
	"bad-base64", "bad-time", "bad-text", "int-out-of-range", "int-out-of-range", "int-fractional", "f32-unrepresentable",
	"unknown-field", "duplicate-field", "default-on-required", "noncanonical-base64", "look-alike", "all-omitted", "all-omitted", "bad-connection-arg"}

var badTimes = []string{"", "garbage", "2020-01-02", "2020-01-02T03:04:05", "2020-01-02 03:04:05Z", "2020-01-02t03:04:05Z",
	"2020-01-02T03:04:05z", "2020-13-02T03:04:05Z", "2020-00-02T03:04:05Z", "2020-01-00T03:04:05Z", "2020-01-32T03:04:05Z",
	"2020-02-30T03:04:05Z", "2021-02-29T03:04:05Z", "2020-04-31T03:04:05Z", "2020-01-02T24:04:05Z", "2020-01-02T03:60:05Z",
	"2020-01-02T03:04:60Z", "2020-01-02T03:04:05+25:00", "2020-01-02T03:04:05+05:3", "2020-01-02T03:04:05Z ", "2020-01-02T03:04:05.Z",
	"20-01-02T03:04:05Z", "2020-1-2T03:04:05Z", "2020-01-02T03:04Z", "1577934245", "2020-01-02T03:04:05+0530", "2020-01-02T03:04:05+05:61"}

var badB64 = []string{"!!!!", "QQ", "QQ=", "Q", "QQ==QQ==", "QUJD=", "=QQQ", "QQ=Q", "Q===", "QUJDRA", "QUJ D", "QUJD====", "QU-_"}

func wrongKind(r *vh.Rng, b *MTy) *Lit {
	var opts []*Lit
	switch b.K {
	case "bool":
		opts = []*Lit{{K: "int", I: "1"}, {K: "str", S: "true"}, {K: "list", L: []*Lit{{K: "bool", B: true}}}, {K: "obj", O: []LField{{"zz", &Lit{K: "bool", B: true}}}}}
	case "int", "f32", "f64":
		opts = []*Lit{{K: "str", S: "5"}, {K: "bool", B: true}, {K: "list", L: []*Lit{{K: "int", I: "5"}}}, {K: "obj", O: []LField{{"zz", &Lit{K: "int", I: "5"}}}}, {K: "enum", S: "FIVE"}}
	case "string", "bytes", "time", "text", "enum":
		opts = []*Lit{{K: "int", I: "7"}, {K: "bool", B: false}, {K: "float", F: 1.5}, {K: "list", L: []*Lit{{K: "str", S: "x"}}}, {K: "obj", O: []LField{{"zz", &Lit{K: "str", S: "x"}}}}}
	case "list":
		opts = []*Lit{{K: "int", I: "3"}, {K: "str", S: "x"}, {K: "bool", B: true}, {K: "obj", O: []LField{{"zz", &Lit{K: "int", I: "1"}}}}}
	case "struct":
		opts = []*Lit{{K: "int", I: "3"}, {K: "str", S: "x"}, {K: "bool", B: true}, {K: "list", L: []*Lit{}}}
	}
	return opts[r.Intn(len(opts))]
}

func outOfRange(r *vh.Rng, ik string) *Lit {
	lo, hi := bigOf(intRange[ik][0]), bigOf(intRange[ik][1])
	pow := func(k uint) *big.Int { return new(big.Int).Lsh(big.NewInt(1), k) }
	neg := func(z *big.Int) *big.Int { return new(big.Int).Neg(z) }
	add := func(z *big.Int, k int64) *big.Int { return new(big.Int).Add(z, big.NewInt(k)) }
	cands := []*big.Int{add(hi, 1), add(lo, -1), add(hi, int64(1+r.Intn(1000))), add(lo, -int64(1+r.Intn(1000))),
		add(pow(31), -1), pow(31), add(pow(31), 1), neg(add(pow(31), 1)), add(pow(32), 5), big.NewInt(3000000000), big.NewInt(-3000000000),
		add(pow(53), 1), add(pow(53), 2), add(pow(53), 3), neg(add(pow(53), 1)), add(pow(62), 12345), add(pow(63), -1), add(pow(63), -513),
		neg(pow(63)), pow(63), add(pow(63), 4096), pow(64), add(pow(64), 1<<20), neg(add(pow(63), 4096)),
		new(big.Int).SetUint64(r.U64()), neg(new(big.Int).SetUint64(r.U64() >> 1))}
	var ok []*big.Int
	for _, c := range cands {
		if c.Cmp(lo) < 0 || c.Cmp(hi) > 0 || new(big.Int).Abs(c).Cmp(two53) > 0 {
			ok = append(ok, c)
		}
	}
	c := ok[r.Intn(len(ok))]
	switch r.Intn(10) {
	case 0:
		return &Lit{K: "float", F: []float64{1e19, -1e19, 1.5e19, 1e300, -1e300, 1.8e19, 1.9e19, 3e9 + 0.5, -3e9 - 0.5}[r.Intn(9)]}
	case 1, 2:
		f, _ := new(big.Float).SetInt(c).Float64()
		return &Lit{K: "float", F: f}
	}
	return &Lit{K: "int", I: c.String()}
}

// mutate applies one mutation of class cls to the wire tree w (type top); ok=false when no position fits.
func mutate(r *vh.Rng, cls string, w *Lit, top *MTy) (expect string, noEquiv bool, ok bool) {
	var nodes []node
	for i := range w.O {
		i := i
		collect(w.O[i].V, top.Fields[i].T, func() *Lit { return w.O[i].V }, func(n *Lit) { w.O[i].V = n }, false, &nodes)
	}
	pick := func(pred func(n node) bool) *node {
		var c []node
		for _, n := range nodes {
			if pred(n) {
				c = append(c, n)
			}
		}
		if len(c) == 0 {
			return nil
		}
		return &c[r.Intn(len(c))]
	}
	present := func(n node) bool { return n.get().K != "null" }
	baseIs := func(ks ...string) func(n node) bool {
		return func(n node) bool {
			if !present(n) {
				return false
			}
			for _, k := range ks {
				if n.ty.base().K == k {
					return true
				}
			}
			return false
		}
	}
	switch cls {
	case "wrong-kind":
		n := pick(present)
		if n == nil {
			return
		}
		n.set(wrongKind(r, n.ty.base()))
		return "reject", false, true
	case "null-for-required":
		n := pick(func(n node) bool { return n.ty.required() })
		if n == nil {
			return
		}
		n.set(&Lit{K: "null"})
		return "reject", false, true
	case "unknown-enum":
		n := pick(baseIs("enum"))
		if n == nil {
			return
		}
		n.set(&Lit{K: []string{"enum", "str"}[r.Intn(2)], S: []string{"PURPLE", "red", "", "FAST ", "1"}[r.Intn(5)]})
		if n.get().K == "enum" && (n.get().S == "" || strings.Contains(n.get().S, " ") || n.get().S == "1") {
			n.get().K = "str"
		}
		return "reject", false, true
	case "bad-base64", "noncanonical-base64":
		n := pick(baseIs("bytes"))
		if n == nil {
			return
		}
		if cls == "noncanonical-base64" {
			n.set(&Lit{K: "str", S: []string{"QR==", "QUF=", "QUJDQf=="}[r.Intn(3)]})
			return "any", false, true
		}
		n.set(&Lit{K: "str", S: r.Pick(badB64)})
		return "reject", false, true
	case "bad-time":
		n := pick(baseIs("time"))
		if n == nil {
			return
		}
		n.set(&Lit{K: "str", S: r.Pick(badTimes)})
		return "reject", false, true
	case "bad-text":
		n := pick(baseIs("text"))
		if n == nil {
			return
		}
		n.set(&Lit{K: "str", S: []string{"", "tu", "TU:x", "x", " tu:x"}[r.Intn(5)]})
		return "reject", false, true
	case "int-out-of-range":
		n := pick(baseIs("int"))
		if n == nil {
			return
		}
		l := outOfRange(r, n.ty.base().IK)
		n.set(l)
		if l.K == "int" && !bigOf(l.I).IsInt64() {
			noEquiv = true
		}
		return "any", noEquiv, true
	case "int-fractional":
		n := pick(baseIs("int"))
		if n == nil {
			return
		}
		n.set(&Lit{K: "float", F: []float64{0.5, -0.5, 1.5, -1.5, 0.99, 1e-3, 2.0000000001, 126.75, -128.9, 255.5, float64(r.Intn(100000)) / 7}[r.Intn(11)]})
		return "any", false, true
	case "f32-unrepresentable":
		n := pick(baseIs("f32"))
		if n == nil {
			return
		}
		m := float64(int64(r.U64()>>11) | 1)
		f := math.Ldexp(m, r.Intn(61)-30-52)
		if r.Chance(25) { // exact ties at 24 bits
			f = math.Ldexp(float64(int64(r.U64()>>40)|1)*2+1, r.Intn(41)-20-24)
		}
		n.set(&Lit{K: "float", F: f})
		return "any", false, true
	case "unknown-field":
		if n := pick(func(n node) bool { return present(n) && n.get().K == "obj" }); n != nil && r.Bool() {
			n.get().O = append(n.get().O, LField{"zzExtra", &Lit{K: "int", I: "1"}})
		} else {
			w.O = append(w.O, LField{"zzExtra", &Lit{K: "int", I: "1"}})
		}
		return "any", false, true
	}
	return
}

// ---- running one request against the implementation ----

type Obs struct {
	Stage  string `json:"stage"` // ok | parse | args | exec | panic | timeout
	Client bool   `json:"client_error"`
	Err    string `json:"err,omitempty"`
	Dump   *Val   `json:"dump,omitempty"`
	CallsF int32  `json:"calls_f"`
	CallsG int32  `json:"calls_g"`
	// Result: the response data (alias -> text the resolver answered), for requests with several selections
	Result map[string]interface{} `json:"result,omitempty"`
	// the same request through graphql.HTTPHandler (the repository's own Parse / PrepareQuery / Execute sequence)
	// Selection.Args after PrepareQuery returned, before Execute (single-selection requests)
	PrepSeen  bool  `json:"prep_seen,omitempty"`
	Prep      *Val  `json:"prep,omitempty"`
	PrepCalls int32 `json:"prep_calls,omitempty"` // resolver calls counted at that moment (must be 0)
	// VarsModified: graphql.Parse changed the caller's variables map (before -> after as JSON)
	VarsModified string `json:"vars_modified,omitempty"`
	HTTPErr      string `json:"http_err,omitempty"`
	HTTPDump     *Val   `json:"http_dump,omitempty"`
	HTTPCallsF   int32  `json:"http_calls_f"`
	HTTPCallsG   int32  `json:"http_calls_g"`
	HTTPStatus   string `json:"http_status,omitempty"` // ok | error | panic | timeout
	// the same request over a JSON socket (graphql/server.go handleSubscribe or handleMutate)
	WSKind   string `json:"ws_kind,omitempty"`   // subscribe | mutate
	WSStatus string `json:"ws_status,omitempty"` // ok | error | panic | timeout
	WSErr    string `json:"ws_err,omitempty"`
	WSDump   *Val   `json:"ws_dump,omitempty"`
	WSCallsF int32  `json:"ws_calls_f"`
	WSCallsG int32  `json:"ws_calls_g"`
}

type built struct {
	schema *graphql.Schema
	rt     reflect.Type
	mty    *MTy
	got    *reflect.Value
	callsF *int32
	callsG *int32
	callsN *int32
}

func build(td *TyDesc) (b *built, err error) {
	defer func() {
		if e := recover(); e != nil {
			err = fmt.Errorf("panic building schema: %v", e)
		}
	}()
	rt := td.reflectType()
	b = &built{rt: rt, got: new(reflect.Value), callsF: new(int32), callsG: new(int32), callsN: new(int32)}
	sb := schemabuilder.NewSchema()
	for _, e := range enums {
		sb.Enum(e.zero, e.mp)
	}
	q := sb.Query()
	strT := reflect.TypeOf("")
	fn := reflect.MakeFunc(reflect.FuncOf([]reflect.Type{rt}, []reflect.Type{strT}, false), func(in []reflect.Value) []reflect.Value {
		atomic.AddInt32(b.callsF, 1)
		*b.got = in[0]
		return []reflect.Value{reflect.ValueOf(dumpText(in[0], b.mty))}
	})
	sb.Object("Item", Item{}).Key("id")
	pfn := reflect.MakeFunc(reflect.FuncOf([]reflect.Type{rt}, []reflect.Type{reflect.TypeOf([]Item{})}, false), func(in []reflect.Value) []reflect.Value {
		atomic.AddInt32(b.callsF, 1)
		*b.got = in[0]
		return []reflect.Value{reflect.ValueOf([]Item{{Id: 1}, {Id: 2}, {Id: 3}})}
	})
	q.FieldFunc("f", fn.Interface())
	q.FieldFunc("p", pfn.Interface(), schemabuilder.Paginated)
	q.FieldFunc("g", func(args struct{ X int32 }) int32 {
		atomic.AddInt32(b.callsG, 1)
		return args.X
	})
	// n has no argument struct: its ParseArguments is nilParseArguments
	q.FieldFunc("n", func() int32 {
		atomic.AddInt32(b.callsN, 1)
		return 7
	})
	mu := sb.Mutation()
	mu.FieldFunc("f", fn.Interface())
	mu.FieldFunc("p", pfn.Interface(), schemabuilder.Paginated)
	mu.FieldFunc("g", func(args struct{ X int32 }) int32 {
		atomic.AddInt32(b.callsG, 1)
		return args.X
	})
	s, err := sb.Build()
	if err != nil {
		return nil, err
	}
	b.schema = s
	b.mty = mtyOf(rt)
	return b, nil
}

// dumpText is what the resolver answers: the canonical dump of the argument it was called with.
func dumpText(rv reflect.Value, m *MTy) (out string) {
	defer func() {
		if e := recover(); e != nil {
			out = "dump-panic: " + fmt.Sprint(e)
		}
	}()
	return js(dump(rv, m))
}

func isClient(err error) bool {
	_, ok := err.(graphql.ClientError)
	return ok
}

// exec follows graphql/http.go: Parse, PrepareQuery, then Execute.
func (b *built) exec(s *Send) (o Obs) { return b.execWith(s, nil) }

// execWith: shared != nil is the caller's variables map, used as it is (and possibly used before by earlier operations)
func (b *built) execWith(s *Send, shared map[string]interface{}) (o Obs) {
	*b.callsF, *b.callsG = 0, 0
	*b.got = reflect.Value{}
	done := make(chan Obs, 1)
	go func() {
		var o Obs
		defer func() {
			if e := recover(); e != nil {
				o = Obs{Stage: "panic", Err: fmt.Sprint(e)}
			}
			o.CallsF, o.CallsG = atomic.LoadInt32(b.callsF), atomic.LoadInt32(b.callsG)
			done <- o
		}()
		// variables arrive through encoding/json, as in the HTTP and websocket handlers
		var vars map[string]interface{}
		if shared != nil {
			vars = shared
		} else if s.Vars != nil {
			raw, _ := json.Marshal(s.Vars)
			json.Unmarshal(raw, &vars)
		}
		before := js(vars)
		q, err := graphql.Parse(s.query(), vars)
		modified := ""
		if after := js(vars); after != before {
			modified = before + " -> " + after
		}
		defer func() { o.VarsModified = modified }()
		if err != nil {
			o = Obs{Stage: "parse", Client: isClient(err), Err: err.Error()}
			return
		}
		ctx, cancel := context.WithTimeout(context.Background(), 5*time.Second)
		defer cancel()
		if err := graphql.PrepareQuery(ctx, b.schema.Query, q.SelectionSet); err != nil {
			o = Obs{Stage: "args", Client: isClient(err), Err: err.Error()}
			return
		}
		// what PrepareQuery stored in the selection, before anything executes
		var prep *Val
		prepSeen := false
		prepCalls := atomic.LoadInt32(b.callsF) + atomic.LoadInt32(b.callsG)
		if len(s.Sels) == 0 {
			name := "f"
			if s.Paginated {
				name = "p"
			}
			var vals []reflect.Value
			prepared(q.SelectionSet, name, b.rt, &vals)
			if len(vals) == 1 && vals[0].IsValid() {
				prepSeen, prep = true, dump(vals[0], b.mty)
			}
		}
		e := graphql.NewExecutor(graphql.NewImmediateGoroutineScheduler())
		res, err := e.Execute(ctx, b.schema.Query, nil, q)
		if err != nil {
			o = Obs{Stage: "exec", Client: isClient(err), Err: err.Error()}
			return
		}
		o = Obs{Stage: "ok", PrepSeen: prepSeen, Prep: prep, PrepCalls: prepCalls}
		if len(s.Sels) > 0 {
			raw, _ := json.Marshal(res)
			json.Unmarshal(raw, &o.Result)
		}
		if b.got.IsValid() {
			o.Dump = dump(*b.got, b.mty)
		}
	}()
	select {
	case o = <-done:
	case <-time.After(10 * time.Second):
		o = Obs{Stage: "timeout"}
	}
	return o
}

// viaHTTP posts the request to graphql.HTTPHandler.
func (b *built) viaHTTP(s *Send, o *Obs) {
	*b.callsF, *b.callsG = 0, 0
	*b.got = reflect.Value{}
	type res struct {
		status, err string
		dump        *Val
	}
	done := make(chan res, 1)
	go func() {
		var r res
		defer func() {
			if e := recover(); e != nil {
				r = res{status: "panic", err: fmt.Sprint(e)}
			}
			done <- r
		}()
		body, _ := json.Marshal(map[string]interface{}{"query": s.query(), "variables": s.Vars})
		req := httptest.NewRequest("POST", "/graphql", bytes.NewReader(body))
		rec := httptest.NewRecorder()
		graphql.HTTPHandler(b.schema).ServeHTTP(rec, req)
		var resp struct {
			Data   interface{} `json:"data"`
			Errors []string    `json:"errors"`
		}
		if err := json.Unmarshal(rec.Body.Bytes(), &resp); err != nil {
			r = res{status: "error", err: "bad response: " + rec.Body.String()}
			return
		}
		if len(resp.Errors) > 0 {
			r = res{status: "error", err: strings.Join(resp.Errors, "; ")}
			return
		}
		r = res{status: "ok"}
		if b.got.IsValid() {
			r.dump = dump(*b.got, b.mty)
		}
	}()
	select {
	case r := <-done:
		o.HTTPStatus, o.HTTPErr, o.HTTPDump = r.status, r.err, r.dump
	case <-time.After(10 * time.Second):
		o.HTTPStatus = "timeout"
	}
	o.HTTPCallsF, o.HTTPCallsG = atomic.LoadInt32(b.callsF), atomic.LoadInt32(b.callsG)
}

// fakeSocket is an in-process graphql.JSONSocket.
type fakeSocket struct {
	in     chan []byte
	out    chan []byte
	closed chan struct{}
	once   sync.Once
}

func newFakeSocket() *fakeSocket {
	return &fakeSocket{in: make(chan []byte, 4), out: make(chan []byte, 16), closed: make(chan struct{})}
}
func (s *fakeSocket) ReadJSON(v interface{}) error {
	select {
	case b := <-s.in:
		return json.Unmarshal(b, v)
	case <-s.closed:
		return &websocket.CloseError{Code: websocket.CloseNormalClosure}
	}
}
func (s *fakeSocket) WriteJSON(v interface{}) error {
	b, err := json.Marshal(v)
	if err != nil {
		return err
	}
	select {
	case s.out <- b:
	case <-s.closed:
	}
	return nil
}
func (s *fakeSocket) Close() error {
	s.once.Do(func() { close(s.closed) })
	return nil
}

// viaWS sends the request over a JSON socket as a subscription (query) or as a mutation and waits for the
// first answer carrying its id.
func (b *built) viaWS(s *Send, mutate bool, o *Obs) {
	*b.callsF, *b.callsG = 0, 0
	*b.got = reflect.Value{}
	o.WSKind = "subscribe"
	doc := s.query()
	if mutate {
		o.WSKind = "mutate"
		doc = s.document("mutation", "Mutation")
	}
	ctx, cancel := context.WithCancel(context.Background())
	sock := newFakeSocket()
	conn := graphql.CreateConnection(ctx, sock, b.schema, graphql.WithMinRerunInterval(time.Hour))
	served := make(chan string, 1)
	go func() {
		defer func() {
			if e := recover(); e != nil {
				served <- fmt.Sprint(e)
				return
			}
			served <- ""
		}()
		conn.ServeJSONSocket()
	}()
	msg, _ := json.Marshal(map[string]interface{}{"query": doc, "variables": s.Vars})
	env, _ := json.Marshal(map[string]interface{}{"id": "1", "type": o.WSKind, "message": json.RawMessage(msg)})
	sock.in <- env
	deadline := time.After(10 * time.Second)
wait:
	for {
		select {
		case raw := <-sock.out:
			var out struct {
				ID      string      `json:"id"`
				Type    string      `json:"type"`
				Message interface{} `json:"message"`
			}
			if json.Unmarshal(raw, &out) != nil || out.ID != "1" {
				continue
			}
			switch out.Type {
			case "error":
				o.WSStatus, o.WSErr = "error", fmt.Sprint(out.Message)
			case "update", "result":
				o.WSStatus = "ok"
				if b.got.IsValid() {
					o.WSDump = dump(*b.got, b.mty)
				}
			default:
				continue
			}
			break wait
		case p := <-served:
			o.WSStatus, o.WSErr = "panic", "connection ended: "+p
			break wait
		case <-deadline:
			o.WSStatus = "timeout"
			break wait
		}
	}
	if o.WSStatus == "error" {
		// the handlers compute asynchronously (reactive.Rerunner): give a resolver that should never have been
		// started a moment to show up before the connection is torn down
		for i := 0; i < 10 && atomic.LoadInt32(b.callsF)+atomic.LoadInt32(b.callsG) == 0; i++ {
			time.Sleep(500 * time.Microsecond)
		}
	}
	o.WSCallsF, o.WSCallsG = atomic.LoadInt32(b.callsF), atomic.LoadInt32(b.callsG)
	cancel()
	sock.Close()
}

func js(v interface{}) string {
	b, _ := json.Marshal(v)
	return string(b)
}

func nonZero(v *Val, m *MTy) bool { return !valEq(v, zeroVal(m)) }

// search mode pins the argument type (and possibly the class) of the cases genCase makes
var fixedTy *TyDesc
var fixedClass string

func pickTop(r *vh.Rng) *TyDesc {
	if fixedTy != nil {
		return fixedTy
	}
	return genTop(r)
}

var badConn = [][]LField{
	{{"first", &Lit{K: "str", S: "2"}}}, {{"last", &Lit{K: "float", F: 1.5}}, {"first", &Lit{K: "bool", B: true}}},
	{{"sortOrder", &Lit{K: "enum", S: "sideways"}}}, {{"filterTextFields", &Lit{K: "str", S: "name"}}}, {{"after", &Lit{K: "int", I: "3"}}},
}

// randomPaginated sends some requests to the paginated field p, with or without connection arguments.
func randomPaginated(r *vh.Rng, c *Case, pct int) {
	if c.Class == "look-alike" {
		return
	}
	for k := range c.Sends {
		s := &c.Sends[k]
		if c.Class == "bad-connection-arg" {
			s.Paginated, s.Conn = true, badConn[r.Intn(len(badConn))]
			continue
		}
		if !r.Chance(pct) {
			continue
		}
		s.Paginated = true
		switch r.Intn(5) {
		case 0, 1:
		case 2:
			s.Conn = []LField{{"first", &Lit{K: "int", I: fmt.Sprint(r.Intn(5))}}}
		case 3:
			s.Conn = []LField{{"first", &Lit{K: "int", I: fmt.Sprint(1 + r.Intn(3))}}, {"sortOrder", &Lit{K: "enum", S: "desc"}}}
		default:
			s.Conn = []LField{{"filterTextFields", &Lit{K: "list", L: []*Lit{}}}, {"last", &Lit{K: "int", I: fmt.Sprint(r.Intn(4))}}}
		}
	}
}

func randomPlaces(r *vh.Rng, c *Case, fragPct, inlinePct int) {
	for k := range c.Sends {
		switch p := r.Intn(100); {
		case p < fragPct:
			c.Sends[k].Place = "fragment"
		case p < fragPct+inlinePct:
			c.Sends[k].Place = "inline"
		}
	}
}

// wireOf rebuilds the wire form of a case from its literal send ($nul stands for null).
func wireOf(c *Case) *Lit {
	for _, s := range c.Sends {
		if s.Transport != "literal" {
			continue
		}
		var un func(l *Lit) *Lit
		un = func(l *Lit) *Lit {
			if l.K == "var" {
				return &Lit{K: "null"}
			}
			n := l.clone()
			for i := range n.L {
				n.L[i] = un(n.L[i])
			}
			for i := range n.O {
				n.O[i].V = un(n.O[i].V)
			}
			return n
		}
		w := &Lit{K: "obj"}
		for _, a := range s.Args {
			w.O = append(w.O, LField{a.N, un(a.V)})
		}
		return w
	}
	return nil
}

// searchVariant makes one variant of a disagreeing case: the same wire value through every transport and place,
// a fresh boundary-hugging value of the same argument type, or such a value with one mutation.
func searchVariant(r *vh.Rng, seeds []Case) Case {
	fixedTy, fixedClass = nil, ""
	if len(seeds) == 0 {
		c := genCase(r)
		c.Origin = "search-fresh"
		randomPlaces(r, &c, 30, 20)
		return c
	}
	sd := seeds[r.Intn(len(seeds))]
	if sd.Class == "build" {
		c := genBuildCase(r)
		c.Origin = "search-build"
		return c
	}
	k := r.Intn(10)
	if k < 4 && sd.Class != "duplicate-field" && sd.Class != "default-on-required" {
		if w := wireOf(&sd); w != nil {
			m := mtyOf(sd.Ty.reflectType())
			c := Case{Ty: sd.Ty, Class: sd.Class, Expect: sd.Expect, Sent: sd.Sent, NoEquiv: sd.NoEquiv, Origin: "search-rerender"}
			c.Sends = append(c.Sends, sendLiteral(w), sendVariable(r, w), sendNested(r, w), sendVariable(r, w), sendNested(r, w))
			hasNullTop := false
			for _, f := range w.O {
				if f.V.K == "null" {
					hasNullTop = true
				}
			}
			if !(sd.Class == "null-for-required" && hasNullTop) {
				c.Sends = append(c.Sends, sendDefault(r, w, false))
			}
			c.Sends = append(c.Sends, sendNestedDefault(r, w), sendNestedDefault(r, w))
			if sd.Expect == "echo" && len(w.O) == len(m.Fields) {
				_, w2 := genVal(r, m, 2)
				c.Sends = append(c.Sends, sendOverride(r, w, w2))
			}
			randomPlaces(r, &c, 30, 20)
			return c
		}
	}
	fixedTy = sd.Ty
	if k < 7 {
		fixedClass = "valid"
	} else if sd.Class != "valid" && r.Chance(60) {
		fixedClass = sd.Class
	} else {
		fixedClass = "malformed"
	}
	c := genCase(r)
	fixedTy, fixedClass = nil, ""
	c.Origin = "search-retyped"
	randomPlaces(r, &c, 30, 20)
	return c
}

// ---- look-alikes: one request, the field selected several times with arguments that print the same ----

var forceString = "" // when set, every string-typed leaf genString makes is this text

// lookAlikePairs: (string, the non-string JSON value whose fmt %v form is that string)
var lookAlikePairs = []struct {
	s string
	w *Lit
}{
	{"1", &Lit{K: "int", I: "1"}}, {"-7", &Lit{K: "int", I: "-7"}}, {"2.5", &Lit{K: "float", F: 2.5}}, {"1e+21", &Lit{K: "float", F: 1e21}},
	{"true", &Lit{K: "bool", B: true}}, {"false", &Lit{K: "bool", B: false}},
	{"[1 2]", &Lit{K: "list", L: []*Lit{{K: "int", I: "1"}, {K: "int", I: "2"}}}}, {"[]", &Lit{K: "list", L: []*Lit{}}},
	{"[a b]", &Lit{K: "list", L: []*Lit{{K: "str", S: "a"}, {K: "str", S: "b"}}}},
	{"map[a:1]", &Lit{K: "obj", O: []LField{{"a", &Lit{K: "int", I: "1"}}}}}, {"<nil>", &Lit{K: "null"}},
}

func cloneW(w *Lit) *Lit { return w.clone() }

// selsFor renders one wire value as the arguments of a selection, as literals or through variables of its own.
func selArgs(r *vh.Rng, s *Send, k int, w *Lit, viaVars bool) []LField {
	if !viaVars {
		return deNull(w).O
	}
	var args []LField
	for i, f := range w.O {
		name := fmt.Sprintf("s%dv%d", k, i)
		s.Defs = append(s.Defs, VarDef{Name: name})
		args = append(args, LField{f.N, &Lit{K: "var", S: name}})
		if f.V.K == "null" && r.Bool() {
			continue
		}
		s.Vars[name] = toJSON(f.V, r.Bool())
	}
	return args
}

// genLookAlike: a valid argument set and a twin that differs at one position by the JSON kind only - the twin's value
// at that position prints (fmt %v) exactly like the valid one.  The twins are selected in one request in both orders,
// as literals and through variables, at random places.
func genLookAlike(r *vh.Rng) Case {
	defer func() { forceString = "" }()
	for {
		forceString = ""
		stringSide := r.Chance(45)
		pair := lookAlikePairs[r.Intn(len(lookAlikePairs))]
		if stringSide {
			forceString = pair.s
		}
		td := pickTop(r)
		nilTwin := !stringSide && r.Chance(25)
		if nilTwin { // a nil pointer to string and the string "<nil>": both valid, different values
			td = &TyDesc{K: "struct", Fields: append(append([]FieldDesc{}, td.Fields...), FieldDesc{Name: "zs", T: &TyDesc{K: "ptr", Elem: &TyDesc{K: "scalar", Name: "string"}}})}
		}
		m := mtyOf(td.reflectType())
		v, w := genVal(r, m, 2)
		forceString = ""
		w2 := cloneW(w)
		var v2 *Val // nil: the twin is refused
		if nilTwin {
			i := len(w.O) - 1
			w.O[i].V, w2.O[i].V = &Lit{K: "null"}, &Lit{K: "str", S: "<nil>"}
			v.Fs[i].V = &Val{K: "nil"}
			cp := *v
			cp.Fs = append([]VField{}, v.Fs...)
			cp.Fs[i].V = &Val{K: "ptr", P: &Val{K: "str", S: "<nil>"}}
			v2 = &cp
		} else {
			var nodes []node
			for i := range w2.O {
				i := i
				collect(w2.O[i].V, m.Fields[i].T, func() *Lit { return w2.O[i].V }, func(n *Lit) { w2.O[i].V = n }, false, &nodes)
			}
			var cand []node
			for _, n := range nodes {
				g := n.get()
				bk := n.ty.base().K
				switch {
				case stringSide && g.K == "str" && bk == "string" && g.S == pair.s && (pair.w.K != "null" || n.ty.required()):
					cand = append(cand, n) // a string -> the value that prints like it (wrong kind for a string argument)
				case !stringSide && g.K == "null" && bk != "string":
					cand = append(cand, n) // nil -> "<nil>" where no string is accepted... or is not a valid one
				case !stringSide && g.K != "null" && g.K != "str" && g.K != "enum":
					cand = append(cand, n) // number / bool / list / object -> the string that prints like it
				}
			}
			if len(cand) == 0 {
				continue
			}
			n := cand[r.Intn(len(cand))]
			if stringSide {
				n.set(pair.w.clone())
			} else {
				txt := fmt.Sprint(toJSON(n.get(), true))
				if n.get().K == "null" && (n.ty.base().K == "text" || n.ty.base().K == "bytes" || n.ty.base().K == "time" || n.ty.base().K == "enum") {
					txt = "<nil>"
				}
				n.set(&Lit{K: "str", S: txt})
			}
		}
		c := Case{Ty: td, Class: "look-alike", Expect: "any", Sent: v}
		mk := func(order []int, viaVars bool, extra bool) Send {
			s := Send{Transport: "look-alike-literal", Defs: []VarDef{{Name: "nul"}}, Vars: map[string]interface{}{}}
			if viaVars {
				s.Transport = "look-alike-variable"
			}
			ws := []*Lit{w, w2}
			vs := []*Val{v, v2}
			if extra {
				order = append([]int{0}, order...)
			}
			for k, which := range order {
				sel := Sel{Alias: fmt.Sprintf("s%d", k), Expect: "echo", Sent: vs[which]}
				if vs[which] == nil {
					sel.Expect = "reject"
				}
				sel.Args = selArgs(r, &s, k, ws[which], viaVars)
				switch p := r.Intn(100); {
				case p < 25:
					sel.Place = "fragment"
				case p < 40:
					sel.Place = "inline"
				}
				s.Sels = append(s.Sels, sel)
			}
			return s
		}
		c.Sends = append(c.Sends, mk([]int{0, 1}, false, false), mk([]int{1, 0}, false, false), mk([]int{0, 1}, true, false), mk([]int{1, 0}, true, false),
			mk([]int{0, 1}, r.Bool(), true), mk([]int{0, 0}, r.Bool(), false))
		return c
	}
}

func genCase(r *vh.Rng) Case {
	if fixedClass == "build" || (fixedClass == "" && r.Chance(9)) {
		return genBuildCase(r)
	}
	if fixedClass == "shared-variables" || (fixedClass == "" && r.Chance(6)) {
		if c, ok := genSharedVars(r); ok {
			return c
		}
	}
	if fixedClass == "" && r.Chance(12) {
		return genLookAlike(r)
	}
	if fixedClass == "valid" || (fixedClass == "" && !r.Chance(30)) {
		td := pickTop(r)
		m := mtyOf(td.reflectType())
		v, w := genVal(r, m, 2)
		c := Case{Ty: td, Class: "valid", Expect: "echo", Sent: v}
		c.Sends = append(c.Sends, sendLiteral(w), sendVariable(r, w), sendNested(r, w), sendDefault(r, w, false))
		_, w2 := genVal(r, m, 2)
		c.Sends = append(c.Sends, sendOverride(r, w, w2), sendNestedDefault(r, w))
		return c
	}
	cls := r.Pick(mutationClasses)
	if fixedClass != "" && fixedClass != "malformed" {
		cls = fixedClass
	}
	if cls == "look-alike" {
		return genLookAlike(r)
	}
	for try := 0; ; try++ {
		if try > 300 {
			cls, try = r.Pick(mutationClasses), 0
			if cls == "look-alike" {
				return genLookAlike(r)
			}
		}
		td := pickTop(r)
		m := mtyOf(td.reflectType())
		_, w := genVal(r, m, 2)
		switch cls {
		case "all-omitted", "bad-connection-arg":
			// no own argument at all: required ones must be refused, the others arrive nil / zero;
			// or: a valid value next to a connection argument of the wrong kind (paginated field only)
			c := Case{Ty: td, Class: cls, Expect: "reject"}
			if cls == "all-omitted" {
				sent, anyRequired := &Val{K: "struct"}, false
				for i, f := range m.Fields {
					w.O[i].V = &Lit{K: "null"}
					switch f.T.K {
					case "ptr":
						sent.Fs = append(sent.Fs, VField{f.Name, &Val{K: "nil"}})
					case "opt":
						sent.Fs = append(sent.Fs, VField{f.Name, zeroVal(f.T.Elem)})
					default:
						anyRequired = true
					}
				}
				if !anyRequired {
					c.Expect, c.Sent = "echo", sent
				}
			}
			c.Sends = append(c.Sends, sendLiteral(w), sendVariable(r, w), sendNested(r, w), sendLiteral(w), sendVariable(r, w))
			return c
		case "default-on-required":
			s := sendDefault(r, w, true)
			has := false
			for _, d := range s.Defs {
				if d.Default != nil {
					has = true
				}
			}
			if !has {
				continue
			}
			return Case{Ty: td, Class: cls, Expect: "reject", Sends: []Send{s}, NoEquiv: true}
		case "duplicate-field":
			s := sendLiteral(w)
			var objs []*Lit
			var walk func(l *Lit)
			walk = func(l *Lit) {
				if l.K == "obj" && len(l.O) > 0 {
					objs = append(objs, l)
				}
				for _, e := range l.L {
					walk(e)
				}
				for _, f := range l.O {
					walk(f.V)
				}
			}
			for _, a := range s.Args {
				walk(a.V)
			}
			if len(objs) > 0 && r.Bool() {
				o := objs[r.Intn(len(objs))]
				o.O = append(o.O, o.O[r.Intn(len(o.O))])
			} else if len(s.Args) > 0 {
				s.Args = append(s.Args, s.Args[r.Intn(len(s.Args))])
			} else {
				continue
			}
			return Case{Ty: td, Class: cls, Expect: "reject", Sends: []Send{s}, NoEquiv: true}
		}
		expect, noEq, ok := mutate(r, cls, w, m)
		if !ok {
			continue
		}
		c := Case{Ty: td, Class: cls, Expect: expect, NoEquiv: noEq}
		c.Sends = append(c.Sends, sendLiteral(w), sendVariable(r, w), sendNested(r, w))
		if cls != "null-for-required" { // a null top-level argument has no default to carry
			c.Sends = append(c.Sends, sendDefault(r, w, false))
		}
		c.Sends = append(c.Sends, sendNestedDefault(r, w))
		return c
	}
}

func main() {
	o := vh.ParseFlags()
	log.SetOutput(ioutil.Discard) // server.go logs every refused request
	run := vh.NewRun("C18", o)
	run.Rule = "cases = (argument struct type, value or mutated wire form) sent through 1-6 transports (literal, variable, nested-variable, default, default-overridden, nested-default: variables with defaults at every depth of the literal, unsupplied / supplied null / supplied); 70% in-range values, 30% malformed (15 mutation classes, among them: no own argument at all, a connection argument of the wrong kind); 25% of the sends go to a paginated twin of the field (schemabuilder.Paginated, same argument struct) with or without connection arguments; 12% look-alike requests (the field selected 2-3 times under aliases, in fragments too, with argument sets that print the same under fmt %v but differ in JSON kind at one position, both orders, literals and variables); 30% of the sends put the field into a named or an inline fragment; every request also goes through graphql.HTTPHandler and over a JSON socket (subscribe or mutate); distinct by JSON text of the case; non-trivial = valid case whose value differs from the zero value of its type, or malformed case (the mutation was applied)"
	r := vh.NewRng(o.Seed)

	var cases []Case
	searching := o.Search != ""
	if searching {
		// failing-input search (oracle only): variants of the cases on which model and implementation disagreed
		boundaryBias, nilChance = true, 45
		var seeds []Case
		if b, err := ioutil.ReadFile(o.Search); err == nil {
			for _, line := range strings.Split(string(b), "\n") {
				var w struct {
					Case Case `json:"case"`
				}
				if strings.TrimSpace(line) != "" && json.Unmarshal([]byte(line), &w) == nil && w.Case.Ty != nil {
					seeds = append(seeds, w.Case)
				}
			}
		}
		for i := 0; i < o.N; i++ {
			cr := r.Fork()
			c := searchVariant(cr, seeds)
			randomPaginated(cr, &c, 35)
			cases = append(cases, c)
		}
	} else if o.Replay != "" {
		var c Case
		if vh.ReadReplayCase(o.Replay, &c) {
			c.Origin = "replay"
			cases = append(cases, c)
		}
	} else {
		for _, f := range vh.CorpusFiles(o.Corpus) {
			var c Case
			if vh.ReadReplayCase(f, &c) {
				c.Origin = "corpus:" + filepath.Base(f)
				cases = append(cases, c)
			}
		}
		for i := 0; i < o.N; i++ {
			cr := r.Fork()
			c := genCase(cr)
			randomPlaces(cr, &c, 20, 10)
			randomPaginated(cr, &c, 25)
			cases = append(cases, c)
		}
	}

	var terms []string
	start := 0
	const shard = 250
	flush := func(end int) {
		if len(terms) == 0 {
			return
		}
		run.WriteCasesV(fmt.Sprintf("cases_%d.v", start), []string{"Lib.Json", "Args.Model", "Args.ModelBuilder", "Args.Check"}, "", "mismatches_from_sparse", 0, terms)
		terms = nil
		start = end
	}

	for idx := range cases {
		c := &cases[idx]
		run.LogCase(idx, c)
		b, err := build(c.Ty)
		gty := rawCoq(c.Ty.reflectType())
		if c.Class == "build" {
			run.Hist("class:" + c.Class)
			run.Hist("build:" + c.What + map[bool]string{true: ":refused", false: ":built"}[err != nil])
			switch {
			case c.Build == "refuse" && err == nil:
				run.Fail(idx, "unsupported-argument-type-accepted", c.What, c)
			case c.Build == "accept" && err != nil:
				run.Fail(idx, "supported-argument-type-refused", c.What+": "+err.Error(), c)
			}
			if err != nil {
				run.Hist("premises:builder-refusal-theorems")
				run.Count(js(c), true)
				if !searching {
					terms = append(terms, fmt.Sprintf("(%d, mk_bcase %s false None [] [])", idx, gty))
					if len(terms) >= shard {
						flush(idx + 1)
					}
				}
				continue
			}
		} else if err != nil {
			run.Fail(idx, "schema-build-failed", err.Error(), c)
			continue
		} else {
			run.Hist("class:" + c.Class)
		}
		for _, f := range b.mty.Fields {
			run.Hist("argtype:" + f.T.shape())
		}
		var obs []Obs
		var sendTerms, multiTerms, prepTerms []string
		var sharedVars map[string]interface{}
		if c.SharedVars && len(c.Sends) > 0 {
			// one map for the whole history, decoded once (all sends of such a case carry the same variables)
			raw, _ := json.Marshal(c.Sends[0].Vars)
			json.Unmarshal(raw, &sharedVars)
			if sharedVars == nil {
				sharedVars = map[string]interface{}{}
			}
			run.Hist("shared-variables-history")
		}
		for k := range c.Sends {
			s := &c.Sends[k]
			ob := b.execWith(s, sharedVars)
			if ob.VarsModified != "" {
				run.Fail(idx, "parse-modified-callers-variables", ob.VarsModified+" "+s.query(), c)
			}
			b.viaHTTP(s, &ob)
			b.viaWS(s, (idx+k)%3 == 0, &ob)
			obs = append(obs, ob)
			run.Hist("transport:" + s.Transport)
			run.Hist("outcome:" + ob.Stage)
			tag := fmt.Sprintf("[%s] %s vars=%s", s.Transport, s.query(), js(s.Vars))
			multi := len(s.Sels) > 0
			wantF := int32(1)
			if multi {
				wantF = int32(len(s.Sels))
			}

			// ---- oracle (implementation only) ----
			switch ob.Stage {
			case "panic":
				run.Fail(idx, "panic-in-argument-path", ob.Err+" "+tag, c)
			case "timeout":
				run.Fail(idx, "request-timeout", tag, c)
			case "exec":
				run.Fail(idx, "error-after-prepare", ob.Err+" "+tag, c)
			case "parse", "args":
				if !ob.Client {
					run.Fail(idx, "rejection-not-a-client-error", ob.Err+" "+tag, c)
				}
				if ob.CallsF+ob.CallsG != 0 {
					run.Fail(idx, "resolver-ran-before-rejection", fmt.Sprintf("calls f=%d g=%d %s", ob.CallsF, ob.CallsG, tag), c)
				}
			case "ok":
				if ob.CallsF != wantF || ob.CallsG != 1 {
					run.Fail(idx, "resolver-call-count", fmt.Sprintf("calls f=%d g=%d %s", ob.CallsF, ob.CallsG, tag), c)
				}
				// arguments are parsed once, in PrepareQuery: what it stored is what the resolver receives, and no
				// resolver has run by then
				if !multi {
					run.Hist("prepared-args-seen:" + map[bool]string{true: "yes", false: "no"}[ob.PrepSeen])
					switch {
					case ob.PrepCalls != 0:
						run.Fail(idx, "resolver-ran-before-prepare-finished", fmt.Sprintf("calls=%d %s", ob.PrepCalls, tag), c)
					case !ob.PrepSeen:
						run.Fail(idx, "arguments-not-parsed-by-prepare", tag, c)
					case !valEq(ob.Prep, ob.Dump):
						run.Fail(idx, "prepared-arguments-differ-from-resolver-arguments", "prepared="+js(ob.Prep)+" resolver="+js(ob.Dump)+" "+tag, c)
					}
				}
			}
			// the repository's HTTP handler must behave like the Parse / PrepareQuery / Execute sequence above
			switch {
			case ob.HTTPStatus == "panic" || ob.HTTPStatus == "timeout":
				run.Fail(idx, "http-handler-"+ob.HTTPStatus, ob.HTTPErr+" "+tag, c)
			case (ob.HTTPStatus == "ok") != (ob.Stage == "ok"):
				run.Fail(idx, "http-path-disagrees", fmt.Sprintf("direct=%s http=%s %s %s", ob.Stage, ob.HTTPStatus, ob.HTTPErr, tag), c)
			case ob.HTTPStatus == "error" && ob.HTTPCallsF+ob.HTTPCallsG != 0:
				run.Fail(idx, "resolver-ran-before-rejection", fmt.Sprintf("http: calls f=%d g=%d %s", ob.HTTPCallsF, ob.HTTPCallsG, tag), c)
			case ob.HTTPStatus == "ok" && !multi && !valEq(ob.HTTPDump, ob.Dump):
				run.Fail(idx, "http-path-disagrees", "http="+js(ob.HTTPDump)+" direct="+js(ob.Dump)+" "+tag, c)
			}
			// ... and so must the websocket handlers (server.go handleSubscribe / handleMutate)
			switch {
			case ob.WSStatus == "panic" || ob.WSStatus == "timeout":
				run.Fail(idx, "ws-"+ob.WSKind+"-"+ob.WSStatus, ob.WSErr+" "+tag, c)
			case (ob.WSStatus == "ok") != (ob.Stage == "ok"):
				run.Fail(idx, "ws-path-disagrees", fmt.Sprintf("direct=%s %s=%s %s %s", ob.Stage, ob.WSKind, ob.WSStatus, ob.WSErr, tag), c)
			case ob.WSStatus == "error" && ob.WSCallsF+ob.WSCallsG != 0:
				run.Fail(idx, "resolver-ran-before-rejection", fmt.Sprintf("ws %s: calls f=%d g=%d %s", ob.WSKind, ob.WSCallsF, ob.WSCallsG, tag), c)
			case ob.WSStatus == "ok" && !multi && !valEq(ob.WSDump, ob.Dump):
				run.Fail(idx, "ws-path-disagrees", ob.WSKind+"="+js(ob.WSDump)+" direct="+js(ob.Dump)+" "+tag, c)
			case ob.WSStatus == "ok" && (ob.WSCallsF != wantF || ob.WSCallsG != 1):
				run.Fail(idx, "resolver-call-count", fmt.Sprintf("ws %s: calls f=%d g=%d %s", ob.WSKind, ob.WSCallsF, ob.WSCallsG, tag), c)
			}
			if multi {
				// selections are independent: each one is parsed from its own arguments, whatever the others look like
				wantReject := false
				for _, sel := range s.Sels {
					if sel.Expect == "reject" {
						wantReject = true
					}
				}
				var dumps []*Val
				switch {
				case wantReject && ob.Stage == "ok":
					run.Fail(idx, "selection-with-refusable-arguments-accepted", "answer="+js(ob.Result)+" "+tag, c)
				case !wantReject && (ob.Stage == "parse" || ob.Stage == "args"):
					run.Fail(idx, "valid-value-rejected-"+s.Transport, ob.Err+" "+tag, c)
				}
				if ob.Stage == "ok" {
					for _, sel := range s.Sels {
						var got *Val
						if txt, ok := ob.Result[sel.Alias].(string); ok {
							got = new(Val)
							if json.Unmarshal([]byte(txt), got) != nil {
								got = nil
							}
						}
						dumps = append(dumps, got)
						if got == nil {
							run.Fail(idx, "selection-without-answer", sel.Alias+" answer="+js(ob.Result)+" "+tag, c)
						} else if sel.Expect == "echo" && !valEq(got, sel.Sent) {
							run.Fail(idx, "selection-received-other-arguments", sel.Alias+" got="+js(got)+" sent="+js(sel.Sent)+" "+tag, c)
						}
					}
				}
				// Coq term: the document as sent
				var defs, frags, body []string
				for _, d := range s.Defs {
					def := "None"
					if d.Default != nil {
						def = "(Some " + d.Default.coq() + ")"
					}
					defs = append(defs, fmt.Sprintf("(mk_vardef %s %s %s)", vh.CoqString(d.Name), vh.CoqBool(d.NonNull), def))
				}
				for k2, sel := range s.Sels {
					f := "(SField \"f\" " + coqFields(sel.Args) + ")"
					switch sel.Place {
					case "fragment":
						name := vh.CoqString(fmt.Sprintf("Fr%d", k2))
						frags = append(frags, "("+name+", ["+f+"])")
						body = append(body, "(SSpread "+name+")")
					case "inline":
						body = append(body, "(SInline ["+f+"])")
					default:
						body = append(body, f)
					}
				}
				var vars map[string]interface{}
				if s.Vars != nil {
					raw, _ := json.Marshal(s.Vars)
					json.Unmarshal(raw, &vars)
				}
				mo := "MOther"
				switch ob.Stage {
				case "ok":
					ok := true
					var xs []string
					for _, d := range dumps {
						if d == nil {
							ok = false
							break
						}
						xs = append(xs, d.coq())
					}
					if ok {
						mo = "(MOk " + vh.CoqList(xs) + ")"
					}
				case "parse":
					mo = "MErrParse"
				case "args":
					mo = "MErrArgs"
				}
				multiTerms = append(multiTerms, fmt.Sprintf("(mk_msend %s (mk_doc %s %s %s) %s %s)", coqVars(vars), vh.CoqList(defs),
					vh.CoqList(frags), vh.CoqList(body), mo, vh.CoqZ(int64(ob.CallsF))))
				continue
			}
			want := c.Sent
			if s.Sent != nil {
				want = s.Sent
			}
			switch c.Expect {
			case "echo":
				if ob.Stage != "ok" {
					if ob.Stage == "parse" || ob.Stage == "args" {
						run.Fail(idx, "valid-value-rejected-"+s.Transport, ob.Err+" "+tag, c)
					}
				} else if !valEq(ob.Dump, want) {
					sig := "echo-differs-" + s.Transport
					run.Fail(idx, sig, "got="+js(ob.Dump)+" sent="+js(want)+" "+tag, c)
				}
			case "reject":
				if ob.Stage == "ok" {
					run.Fail(idx, "malformed-accepted-"+c.Class, "got="+js(ob.Dump)+" "+tag, c)
				}
			}

			// ---- Coq term ----
			var defs []string
			for _, d := range s.Defs {
				def := "None"
				if d.Default != nil {
					def = "(Some " + d.Default.coq() + ")"
				}
				defs = append(defs, fmt.Sprintf("(mk_vardef %s %s %s)", vh.CoqString(d.Name), vh.CoqBool(d.NonNull), def))
			}
			var vars map[string]interface{}
			if s.Vars != nil {
				raw, _ := json.Marshal(s.Vars)
				json.Unmarshal(raw, &vars)
			}
			ot := "OOther"
			switch ob.Stage {
			case "ok":
				if ob.Dump != nil {
					ot = "(OOk " + ob.Dump.coq() + ")"
				}
			case "parse":
				ot = "OErrParse"
			case "args":
				ot = "OErrArgs"
			}
			place := map[string]string{"": "InBody", "fragment": "InFragment", "inline": "InInline"}[s.Place]
			conn := "None"
			if s.Paginated {
				conn = "(Some " + coqFields(s.Conn) + ")"
			}
			sendTerms = append(sendTerms, fmt.Sprintf("(mk_send %s %s %s %s %s %s %s)", vh.CoqList(defs), coqVars(vars), coqFields(s.Args), place, conn, ot, vh.CoqZ(int64(ob.CallsF))))
			switch {
			case ob.Stage == "ok" && ob.PrepSeen && ob.Prep != nil:
				prepTerms = append(prepTerms, "(PVal "+ob.Prep.coq()+")")
			case ob.Stage == "parse" || ob.Stage == "args":
				prepTerms = append(prepTerms, "PAbsent")
			default:
				prepTerms = append(prepTerms, "PNone")
			}
		}
		// transports agree
		if !c.NoEquiv && c.Class != "look-alike" && !c.SharedVars {
			for k := 1; k < len(obs); k++ {
				a, bb := obs[0], obs[k]
				okA, okB := a.Stage == "ok", bb.Stage == "ok"
				if okA != okB {
					run.Fail(idx, "literal-variable-disagree", fmt.Sprintf("%s: %s %s / %s: %s %s", c.Sends[0].Transport, a.Stage, a.Err, c.Sends[k].Transport, bb.Stage, bb.Err), c)
				} else if okA && !valEq(a.Dump, bb.Dump) {
					run.Fail(idx, "literal-variable-disagree", fmt.Sprintf("%s: %s / %s: %s", c.Sends[0].Transport, js(a.Dump), c.Sends[k].Transport, js(bb.Dump)), c)
				}
			}
		}
		// which theorems' premises the case meets
		switch {
		case c.Class == "valid" || c.Class == "shared-variables" || (c.Class == "build" && c.Build == "accept"):
			run.Hist("premises:transport-theorems(built type, sendable value):met")
		case c.Class == "look-alike":
			run.Hist("premises:selections-independent")
		case c.Expect == "reject":
			run.Hist("premises:rejection-theorems")
		default:
			run.Hist("premises:outside-the-range(conversion modelled, theorems exclude)")
		}
		nontrivial := c.Class != "valid" || nonZero(c.Sent, b.mty)
		if c.Class == "build" {
			nontrivial = true
		}
		run.Count(js(c), nontrivial)
		if len(obs) > 0 {
			run.Sample(map[string]interface{}{"class": c.Class, "query": c.Sends[0].query(), "vars": c.Sends[0].Vars, "outcome": obs[0]})
		}
		if searching {
			continue
		}
		// the field without argument struct: no arguments, the case's literal arguments, one null argument
		var probeTerms []string
		if idx%3 == 0 {
			probes := [][]LField{nil, {{"x", &Lit{K: "var", S: "nul"}}}, {}}
			for k := range c.Sends {
				if c.Sends[k].Transport == "literal" && len(c.Sends[k].Sels) == 0 && len(c.Sends[k].Args) > 0 {
					probes = append(probes, c.Sends[k].Args)
					break
				}
			}
			for _, args := range probes {
				stage, client, calls := b.probeNoArgs(args)
				run.Hist("noargs-probe:" + stage)
				outcome := map[string]int{"ok": 0, "parse": 1, "args": 2}
				oc, known := outcome[stage]
				if !known {
					oc = 3
					run.Fail(idx, "noargs-field-"+stage, js(args), c)
				}
				switch {
				case stage == "ok" && len(args) > 0:
					run.Fail(idx, "arguments-accepted-by-field-without-arguments", js(args), c)
				case stage == "ok" && calls != 1, stage != "ok" && calls != 0:
					run.Fail(idx, "resolver-call-count", fmt.Sprintf("n: stage=%s calls=%d %s", stage, calls, js(args)), c)
				case (stage == "parse" || stage == "args") && !client:
					run.Fail(idx, "rejection-not-a-client-error", "n: "+js(args), c)
				}
				probeTerms = append(probeTerms, fmt.Sprintf("(mk_nprobe %s %d %s)", coqFields(args), oc, vh.CoqZ(int64(calls))))
			}
		}
		terms = append(terms, fmt.Sprintf("(%d, mk_bcase %s true (Some (mk_case %s %s %s)) %s %s)", idx, gty, b.mty.coq(), vh.CoqList(sendTerms), vh.CoqList(multiTerms), vh.CoqList(prepTerms), vh.CoqList(probeTerms)))
		if len(terms) >= shard {
			flush(idx + 1)
		}
	}
	flush(len(cases))
	_ = sort.Strings
	run.Finish()
}
