// C01: execution equals the sequential reference semantics under any scheduling and any execution
// mode.  Generated schema shapes are built three times with different per-field execution modes
// (plain / Expensive / batch / batch-with-fallback / NumParallelInvocations), the same query is run
// under a scripted scheduler, FIFO, LIFO and the immediate-goroutine scheduler, and every result is
// compared with an independent reference evaluator (oracle) and with the Coq model (Gql/Check.v).
package main

import (
	"encoding/json"
	"fmt"
	"path/filepath"
	"reflect"
	"strings"

	"github.com/samsarahq/thunder/graphql"
	"verifharness/pkg/gqlgen"
	"verifharness/pkg/vh"
)

func js(v interface{}) string {
	b, _ := json.Marshal(v)
	return string(b)
}

func genCase(cr *vh.Rng) *gqlgen.Case {
	spec := gqlgen.GenSchema(cr)
	c := &gqlgen.Case{Spec: spec, Origin: "generated"}
	c.Modes = []gqlgen.Modes{gqlgen.GenModes(cr, spec), gqlgen.GenModes(cr, spec), gqlgen.PlainModes(spec)}
	c.Data = gqlgen.GenData(cr, spec, 0)
	pd := 0
	if cr.Chance(30) {
		pd = 10
	}
	c.Query = gqlgen.GenQuery(cr, spec, gqlgen.QOpts{PDir: pd, Depth: 2 + cr.Intn(3), AllowDup: true})
	if cr.Chance(9) {
		// wide fan-out: a root list of 64..300 objects, function fields one to three levels below every
		// element, and a mode assignment in which those fields run as many work units
		n := 64 + cr.Intn(237)
		if cr.Chance(50) {
			n = 64 + cr.Intn(60)
		}
		c.Data = gqlgen.GenDataWide(cr, spec, 0, "Query.r0", n)
		c.Query = gqlgen.GenQueryWide(cr, spec, gqlgen.QOpts{PDir: 0, Depth: 1 + cr.Intn(2), AllowDup: true}, "r0")
		c.Modes[0] = gqlgen.FanOutModes(cr, spec)
		c.Origin = "generated:wide"
	}
	for k := 0; k < 3; k++ {
		var ch []int
		for i := 0; i < 24; i++ {
			ch = append(ch, cr.Intn(9))
		}
		c.Choices = append(c.Choices, ch)
	}
	return c
}

type shape struct{ frags, dups, unions, lists int }

func shapeOf(q *gqlgen.Query) shape {
	var s shape
	var walk func(ns []*gqlgen.Node)
	walk = func(ns []*gqlgen.Node) {
		seen := map[string]int{}
		for _, n := range ns {
			switch n.Kind {
			case "inline", "spread":
				s.frags++
			case "field":
				seen[n.Alias]++
				if seen[n.Alias] == 2 {
					s.dups++
				}
			}
			walk(n.Sub)
		}
	}
	walk(q.Body)
	for _, f := range q.Frags {
		walk(f.Body)
	}
	return s
}

func main() {
	o := vh.ParseFlags()
	run := vh.NewRun("C01", o)
	run.Rule = "generated schema shape built under 3 execution-mode assignments x (scripted schedule, FIFO, LIFO, immediate goroutines, and FIFO / goroutines inside a reactive.Rerunner); objects by pointer and by value, resolvers with pointer and value receivers, objects reached through several response paths; non-trivial = the query has a fragment, and a duplicate alias or a union, the result is a non-empty object and the scripted run executed at least 3 work units; distinct by query text + data + modes"
	r := vh.NewRng(o.Seed)

	var cases []*gqlgen.Case
	if o.Replay != "" {
		c := &gqlgen.Case{}
		if vh.ReadReplayCase(o.Replay, c) {
			c.Fix()
			c.Origin = "replay"
			cases = append(cases, c)
		}
	} else if o.Search != "" {
		// failing-input search: variants of the cases on which model and implementation disagreed
		// (fresh cases when there are none); the oracle only, no Coq cases
		seeds := gqlgen.ReadSeeds(o.Search)
		for i := 0; i < o.N; i++ {
			cr := r.Fork()
			if len(seeds) == 0 {
				cases = append(cases, genCase(cr))
			} else {
				cases = append(cases, gqlgen.Variant(cr, seeds[cr.Intn(len(seeds))], gqlgen.QOpts{PDir: 5, Depth: 3, AllowDup: true}, 0, false))
			}
		}
	} else {
		for _, f := range vh.CorpusFiles(o.Corpus) {
			c := &gqlgen.Case{}
			if vh.ReadReplayCase(f, c) {
				c.Fix()
				c.Origin = "corpus:" + filepath.Base(f)
				cases = append(cases, c)
			}
		}
		for i := 0; i < o.N; i++ {
			cases = append(cases, genCase(r.Fork()))
		}
	}

	const shard = 28
	var terms []string
	start := 0
	flush := func(end int) {
		if o.Search != "" {
			terms = nil
		}
		if len(terms) == 0 {
			return
		}
		run.WriteCasesV(fmt.Sprintf("cases_%d.v", start), []string{"Lib.Json", "Gql.Types", "Gql.Value", "Gql.Query", "Gql.Check", "Gql.CheckFlat"}, "", "mismatches01_from_sparse", 0, terms)
		terms = nil
		start = end
	}

	hung := 0
	for idx, c := range cases {
		if hung >= 2 {
			break // the implementation hangs: two cases are enough, every further one costs a deadline
		}
		run.LogCase(idx, c)
		q := c.Query
		text := q.Text()
		if !q.DirsWellFormed() {
			run.Fail(idx, "harness-malformed-directive-in-c01", text, c)
			continue
		}
		ref := gqlgen.RefEval(c.Spec, c.Data, q.Prune())
		refJSON := roundTrip(ref.JSON)
		var schemas, runs []string
		var first *gqlgen.Observed
		bad := false
		reported := map[string]bool{}
		fail := func(sig, detail string, cc interface{}) {
			if !reported[sig] {
				reported[sig] = true
				run.Fail(idx, sig, detail, cc)
			}
		}
		units := 0
		for mi, md := range c.Modes {
			b, err := gqlgen.Build(c.Spec, md)
			if err != nil {
				run.Fail(idx, "harness-schema-build", err.Error(), c)
				bad = true
				break
			}
			b.SetData(c.Data)
			schemas = append(schemas, gqlgen.CoqSchema(b.Schema))
			var ch []int
			if mi < len(c.Choices) {
				ch = c.Choices[mi]
			}
			scripted := &gqlgen.Scripted{Choices: ch}
			scheds := []struct {
				name string
				s    graphql.WorkScheduler
				ch   []int
			}{
				{"scripted", scripted, ch},
				{"fifo", &gqlgen.Scripted{}, nil},
				{"lifo", &gqlgen.Scripted{LIFO: true}, nil},
				{"goroutines", graphql.NewImmediateGoroutineScheduler(), nil},
				{"rerunner/fifo", &gqlgen.Scripted{}, nil},
				{"rerunner/goroutines", graphql.NewImmediateGoroutineScheduler(), nil},
			}
			for si, sc := range scheds {
				var obs gqlgen.Observed
				if strings.HasPrefix(sc.name, "rerunner") {
					obs = gqlgen.ExecRerunner(b, text, q.Vars, sc.s)
				} else if sc.name == "fifo" {
					obs = gqlgen.ExecTwice(b, text, q.Vars, sc.s)
				} else {
					obs = gqlgen.Exec(b, text, q.Vars, sc.s)
				}
				if obs.Mutated != "" {
					fail("execute-modifies-parsed-query", fmt.Sprintf("%s: %s\nquery: %s", fmt.Sprintf("modes#%d/%s", mi, sc.name), obs.Mutated, text), c)
				}
				if obs.Reexec != "" {
					fail("re-execution-differs", fmt.Sprintf("modes#%d/%s: first %s\n%s\nquery: %s", mi, sc.name, js(obs.JSON), obs.Reexec, text), c)
				}
				tag := fmt.Sprintf("modes#%d/%s", mi, sc.name)
				if obs.Stage == "harness" && obs.Class == "timeout" {
					fail("execute-does-not-return", fmt.Sprintf("%s: %s\nquery: %s\n%d data objects", tag, obs.Text, text, len(c.Data.ByOid)), c)
					hung++
					bad = true
					break
				}
				if obs.Stage == "harness" {
					// a panic that escapes Execute: the remaining schedulers run units in goroutines of
					// their own, where it would take the harness down with it
					run.Fail(idx, "escaped-panic-or-timeout", tag+": "+obs.String()+"\nquery: "+text, c)
					bad = true
					break
				}
				if obs.Stage == "parse" || obs.Stage == "prepare" {
					run.Fail(idx, "harness-generated-invalid-query", obs.String()+"  "+text, c)
					bad = true
					break
				}
				if !obs.OK {
					fail("valid-query-fails", fmt.Sprintf("%s: %s\nquery: %s", tag, obs, text), c)
				} else if !reflect.DeepEqual(obs.JSON, refJSON) && !reported["result-differs-from-reference"] {
					sc2 := *c
					fails := func(qq *gqlgen.Query) bool {
						if !qq.DirsWellFormed() {
							return false
						}
						var o2 gqlgen.Observed
						if strings.HasPrefix(sc.name, "rerunner") {
							o2 = gqlgen.ExecRerunner(b, qq.Text(), qq.Vars, &gqlgen.Scripted{})
						} else {
							o2 = gqlgen.Exec(b, qq.Text(), qq.Vars, &gqlgen.Scripted{})
						}
						r2 := gqlgen.RefEval(c.Spec, c.Data, qq.Prune())
						return o2.Stage == "execute" || (o2.OK && !reflect.DeepEqual(o2.JSON, roundTrip(r2.JSON)))
					}
					small := q
					if fails(q) {
						small = gqlgen.Shrink(q, fails)
					}
					sc2.Query = small
					fail("result-differs-from-reference",
						fmt.Sprintf("%s\nquery: %s\ngot:  %s\nwant: %s\nminimised: %s", tag, text, js(obs.JSON), js(refJSON), small.Text()), &sc2)
				}
				if first == nil {
					f := obs
					first = &f
				} else if obs.OK != first.OK || (obs.OK && !reflect.DeepEqual(obs.JSON, first.JSON)) {
					fail("result-depends-on-mode-or-scheduler",
						fmt.Sprintf("%s differs from modes#0/scripted\nquery: %s\ngot:   %s\nfirst: %s\nmodes: %s", tag, text, obs, *first, js(md)), c)
				}
				if si == 0 {
					units = max(units, len(scripted.Log))
					runs = append(runs, gqlgen.CoqRun(mi, 0, ch, obs))
					for _, st := range scripted.Log {
						if st.Batch {
							run.Hist("unit:batch")
						} else if st.Expensive {
							run.Hist("unit:expensive")
						} else {
							run.Hist("unit:plain")
						}
					}
				} else if si == 2 || si == 3 || si == 4 {
					runs = append(runs, gqlgen.CoqRun(mi, 0, nil, obs))
				}
			}
			if bad {
				break
			}
		}
		if bad {
			continue
		}
		sh := shapeOf(q)
		if sh.frags > 0 {
			run.Hist("has-fragments")
		}
		if sh.dups > 0 {
			run.Hist("has-duplicate-alias")
		}
		if strings.Contains(text, "... on M") {
			run.Hist("has-union-or-member-fragment")
		}
		run.Hist(fmt.Sprintf("units:%d", min(units/3*3, 15)))
		m, _ := refJSON.(map[string]interface{})
		nontrivial := sh.frags > 0 && (sh.dups > 0 || strings.Contains(text, "... on M")) && len(m) > 0 && units >= 3
		run.Count(text+"|"+js(c.Data)+"|"+js(c.Modes), nontrivial)
		if first != nil && first.OK {
			run.Sample(map[string]interface{}{"query": text, "result": first.JSON, "modes": c.Modes[0]})
		}
		if strings.HasPrefix(c.Origin, "generated:wide") {
			run.Hist("wide-fan-out")
		}
		if len(c.Data.ByOid) > 150 {
			continue // oracle only: the model's evaluation (lists for heaps and pools) is quadratic in the size
		}
		// Flatten on the parsed query, walked along the schema the way the executor walks it
		flat := "(@None (option (list ftree)))"
		if fb, err := gqlgen.Build(c.Spec, c.Modes[0]); err == nil {
			if t, ok := gqlgen.FlatView(fb, text, q.Vars); ok {
				flat = "(Some " + t + ")"
				run.Hist("flatten-tree-compared")
			}
		}
		terms = append(terms, fmt.Sprintf("(%d, (%s, %s))", idx, gqlgen.CoqCase(schemas, c.Data, q.Eff(), []string{gqlgen.CoqQuery(q)}, runs), flat))
		if len(terms) >= shard {
			flush(idx + 1)
		}
	}
	flush(len(cases))
	run.Finish()
}

func roundTrip(v interface{}) interface{} {
	b, _ := json.Marshal(v)
	var out interface{}
	json.Unmarshal(b, &out)
	return out
}

func min(a, b int) int {
	if a < b {
		return a
	}
	return b
}
func max(a, b int) int {
	if a > b {
		return a
	}
	return b
}
