package main

// Failing-input search (-search file): variants of the cases on which model and implementation disagreed,
// evaluated with the oracle only.  The edits are the ones that move a pagination case across a boundary:
// neighbouring cursor positions, first/last +-1, ties added to the sort key, case / quote variants of the
// filter text, another implementation of the same filter / sort field, a different page size of a walk.

import (
	"encoding/json"
	"io/ioutil"
	"math"
	"strings"

	"verifharness/pkg/vh"
)

func readSeeds(path string) []Case {
	var seeds []Case
	b, err := ioutil.ReadFile(path)
	if err != nil {
		return nil
	}
	for _, line := range strings.Split(string(b), "\n") {
		var w struct {
			Case Case `json:"case"`
		}
		if strings.TrimSpace(line) != "" && json.Unmarshal([]byte(line), &w) == nil && w.Case.Field != "" {
			seeds = append(seeds, w.Case)
		}
	}
	return seeds
}

func cloneCase(c Case) Case {
	b, _ := json.Marshal(c)
	var d Case
	json.Unmarshal(b, &d)
	return d
}

// otherImpl replaces the implementation suffix of a registered field name by a different one.
func otherImpl(r *vh.Rng, name string) string {
	i := strings.LastIndex(name, "_")
	if i < 0 {
		return name
	}
	return name[:i] + "_" + r.Pick(impls)
}

// refPos returns the position in the filtered, sorted reference list of the element a cursor names.
func refPos(ref []Item, cur *string) int {
	if cur == nil {
		return -1
	}
	for i, it := range ref {
		if cursorOf(it.Key) == *cur {
			return i
		}
	}
	return -1
}

func moveCursor(r *vh.Rng, ref []Item, cur *string) *string {
	if len(ref) == 0 {
		return cur
	}
	i := refPos(ref, cur)
	switch {
	case i < 0:
		return pstr(cursorOf(ref[r.Intn(len(ref))].Key))
	case r.Chance(15):
		return nil
	default:
		j := i + []int{-1, 1, -2, 2}[r.Intn(4)]
		if r.Chance(20) {
			j = []int{0, len(ref) - 1}[r.Intn(2)]
		}
		if j < 0 {
			j = 0
		}
		if j >= len(ref) {
			j = len(ref) - 1
		}
		return pstr(cursorOf(ref[j].Key))
	}
}

func textVariant(r *vh.Rng, t string) string {
	b := []byte(t)
	switch r.Intn(7) {
	case 0: // flip the case of one letter
		for tries := 0; tries < 8 && len(b) > 0; tries++ {
			i := r.Intn(len(b))
			if b[i] >= 'a' && b[i] <= 'z' {
				b[i] -= 32
				break
			} else if b[i] >= 'A' && b[i] <= 'Z' {
				b[i] += 32
				break
			}
		}
		return string(b)
	case 1:
		return "\"" + t + "\""
	case 2:
		return t + "\""
	case 3:
		return "\"" + t
	case 4:
		return t + " " + r.Pick(filterTexts)
	case 5:
		return strings.ReplaceAll(t, " ", "\t")
	default:
		if len(b) > 0 {
			i := r.Intn(len(b))
			return string(b[:i]) + "\"" + string(b[i:])
		}
		return "\"\""
	}
}

// variant applies one to three small edits to a copy of seed.
func variant(r *vh.Rng, seed Case) Case {
	c := cloneCase(seed)
	c.Origin = "search"
	for k := 1 + r.Intn(3); k > 0; k-- {
		ref, _ := refList(&c, c.Args)
		switch r.Intn(17) {
		case 0:
			c.Args.After = moveCursor(r, ref, c.Args.After)
		case 1:
			c.Args.Before = moveCursor(r, ref, c.Args.Before)
		case 2: // both cursors, ordered or reversed
			if len(ref) > 1 {
				i := r.Intn(len(ref) - 1)
				j := i + 1 + r.Intn(len(ref)-i-1)
				if r.Chance(30) {
					j = len(ref) - 1
				}
				if r.Chance(15) {
					i, j = j, i
				}
				c.Args.After, c.Args.Before = pstr(cursorOf(ref[i].Key)), pstr(cursorOf(ref[j].Key))
			}
		case 3: // first / last +-1, or switch between them
			d := int64([]int{-1, 1}[r.Intn(2)])
			switch {
			case c.Kind != "page":
				if c.K+d >= 1 {
					c.K += d
				}
			case c.Args.First != nil && r.Chance(80):
				if *c.Args.First+d >= 0 {
					c.Args.First = p64(*c.Args.First + d)
				}
			case c.Args.Last != nil && r.Chance(80):
				if *c.Args.Last+d >= 0 {
					c.Args.Last = p64(*c.Args.Last + d)
				}
			case c.Args.First != nil:
				c.Args.First, c.Args.Last = nil, c.Args.First
			case c.Args.Last != nil:
				c.Args.First, c.Args.Last = c.Args.Last, nil
			default:
				c.Args.First = p64(int64(r.Intn(4)))
			}
		case 4: // ties: copy one element's sort values onto another
			if len(c.Items) > 1 {
				i, j := r.Intn(len(c.Items)), r.Intn(len(c.Items))
				c.Items[i].N, c.Items[i].S, c.Items[i].U, c.Items[i].F = c.Items[j].N, c.Items[j].S, c.Items[j].U, c.Items[j].F
				if c.Items[i].F == 0 && r.Chance(50) {
					c.Items[i].F = math.Copysign(0, -1) // -0 ties with +0
				}
				if r.Chance(50) { // same value up to case
					c.Items[i].S = strings.ToUpper(c.Items[j].S)
				}
			}
		case 5: // sort order / another sort field implementation / add a sort
			switch {
			case c.Args.SortBy == nil:
				if c.Field != "bareI" {
					c.Args.SortBy = pstr(r.Pick(sortAttrs) + "_" + r.Pick(impls))
				}
			case r.Chance(25): // another attribute (kind of sort value)
				c.Args.SortBy = pstr(r.Pick(sortAttrs) + "_" + r.Pick(impls))
			case r.Chance(50):
				c.Args.SortBy = pstr(otherImpl(r, *c.Args.SortBy))
			case c.Args.SortOrder != nil && *c.Args.SortOrder == "desc":
				c.Args.SortOrder = pstr("asc")
			default:
				c.Args.SortOrder = pstr("desc")
			}
		case 6: // filter text variants
			if c.Args.FilterText != nil {
				c.Args.FilterText = pstr(textVariant(r, *c.Args.FilterText))
			} else {
				c.Args.FilterText = pstr(r.Pick(filterTexts))
			}
		case 7: // another implementation of the same filter fields
			if c.Args.FilterFields != nil {
				fs := append([]string{}, (*c.Args.FilterFields)...)
				for i := range fs {
					if r.Chance(60) {
						fs[i] = otherImpl(r, fs[i])
					}
				}
				c.Args.FilterFields = &fs
			} else if c.Args.FilterText != nil && c.Field != "bareI" {
				fs := []string{r.Pick(textAttrs) + "_" + r.Pick(impls)}
				c.Args.FilterFields = &fs
			}
		case 8:
			c.Flag = !c.Flag
		case 9: // page <-> walk
			switch c.Kind {
			case "page":
				c.Kind, c.K = []string{"walkf", "walkb"}[r.Intn(2)], int64(1+r.Intn(3))
				c.Args.First, c.Args.Last, c.Args.After, c.Args.Before = nil, nil, nil, nil
			case "walkf":
				c.Kind = "walkb"
			default:
				c.Kind = "walkf"
			}
		case 10: // drop or duplicate-with-new-key an element
			if len(c.Items) > 0 && r.Chance(50) {
				i := r.Intn(len(c.Items))
				c.Items = append(c.Items[:i], c.Items[i+1:]...)
			} else if len(c.Items) > 0 && len(c.Items) < 40 {
				it := c.Items[r.Intn(len(c.Items))]
				it.Key = freshKey(r, &c)
				i := r.Intn(len(c.Items) + 1)
				c.Items = append(c.Items[:i], append([]Item{it}, c.Items[i:]...)...)
			}
		case 11: // filterType: add / drop / another custom function / an unregistered name
			switch {
			case c.Args.FilterType != nil && r.Chance(40):
				c.Args.FilterType = nil
			case r.Chance(85):
				c.Args.FilterType = pstr(r.Pick(customNames))
			default:
				c.Args.FilterType = pstr("nope")
			}
			if c.Args.FilterText == nil {
				c.Args.FilterText = pstr(r.Pick(prefixTexts))
			}
		case 12: // externally managed: flip what the resolver says / asks for, or the fallback switch
			if c.Ext != nil {
				x := *c.Ext
				switch r.Intn(6) {
				case 0:
					x.ApplyTextFilter = !x.ApplyTextFilter
				case 1:
					x.SetPageInfo = !x.SetPageInfo
				case 2:
					x.HasNext = !x.HasNext
				case 3:
					x.HasPrev = !x.HasPrev
				case 4:
					if x.Total == nil {
						x.Total = p64(int64(r.Intn(50)))
					} else {
						x.Total = nil
					}
				default:
					if c.Field == "dualI" {
						c.Fallback = !c.Fallback
					}
				}
				c.Ext = &x
				if resolverPaginates(&c) && c.Kind != "page" {
					c.Kind = "page"
				}
			}
		case 13: // the same query against another kind of field
			switch c.Field {
			case "itemsI":
				c.Field = r.Pick([]string{"itemsP", "dualI", "extI"})
			case "itemsP", "extI", "dualI":
				c.Field = r.Pick([]string{"itemsI", "dualI"})
			}
			if (c.Field == "extI" || c.Field == "dualI") && c.Ext == nil {
				c.Ext = &ExtInfo{Total: p64(int64(len(c.Items))), ApplyTextFilter: true, SetPageInfo: r.Bool()}
				c.Fallback = c.Field == "dualI" && r.Bool()
			}
			if resolverPaginates(&c) && c.Kind != "page" {
				c.Kind = "page"
			}
		case 14: // move every numeric sort value next to a boundary of a narrower / lossy representation
			nb, ub := int64Bases[r.Intn(len(int64Bases))], uint64Bases[r.Intn(len(uint64Bases))]
			for i := range c.Items {
				c.Items[i].N[0] = nb + int64(uint64(c.Items[i].N[0])%7)
				c.Items[i].U = ub + c.Items[i].U%7
				for k := int(c.Items[i].U % 3); k > 0; k-- {
					c.Items[i].F = math.Nextafter(c.Items[i].F, math.Inf(1))
				}
			}
		case 15: // case-folding letters in a node text and in the filter text
			if len(c.Items) > 0 {
				c.Items[r.Intn(len(c.Items))].T[r.Intn(3)] = foldWord(r, 3)
				c.Args.FilterText, c.Args.FilterType = pstr(foldWord(r, 2)), nil
			}
		default: // text attribute edit: copy the filter text's first token into an element, in another case
			if len(c.Items) > 0 && c.Args.FilterText != nil {
				toks := refTokens(*c.Args.FilterText)
				if len(toks) > 0 {
					c.Items[r.Intn(len(c.Items))].T[r.Intn(3)] = strings.ToUpper(toks[r.Intn(len(toks))])
				}
			}
		}
	}
	return c
}

func freshKey(r *vh.Rng, c *Case) string {
	used := map[string]bool{}
	for _, it := range c.Items {
		used[it.Key] = true
	}
	for {
		var k string
		if c.Field == "itemsS" {
			k = "s" + string(rune('a'+r.Intn(26))) + string(rune('a'+r.Intn(26))) + string(rune('a'+r.Intn(26)))
		} else {
			k = itoa(int64(r.Intn(1000000)))
		}
		if !used[k] {
			return k
		}
	}
}

func itoa(n int64) string {
	b, _ := json.Marshal(n)
	return string(b)
}
