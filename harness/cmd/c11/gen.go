package main

import (
	"fmt"
	"math"

	"verifharness/pkg/vh"
)

// Case is one check: a list, the arguments, and either one page query or a chained walk.
type Case struct {
	Field string `json:"field"` // itemsI (int64 key) | itemsS (string key) | itemsP (int64 key, pointer nodes) | bareI (no filter/sort fields)
	Items []Item `json:"items"`
	Kind  string `json:"kind"` // page | walkf | walkb
	K     int64  `json:"k,omitempty"`
	Args  Args   `json:"args"`
	Flag  bool   `json:"use_batch"` // what ShouldUseBatchFunc answers for the *_fb fields
	// extI / dualI: what the manual resolver returns besides Items; dualI: whether the switch selects the
	// thunder-managed fallback resolver
	Ext      *ExtInfo `json:"ext,omitempty"`
	Fallback bool     `json:"use_fallback,omitempty"`
	// Panic: every filter / sort field function panics; the query runs in a child process and the oracle is
	// "the request fails, the process survives" (not compared with the model)
	Panic  bool   `json:"panic,omitempty"`
	Origin string `json:"origin"`
}

var words = []string{"can", "Man", "cannot", "so ban", "socan", "x y", "", "CAN", "a\"b", "jan", "Zed", "zed", "tab\there", "aan", "b", "B",
	"Éclair", "éclair", "straße", "CAFÉ can", "×µ"}
var sortStrings = []string{"a", "A", "b", "B", "ab", "Ab", "", "c", "Z", "z", "[", "_", "aa", "É", "é", "Àb", "àB", "ß", "×"}

// texts with code points at or above U+0100: Go lower-cases them too, the model does not (excluded from
// the model comparison by textInModel, still judged by the oracle)
var outsideWords = []string{"Σίσυφος", "σίσυφοσ", "İstanbul", "Жук", "жук", "ǅ"}

// letters whose case mapping changes the UTF-8 length, or has several lower/upper forms: KELVIN SIGN
// (3 bytes) -> k, I WITH DOT ABOVE (2) -> i, A WITH STROKE (2) -> U+2C65 (3), CAPITAL SHARP S (3) -> sharp s
// (2), sigma / final sigma; with their ASCII partners.  Texts over this alphabet are judged by the oracle
// (reference: strings.ToLower on both sides, as filter.DefaultFilterFunc and the string sorter do).
var foldAlphabet = []string{"\u212a", "k", "K", "\u0130", "i", "I", "\u023a", "\u2c65", "\u1e9e", "\u00df", "\u03a3", "\u03c3", "\u03c2", "o", "a"}

func foldWord(r *vh.Rng, maxLen int) string {
	w := ""
	for n := 1 + r.Intn(maxLen); n > 0; n-- {
		w += r.Pick(foldAlphabet)
	}
	return w
}

var floats = []float64{-1.5, math.Copysign(0, -1), 0, 0.5, 2, 2.0000000000000004, 1e300, -1e-300, 1e-300, 3.25, -2}
var strKeys = []string{"a", "A", "b", "k1", "k2", "k 3", "", "x/y", "é", "zz", "0", "1", "01", "key", "Key", "q\"", "=", "MQ==", "-", "~"}

func p64(i int64) *int64    { return &i }
func pstr(s string) *string { return &s }

func genItems(r *vh.Rng, field string, walk bool) []Item {
	var n int
	switch k := r.Intn(100); {
	case walk && k < 50:
		n = 8 + r.Intn(33)
	case k < 4:
		n = 0
	case k < 10:
		n = 1
	case k < 45:
		n = 2 + r.Intn(7)
	case k < 85:
		n = 9 + r.Intn(16)
	default:
		n = 25 + r.Intn(16)
	}
	items := make([]Item, 0, n)
	used := map[string]bool{}
	tieRange := 1 + r.Intn(6)
	// numeric sort values come from one of three families per case and attribute: small values with many
	// ties; a cluster around a boundary of some narrower or lossy representation (2^24, 2^31, 2^32, 2^53, 2^63,
	// the ends of the range, nanosecond timestamps) whose members differ only in the low bits; wide values
	nGen, uGen, fGen := genInt64(r, tieRange), genUint64(r, tieRange), genFloat64(r)
	for len(items) < n {
		var key string
		if field == "itemsS" {
			if r.Chance(50) {
				key = r.Pick(strKeys)
			} else {
				key = fmt.Sprintf("k%d", r.Intn(200))
			}
		} else {
			switch r.Intn(10) {
			case 0:
				key = fmt.Sprint(-int64(r.Intn(50)))
			case 1:
				key = fmt.Sprint(int64(r.Intn(1000000)))
			default:
				key = fmt.Sprint(int64(r.Intn(100)))
			}
		}
		if used[key] {
			continue
		}
		used[key] = true
		it := Item{Key: key}
		for a := 0; a < 3; a++ {
			it.T[a] = r.Pick(words)
		}
		it.N[0] = nGen()
		it.N[1] = int64(r.Intn(3)) - 1
		it.S = r.Pick(sortStrings)
		it.U = uGen()
		it.F = fGen()
		items = append(items, it)
	}
	return items
}

var int64Bases = []int64{1 << 24, 1 << 31, 1<<31 - 3, 1 << 32, 1 << 53, -(1 << 53), 1<<53 + 1<<20, 1 << 62, 1700000000000000000,
	math.MaxInt64 - 8, math.MinInt64, math.MinInt64 + 1<<10, -3}
var uint64Bases = []uint64{1 << 24, 1<<32 - 3, 1 << 53, 1<<63 - 3, 1<<63 + 1<<40, math.MaxUint64 - 8, 1 << 62, 1700000000000000000}
var float64Bases = []float64{1, -1, 0.1, 16777216, 9007199254740992, 1e300, -1e300, 4.9e-324, 0}

func genInt64(r *vh.Rng, tieRange int) func() int64 {
	switch k := r.Intn(100); {
	case k < 55:
		return func() int64 {
			if r.Chance(10) {
				return int64(r.Intn(2000000)) - 1000000
			}
			return int64(r.Intn(tieRange))
		}
	case k < 90:
		base, spread := int64Bases[r.Intn(len(int64Bases))], 2+r.Intn(7)
		return func() int64 { return base + int64(r.Intn(spread)) }
	default:
		return func() int64 { return int64(r.U64()) }
	}
}

func genUint64(r *vh.Rng, tieRange int) func() uint64 {
	switch k := r.Intn(100); {
	case k < 50:
		return func() uint64 {
			if r.Chance(15) {
				return r.U64() | 1<<63 // above MaxInt64: must compare unsigned
			}
			return uint64(r.Intn(tieRange))
		}
	case k < 90:
		base, spread := uint64Bases[r.Intn(len(uint64Bases))], 2+r.Intn(7)
		return func() uint64 { return base + uint64(r.Intn(spread)) }
	default:
		return func() uint64 { return r.U64() }
	}
}

func genFloat64(r *vh.Rng) func() float64 {
	switch k := r.Intn(100); {
	case k < 60:
		return func() float64 {
			if r.Chance(10) {
				return float64(int64(r.Intn(2000))-1000) / 8
			}
			return floats[r.Intn(len(floats))]
		}
	default: // neighbouring floats: the base and the next few representable values
		base, spread := float64Bases[r.Intn(len(float64Bases))], 2+r.Intn(5)
		return func() float64 {
			f := base
			for k := r.Intn(spread); k > 0; k-- {
				f = math.Nextafter(f, math.Inf(1))
			}
			return f
		}
	}
}

var filterTexts = []string{"can", "CAN man", "\"so ban\"", "  ", "an", "x\"y z", "\"\"", "a \"\" b", "zed", "\"x y\" jan", "b", "nomatch", "\t", "ab\"", "\"so ban", "n\"o\"t",
	"éCL", "É", "SS ß", "café"}
var prefixTexts = []string{"ca,M", "so", ",,c", "Z,z", "x y", "can,", "É,é", "", "a\"b,tab"}

func genFilterSort(r *vh.Rng, field string, a *Args, allowBad bool) {
	pf := 50
	if !allowBad {
		pf = 35
	}
	if r.Chance(pf) {
		switch r.Intn(10) {
		case 0:
			a.FilterText = pstr("")
		case 1, 2:
			// random text over a small alphabet
			alpha := []byte("abcnA \"\tz")
			n := r.Intn(8)
			b := make([]byte, n)
			for i := range b {
				b[i] = alpha[r.Intn(len(alpha))]
			}
			a.FilterText = pstr(string(b))
		default:
			a.FilterText = pstr(r.Pick(filterTexts))
		}
		if field != "bareI" || allowBad {
			switch k := r.Intn(100); {
			case k < 9:
				a.FilterType = pstr("prefix")
				a.FilterText = pstr(r.Pick(prefixTexts))
			case k < 15:
				a.FilterType = pstr("exact")
				a.FilterText = pstr(r.Pick(words))
			case k < 17 && allowBad:
				a.FilterType = pstr("nope")
			}
		}
		if r.Chance(1) {
			a.FilterText = pstr(r.Pick(outsideWords))
		}
		if r.Chance(55) {
			n := r.Intn(4)
			fs := []string{}
			for i := 0; i < n; i++ {
				if allowBad && r.Chance(8) {
					fs = append(fs, r.Pick([]string{"nope", "t0", "t9_plain"}))
				} else {
					fs = append(fs, r.Pick(textAttrs)+"_"+r.Pick(impls))
				}
			}
			a.FilterFields = &fs
		}
	}
	if r.Chance(60) {
		if allowBad && r.Chance(5) {
			a.SortBy = pstr(r.Pick([]string{"nope", "n0", "s0_"}))
		} else {
			a.SortBy = pstr(r.Pick(sortAttrs) + "_" + r.Pick(impls))
		}
		switch r.Intn(3) {
		case 0:
			a.SortOrder = pstr("asc")
		case 1:
			a.SortOrder = pstr("desc")
		}
	}
}

// genCursor: nil, the cursor of an element (first / last / any), or an unknown cursor.
func genCursor(r *vh.Rng, items []Item) *string {
	switch k := r.Intn(100); {
	case k < 35:
		return nil
	case k < 85:
		if len(items) == 0 {
			return pstr(cursorOf("1"))
		}
		switch r.Intn(4) {
		case 0:
			return pstr(cursorOf(items[0].Key))
		case 1:
			return pstr(cursorOf(items[len(items)-1].Key))
		default:
			return pstr(cursorOf(items[r.Intn(len(items))].Key))
		}
	case k < 90:
		return pstr("")
	case k < 95:
		return pstr(cursorOf("no-such-key"))
	default:
		return pstr(r.Pick([]string{"zzz", "MQ", "=", "not base64!"}))
	}
}

func genCase(r *vh.Rng) Case {
	var c Case
	switch k := r.Intn(100); {
	case k < 36:
		c.Field = "itemsI"
	case k < 66:
		c.Field = "itemsS"
	case k < 76:
		c.Field = "itemsP"
	case k < 82:
		c.Field = "bareI"
	case k < 91:
		c.Field = "extI"
	default:
		c.Field = "dualI"
	}
	if c.Field == "extI" || c.Field == "dualI" {
		x := &ExtInfo{HasNext: r.Bool(), HasPrev: r.Bool(), ApplyTextFilter: r.Chance(60), SetPageInfo: r.Chance(40)}
		if !r.Chance(6) {
			x.Total = p64(int64(r.Intn(100)))
		}
		if r.Chance(30) {
			x.Pages = []string{"", cursorOf("7")}
		}
		c.Ext = x
		c.Fallback = c.Field == "dualI" && r.Chance(55)
	}
	kindDraw := r.Intn(100)
	c.Items = genItems(r, c.Field, kindDraw >= 50)
	c.Flag = r.Bool()
	if len(c.Items) > 0 && r.Chance(3) {
		// texts the model does not cover (code points >= U+0100): oracle only
		for k := 1 + r.Intn(2); k > 0; k-- {
			it := &c.Items[r.Intn(len(c.Items))]
			if r.Bool() {
				it.T[r.Intn(3)] = r.Pick(outsideWords)
			} else {
				it.S = r.Pick(outsideWords)
			}
		}
	}
	if resolverPaginates(&c) && kindDraw >= 50 {
		kindDraw -= 50 // walks follow thunder's page info; a resolver's own page info is checked per page
	}
	switch k := kindDraw; {
	case k < 50:
		c.Kind = "page"
		c.Origin = "page"
		genFilterSort(r, c.Field, &c.Args, true)
		switch k := r.Intn(100); {
		case k < 30:
		case k < 65:
			c.Args.First = p64(int64(r.Intn(9)))
		case k < 90:
			c.Args.Last = p64(int64(r.Intn(9)))
		case k < 93:
			c.Args.First = p64(int64(r.Intn(5)))
			c.Args.Last = p64(int64(r.Intn(5)))
		case k < 96:
			c.Args.First = p64(-1 - int64(r.Intn(3)))
		case k < 98:
			c.Args.Last = p64(-1)
		default:
			c.Args.First = p64(1 << 40)
		}
		// cursors are drawn mostly from the filtered, sorted list (so that first / last / interior
		// positions of what is actually paginated are hit), otherwise from the whole list (after
		// filtering some of those become unknown)
		pool := c.Items
		if ref, ok := refSort(&c, c.Args, refFilter(&c, c.Args)); ok && r.Chance(70) {
			pool = ref
		}
		c.Args.After = genCursor(r, pool)
		c.Args.Before = genCursor(r, pool)
		if c.Args.After != nil && c.Args.Before != nil && len(pool) > 1 && r.Chance(40) {
			// an ordered pair of positions
			i := r.Intn(len(pool) - 1)
			j := i + 1 + r.Intn(len(pool)-i-1)
			if r.Chance(40) {
				j = len(pool) - 1
			}
			c.Args.After, c.Args.Before = pstr(cursorOf(pool[i].Key)), pstr(cursorOf(pool[j].Key))
		}
	case k < 75:
		c.Kind = "walkf"
		c.Origin = "walk"
		c.K = int64(1 + r.Intn(7))
		genFilterSort(r, c.Field, &c.Args, false)
	default:
		c.Kind = "walkb"
		c.Origin = "walk"
		c.K = int64(1 + r.Intn(7))
		genFilterSort(r, c.Field, &c.Args, false)
	}
	if c.Kind == "page" && c.Field != "bareI" && r.Chance(6) {
		// process-survival probe: the field functions panic; aim at each runner (plain loop, goroutines of
		// the expensive path, batch call) of the filter and of the sort in turn
		c.Panic = true
		im := r.Pick(impls)
		if r.Chance(55) {
			c.Args.FilterText, c.Args.FilterType, c.Args.FilterFields = nil, nil, nil
			c.Args.SortBy = pstr(r.Pick(sortAttrs) + "_" + im)
		} else {
			c.Args.FilterText, c.Args.FilterType = pstr(r.Pick(filterTexts)), nil
			fs := []string{r.Pick(textAttrs) + "_" + im}
			c.Args.FilterFields = &fs
		}
	}
	if c.Field != "bareI" && !c.Panic && len(c.Items) > 0 && r.Chance(6) {
		// case-folding family: node texts, sort strings and the filter text over foldAlphabet
		for i := range c.Items {
			for a := 0; a < 3; a++ {
				c.Items[i].T[a] = foldWord(r, 3)
			}
			c.Items[i].S = foldWord(r, 2)
		}
		ft := foldWord(r, 2)
		if r.Chance(30) {
			ft += " " + foldWord(r, 1)
		}
		if r.Chance(15) {
			ft = "\"" + ft + "\""
		}
		c.Args.FilterText, c.Args.FilterType = pstr(ft), nil
		if r.Chance(50) {
			c.Args.FilterFields = nil
		}
		if r.Chance(40) {
			c.Args.SortBy = pstr("s0_" + r.Pick(impls))
		}
		if c.Kind == "page" && (c.Args.After != nil || c.Args.Before != nil) && r.Chance(60) {
			c.Args.After, c.Args.Before = nil, nil
		}
	}
	if c.Field == "dualI" && r.Chance(30) {
		// the custom FilterFuncs must work whichever resolver the switch selects
		if r.Bool() {
			c.Args.FilterType, c.Args.FilterText = pstr("prefix"), pstr(r.Pick(prefixTexts))
		} else {
			c.Args.FilterType, c.Args.FilterText = pstr("exact"), pstr(r.Pick(words))
		}
	}
	return c
}
