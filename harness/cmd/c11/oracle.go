package main

// Reference semantics written directly from the property text (no use of the Coq model, no use of
// thunder's pagination code): which elements pass the text filter, in which order they come, which
// slice a page must hold and what its page info must say.

import (
	"encoding/base64"
	"fmt"
	"strings"
)

func isBlank(c byte) bool { return c == ' ' || c == '\t' || c == '\n' || c == '\f' || c == '\r' }

// refTokens: blank-separated search terms; inside a term, "..." groups characters (blanks included).
// A term's token is its last unquoted word if it has one, otherwise its last quoted segment.
func refTokens(q string) []string {
	var toks []string
	i := 0
	for i < len(q) {
		if isBlank(q[i]) {
			i++
			continue
		}
		word, quoted := "", ""
		hasWord := false
		for i < len(q) && !isBlank(q[i]) {
			if q[i] == '"' {
				j := i + 1
				for j < len(q) && q[j] != '"' {
					j++
				}
				quoted = q[i+1 : j]
				if j < len(q) {
					j++
				}
				i = j
			} else {
				j := i
				for j < len(q) && !isBlank(q[j]) && q[j] != '"' {
					j++
				}
				word, hasWord = q[i:j], true
				i = j
			}
		}
		if hasWord {
			toks = append(toks, word)
		} else {
			toks = append(toks, quoted)
		}
	}
	return toks
}

func asciiLower(s string) string {
	b := []byte(s)
	for i, c := range b {
		if c >= 'A' && c <= 'Z' {
			b[i] = c + 32
		}
	}
	return string(b)
}

func refMatch(text string, toks []string) bool {
	if len(toks) == 0 {
		return true
	}
	for _, t := range toks {
		if t != "" && strings.Contains(asciiLower(text), asciiLower(t)) {
			return true
		}
	}
	return false
}

// attrOf maps a registered field name ("t1_batch") to its attribute ("t1"); ok=false if not registered.
func attrOf(field, name string, attrs []string) (string, bool) {
	if field == "bareI" {
		return "", false
	}
	for _, a := range attrs {
		for _, im := range impls {
			if name == a+"_"+im {
				return a, true
			}
		}
	}
	return "", false
}

func textAttr(it Item, a string) string {
	switch a {
	case "t0":
		return it.T[0]
	case "t1":
		return it.T[1]
	}
	return it.T[2]
}

// refFilter returns the elements that pass the text filter, in list order.
func refFilter(c *Case, a Args) []Item {
	if a.FilterText == nil || *a.FilterText == "" {
		return c.Items
	}
	var attrs []string
	if a.FilterFields != nil {
		for _, f := range *a.FilterFields {
			if at, ok := attrOf(c.Field, f, textAttrs); ok {
				attrs = append(attrs, at)
			}
		}
	} else if c.Field != "bareI" {
		attrs = textAttrs
	}
	toks := refTokens(*a.FilterText)
	var out []Item
	for _, it := range c.Items {
		keep := false
		for _, at := range attrs {
			if refMatch(textAttr(it, at), toks) {
				keep = true
			}
		}
		if keep {
			out = append(out, it)
		}
	}
	return out
}

// refSort: stable, ascending or descending by the named attribute. ok=false for an unregistered field.
func refSort(c *Case, a Args, in []Item) ([]Item, bool) {
	if a.SortBy == nil {
		return in, true
	}
	at, ok := attrOf(c.Field, *a.SortBy, sortAttrs)
	if !ok {
		return nil, false
	}
	desc := a.SortOrder != nil && *a.SortOrder == "desc"
	less := func(x, y Item) bool {
		var lt bool
		switch at {
		case "n0":
			lt = x.N[0] < y.N[0]
		case "n1":
			lt = x.N[1] < y.N[1]
		default:
			lt = asciiLower(x.S) < asciiLower(y.S)
		}
		return lt
	}
	out := append([]Item{}, in...)
	// stable insertion sort
	for i := 1; i < len(out); i++ {
		for j := i; j > 0; j-- {
			var swap bool
			if desc {
				swap = less(out[j-1], out[j])
			} else {
				swap = less(out[j], out[j-1])
			}
			if !swap {
				break
			}
			out[j], out[j-1] = out[j-1], out[j]
		}
	}
	return out, true
}

func cursorOf(key string) string { return base64.StdEncoding.EncodeToString([]byte(key)) }

func argsValid(a Args) bool {
	if a.First != nil && *a.First < 0 || a.Last != nil && *a.Last < 0 {
		return false
	}
	return !(a.First != nil && a.Last != nil)
}

type expectPage struct {
	keys             []string
	hasNext, hasPrev bool
	bothFound        bool
}

// refPage: the page the statement prescribes for the sorted, filtered list ref.
func refPage(ref []Item, a Args) expectPage {
	find := func(from int, cur *string) int {
		if cur == nil {
			return -1
		}
		for i := from; i < len(ref); i++ {
			if cursorOf(ref[i].Key) == *cur {
				return i
			}
		}
		return -1
	}
	lo, hi := 0, len(ref)
	var e expectPage
	ia := find(0, a.After)
	if ia >= 0 {
		lo = ia + 1
		e.hasPrev = ia > 0 // elements exist before the element named by after
	}
	ib := find(lo, a.Before)
	if ib >= 0 {
		hi = ib
		e.hasNext = ib < len(ref)-1 // elements exist beyond the element named by before
	}
	e.bothFound = ia >= 0 && ib >= 0
	if a.First != nil && int64(hi-lo) > *a.First {
		hi = lo + int(*a.First)
		e.hasNext = true // cut short by first
	}
	if a.Last != nil && int64(hi-lo) > *a.Last {
		lo = hi - int(*a.Last)
		e.hasPrev = true // cut short by last
	}
	for _, it := range ref[lo:hi] {
		e.keys = append(e.keys, it.Key)
	}
	return e
}

type oracleFailure struct{ sig, detail string }

func keyOfNode(n interface{}) string {
	m, _ := n.(map[string]interface{})
	switch id := m["id"].(type) {
	case float64:
		return fmt.Sprintf("%d", int64(id))
	case string:
		return id
	}
	return "?"
}

type pageView struct {
	keys, cursors    []string
	total            int64
	hasNext, hasPrev bool
	start, end       string
	ok               bool
}

func viewOf(conn map[string]interface{}) (v pageView) {
	defer func() {
		if recover() != nil {
			v.ok = false
		}
	}()
	for _, e := range conn["edges"].([]interface{}) {
		em := e.(map[string]interface{})
		v.keys = append(v.keys, keyOfNode(em["node"]))
		v.cursors = append(v.cursors, em["cursor"].(string))
	}
	v.total = int64(conn["totalCount"].(float64))
	pi := conn["pageInfo"].(map[string]interface{})
	v.hasNext = pi["hasNextPage"].(bool)
	v.hasPrev = pi["hasPrevPage"].(bool)
	v.start = pi["startCursor"].(string)
	v.end = pi["endCursor"].(string)
	v.ok = true
	return v
}

// checkPage evaluates the per-page clauses of the statement on one implementation page.
func checkPage(c *Case, a Args, r pageResult) []oracleFailure {
	ref, sortOK := refSort(c, a, refFilter(c, a))
	if !sortOK || !argsValid(a) {
		return nil // the statement does not speak about rejected arguments
	}
	if r.Err != "" {
		return []oracleFailure{{"unexpected-error", r.Err}}
	}
	v := viewOf(r.Conn)
	if !v.ok {
		return []oracleFailure{{"malformed-connection", fmt.Sprint(r.Conn)}}
	}
	want := refPage(ref, a)
	var fs []oracleFailure
	if v.total != int64(len(ref)) {
		fs = append(fs, oracleFailure{"totalCount-wrong", fmt.Sprintf("totalCount=%d, %d elements pass the filter", v.total, len(ref))})
	}
	if strings.Join(v.keys, "\x00") != strings.Join(want.keys, "\x00") || len(v.keys) != len(want.keys) {
		fs = append(fs, oracleFailure{"page-contents-wrong", fmt.Sprintf("page holds %q, statement prescribes %q", v.keys, want.keys)})
	}
	for i, k := range v.keys {
		if v.cursors[i] != cursorOf(k) {
			fs = append(fs, oracleFailure{"cursor-wrong", fmt.Sprintf("edge %q has cursor %q", k, v.cursors[i])})
			break
		}
	}
	if v.hasNext != want.hasNext {
		sig := "hasNextPage-wrong"
		if want.bothFound {
			sig = "hasNextPage-wrong-with-after-and-before"
		}
		fs = append(fs, oracleFailure{sig, fmt.Sprintf("hasNextPage=%v, statement prescribes %v", v.hasNext, want.hasNext)})
	}
	if v.hasPrev != want.hasPrev {
		fs = append(fs, oracleFailure{"hasPrevPage-wrong", fmt.Sprintf("hasPrevPage=%v, statement prescribes %v", v.hasPrev, want.hasPrev)})
	}
	ws, we := "", ""
	if len(v.cursors) > 0 {
		ws, we = v.cursors[0], v.cursors[len(v.cursors)-1]
	}
	if v.start != ws || v.end != we {
		fs = append(fs, oracleFailure{"start-end-cursor-wrong", fmt.Sprintf("start=%q end=%q, first/last edge %q/%q", v.start, v.end, ws, we)})
	}
	return fs
}

// checkWalk: the pages of a completed walk, concatenated (reversed page order for a backward walk),
// are exactly the filtered elements in sorted order, each exactly once.
func checkWalk(c *Case, pages []pageResult, finished bool) []oracleFailure {
	ref, sortOK := refSort(c, c.Args, refFilter(c, c.Args))
	if !sortOK {
		return nil
	}
	name := "walk-forward"
	if c.Kind == "walkb" {
		name = "walk-backward"
	}
	if !finished {
		return []oracleFailure{{name + "-does-not-terminate", fmt.Sprintf("%d pages for %d elements", len(pages), len(ref))}}
	}
	var got []string
	for pi := range pages {
		p := pages[pi]
		if c.Kind == "walkb" {
			p = pages[len(pages)-1-pi]
		}
		if p.Err != "" {
			return nil // reported by checkPage
		}
		v := viewOf(p.Conn)
		if int64(len(v.keys)) > c.K {
			return []oracleFailure{{name + "-page-too-long", fmt.Sprintf("%d edges with page size %d", len(v.keys), c.K)}}
		}
		got = append(got, v.keys...)
	}
	var want []string
	for _, it := range ref {
		want = append(want, it.Key)
	}
	if len(got) != len(want) || strings.Join(got, "\x00") != strings.Join(want, "\x00") {
		return []oracleFailure{{name + "-not-a-partition", fmt.Sprintf("walk visited %q, filtered sorted list is %q", got, want)}}
	}
	return nil
}
