package main

// Reference semantics written directly from the property text (no use of the Coq model, no use of
// thunder's pagination code): which elements pass the text filter, in which order they come, which
// slice a page must hold and what its page info must say.

import (
	"encoding/base64"
	"fmt"
	"strings"
)

func isBlank(c byte) bool { return c == ' ' || c == '\t' || c == '\n' || c == '\f' || c == '\r' }

// refTokens: blank-separated search terms; inside a term, "..." groups characters (blanks included).
// A term's token is its last unquoted word if it has one, otherwise its last quoted segment.
func refTokens(q string) []string {
	var toks []string
	i := 0
	for i < len(q) {
		if isBlank(q[i]) {
			i++
			continue
		}
		word, quoted := "", ""
		hasWord := false
		for i < len(q) && !isBlank(q[i]) {
			if q[i] == '"' {
				j := i + 1
				for j < len(q) && q[j] != '"' {
					j++
				}
				quoted = q[i+1 : j]
				if j < len(q) {
					j++
				}
				i = j
			} else {
				j := i
				for j < len(q) && !isBlank(q[j]) && q[j] != '"' {
					j++
				}
				word, hasWord = q[i:j], true
				i = j
			}
		}
		if hasWord {
			toks = append(toks, word)
		} else {
			toks = append(toks, quoted)
		}
	}
	return toks
}

// lowerCase: "case-insensitive" in the statement is Go's strings.ToLower on both sides.
func lowerCase(s string) string { return strings.ToLower(s) }

func refMatch(text string, toks []string) bool {
	if len(toks) == 0 {
		return true
	}
	for _, t := range toks {
		if t != "" && strings.Contains(lowerCase(text), lowerCase(t)) {
			return true
		}
	}
	return false
}

// attrOf maps a registered field name ("t1_batch") to its attribute ("t1"); ok=false if not registered.
func attrOf(field, name string, attrs []string) (string, bool) {
	if field == "bareI" {
		return "", false
	}
	for _, a := range attrs {
		for _, im := range impls {
			if name == a+"_"+im {
				return a, true
			}
		}
	}
	return "", false
}

func textAttr(it Item, a string) string {
	switch a {
	case "t0":
		return it.T[0]
	case "t1":
		return it.T[1]
	}
	return it.T[2]
}

// refFilter returns the elements that pass the text filter, in list order.
func refFilter(c *Case, a Args) []Item {
	if a.FilterText == nil || *a.FilterText == "" {
		return c.Items
	}
	var attrs []string
	if a.FilterFields != nil {
		for _, f := range *a.FilterFields {
			if at, ok := attrOf(c.Field, f, textAttrs); ok {
				attrs = append(attrs, at)
			}
		}
	} else if c.Field != "bareI" {
		attrs = textAttrs
	}
	// filterType names a custom FilterFunc (tokeniser + match) registered on the field; an unregistered
	// name matches nothing
	match := refMatch
	toks := refTokens(*a.FilterText)
	if a.FilterType != nil {
		registered := false
		for _, n := range customNames {
			registered = registered || (n == *a.FilterType && c.Field != "bareI")
		}
		name := *a.FilterType
		if registered {
			toks = customTokens(name, *a.FilterText)
			match = func(text string, toks []string) bool { return customMatch(name, text, toks) }
		} else {
			toks = nil
			match = func(string, []string) bool { return false }
		}
	}
	var out []Item
	for _, it := range c.Items {
		keep := false
		for _, at := range attrs {
			if match(textAttr(it, at), toks) {
				keep = true
			}
		}
		if keep {
			out = append(out, it)
		}
	}
	return out
}

// refSort: stable, ascending or descending by the named attribute. ok=false for an unregistered field.
func refSort(c *Case, a Args, in []Item) ([]Item, bool) {
	if a.SortBy == nil {
		return in, true
	}
	at, ok := attrOf(c.Field, *a.SortBy, sortAttrs)
	if !ok {
		return nil, false
	}
	desc := a.SortOrder != nil && *a.SortOrder == "desc"
	less := func(x, y Item) bool {
		var lt bool
		switch at {
		case "n0":
			lt = x.N[0] < y.N[0]
		case "n1":
			lt = x.N[1] < y.N[1]
		case "u0":
			lt = x.U < y.U
		case "f0":
			lt = x.F < y.F
		default:
			lt = lowerCase(x.S) < lowerCase(y.S)
		}
		return lt
	}
	out := append([]Item{}, in...)
	// stable insertion sort
	for i := 1; i < len(out); i++ {
		for j := i; j > 0; j-- {
			var swap bool
			if desc {
				swap = less(out[j-1], out[j])
			} else {
				swap = less(out[j], out[j-1])
			}
			if !swap {
				break
			}
			out[j], out[j-1] = out[j-1], out[j]
		}
	}
	return out, true
}

// externallyManaged: the resolver, not thunder, paginates (extI, or dualI with the switch on manual).
func externallyManaged(c *Case) bool {
	return c.Field == "extI" || (c.Field == "dualI" && !c.Fallback)
}

// resolverPaginates: externally managed and the resolver's own PaginationInfo is reported (no SetPageInfo) - there is no
// thunder page info to follow, so such connections are not walked.  With SetPageInfo thunder slices the returned list and
// computes hasNextPage / cursors itself: walks over it must partition what the resolver returned.
func resolverPaginates(c *Case) bool {
	return externallyManaged(c) && (c.Ext == nil || !c.Ext.SetPageInfo)
}

// refList: the list that is paginated.  Thunder-managed: filtered, then sorted.  Externally managed: what
// the resolver returned, filtered only if it asks for it (ApplyTextFilter), never sorted.
func refList(c *Case, a Args) ([]Item, bool) {
	if externallyManaged(c) {
		if c.Ext != nil && c.Ext.ApplyTextFilter {
			return refFilter(c, a), true
		}
		return c.Items, true
	}
	return refSort(c, a, refFilter(c, a))
}

func cursorOf(key string) string { return base64.StdEncoding.EncodeToString([]byte(key)) }

func argsValid(a Args) bool {
	if a.First != nil && *a.First < 0 || a.Last != nil && *a.Last < 0 {
		return false
	}
	return !(a.First != nil && a.Last != nil)
}

type expectPage struct {
	keys             []string
	hasNext, hasPrev bool
	bothFound        bool
}

// refPage: the page the statement prescribes for the sorted, filtered list ref.
func refPage(ref []Item, a Args) expectPage {
	find := func(from int, cur *string) int {
		if cur == nil {
			return -1
		}
		for i := from; i < len(ref); i++ {
			if cursorOf(ref[i].Key) == *cur {
				return i
			}
		}
		return -1
	}
	lo, hi := 0, len(ref)
	var e expectPage
	ia := find(0, a.After)
	if ia >= 0 {
		lo = ia + 1
		e.hasPrev = ia > 0 // elements exist before the element named by after
	}
	ib := find(lo, a.Before)
	if ib >= 0 {
		hi = ib
		e.hasNext = ib < len(ref)-1 // elements exist beyond the element named by before
	}
	e.bothFound = ia >= 0 && ib >= 0
	if a.First != nil && int64(hi-lo) > *a.First {
		hi = lo + int(*a.First)
		e.hasNext = true // cut short by first
	}
	if a.Last != nil && int64(hi-lo) > *a.Last {
		lo = hi - int(*a.Last)
		e.hasPrev = true // cut short by last
	}
	for _, it := range ref[lo:hi] {
		e.keys = append(e.keys, it.Key)
	}
	return e
}

type oracleFailure struct{ sig, detail string }

func keyOfNode(n interface{}) string {
	m, _ := n.(map[string]interface{})
	switch id := m["id"].(type) {
	case int64:
		return fmt.Sprintf("%d", id)
	case string:
		return id
	}
	return "?"
}

type pageView struct {
	keys, cursors    []string
	total            int64
	hasNext, hasPrev bool
	start, end       string
	ok               bool
}

func viewOf(conn map[string]interface{}) (v pageView) {
	defer func() {
		if recover() != nil {
			v.ok = false
		}
	}()
	for _, e := range conn["edges"].([]interface{}) {
		em := e.(map[string]interface{})
		v.keys = append(v.keys, keyOfNode(em["node"]))
		v.cursors = append(v.cursors, em["cursor"].(string))
	}
	v.total = conn["totalCount"].(int64)
	pi := conn["pageInfo"].(map[string]interface{})
	v.hasNext = pi["hasNextPage"].(bool)
	v.hasPrev = pi["hasPrevPage"].(bool)
	v.start = pi["startCursor"].(string)
	v.end = pi["endCursor"].(string)
	v.ok = true
	return v
}

// checkPage evaluates the per-page clauses of the statement on one implementation page.
func checkPage(c *Case, a Args, r pageResult) []oracleFailure {
	if externallyManaged(c) && (c.Ext == nil || !c.Ext.SetPageInfo) {
		return checkExtPage(c, a, r)
	}
	ref, sortOK := refList(c, a)
	if !sortOK || !argsValid(a) {
		return nil // the statement does not speak about rejected arguments
	}
	if r.Err != "" {
		return []oracleFailure{{"unexpected-error", r.Err}}
	}
	v := viewOf(r.Conn)
	if !v.ok {
		return []oracleFailure{{"malformed-connection", fmt.Sprint(r.Conn)}}
	}
	want := refPage(ref, a)
	var fs []oracleFailure
	if v.total != int64(len(ref)) {
		fs = append(fs, oracleFailure{"totalCount-wrong", fmt.Sprintf("totalCount=%d, %d elements pass the filter", v.total, len(ref))})
	}
	if strings.Join(v.keys, "\x00") != strings.Join(want.keys, "\x00") || len(v.keys) != len(want.keys) {
		fs = append(fs, oracleFailure{"page-contents-wrong", fmt.Sprintf("page holds %q, statement prescribes %q", v.keys, want.keys)})
	}
	for i, k := range v.keys {
		if v.cursors[i] != cursorOf(k) {
			fs = append(fs, oracleFailure{"cursor-wrong", fmt.Sprintf("edge %q has cursor %q", k, v.cursors[i])})
			break
		}
	}
	if c.Field == "dualI" && c.Fallback && a.FilterType != nil && len(fs) > 0 && v.total == 0 && len(v.keys) == 0 && len(ref) > 0 {
		// the fallback resolver of ManualPaginationWithFallback with a custom FilterFunc
		fs = []oracleFailure{{"custom-filter-ignored-on-fallback-path", fs[0].detail}}
	}
	if v.hasNext != want.hasNext {
		sig := "hasNextPage-wrong"
		if want.bothFound {
			sig = "hasNextPage-wrong-with-after-and-before"
		}
		fs = append(fs, oracleFailure{sig, fmt.Sprintf("hasNextPage=%v, statement prescribes %v", v.hasNext, want.hasNext)})
	}
	if v.hasPrev != want.hasPrev {
		fs = append(fs, oracleFailure{"hasPrevPage-wrong", fmt.Sprintf("hasPrevPage=%v, statement prescribes %v", v.hasPrev, want.hasPrev)})
	}
	ws, we := "", ""
	if len(v.cursors) > 0 {
		ws, we = v.cursors[0], v.cursors[len(v.cursors)-1]
	}
	if v.start != ws || v.end != we {
		fs = append(fs, oracleFailure{"start-end-cursor-wrong", fmt.Sprintf("start=%q end=%q, first/last edge %q/%q", v.start, v.end, ws, we)})
	}
	return fs
}

// checkWalk: the pages of a completed walk, concatenated (reversed page order for a backward walk),
// are exactly the filtered elements in sorted order, each exactly once.
func checkWalk(c *Case, pages []pageResult, finished bool) []oracleFailure {
	ref, sortOK := refList(c, c.Args)
	if !sortOK {
		return nil
	}
	name := "walk-forward"
	if c.Kind == "walkb" {
		name = "walk-backward"
	}
	if !finished {
		return []oracleFailure{{name + "-does-not-terminate", fmt.Sprintf("%d pages for %d elements", len(pages), len(ref))}}
	}
	var got []string
	for pi := range pages {
		p := pages[pi]
		if c.Kind == "walkb" {
			p = pages[len(pages)-1-pi]
		}
		if p.Err != "" {
			return nil // reported by checkPage
		}
		v := viewOf(p.Conn)
		if int64(len(v.keys)) > c.K {
			return []oracleFailure{{name + "-page-too-long", fmt.Sprintf("%d edges with page size %d", len(v.keys), c.K)}}
		}
		got = append(got, v.keys...)
	}
	var want []string
	for _, it := range ref {
		want = append(want, it.Key)
	}
	if len(got) != len(want) || strings.Join(got, "\x00") != strings.Join(want, "\x00") {
		return []oracleFailure{{name + "-not-a-partition", fmt.Sprintf("walk visited %q, filtered sorted list is %q", got, want)}}
	}
	return nil
}

// checkExtPage: an externally managed connection without SetPageInfo.  PaginationInfo is "the source of
// truth" (pagination.go): totalCount, hasNextPage, hasPrevPage are the resolver's, the page is everything
// the resolver returned (text-filtered only if it asked for that), cursors are those of the first and
// last edge.  A PaginationInfo without TotalCountFunc is rejected.  An empty page is returned as the empty
// connection (the resolver's info is dropped): recorded, not judged.
func checkExtPage(c *Case, a Args, r pageResult) []oracleFailure {
	if len(c.Items) == 0 || c.Ext == nil {
		return nil
	}
	if c.Ext.Total == nil {
		if r.Err != "no-total-func" {
			return []oracleFailure{{"ext-missing-total-func-not-rejected", r.Err}}
		}
		return nil
	}
	if r.Err != "" {
		return []oracleFailure{{"unexpected-error", r.Err}}
	}
	v := viewOf(r.Conn)
	if !v.ok {
		return []oracleFailure{{"malformed-connection", fmt.Sprint(r.Conn)}}
	}
	ref, _ := refList(c, a)
	var want []string
	for _, it := range ref {
		want = append(want, it.Key)
	}
	var fs []oracleFailure
	if v.total != *c.Ext.Total {
		fs = append(fs, oracleFailure{"ext-totalCount-not-from-resolver", fmt.Sprintf("totalCount=%d, resolver said %d", v.total, *c.Ext.Total)})
	}
	if v.hasNext != c.Ext.HasNext || v.hasPrev != c.Ext.HasPrev {
		fs = append(fs, oracleFailure{"ext-pageinfo-not-from-resolver", fmt.Sprintf("hasNextPage=%v hasPrevPage=%v, resolver said %v %v", v.hasNext, v.hasPrev, c.Ext.HasNext, c.Ext.HasPrev)})
	}
	if len(v.keys) != len(want) || strings.Join(v.keys, "\x00") != strings.Join(want, "\x00") {
		fs = append(fs, oracleFailure{"ext-page-contents-wrong", fmt.Sprintf("page holds %q, resolver returned %q", v.keys, want)})
	}
	for i, k := range v.keys {
		if v.cursors[i] != cursorOf(k) {
			fs = append(fs, oracleFailure{"cursor-wrong", fmt.Sprintf("edge %q has cursor %q", k, v.cursors[i])})
			break
		}
	}
	ws, we := "", ""
	if len(v.cursors) > 0 {
		ws, we = v.cursors[0], v.cursors[len(v.cursors)-1]
	}
	if v.start != ws || v.end != we {
		fs = append(fs, oracleFailure{"start-end-cursor-wrong", fmt.Sprintf("start=%q end=%q, first/last edge %q/%q", v.start, v.end, ws, we)})
	}
	return fs
}

// checkPanicPage: every filter / sort field function of the case panics.  A failing resolver fails the
// request and nothing else: the process must survive, and where a field function is certainly invoked the
// request must end in an error (otherwise the page, if any, is judged as usual).
func checkPanicPage(c *Case, p pageResult) []oracleFailure {
	if strings.HasPrefix(p.Err, "process-died") || p.Err == "timeout" {
		return []oracleFailure{{"panic-in-field-function-kills-process", p.Err}}
	}
	a := c.Args
	filterRuns := len(c.Items) > 0 && a.FilterText != nil && *a.FilterText != "" && c.Field != "bareI" &&
		(!externallyManaged(c) || c.Ext.ApplyTextFilter) && (a.FilterFields == nil || someRegistered(c, *a.FilterFields))
	sortRuns := false
	if !externallyManaged(c) && a.SortBy != nil && !filterRuns {
		if _, ok := attrOf(c.Field, *a.SortBy, sortAttrs); ok {
			q := *c
			q.Panic = false
			sortRuns = len(refFilter(&q, a)) > 0
		}
	}
	if filterRuns || sortRuns {
		if p.Err == "" {
			return []oracleFailure{{"panic-in-field-function-swallowed", "the request returned a page although a filter/sort field function panicked"}}
		}
		return nil
	}
	if p.Err == "resolver-panic" {
		return nil
	}
	return checkPage(c, a, p)
}

func someRegistered(c *Case, fields []string) bool {
	for _, f := range fields {
		if _, ok := attrOf(c.Field, f, textAttrs); ok {
			return true
		}
	}
	return false
}
