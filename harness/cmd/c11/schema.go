package main

// The schema under test: paginated fields (int64 key / string key / pointer nodes / no filter+sort fields) over a harness-controlled list,
// each with 3 text attributes x 4 filter-field implementations and 3 sort attributes x 4 sort-field
// implementations (plain, expensive, batch, batch-with-fallback).

import (
	"context"
	"encoding/json"
	"fmt"
	"sort"
	"strconv"
	"strings"
	"time"

	"github.com/samsarahq/thunder/batch"
	"github.com/samsarahq/thunder/graphql"
	"github.com/samsarahq/thunder/graphql/schemabuilder"
)

// Item is the structured form of one list element (what cases.jsonl / replay files hold).
type Item struct {
	Key string    `json:"key"` // the key's %v rendering; for key kind "int" a decimal int64
	T   [3]string `json:"t"`   // text attributes t0..t2
	N   [2]int64  `json:"n"`   // integer sort attributes n0, n1
	S   string    `json:"s"`   // string sort attribute s0
}

type ItemI struct {
	Id         int64
	T0, T1, T2 string
	N0, N1     int64
	S0         string
}

type ItemS struct {
	Id         string
	T0, T1, T2 string
	N0, N1     int64
	S0         string
}

type ctxKey int

const (
	itemsKey ctxKey = iota
	flagKey
)

var impls = []string{"plain", "exp", "batch", "fb"}
var textAttrs = []string{"t0", "t1", "t2"}
var sortAttrs = []string{"n0", "n1", "s0"}

func useBatch(ctx context.Context) bool {
	b, _ := ctx.Value(flagKey).(bool)
	return b
}

func textOfI(it ItemI, a int) string { return [3]string{it.T0, it.T1, it.T2}[a] }
func textOfS(it ItemS, a int) string { return [3]string{it.T0, it.T1, it.T2}[a] }

func filterOptsI() []schemabuilder.FieldFuncOption {
	var opts []schemabuilder.FieldFuncOption
	for ai := range textAttrs {
		a := ai
		one := func(it ItemI) string { return textOfI(it, a) }
		oneE := func(it ItemI) (string, error) { return textOfI(it, a), nil }
		many := func(items map[batch.Index]ItemI) (map[batch.Index]string, error) {
			m := make(map[batch.Index]string, len(items))
			for i, it := range items {
				m[i] = textOfI(it, a)
			}
			return m, nil
		}
		opts = append(opts,
			schemabuilder.FilterField(textAttrs[a]+"_plain", one),
			schemabuilder.FilterField(textAttrs[a]+"_exp", one, schemabuilder.Expensive),
			schemabuilder.BatchFilterField(textAttrs[a]+"_batch", many),
			schemabuilder.BatchFilterFieldWithFallback(textAttrs[a]+"_fb", many, oneE, useBatch))
	}
	return opts
}

func filterOptsS() []schemabuilder.FieldFuncOption {
	var opts []schemabuilder.FieldFuncOption
	for ai := range textAttrs {
		a := ai
		one := func(it ItemS) string { return textOfS(it, a) }
		oneE := func(it ItemS) (string, error) { return textOfS(it, a), nil }
		many := func(items map[batch.Index]ItemS) (map[batch.Index]string, error) {
			m := make(map[batch.Index]string, len(items))
			for i, it := range items {
				m[i] = textOfS(it, a)
			}
			return m, nil
		}
		opts = append(opts,
			schemabuilder.FilterField(textAttrs[a]+"_plain", one),
			schemabuilder.FilterField(textAttrs[a]+"_exp", one, schemabuilder.Expensive),
			schemabuilder.BatchFilterField(textAttrs[a]+"_batch", many),
			schemabuilder.BatchFilterFieldWithFallback(textAttrs[a]+"_fb", many, oneE, useBatch))
	}
	return opts
}

func sortOptsI() []schemabuilder.FieldFuncOption {
	var opts []schemabuilder.FieldFuncOption
	for ai := 0; ai < 2; ai++ {
		a := ai
		get := func(it ItemI) int64 { return [2]int64{it.N0, it.N1}[a] }
		one := func(it ItemI) int64 { return get(it) }
		oneE := func(it ItemI) (int64, error) { return get(it), nil }
		many := func(items map[batch.Index]ItemI) (map[batch.Index]int64, error) {
			m := make(map[batch.Index]int64, len(items))
			for i, it := range items {
				m[i] = get(it)
			}
			return m, nil
		}
		opts = append(opts,
			schemabuilder.SortField(sortAttrs[a]+"_plain", one),
			schemabuilder.SortField(sortAttrs[a]+"_exp", one, schemabuilder.Expensive),
			schemabuilder.BatchSortField(sortAttrs[a]+"_batch", many),
			schemabuilder.BatchSortFieldWithFallback(sortAttrs[a]+"_fb", many, oneE, useBatch))
	}
	one := func(it ItemI) string { return it.S0 }
	oneE := func(it ItemI) (string, error) { return it.S0, nil }
	many := func(items map[batch.Index]ItemI) (map[batch.Index]string, error) {
		m := make(map[batch.Index]string, len(items))
		for i, it := range items {
			m[i] = it.S0
		}
		return m, nil
	}
	opts = append(opts,
		schemabuilder.SortField("s0_plain", one),
		schemabuilder.SortField("s0_exp", one, schemabuilder.Expensive),
		schemabuilder.BatchSortField("s0_batch", many),
		schemabuilder.BatchSortFieldWithFallback("s0_fb", many, oneE, useBatch))
	return opts
}

func sortOptsS() []schemabuilder.FieldFuncOption {
	var opts []schemabuilder.FieldFuncOption
	for ai := 0; ai < 2; ai++ {
		a := ai
		get := func(it ItemS) int64 { return [2]int64{it.N0, it.N1}[a] }
		one := func(it ItemS) int64 { return get(it) }
		oneE := func(it ItemS) (int64, error) { return get(it), nil }
		many := func(items map[batch.Index]ItemS) (map[batch.Index]int64, error) {
			m := make(map[batch.Index]int64, len(items))
			for i, it := range items {
				m[i] = get(it)
			}
			return m, nil
		}
		opts = append(opts,
			schemabuilder.SortField(sortAttrs[a]+"_plain", one),
			schemabuilder.SortField(sortAttrs[a]+"_exp", one, schemabuilder.Expensive),
			schemabuilder.BatchSortField(sortAttrs[a]+"_batch", many),
			schemabuilder.BatchSortFieldWithFallback(sortAttrs[a]+"_fb", many, oneE, useBatch))
	}
	one := func(it ItemS) string { return it.S0 }
	oneE := func(it ItemS) (string, error) { return it.S0, nil }
	many := func(items map[batch.Index]ItemS) (map[batch.Index]string, error) {
		m := make(map[batch.Index]string, len(items))
		for i, it := range items {
			m[i] = it.S0
		}
		return m, nil
	}
	opts = append(opts,
		schemabuilder.SortField("s0_plain", one),
		schemabuilder.SortField("s0_exp", one, schemabuilder.Expensive),
		schemabuilder.BatchSortField("s0_batch", many),
		schemabuilder.BatchSortFieldWithFallback("s0_fb", many, oneE, useBatch))
	return opts
}

func buildSchema() (s *graphql.Schema, err error) {
	defer func() {
		if e := recover(); e != nil {
			err = fmt.Errorf("schema build panic: %v", e)
		}
	}()
	schema := schemabuilder.NewSchema()
	oi := schema.Object("ItemI", ItemI{})
	oi.Key("id")
	os := schema.Object("ItemS", ItemS{})
	os.Key("id")
	q := schema.Query()
	optsI := append([]schemabuilder.FieldFuncOption{schemabuilder.Paginated}, filterOptsI()...)
	optsI = append(optsI, sortOptsI()...)
	q.FieldFunc("itemsI", func(ctx context.Context) []ItemI {
		src, _ := ctx.Value(itemsKey).([]Item)
		out := make([]ItemI, len(src))
		for i, it := range src {
			id, _ := strconv.ParseInt(it.Key, 10, 64)
			out[i] = ItemI{Id: id, T0: it.T[0], T1: it.T[1], T2: it.T[2], N0: it.N[0], N1: it.N[1], S0: it.S}
		}
		return out
	}, optsI...)
	optsS := append([]schemabuilder.FieldFuncOption{schemabuilder.Paginated}, filterOptsS()...)
	optsS = append(optsS, sortOptsS()...)
	q.FieldFunc("itemsS", func(ctx context.Context) []ItemS {
		src, _ := ctx.Value(itemsKey).([]Item)
		out := make([]ItemS, len(src))
		for i, it := range src {
			out[i] = ItemS{Id: it.Key, T0: it.T[0], T1: it.T[1], T2: it.T[2], N0: it.N[0], N1: it.N[1], S0: it.S}
		}
		return out
	}, optsS...)
	// pointer nodes: the resolver returns []*ItemI, filter/sort fields are declared on the value type
	optsP := append([]schemabuilder.FieldFuncOption{schemabuilder.Paginated}, filterOptsI()...)
	optsP = append(optsP, sortOptsI()...)
	q.FieldFunc("itemsP", func(ctx context.Context) []*ItemI {
		src, _ := ctx.Value(itemsKey).([]Item)
		out := make([]*ItemI, len(src))
		for i, it := range src {
			id, _ := strconv.ParseInt(it.Key, 10, 64)
			out[i] = &ItemI{Id: id, T0: it.T[0], T1: it.T[1], T2: it.T[2], N0: it.N[0], N1: it.N[1], S0: it.S}
		}
		return out
	}, optsP...)
	// a paginated field with no filter or sort fields registered
	q.FieldFunc("bareI", func(ctx context.Context) []ItemI {
		src, _ := ctx.Value(itemsKey).([]Item)
		out := make([]ItemI, len(src))
		for i, it := range src {
			id, _ := strconv.ParseInt(it.Key, 10, 64)
			out[i] = ItemI{Id: id, T0: it.T[0], T1: it.T[1], T2: it.T[2], N0: it.N[0], N1: it.N[1], S0: it.S}
		}
		return out
	}, schemabuilder.Paginated)
	schema.Mutation()
	return schema.Build()
}

// Args are the connection arguments of one page query.
type Args struct {
	First        *int64    `json:"first,omitempty"`
	Last         *int64    `json:"last,omitempty"`
	After        *string   `json:"after,omitempty"`
	Before       *string   `json:"before,omitempty"`
	FilterText   *string   `json:"filter_text,omitempty"`
	FilterFields *[]string `json:"filter_fields,omitempty"` // registered names, e.g. "t0_batch"
	SortBy       *string   `json:"sort_by,omitempty"`       // registered name, e.g. "n1_fb"
	SortOrder    *string   `json:"sort_order,omitempty"`    // "asc" | "desc"
}

func gqlString(s string) string {
	b, _ := json.Marshal(s) // JSON string escapes are valid GraphQL string escapes
	return string(b)
}

const selection = `{ totalCount edges { cursor node { id t0 n0 } } pageInfo { hasNextPage hasPrevPage startCursor endCursor pages } }`

func queryText(field string, a Args) string {
	var parts []string
	if a.First != nil {
		parts = append(parts, fmt.Sprintf("first: %d", *a.First))
	}
	if a.Last != nil {
		parts = append(parts, fmt.Sprintf("last: %d", *a.Last))
	}
	if a.After != nil {
		parts = append(parts, "after: "+gqlString(*a.After))
	}
	if a.Before != nil {
		parts = append(parts, "before: "+gqlString(*a.Before))
	}
	if a.FilterText != nil {
		parts = append(parts, "filterText: "+gqlString(*a.FilterText))
	}
	if a.FilterFields != nil {
		fs := make([]string, len(*a.FilterFields))
		for i, f := range *a.FilterFields {
			fs[i] = gqlString(f)
		}
		parts = append(parts, "filterTextFields: ["+strings.Join(fs, ", ")+"]")
	}
	if a.SortBy != nil {
		parts = append(parts, "sortBy: "+gqlString(*a.SortBy))
	}
	if a.SortOrder != nil {
		parts = append(parts, "sortOrder: "+gqlString(*a.SortOrder))
	}
	argText := ""
	if len(parts) > 0 {
		argText = "(" + strings.Join(parts, ", ") + ")"
	}
	return "{ c: " + field + argText + " " + selection + " }"
}

// pageResult is one executed page query: either the connection JSON or an error class.
type pageResult struct {
	Conn map[string]interface{} // nil on error
	Err  string                 // "", "negative", "both", "unknown-sort", "panic", "timeout", "other: ..."
}

func classify(msg string) string {
	switch {
	case strings.Contains(msg, "first/last cannot be a negative integer"):
		return "negative"
	case strings.Contains(msg, "cannot use both first and last together"):
		return "both"
	case strings.Contains(msg, "unknown sort field"):
		return "unknown-sort"
	}
	return "other: " + msg
}

// runPage executes one page query against the real schema through Parse / PrepareQuery / Execute.
func runPage(schema *graphql.Schema, field string, items []Item, flag bool, a Args) pageResult {
	type res struct {
		v   interface{}
		err error
		pan string
	}
	ch := make(chan res, 1)
	ctx, cancel := context.WithCancel(context.Background())
	defer cancel()
	ctx = context.WithValue(ctx, itemsKey, items)
	ctx = context.WithValue(ctx, flagKey, flag)
	text := queryText(field, a)
	go func() {
		var r res
		defer func() {
			if e := recover(); e != nil {
				r.pan = fmt.Sprint(e)
			}
			ch <- r
		}()
		q, err := graphql.Parse(text, map[string]interface{}{})
		if err != nil {
			r.err = err
			return
		}
		if err := graphql.PrepareQuery(ctx, schema.Query, q.SelectionSet); err != nil {
			r.err = err
			return
		}
		e := graphql.NewExecutor(graphql.NewImmediateGoroutineScheduler())
		r.v, r.err = e.Execute(ctx, schema.Query, nil, q)
	}()
	select {
	case r := <-ch:
		if r.pan != "" {
			return pageResult{Err: "panic"}
		}
		if r.err != nil {
			return pageResult{Err: classify(r.err.Error())}
		}
		b, err := json.Marshal(r.v)
		if err != nil {
			return pageResult{Err: "other: marshal " + err.Error()}
		}
		var top map[string]interface{}
		if err := json.Unmarshal(b, &top); err != nil {
			return pageResult{Err: "other: unmarshal " + err.Error()}
		}
		c, ok := top["c"].(map[string]interface{})
		if !ok {
			return pageResult{Err: "other: no connection object in " + string(b)}
		}
		return pageResult{Conn: c}
	case <-time.After(20 * time.Second):
		return pageResult{Err: "timeout"}
	}
}

func sortedStrings(xs []string) []string {
	ys := append([]string{}, xs...)
	sort.Strings(ys)
	return ys
}
