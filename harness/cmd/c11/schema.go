package main

// The schema under test: paginated fields (int64 key / string key / pointer nodes / no filter+sort fields /
// externally managed / manual-with-fallback) over a harness-controlled list, each with 3 text attributes x 4
// filter-field implementations, 5 sort attributes (int64 n0 n1, string s0, uint64 u0, float64 f0) x 4
// sort-field implementations (plain, expensive, batch, batch-with-fallback) and two custom FilterFuncs.

import (
	"context"
	"encoding/json"
	"fmt"
	"io/ioutil"
	"os"
	"os/exec"
	"reflect"
	"sort"
	"strconv"
	"strings"
	"time"

	"github.com/samsarahq/thunder/batch"
	"github.com/samsarahq/thunder/graphql"
	"github.com/samsarahq/thunder/graphql/schemabuilder"
)

// Item is the structured form of one list element (what cases.jsonl / replay files hold).
type Item struct {
	Key string    `json:"key"` // the key's %v rendering; for int-keyed fields a decimal int64
	T   [3]string `json:"t"`   // text attributes t0..t2
	N   [2]int64  `json:"n"`   // integer sort attributes n0, n1
	S   string    `json:"s"`   // string sort attribute s0
	U   uint64    `json:"u"`   // unsigned sort attribute u0
	F   float64   `json:"f"`   // float sort attribute f0 (never NaN)
}

type ItemI struct {
	Id         int64
	T0, T1, T2 string
	N0, N1     int64
	S0         string
	U0         uint64
	F0         float64
}

type ItemS struct {
	Id         string
	T0, T1, T2 string
	N0, N1     int64
	S0         string
	U0         uint64
	F0         float64
}

// ExtInfo is what the resolver of an externally managed connection returns besides the page.
type ExtInfo struct {
	Total           *int64   `json:"total,omitempty"` // nil: TotalCountFunc left nil
	HasNext         bool     `json:"has_next"`
	HasPrev         bool     `json:"has_prev"`
	Pages           []string `json:"pages,omitempty"`
	ApplyTextFilter bool     `json:"apply_text_filter"`
	SetPageInfo     bool     `json:"set_page_info"`
}

type ExtArgs struct {
	PaginationArgs schemabuilder.PaginationArgs
}

type ctxKey int

const (
	itemsKey ctxKey = iota
	flagKey
	extKey
	fallbackKey
	panicKey
)

var contextType = reflect.TypeOf((*context.Context)(nil)).Elem()

// every filter / sort field function panics when the case asks for it (process-survival probe)
func maybePanic(ctx reflect.Value) {
	if c, ok := ctx.Interface().(context.Context); ok {
		if b, _ := c.Value(panicKey).(bool); b {
			panic("c11: filter/sort field function panics")
		}
	}
}

// ctxErr: the field functions that can return an error behave like resolvers doing I/O - they give up when their
// context is done (a filter / sort step must therefore hand every field function a live context)
func ctxErr(ctx reflect.Value) reflect.Value {
	if c, ok := ctx.Interface().(context.Context); ok {
		if err := c.Err(); err != nil {
			return reflect.ValueOf(&err).Elem()
		}
	}
	return reflect.Zero(errorType)
}

var impls = []string{"plain", "exp", "batch", "fb"}
var textAttrs = []string{"t0", "t1", "t2"}
var sortAttrs = []string{"n0", "n1", "s0", "u0", "f0"}
var structField = map[string]string{"t0": "T0", "t1": "T1", "t2": "T2", "n0": "N0", "n1": "N1", "s0": "S0", "u0": "U0", "f0": "F0"}
var customNames = []string{"prefix", "exact"}

func useBatch(ctx context.Context) bool {
	b, _ := ctx.Value(flagKey).(bool)
	return b
}

func useFallback(ctx context.Context) bool {
	b, _ := ctx.Value(fallbackKey).(bool)
	return b
}

var errorType = reflect.TypeOf((*error)(nil)).Elem()
var indexType = reflect.TypeOf(batch.Index{})

// attrOpts builds the four implementations of a filter or sort field that returns struct field attr of
// itemT: func(item) T, the same marked Expensive, func(map[batch.Index]item) (map[batch.Index]T, error), and
// the batch function with func(item) (T, error) as fallback.
func attrOpts(itemT reflect.Type, attr string, isSort bool) []schemabuilder.FieldFuncOption {
	sf, _ := itemT.FieldByName(structField[attr])
	valT := sf.Type
	get := func(it reflect.Value) reflect.Value { return it.FieldByName(structField[attr]) }
	one := reflect.MakeFunc(reflect.FuncOf([]reflect.Type{contextType, itemT}, []reflect.Type{valT}, false),
		func(in []reflect.Value) []reflect.Value { maybePanic(in[0]); return []reflect.Value{get(in[1])} }).Interface()
	oneE := reflect.MakeFunc(reflect.FuncOf([]reflect.Type{contextType, itemT}, []reflect.Type{valT, errorType}, false),
		func(in []reflect.Value) []reflect.Value {
			maybePanic(in[0])
			return []reflect.Value{get(in[1]), ctxErr(in[0])}
		}).Interface()
	inT, outT := reflect.MapOf(indexType, itemT), reflect.MapOf(indexType, valT)
	many := reflect.MakeFunc(reflect.FuncOf([]reflect.Type{contextType, inT}, []reflect.Type{outT, errorType}, false),
		func(in []reflect.Value) []reflect.Value {
			maybePanic(in[0])
			out := reflect.MakeMapWithSize(outT, in[1].Len())
			for it := in[1].MapRange(); it.Next(); {
				out.SetMapIndex(it.Key(), get(it.Value()))
			}
			return []reflect.Value{out, ctxErr(in[0])}
		}).Interface()
	if isSort {
		return []schemabuilder.FieldFuncOption{
			schemabuilder.SortField(attr+"_plain", oneE),
			schemabuilder.SortField(attr+"_exp", one, schemabuilder.Expensive),
			schemabuilder.BatchSortField(attr+"_batch", many),
			schemabuilder.BatchSortFieldWithFallback(attr+"_fb", many, oneE, useBatch)}
	}
	return []schemabuilder.FieldFuncOption{
		schemabuilder.FilterField(attr+"_plain", oneE),
		schemabuilder.FilterField(attr+"_exp", one, schemabuilder.Expensive),
		schemabuilder.BatchFilterField(attr+"_batch", many),
		schemabuilder.BatchFilterFieldWithFallback(attr+"_fb", many, oneE, useBatch)}
}

// The custom FilterFuncs (user code as far as thunder is concerned).
func customTokens(name, text string) []string {
	if name == "prefix" {
		return strings.Split(text, ",")
	}
	return []string{text}
}

func customMatch(name, text string, toks []string) bool {
	if name == "prefix" {
		for _, t := range toks {
			if t != "" && strings.HasPrefix(text, t) {
				return true
			}
		}
		return false
	}
	return len(toks) == 1 && text == toks[0]
}

func customOpts() []schemabuilder.FieldFuncOption {
	var opts []schemabuilder.FieldFuncOption
	for _, n := range customNames {
		name := n
		opts = append(opts, schemabuilder.FilterFunc(name,
			func(text string) []string { return customTokens(name, text) },
			func(text string, toks []string) bool { return customMatch(name, text, toks) }))
	}
	return opts
}

func allOpts(itemT reflect.Type) []schemabuilder.FieldFuncOption {
	opts := []schemabuilder.FieldFuncOption{schemabuilder.Paginated}
	for _, a := range textAttrs {
		opts = append(opts, attrOpts(itemT, a, false)...)
	}
	for _, a := range sortAttrs {
		opts = append(opts, attrOpts(itemT, a, true)...)
	}
	return append(opts, customOpts()...)
}

func toItemI(it Item) ItemI {
	id, _ := strconv.ParseInt(it.Key, 10, 64)
	return ItemI{Id: id, T0: it.T[0], T1: it.T[1], T2: it.T[2], N0: it.N[0], N1: it.N[1], S0: it.S, U0: it.U, F0: it.F}
}

func itemsI(ctx context.Context) []ItemI {
	src, _ := ctx.Value(itemsKey).([]Item)
	out := make([]ItemI, len(src))
	for i, it := range src {
		out[i] = toItemI(it)
	}
	return out
}

func extReturn(ctx context.Context) ([]ItemI, schemabuilder.PaginationInfo, schemabuilder.PostProcessOptions, error) {
	var info schemabuilder.PaginationInfo
	var ppo schemabuilder.PostProcessOptions
	if x, _ := ctx.Value(extKey).(*ExtInfo); x != nil {
		if x.Total != nil {
			t := *x.Total
			info.TotalCountFunc = func() int64 { return t }
		}
		info.HasNextPage, info.HasPrevPage, info.Pages = x.HasNext, x.HasPrev, x.Pages
		ppo.ApplyTextFilter, ppo.SetPageInfo = x.ApplyTextFilter, x.SetPageInfo
	}
	return itemsI(ctx), info, ppo, nil
}

func buildSchema() (s *graphql.Schema, err error) {
	defer func() {
		if e := recover(); e != nil {
			err = fmt.Errorf("schema build panic: %v", e)
		}
	}()
	schema := schemabuilder.NewSchema()
	oi := schema.Object("ItemI", ItemI{})
	oi.Key("id")
	os := schema.Object("ItemS", ItemS{})
	os.Key("id")
	q := schema.Query()
	tI, tS := reflect.TypeOf(ItemI{}), reflect.TypeOf(ItemS{})
	q.FieldFunc("itemsI", func(ctx context.Context) []ItemI { return itemsI(ctx) }, allOpts(tI)...)
	q.FieldFunc("itemsS", func(ctx context.Context) []ItemS {
		src, _ := ctx.Value(itemsKey).([]Item)
		out := make([]ItemS, len(src))
		for i, it := range src {
			out[i] = ItemS{Id: it.Key, T0: it.T[0], T1: it.T[1], T2: it.T[2], N0: it.N[0], N1: it.N[1], S0: it.S, U0: it.U, F0: it.F}
		}
		return out
	}, allOpts(tS)...)
	// pointer nodes: the resolver returns []*ItemI, filter/sort fields are declared on the value type
	q.FieldFunc("itemsP", func(ctx context.Context) []*ItemI {
		src := itemsI(ctx)
		out := make([]*ItemI, len(src))
		for i := range src {
			out[i] = &src[i]
		}
		return out
	}, allOpts(tI)...)
	// a paginated field with no filter or sort fields registered
	q.FieldFunc("bareI", func(ctx context.Context) []ItemI { return itemsI(ctx) }, schemabuilder.Paginated)
	// externally managed: the resolver embeds PaginationArgs and returns the page with its own page info
	q.FieldFunc("extI", func(ctx context.Context, args ExtArgs) ([]ItemI, schemabuilder.PaginationInfo, schemabuilder.PostProcessOptions, error) {
		return extReturn(ctx)
	}, allOpts(tI)...)
	// manual pagination with a thunder-managed fallback, selected per request
	q.ManualPaginationWithFallback("dualI",
		func(ctx context.Context, args ExtArgs) ([]ItemI, schemabuilder.PaginationInfo, schemabuilder.PostProcessOptions, error) {
			return extReturn(ctx)
		},
		func(ctx context.Context) ([]ItemI, error) { return itemsI(ctx), nil },
		useFallback, allOpts(tI)...)
	schema.Mutation()
	return schema.Build()
}

// Args are the connection arguments of one page query.
type Args struct {
	First        *int64    `json:"first,omitempty"`
	Last         *int64    `json:"last,omitempty"`
	After        *string   `json:"after,omitempty"`
	Before       *string   `json:"before,omitempty"`
	FilterText   *string   `json:"filter_text,omitempty"`
	FilterFields *[]string `json:"filter_fields,omitempty"` // registered names, e.g. "t0_batch"
	SortBy       *string   `json:"sort_by,omitempty"`       // registered name, e.g. "n1_fb"
	SortOrder    *string   `json:"sort_order,omitempty"`    // "asc" | "desc"
	FilterType   *string   `json:"filter_type,omitempty"`   // name of a custom FilterFunc
}

func gqlString(s string) string {
	b, _ := json.Marshal(s) // JSON string escapes are valid GraphQL string escapes
	return string(b)
}

const selection = `{ totalCount edges { cursor node { id t0 n0 } } pageInfo { hasNextPage hasPrevPage startCursor endCursor pages } }`

func queryText(field string, a Args) string {
	var parts []string
	if a.First != nil {
		parts = append(parts, fmt.Sprintf("first: %d", *a.First))
	}
	if a.Last != nil {
		parts = append(parts, fmt.Sprintf("last: %d", *a.Last))
	}
	if a.After != nil {
		parts = append(parts, "after: "+gqlString(*a.After))
	}
	if a.Before != nil {
		parts = append(parts, "before: "+gqlString(*a.Before))
	}
	if a.FilterText != nil {
		parts = append(parts, "filterText: "+gqlString(*a.FilterText))
	}
	if a.FilterFields != nil {
		fs := make([]string, len(*a.FilterFields))
		for i, f := range *a.FilterFields {
			fs[i] = gqlString(f)
		}
		parts = append(parts, "filterTextFields: ["+strings.Join(fs, ", ")+"]")
	}
	if a.SortBy != nil {
		parts = append(parts, "sortBy: "+gqlString(*a.SortBy))
	}
	if a.SortOrder != nil {
		parts = append(parts, "sortOrder: "+gqlString(*a.SortOrder))
	}
	if a.FilterType != nil {
		parts = append(parts, "filterType: "+gqlString(*a.FilterType))
	}
	argText := ""
	if len(parts) > 0 {
		argText = "(" + strings.Join(parts, ", ") + ")"
	}
	return "{ c: " + field + argText + " " + selection + " }"
}

// pageResult is one executed page query: either the connection JSON or an error class.
type pageResult struct {
	Conn map[string]interface{} // nil on error
	Err  string                 // "", "negative", "both", "unknown-sort", "panic", "timeout", "other: ..."
}

func classify(msg string) string {
	switch {
	case strings.Contains(msg, "first/last cannot be a negative integer"):
		return "negative"
	case strings.Contains(msg, "cannot use both first and last together"):
		return "both"
	case strings.Contains(msg, "unknown sort field"):
		return "unknown-sort"
	case strings.Contains(msg, "graphql: panic:"):
		return "resolver-panic"
	case strings.Contains(msg, "must set TotalCountFunc on PaginationInfo"):
		return "no-total-func"
	}
	return "other: " + msg
}

// runPage executes one page query against the real schema through Parse / PrepareQuery / Execute.
func runPage(schema *graphql.Schema, c *Case, a Args) pageResult {
	field := c.Field
	type res struct {
		v   interface{}
		err error
		pan string
	}
	ch := make(chan res, 1)
	ctx, cancel := context.WithCancel(context.Background())
	defer cancel()
	ctx = context.WithValue(ctx, itemsKey, c.Items)
	ctx = context.WithValue(ctx, flagKey, c.Flag)
	ctx = context.WithValue(ctx, extKey, c.Ext)
	ctx = context.WithValue(ctx, fallbackKey, c.Fallback)
	ctx = context.WithValue(ctx, panicKey, c.Panic)
	text := queryText(field, a)
	go func() {
		var r res
		defer func() {
			if e := recover(); e != nil {
				r.pan = fmt.Sprint(e)
			}
			ch <- r
		}()
		q, err := graphql.Parse(text, map[string]interface{}{})
		if err != nil {
			r.err = err
			return
		}
		if err := graphql.PrepareQuery(ctx, schema.Query, q.SelectionSet); err != nil {
			r.err = err
			return
		}
		e := graphql.NewExecutor(graphql.NewImmediateGoroutineScheduler())
		r.v, r.err = e.Execute(ctx, schema.Query, nil, q)
	}()
	select {
	case r := <-ch:
		if r.pan != "" {
			return pageResult{Err: "panic"}
		}
		if r.err != nil {
			return pageResult{Err: classify(r.err.Error())}
		}
		b, err := json.Marshal(r.v)
		if err != nil {
			return pageResult{Err: "other: marshal " + err.Error()}
		}
		var top map[string]interface{}
		dec := json.NewDecoder(strings.NewReader(string(b)))
		dec.UseNumber() // integers are compared exactly, not through float64
		if err := dec.Decode(&top); err != nil {
			return pageResult{Err: "other: unmarshal " + err.Error()}
		}
		top, _ = exactNumbers(top).(map[string]interface{})
		c, ok := top["c"].(map[string]interface{})
		if !ok {
			return pageResult{Err: "other: no connection object in " + string(b)}
		}
		return pageResult{Conn: c}
	case <-time.After(20 * time.Second):
		return pageResult{Err: "timeout"}
	}
}

// runPageIsolated runs one page query of a case whose field functions panic in a child process (this
// binary with -probe): if thunder lets the panic escape a goroutine the child dies, not the harness.
func runPageIsolated(dir string, c *Case, a Args) pageResult {
	cc := *c
	cc.Args = a
	f, err := ioutil.TempFile(dir, "probe-*.json")
	if err != nil {
		return pageResult{Err: "other: " + err.Error()}
	}
	defer os.Remove(f.Name())
	json.NewEncoder(f).Encode(cc)
	f.Close()
	exe, _ := os.Executable()
	cmd := exec.Command(exe, "-probe", f.Name())
	var out, errb strings.Builder
	cmd.Stdout, cmd.Stderr = &out, &errb
	done := make(chan error, 1)
	cmd.Start()
	go func() { done <- cmd.Wait() }()
	select {
	case err = <-done:
	case <-time.After(30 * time.Second):
		cmd.Process.Kill()
		return pageResult{Err: "timeout"}
	}
	var res struct {
		Conn map[string]interface{}
		Err  string
	}
	dec := json.NewDecoder(strings.NewReader(out.String()))
	dec.UseNumber()
	if err != nil || dec.Decode(&res) != nil {
		tail := errb.String()
		if len(tail) > 300 {
			tail = tail[:300]
		}
		return pageResult{Err: "process-died: " + strings.SplitN(tail, "\n", 2)[0]}
	}
	conn, _ := exactNumbers(res.Conn).(map[string]interface{})
	if res.Err == "" && conn == nil {
		return pageResult{Err: "other: probe returned nothing"}
	}
	return pageResult{Conn: conn, Err: res.Err}
}

// probeMain is the child side of runPageIsolated.
func probeMain(path string) {
	var c Case
	b, err := ioutil.ReadFile(path)
	if err != nil || json.Unmarshal(b, &c) != nil {
		os.Exit(3)
	}
	schema, err := buildSchema()
	if err != nil {
		os.Exit(4)
	}
	r := runPage(schema, &c, c.Args)
	json.NewEncoder(os.Stdout).Encode(map[string]interface{}{"Conn": r.Conn, "Err": r.Err})
}

// exactNumbers replaces json.Number by int64 (or float64 when it is not an integer in range).
func exactNumbers(v interface{}) interface{} {
	switch x := v.(type) {
	case json.Number:
		if n, err := strconv.ParseInt(string(x), 10, 64); err == nil {
			return n
		}
		f, _ := x.Float64()
		return f
	case map[string]interface{}:
		for k, e := range x {
			x[k] = exactNumbers(e)
		}
	case []interface{}:
		for i, e := range x {
			x[i] = exactNumbers(e)
		}
	}
	return v
}

func sortedStrings(xs []string) []string {
	ys := append([]string{}, xs...)
	sort.Strings(ys)
	return ys
}
