// C11: pagination partitions the list.  Generates lists, connection arguments and chained walks, runs
// them through graphql.Parse / PrepareQuery / Execute against a schema with thunder-managed paginated
// fields, evaluates the property's clauses directly on the pages returned (oracle, oracle.go) and writes
// inputs + observed pages as Coq cases for Pagination/Model.v.
package main

import (
	"encoding/json"
	"flag"
	"fmt"
	"math"
	"path/filepath"
	"strconv"
	"strings"

	"github.com/samsarahq/thunder/graphql"
	"verifharness/pkg/vh"
)

func nodeJSON(field string, it Item) map[string]interface{} {
	var id interface{} = it.Key
	if field != "itemsS" {
		n, _ := strconv.ParseInt(it.Key, 10, 64)
		id = n
	}
	return map[string]interface{}{"__key": id, "id": id, "t0": it.T[0], "n0": it.N[0]}
}

func coqNode(field string, it Item) string {
	texts := fmt.Sprintf("[(\"t0\", %s); (\"t1\", %s); (\"t2\", %s)]", vh.CoqString(it.T[0]), vh.CoqString(it.T[1]), vh.CoqString(it.T[2]))
	sorts := fmt.Sprintf("[(\"n0\", SInt %s); (\"n1\", SInt %s); (\"s0\", SStr %s); (\"u0\", SUint %d%%Z); (\"f0\", SFloat %s)]",
		vh.CoqZ(it.N[0]), vh.CoqZ(it.N[1]), vh.CoqString(it.S), it.U, vh.CoqZ(floatCode(it.F)))
	return fmt.Sprintf("mk_node %s %s %s %s", vh.CoqString(it.Key), vh.CoqJSON(nodeJSON(field, it)), texts, sorts)
}

// floatCode maps the non-NaN float64s order-isomorphically into int64 (-0 and +0 identified): the
// representation of a float sort value in the model.
func floatCode(f float64) int64 {
	if f == 0 {
		return 0
	}
	b := math.Float64bits(f)
	if b>>63 == 1 {
		return -int64(b &^ (1 << 63))
	}
	return int64(b)
}

func coqOptZ(p *int64) string {
	if p == nil {
		return "None"
	}
	return "(Some " + vh.CoqZ(*p) + ")"
}
func coqOptS(p *string) string {
	if p == nil {
		return "None"
	}
	return "(Some " + vh.CoqString(*p) + ")"
}

// modelSortName maps a registered sort field name to the model's attribute name; unregistered names
// get a "?" (the model has one sort field per attribute: the implementations differ only in how the
// value is fetched).  Filter fields are passed to the model under their registered names together with
// their implementation (see coqCfg).
func modelSortName(field, name string) string {
	if a, ok := attrOf(field, name, sortAttrs); ok {
		return a
	}
	return "?" + name
}

var coqImpl = map[string]string{"plain": "IPlain", "exp": "IExpensive", "batch": "IBatch", "fb": "IFallback"}

func coqCfg(c *Case) string {
	if c.Field == "bareI" {
		return "(mk_cfg [] [] " + vh.CoqBool(c.Flag) + " [])"
	}
	var ffs []string
	for _, a := range textAttrs {
		for _, im := range impls {
			ffs = append(ffs, fmt.Sprintf("mk_ff %s %s %s", vh.CoqString(a+"_"+im), vh.CoqString(a), coqImpl[im]))
		}
	}
	return "(mk_cfg " + vh.CoqList(ffs) + " [\"n0\"; \"n1\"; \"s0\"; \"u0\"; \"f0\"] " + vh.CoqBool(c.Flag) + " c11_customs)"
}

func coqArgs(field string, a Args) string {
	ff := "None"
	if a.FilterFields != nil {
		xs := make([]string, len(*a.FilterFields))
		for i, f := range *a.FilterFields {
			xs[i] = vh.CoqString(f)
		}
		ff = "(Some " + vh.CoqList(xs) + ")"
	}
	sb := "None"
	if a.SortBy != nil {
		sb = "(Some " + vh.CoqString(modelSortName(field, *a.SortBy)) + ")"
	}
	desc := a.SortOrder != nil && *a.SortOrder == "desc"
	return fmt.Sprintf("(mk_args %s %s %s %s %s %s %s %s %s)", coqOptZ(a.First), coqOptZ(a.Last), coqOptS(a.After), coqOptS(a.Before),
		coqOptS(a.FilterText), ff, sb, vh.CoqBool(desc), coqOptS(a.FilterType))
}

func coqObs(r pageResult) string {
	switch r.Err {
	case "":
		return "ObsConn " + vh.CoqJSON(map[string]interface{}(r.Conn))
	case "negative":
		return "ObsErr 1"
	case "both":
		return "ObsErr 2"
	case "unknown-sort":
		return "ObsErr 3"
	case "no-total-func":
		return "ObsErr 4"
	}
	return "ObsErr 9"
}

func coqCase(c *Case, pages []pageResult) string {
	cfg := coqCfg(c)
	nodes := make([]string, len(c.Items))
	for i, it := range c.Items {
		nodes[i] = coqNode(c.Field, it)
	}
	kind := "KPage"
	switch c.Kind {
	case "walkf":
		kind = "(KWalkF " + vh.CoqZ(c.K) + ")"
	case "walkb":
		kind = "(KWalkB " + vh.CoqZ(c.K) + ")"
	}
	obs := make([]string, len(pages))
	for i, p := range pages {
		obs[i] = coqObs(p)
	}
	ext := "XNone"
	if c.Field == "extI" || c.Field == "dualI" {
		x := c.Ext
		if x == nil {
			x = &ExtInfo{}
		}
		pages := make([]string, len(x.Pages))
		for i, p := range x.Pages {
			pages[i] = vh.CoqString(p)
		}
		info := fmt.Sprintf("(mk_ext %s %s %s %s %s %s)", coqOptZ(x.Total), vh.CoqBool(x.HasNext), vh.CoqBool(x.HasPrev),
			vh.CoqList(pages), vh.CoqBool(x.ApplyTextFilter), vh.CoqBool(x.SetPageInfo))
		if c.Field == "extI" {
			ext = "(XManual " + info + ")"
		} else {
			ext = "(XDual " + vh.CoqBool(c.Fallback) + " " + info + ")"
		}
	}
	return fmt.Sprintf("mk_case %s\n  %s\n  %s %s %s\n  %s", cfg, vh.CoqList(nodes), coqArgs(c.Field, c.Args), ext, kind, vh.CoqList(obs))
}

// textInModel: valid UTF-8 with all code points below U+0100 - the texts on which the model's [lower]
// is strings.ToLower (the model's decidable predicate [text_in_model]).
func textInModel(s string) bool {
	for i := 0; i < len(s); i++ {
		switch b := s[i]; {
		case b < 0x80:
		case (b == 0xC2 || b == 0xC3) && i+1 < len(s) && s[i+1] >= 0x80 && s[i+1] <= 0xBF:
			i++
		default:
			return false
		}
	}
	return true
}

// outsideModel names the reason why a case is judged by the oracle only (not compared with the model).
func outsideModel(c *Case) string {
	for _, it := range c.Items {
		for _, t := range it.T {
			if !textInModel(t) {
				return "text attribute with code points >= U+0100"
			}
		}
		if !textInModel(it.S) {
			return "sort string with code points >= U+0100"
		}
	}
	if c.Args.FilterText != nil && !textInModel(*c.Args.FilterText) {
		return "filter text with code points >= U+0100"
	}
	return ""
}

var knownFields = map[string]bool{"itemsI": true, "itemsS": true, "itemsP": true, "bareI": true, "extI": true, "dualI": true}

// wellFormed: the hypotheses of the theorems, evaluated on every case (unique keys, known field, no NaN).
func wellFormed(c *Case) string {
	if !knownFields[c.Field] {
		return "unknown field"
	}
	if c.Kind != "page" && c.Kind != "walkf" && c.Kind != "walkb" {
		return "unknown kind"
	}
	if c.Kind != "page" && c.K < 1 {
		return "walk with page size < 1"
	}
	if c.Kind != "page" && c.Panic {
		return "walk with panicking field functions"
	}
	if c.Kind != "page" && resolverPaginates(c) {
		return "walk over an externally managed connection that reports the resolver's page info"
	}
	if (c.Field == "extI" || c.Field == "dualI") && c.Ext == nil {
		return "externally managed field without resolver info"
	}
	seen := map[string]bool{}
	for _, it := range c.Items {
		if seen[it.Key] {
			return "duplicate key " + it.Key
		}
		seen[it.Key] = true
		if c.Field != "itemsS" {
			if n, err := strconv.ParseInt(it.Key, 10, 64); err != nil || fmt.Sprint(n) != it.Key {
				return "int key not canonical: " + it.Key
			}
		}
		if math.IsNaN(it.F) || math.IsInf(it.F, 0) {
			return "NaN or infinite float sort value"
		}
	}
	return ""
}

func main() {
	probe := flag.String("probe", "", "internal: run the one page query of the case in this file and print the result")
	o := vh.ParseFlags()
	if *probe != "" {
		probeMain(*probe)
		return
	}
	scratchDir = o.Out
	run := vh.NewRun("C11", o)
	run.Rule = "fields: thunder-managed (int64 key, string key, pointer nodes, no filter/sort fields), externally managed (PaginationInfo/PostProcessOptions), ManualPaginationWithFallback; sort values int64/uint64/float64/string; default and custom (filterType) text filters; texts ASCII + Latin-1 (code points >= U+0100: oracle only, counted as excluded-from-model). 50% single page queries (first/last/after/before incl. unknown cursors, both cursors, first+last, negative sizes; filter text/fields; sort field/order), 25% forward walks, 25% backward walks (page size 1-7) over lists of 0-40 elements with unique keys; filter/sort field implementation (plain, expensive, batch, batch-with-fallback) drawn per field; non-trivial = the list has >= 2 elements and the case returns at least one non-empty page without error; distinct by JSON text of the case"
	// consecutive seeds of vh.NewRng give the same stream shifted by one draw; root the generator at a
	// fully mixed value so that different seeds give unrelated case sets
	r := vh.NewRng(o.Seed).Fork()

	schema, err := buildSchema()
	if err != nil {
		run.Fail(-1, "schema-does-not-build", err.Error(), nil)
		run.Finish()
		return
	}

	var cases []Case
	searching := o.Search != ""
	if searching {
		// failing-input search: variants of the cases on which model and implementation disagreed (fresh
		// cases when there are none), oracle only
		seeds := readSeeds(o.Search)
		for i := 0; i < o.N; i++ {
			cr := r.Fork()
			if len(seeds) == 0 {
				c := genCase(cr)
				c.Origin = "search-fresh"
				cases = append(cases, c)
				continue
			}
			cases = append(cases, variant(cr, seeds[cr.Intn(len(seeds))]))
		}
	} else if o.Replay != "" {
		var c Case
		if vh.ReadReplayCase(o.Replay, &c) {
			c.Origin = "replay"
			cases = append(cases, c)
		}
	} else {
		for _, f := range vh.CorpusFiles(o.Corpus) {
			var c Case
			if vh.ReadReplayCase(f, &c) {
				c.Origin = "corpus:" + filepath.Base(f)
				cases = append(cases, c)
			}
		}
		for i := 0; i < o.N; i++ {
			cases = append(cases, genCase(r.Fork()))
		}
	}

	const shard = 61 // 480 cases + corpus = 8 files, one per worker of the model evaluator
	shrunk := 0
	var terms []string
	start := 0
	flush := func() {
		if len(terms) == 0 {
			return
		}
		run.WriteCasesV(fmt.Sprintf("cases_%d.v", start), []string{"Lib.Json", "Pagination.Model"}, "", "mismatches_from_sparse", 0, terms)
		terms = nil
	}

	for idx := range cases {
		c := &cases[idx]
		run.LogCase(idx, c)
		if wf := wellFormed(c); wf != "" {
			run.Hist("malformed-case:" + wf)
			run.Count("", false)
			continue
		}
		pages, fails := evalCase(schema, c)

		// bookkeeping
		nonEmpty, errs := 0, 0
		for _, p := range pages {
			if p.Err != "" {
				errs++
				run.Hist("result:error-" + strings.SplitN(p.Err, ":", 2)[0])
			} else if es, _ := p.Conn["edges"].([]interface{}); len(es) > 0 {
				nonEmpty++
			}
		}
		run.Hist("kind:" + c.Kind)
		run.Hist("field:" + c.Field)
		run.Hist(fmt.Sprintf("len:%02d-%02d", len(c.Items)/10*10, len(c.Items)/10*10+9))
		if c.Args.FilterText != nil && *c.Args.FilterText != "" {
			run.Hist("filter:yes")
		}
		if c.Args.SortBy != nil {
			run.Hist("sort:yes")
			if at, ok := attrOf(c.Field, *c.Args.SortBy, sortAttrs); ok {
				run.Hist("sort-attr:" + at)
			}
		}
		if c.Args.FilterType != nil {
			run.Hist("filterType:" + *c.Args.FilterType)
		}
		if externallyManaged(c) {
			run.Hist(fmt.Sprintf("ext:setPageInfo=%v,applyTextFilter=%v", c.Ext.SetPageInfo, c.Ext.ApplyTextFilter))
			if len(c.Items) == 0 {
				run.Hist("ext:empty-page-resolver-info-dropped")
			}
		}
		if c.Kind == "page" && c.Args.After != nil && c.Args.Before != nil {
			run.Hist("page:after+before")
		}
		// share of cases inside the premises of the theorems (unique keys hold for every case)
		if _, sortOK := refList(c, c.Args); c.Kind != "page" {
			if sortOK {
				run.Hist("premises:walk-theorems(sort_ok,k>0):met")
			} else {
				run.Hist("premises:walk-theorems:not-met(unknown sort field: error theorem)")
			}
		} else if resolverPaginates(c) {
			run.Hist("premises:resolver-page-info-theorems")
		} else if sortOK && argsValid(c.Args) {
			run.Hist("premises:per-page-theorems(sort_ok,args_ok):met")
		} else {
			run.Hist("premises:per-page-theorems:not-met(rejection theorems)")
		}
		if c.Kind == "page" {
			f, l := c.Args.First, c.Args.Last
			switch {
			case (f != nil && *f < 0) || (l != nil && *l < 0):
				run.Hist("page-size-class:negative")
			case f != nil && l != nil:
				run.Hist("page-size-class:first-together-with-last")
			case f != nil && *f == 0:
				run.Hist("page-size-class:first-zero")
			case l != nil && *l == 0:
				run.Hist("page-size-class:last-zero")
			case f == nil && l == nil:
				run.Hist("page-size-class:none")
			default:
				run.Hist("page-size-class:positive")
			}
		}
		if c.Kind != "page" {
			over := "thunder-managed"
			if externallyManaged(c) {
				over = "externally-managed-with-SetPageInfo"
			} else if c.Field == "dualI" {
				over = "fallback-of-ManualPaginationWithFallback"
			}
			run.Hist("walk-over:" + over)
			run.Hist(fmt.Sprintf("walk-pages:%s", bucket(len(pages))))
		}
		kb, _ := json.Marshal(c)
		run.Count(string(kb), len(c.Items) >= 2 && nonEmpty > 0 && errs == 0)
		if idx%97 == 0 {
			run.Sample(map[string]interface{}{"case": c, "pages": len(pages)})
		}
		seen := map[string]bool{}
		for _, f := range fails {
			if seen[f.sig] {
				continue
			}
			seen[f.sig] = true
			small := c
			if shrunk < 3 { // minimise the first few failures only: each step re-runs the implementation
				shrunk++
				small = shrink(schema, c, f.sig)
			}
			detail := f.detail
			if small != c {
				_, sf := evalCase(schema, small)
				for _, g := range sf {
					if g.sig == f.sig {
						detail = g.detail + fmt.Sprintf(" [minimised from generated case %d: %d -> %d elements]", idx, len(c.Items), len(small.Items))
					}
				}
			}
			run.Fail(idx, f.sig, detail, small)
		}
		if searching {
			continue
		}
		if c.Panic {
			run.Hist("excluded-from-model:panicking field functions (process-survival probe)")
			continue
		}
		if why := outsideModel(c); why != "" {
			run.Hist("excluded-from-model:" + why)
			continue
		}
		terms = append(terms, fmt.Sprintf("(%d, %s)", idx, coqCase(c, pages)))
		if len(terms) >= shard {
			flush()
			start = idx + 1
		}
	}
	flush()
	run.Finish()
}

// evalCase runs one case against the implementation and evaluates the oracle on its pages.
var scratchDir = "."

func evalCase(schema *graphql.Schema, c *Case) (pages []pageResult, fails []oracleFailure) {
	finished := true
	switch {
	case c.Panic:
		p := runPageIsolated(scratchDir, c, c.Args)
		pages = append(pages, p)
		return pages, checkPanicPage(c, p)
	}
	switch c.Kind {
	case "page":
		p := runPage(schema, c, c.Args)
		pages = append(pages, p)
		fails = append(fails, checkPage(c, c.Args, p)...)
	default:
		var cur *string
		finished = false
		for step := 0; step < len(c.Items)+3; step++ {
			a := c.Args
			a.First, a.Last, a.After, a.Before = nil, nil, nil, nil
			if c.Kind == "walkf" {
				a.First, a.After = p64(c.K), cur
			} else {
				a.Last, a.Before = p64(c.K), cur
			}
			p := runPage(schema, c, a)
			pages = append(pages, p)
			fails = append(fails, checkPage(c, a, p)...)
			if p.Err != "" {
				finished = true
				break
			}
			v := viewOf(p.Conn)
			if !v.ok {
				finished = true
				break
			}
			more, next := v.hasNext, v.end
			if c.Kind == "walkb" {
				more, next = v.hasPrev, v.start
			}
			if !more {
				finished = true
				break
			}
			cur = pstr(next)
		}
		fails = append(fails, checkWalk(c, pages, finished)...)
	}
	for _, p := range pages {
		if p.Err == "panic" || p.Err == "timeout" || strings.HasPrefix(p.Err, "other") {
			fails = append(fails, oracleFailure{"execute-" + strings.SplitN(p.Err, ":", 2)[0], p.Err})
		}
	}
	return pages, fails
}

func hasSig(fs []oracleFailure, sig string) bool {
	for _, f := range fs {
		if f.sig == sig {
			return true
		}
	}
	return false
}

// shrink: delta-debugging on the structured case while the oracle failure with the same signature
// persists - drop elements, drop optional arguments, make the page size smaller.
func shrink(schema *graphql.Schema, c *Case, sig string) *Case {
	cur := *c
	still := func(t *Case) bool {
		if wellFormed(t) != "" {
			return false
		}
		_, fs := evalCase(schema, t)
		return hasSig(fs, sig)
	}
	budget := 400
	for changed := true; changed && budget > 0; {
		changed = false
		// drop chunks of elements, then single elements
		for size := len(cur.Items) / 2; size >= 1 && budget > 0; size /= 2 {
			for i := 0; i+size <= len(cur.Items) && budget > 0; {
				t := cur
				t.Items = append(append([]Item{}, cur.Items[:i]...), cur.Items[i+size:]...)
				budget--
				if still(&t) {
					cur, changed = t, true
				} else {
					i += size
				}
			}
		}
		try := func(f func(t *Case) bool) {
			t := cur
			if budget > 0 && f(&t) {
				budget--
				if still(&t) {
					cur, changed = t, true
				}
			}
		}
		try(func(t *Case) bool {
			ok := t.Args.FilterText != nil
			t.Args.FilterText, t.Args.FilterFields = nil, nil
			return ok
		})
		try(func(t *Case) bool { ok := t.Args.FilterFields != nil; t.Args.FilterFields = nil; return ok })
		try(func(t *Case) bool { ok := t.Args.SortBy != nil; t.Args.SortBy, t.Args.SortOrder = nil, nil; return ok })
		try(func(t *Case) bool { ok := t.Args.SortOrder != nil; t.Args.SortOrder = nil; return ok })
		try(func(t *Case) bool { ok := t.Args.First != nil; t.Args.First = nil; return ok })
		try(func(t *Case) bool { ok := t.Args.Last != nil; t.Args.Last = nil; return ok })
		try(func(t *Case) bool { ok := t.Args.After != nil; t.Args.After = nil; return ok })
		try(func(t *Case) bool { ok := t.Args.Before != nil; t.Args.Before = nil; return ok })
		try(func(t *Case) bool { ok := t.Kind != "page" && t.K > 1; t.K = 1; return ok })
		try(func(t *Case) bool { ok := t.Flag; t.Flag = false; return ok })
	}
	if len(cur.Items) == len(c.Items) && cur.Args == c.Args && cur.K == c.K && cur.Flag == c.Flag {
		return c
	}
	cur.Origin = c.Origin + " (minimised)"
	out := cur
	return &out
}

func bucket(n int) string {
	switch {
	case n <= 1:
		return "1"
	case n <= 5:
		return "2-5"
	case n <= 15:
		return "6-15"
	}
	return "16+"
}
