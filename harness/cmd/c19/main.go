// C19: @skip/@include behave as textual deletion.  Generates schemas, data and annotated queries,
// runs the annotated query and its textually pruned form through Parse / PrepareQuery / Execute,
// evaluates the property on the implementation's outputs (oracle), and writes the observations as
// Coq cases for Gql/Check.v.
package main

import (
	"encoding/json"
	"fmt"
	"path/filepath"
	"reflect"
	"strings"

	"verifharness/pkg/gqlgen"
	"verifharness/pkg/vh"
)

func js(v interface{}) string {
	b, _ := json.Marshal(v)
	return string(b)
}

func genCase(cr *vh.Rng) *gqlgen.Case {
	spec := gqlgen.GenSchema(cr)
	c := &gqlgen.Case{Spec: spec, Origin: "generated"}
	c.Modes = []gqlgen.Modes{gqlgen.GenModes(cr, spec)}
	c.Data = gqlgen.GenData(cr, spec, 0)
	bad := 0
	if cr.Chance(12) {
		bad = 15 // malformed stream
	}
	c.Query = gqlgen.GenQuery(cr, spec, gqlgen.QOpts{PDir: 30 + cr.Intn(40), PBadDir: bad, Depth: 2 + cr.Intn(2), AllowDup: true, PUntyped: []int{0, 0, 40, 60}[cr.Intn(4)]})
	var ch []int
	for i := 0; i < 16; i++ {
		ch = append(ch, cr.Intn(7))
	}
	c.Choices = [][]int{ch}
	return c
}

// flipSpread returns a copy of q in which the conditions of the directives of one decorated spread in
// the operation body are negated, and the top-level alias under which that spread lies.
func flipSpread(q *gqlgen.Query, which int) (*gqlgen.Query, string, bool) {
	b, _ := json.Marshal(q)
	var c gqlgen.Query
	json.Unmarshal(b, &c)
	k := 0
	var found bool
	var top string
	var walk func(ns []*gqlgen.Node, topAlias string)
	walk = func(ns []*gqlgen.Node, topAlias string) {
		for _, n := range ns {
			ta := topAlias
			if ta == "" && n.Kind == "field" {
				ta = n.Alias
			}
			if n.Kind == "spread" && len(n.Dirs) > 0 && ta != "" && !found {
				if k == which {
					found = true
					top = ta
					for i := range n.Dirs {
						d := &n.Dirs[i]
						if d.Bad != "" {
							continue
						}
						v := false
						if d.Var != "" {
							v, _ = q.Eff()[d.Var].(bool)
							d.Var = ""
						} else if d.Lit != nil {
							v = *d.Lit
						}
						nv := !v
						d.Lit = &nv
					}
				}
				k++
			}
			walk(n.Sub, ta)
		}
	}
	walk(c.Body, "")
	return &c, top, found
}

func main() {
	o := vh.ParseFlags()
	run := vh.NewRun("C19", o)
	run.Rule = "(a further third of the cases: the same kind of annotated query, and same-alias occurrences of one object field with a leaf excluded where it comes first and kept later, run through an in-process federation gateway over two services next to its pruned form; non-trivial as below) generated schema (reflect.StructOf/MakeFunc through schemabuilder) + data tree + query with @skip/@include on fields, inline fragments, spreads (same fragment spread several times), union member fragments, inline fragments without type condition, literal and variable conditions (variables sent, or left to a default declared in the operation); non-trivial = the query carries at least two directives, at least one node is deleted by pruning and the pruned result is a non-empty object; distinct by query text + data"
	r := vh.NewRng(o.Seed)

	var cases []*gqlgen.Case
	if o.Replay != "" {
		c := &gqlgen.Case{}
		if vh.ReadReplayCase(o.Replay, c) {
			c.Fix()
			c.Origin = "replay"
			cases = append(cases, c)
		}
	} else if o.Search != "" {
		// failing-input search: variants of the cases on which model and implementation disagreed
		// (fresh cases when there are none); the oracle only, no Coq cases
		seeds := gqlgen.ReadSeeds(o.Search)
		for i := 0; i < o.N; i++ {
			cr := r.Fork()
			if len(seeds) == 0 {
				if i%4 == 3 {
					cases = append(cases, genGatewayCase(cr))
				} else {
					cases = append(cases, genCase(cr))
				}
			} else if sd := seeds[cr.Intn(len(seeds))]; isGatewayCase(sd) {
				cases = append(cases, genGatewayCase(cr))
			} else {
				cases = append(cases, gqlgen.Variant(cr, sd, gqlgen.QOpts{PDir: 50, Depth: 3, AllowDup: true}, 0, false))
			}
		}
	} else {
		for _, f := range vh.CorpusFiles(o.Corpus) {
			c := &gqlgen.Case{}
			if vh.ReadReplayCase(f, c) {
				c.Fix()
				c.Origin = "corpus:" + filepath.Base(f)
				cases = append(cases, c)
			}
		}
		for i := 0; i < o.N; i++ {
			cases = append(cases, genCase(r.Fork()))
		}
		// the same property through the federation gateway
		for i := 0; i < o.N/3; i++ {
			cases = append(cases, genGatewayCase(r.Fork()))
		}
	}

	const shard = 45
	var terms []string
	start := 0
	flush := func(end int) {
		if o.Search != "" {
			terms = nil
		}
		if len(terms) == 0 {
			return
		}
		run.WriteCasesV(fmt.Sprintf("cases_%d.v", start), []string{"Lib.Json", "Gql.Types", "Gql.Value", "Gql.Query", "Gql.Check", "Gql.CheckFlat", "Gql.CheckFed"}, "", "mismatches19_from_sparse", 0, terms)
		terms = nil
		start = end
	}

	for idx, c := range cases {
		run.LogCase(idx, c)
		if isGatewayCase(c) {
			runGatewayCase(run, idx, c)
			continue
		}
		b, err := gqlgen.Build(c.Spec, c.Modes[0])
		if err != nil {
			run.Fail(idx, "harness-schema-build", err.Error(), c)
			continue
		}
		b.SetData(c.Data)
		q := c.Query
		wf := q.DirsWellFormed()
		text := q.Text()
		exec := func(qq *gqlgen.Query, choices []int) gqlgen.Observed {
			return gqlgen.Exec(b, qq.Text(), qq.Vars, &gqlgen.Scripted{Choices: choices})
		}
		obsA := exec(q, c.Choices[0])
		if obsA.Mutated != "" {
			run.Fail(idx, "execute-modifies-parsed-query", obsA.Mutated+"\nquery: "+text, c)
		}
		pr := q.Prune()
		obsP := exec(pr, nil)
		nd, both, multi := q.CountDirs()
		run.Hist(fmt.Sprintf("dirs:%d", min(nd, 6)))
		if both > 0 {
			run.Hist("has-both-directives")
		}
		if multi > 0 {
			run.Hist("fragment-spread-2+-with-directives")
		}
		if !wf {
			run.Hist("malformed-directives")
		}
		if a, b := memberFragsInNamed(q); a > 0 {
			run.Hist("decorated-union-member-fragment-inside-named-fragment")
			if b > 0 {
				run.Hist("decorated-member-fragments-nested-two-deep-inside-named-fragment")
			}
		}
		if obsA.Stage == "harness" || obsP.Stage == "harness" {
			run.Fail(idx, "escaped-panic-or-timeout", obsA.String()+" / "+obsP.String(), c)
			continue
		}
		if obsA.Stage == "parse" && q.HasUntyped() {
			// inline fragments without a type condition: an implementation may reject the syntax (this
			// one does, at Parse) - then there is nothing to compare; if it accepts it, the result must
			// be that of the pruned query like for any other node
			run.Hist("rejected:inline-fragment-without-type-condition")
			if obsA.Class != "client" {
				run.Fail(idx, "unsupported-syntax-not-a-client-error", obsA.String()+"  "+text, c)
			}
			run.Count(text, false)
			continue
		}
		if obsA.Stage == "parse" || obsA.Stage == "prepare" {
			// the generator is meant to produce valid queries
			run.Hist("rejected:" + obsA.Stage)
			if wf {
				run.Fail(idx, "harness-generated-invalid-query", obsA.String()+"  "+text, c)
			}
			run.Count(text, false)
			continue
		}
		deleted := js(pr.Body) != js(stripDirs(q).Body) || js(pr.Frags) != js(stripDirs(q).Frags)
		nontrivial := wf && nd >= 2 && deleted && obsP.OK && len(obsP.JSON.(map[string]interface{})) > 0
		run.Count(text+"|"+js(c.Data), nontrivial)
		if wf {
			fails := func(qq *gqlgen.Query) bool {
				a := exec(qq, nil)
				p := exec(qq.Prune(), nil)
				return !(a.OK && p.OK && reflect.DeepEqual(a.JSON, p.JSON))
			}
			if !(obsA.OK && obsP.OK && reflect.DeepEqual(obsA.JSON, obsP.JSON)) {
				small := q
				if fails(q) {
					small = gqlgen.Shrink(q, fails)
				}
				sc := *c
				sc.Query = small
				run.Fail(idx, "annotated-differs-from-pruned",
					fmt.Sprintf("query: %s\nvars: %s\nannotated: %s\npruned:    %s\nminimised: %s", text, js(q.Vars), obsA, obsP, small.Text()), &sc)
			}
			// spread independence: negating the conditions of one decorated spread must not change
			// what the other top-level fields return
			for w := 0; w < 2; w++ {
				fq, top, ok := flipSpread(q, w)
				if !ok {
					break
				}
				run.Hist("spread-independence-checked")
				of := exec(fq, nil)
				if !(of.OK && obsA.OK) {
					if obsA.OK {
						run.Fail(idx, "spread-flip-fails", of.String()+" "+fq.Text(), c)
					}
					continue
				}
				ma, mf := obsA.JSON.(map[string]interface{}), of.JSON.(map[string]interface{})
				for k, v := range ma {
					if k == top {
						continue
					}
					if !reflect.DeepEqual(v, mf[k]) {
						sc := *c
						run.Fail(idx, "spread-not-independent",
							fmt.Sprintf("changing a spread under %q changed %q\nquery:   %s\nflipped: %s\nbefore: %s\nafter:  %s", top, k, text, fq.Text(), js(v), js(mf[k])), &sc)
						break
					}
				}
			}
		} else {
			// malformed conditions must be rejected with a client error whenever they are reached
			if !obsA.OK && obsA.Class != "client" {
				run.Fail(idx, "malformed-directive-not-client-error", obsA.String()+" "+text, c)
			}
		}
		if obsA.OK {
			run.Sample(map[string]interface{}{"query": text, "vars": q.Vars, "result": obsA.JSON, "pruned_query": pr.Text()})
		}
		runs := []string{gqlgen.CoqRun(0, 0, c.Choices[0], obsA)}
		queries := []string{gqlgen.CoqQuery(q)}
		if wf {
			queries = append(queries, gqlgen.CoqQuery(pr))
			runs = append(runs, gqlgen.CoqRun(0, 1, nil, obsP))
		}
		// the gateway's reading of the query: what graphql.Parse hands over, for the model's to_fed
		view := "(@None (list Federation.Normalize.node))"
		if wf {
			if t, ok := gqlgen.ParsedView(b, text, q.Vars); ok {
				view = "(Some " + t + ")"
				run.Hist("gateway-reading-compared")
			}
		}
		// Flatten on the parsed query, walked along the schema the way the executor walks it (malformed
		// directives included: Flatten's refusal must be the model's)
		flat := "(@None (option (list ftree)))"
		if t, ok := gqlgen.FlatView(b, text, q.Vars); ok {
			flat = "(Some " + t + ")"
			run.Hist("flatten-tree-compared")
			if strings.HasPrefix(t, "(@None") {
				run.Hist("flatten-refuses(malformed directive reached)")
			}
		}
		terms = append(terms, fmt.Sprintf("(%d, (%s, %s, %s))", idx, gqlgen.CoqCase([]string{gqlgen.CoqSchema(b.Schema)}, c.Data, q.Eff(), queries, runs), view, flat))
		if len(terms) >= shard {
			flush(idx + 1)
		}
	}
	flush(len(cases))
	run.Finish()
}

// memberFragsInNamed counts, inside the bodies of the named fragments the query uses, the decorated
// fragments on a union member type (inline, or spreads of a fragment on a member), and those of them
// that lie inside another decorated member fragment.
func memberFragsInNamed(q *gqlgen.Query) (n, nested int) {
	member := map[string]bool{"MA": true, "MB": true, "MC": true}
	onOf := map[string]string{}
	for _, f := range q.Frags {
		onOf[f.Name] = f.On
	}
	var walk func(ns []*gqlgen.Node, inside bool)
	walk = func(ns []*gqlgen.Node, inside bool) {
		for _, x := range ns {
			dec := false
			if len(x.Dirs) > 0 && ((x.Kind == "inline" && member[x.On]) || (x.Kind == "spread" && member[onOf[x.Frag]])) {
				dec = true
				n++
				if inside {
					nested++
				}
			}
			walk(x.Sub, inside || dec)
		}
	}
	used := map[string]bool{}
	var mark func(ns []*gqlgen.Node)
	mark = func(ns []*gqlgen.Node) {
		for _, x := range ns {
			if x.Kind == "spread" && !used[x.Frag] {
				used[x.Frag] = true
				for _, f := range q.Frags {
					if f.Name == x.Frag {
						mark(f.Body)
					}
				}
			}
			mark(x.Sub)
		}
	}
	mark(q.Body)
	for _, f := range q.Frags {
		if used[f.Name] {
			walk(f.Body, false)
		}
	}
	return
}

func stripDirs(q *gqlgen.Query) *gqlgen.Query {
	b, _ := json.Marshal(q)
	var c gqlgen.Query
	json.Unmarshal(b, &c)
	var walk func(ns []*gqlgen.Node)
	walk = func(ns []*gqlgen.Node) {
		for _, n := range ns {
			n.Dirs = nil
			walk(n.Sub)
		}
	}
	walk(c.Body)
	for _, f := range c.Frags {
		walk(f.Body)
	}
	return &c
}

func min(a, b int) int {
	if a < b {
		return a
	}
	return b
}
