// C02: live subscriptions converge.  The harness lives in pkg/fakesock (shared with C17).
package main

import "verifharness/pkg/fakesock"

func main() { fakesock.Main("C02") }
