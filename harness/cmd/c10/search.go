package main

import (
	"encoding/json"
	"io/ioutil"
	"strings"

	"verifharness/pkg/sqlh"
	"verifharness/pkg/vh"
)

// Failing-input search (-search file): variants of the cases on which model and implementation
// disagreed, oracle only: one filter value replaced (nil, typed nil, nil slice, pointer, zero value, same
// value in another Go type, other value), a column added to / dropped from a filter, one more caller
// (a copy, an edited copy, an empty filter), a caller removed, two callers swapped, one stored value
// replaced (NULL, zero, another value), a row added.

func copyF(f sqlh.Filter) sqlh.Filter {
	o := sqlh.Filter{}
	for k, v := range f {
		o[k] = v
	}
	return o
}

func editValue(g *sqlh.Gen, c *sqlh.ColDesc, v sqlh.GV) sqlh.GV {
	bt := sqlh.BaseType(c.Ty)
	switch g.R.Intn(8) {
	case 0:
		return sqlh.GV{T: "nil"}
	case 1:
		return sqlh.GV{T: "nilptr", PT: bt}
	case 2:
		if bt == "bytes" {
			return sqlh.GV{T: "nilbytes"}
		}
		return sqlh.GV{T: bt}
	case 3:
		return sqlh.GV{T: bt} // zero value of the column's type
	case 4:
		if v.T != "ptr" && v.T != "nil" && v.T != "nilptr" && v.T != "nilbytes" {
			e := v
			return sqlh.GV{T: "ptr", Addr: g.NewAddr(), Elem: &e}
		}
		return g.Retype(v)
	case 5:
		return g.Retype(v)
	default:
		return g.Other(v)
	}
}

func variant(g *sqlh.Gen, seed Case) Case {
	b, _ := json.Marshal(seed)
	var c Case
	json.Unmarshal(b, &c)
	c.Origin = "search"
	t := sqlh.TableByName(c.Table)
	if t == nil || len(c.Contents) == 0 {
		return genCase(g)
	}
	for len(c.Callers) < len(c.Filters) {
		c.Callers = append(c.Callers, Caller{})
	}
	c.Callers = c.Callers[:len(c.Filters)]
	for n := 1 + g.R.Intn(2); n > 0; n-- {
		if g.R.Chance(25) && len(c.Filters) > 0 { // another method / other options for one caller
			i := g.R.Intn(len(c.Callers))
			switch g.R.Intn(5) {
			case 0:
				c.Callers[i].Kind = []string{"", "queryrow", "fullscan"}[g.R.Intn(3)]
			case 1:
				c.Callers[i].Opts = nil
			case 2:
				if o := c.Callers[i].Opts; o != nil {
					oo := *o
					switch g.R.Intn(4) {
					case 0:
						oo.Limit = g.R.Intn(3)
					case 1:
						oo.OrderBy = []string{"", "id", "id DESC"}[g.R.Intn(3)]
					case 2:
						oo.AllowNoIndex = !oo.AllowNoIndex
					default:
						oo.ForUpdate = !oo.ForUpdate
					}
					c.Callers[i].Opts = &oo
					break
				}
				fallthrough
			default:
				o := *optsCatalogue[g.R.Intn(len(optsCatalogue))]
				c.Callers[i].Opts = &o
			}
			continue
		}
		switch k := g.R.Intn(20); {
		case k < 8 && len(c.Filters) > 0: // one filter value
			i := g.R.Intn(len(c.Filters))
			f := copyF(c.Filters[i])
			if keys := f.Keys(); len(keys) > 0 {
				key := keys[g.R.Intn(len(keys))]
				f[key] = editValue(g, t.Col(key), f[key])
			}
			c.Filters[i] = f
		case k < 10 && len(c.Filters) > 0: // a column more / less
			i := g.R.Intn(len(c.Filters))
			f := copyF(c.Filters[i])
			if keys := f.Keys(); len(keys) > 0 && g.R.Bool() {
				delete(f, keys[g.R.Intn(len(keys))])
			} else {
				ci := g.R.Intn(len(t.Cols))
				f[t.Cols[ci].Name] = filterValue(g, &t.Cols[ci], c.Contents[g.R.Intn(len(c.Contents))][ci])
			}
			c.Filters[i] = f
		case k < 13 && len(c.Filters) > 0: // one more caller
			f := copyF(c.Filters[g.R.Intn(len(c.Filters))])
			switch g.R.Intn(3) {
			case 0:
				f = sqlh.Filter{}
			case 1:
				if keys := f.Keys(); len(keys) > 0 {
					key := keys[g.R.Intn(len(keys))]
					f[key] = editValue(g, t.Col(key), f[key])
				}
			}
			c.Filters = append(c.Filters, f)
			c.Callers = append(c.Callers, genCaller(g))
		case k < 14 && len(c.Filters) > 0 && g.R.Bool(): // a caller with the boundary-shifted tuple of another one
			if sf, ok := shiftFilter(g, t, c.Filters[g.R.Intn(len(c.Filters))]); ok {
				c.Filters = append(c.Filters, sf)
				c.Callers = append(c.Callers, Caller{})
				rowFor(g, t, &c, sf)
			}
		case k < 14 && len(c.Filters) > 2:
			i := g.R.Intn(len(c.Filters))
			c.Filters = append(c.Filters[:i], c.Filters[i+1:]...)
			c.Callers = append(c.Callers[:i], c.Callers[i+1:]...)
		case k < 15 && len(c.Filters) > 1:
			i, j := g.R.Intn(len(c.Filters)), g.R.Intn(len(c.Filters))
			c.Filters[i], c.Filters[j] = c.Filters[j], c.Filters[i]
			c.Callers[i], c.Callers[j] = c.Callers[j], c.Callers[i]
		case k < 19: // one stored value
			ri, ci := g.R.Intn(len(c.Contents)), g.R.Intn(len(t.Cols))
			col := &t.Cols[ci]
			if col.Primary {
				continue
			}
			nullable := strings.HasPrefix(col.Ty, "*") || col.ImplicitNull || col.Ty == "bytes"
			switch {
			case nullable && g.R.Chance(40):
				c.Contents[ri][ci] = CV{K: "null"}
			default:
				c.Contents[ri][ci] = genStored(g, t, col, ri)
			}
		default: // one more row
			ri := len(c.Contents)
			row := make([]CV, len(t.Cols))
			for j := range t.Cols {
				row[j] = genStored(g, t, &t.Cols[j], ri+100)
			}
			c.Contents = append(c.Contents, row)
		}
	}
	return c
}

func searchCases(o *vh.Opts, r *vh.Rng) []Case {
	var seeds []Case
	if b, err := ioutil.ReadFile(o.Search); err == nil {
		for _, line := range strings.Split(string(b), "\n") {
			var w struct {
				Case Case `json:"case"`
			}
			if strings.TrimSpace(line) != "" && json.Unmarshal([]byte(line), &w) == nil && w.Case.Table != "" {
				seeds = append(seeds, w.Case)
			}
		}
	}
	var cases []Case
	for i := 0; i < o.N; i++ {
		// pointer addresses of the edits must not collide with those of the seed
		g := &sqlh.Gen{R: r.Fork(), Addr: 100000}
		if len(seeds) == 0 {
			c := genCase(g)
			c.Origin = "search-fresh"
			cases = append(cases, c)
			continue
		}
		cases = append(cases, variant(g, seeds[g.R.Intn(len(seeds))]))
	}
	return cases
}
