// C10: SQL batching is transparent -- each query gets exactly its own rows.
//
// Every case loads random contents into one table of the catalogue (pkg/sqlh) on a fresh fake MySQL server
// (pkg/fakesql), runs a set of filters once on their own (DB.Query without batching) and once as concurrent
// callers under batch.WithBatching, and compares, per caller, the rows received (oracle: batched rows =
// unbatched rows, one statement per invocation of the batch function, fewer statements than callers over
// the run).  Statements and rows of both runs are also written as Coq terms and compared with
// Sql/Model.v ([batch_stmt], [batched_results] through the matcher model, [eval_simple]).
package main

import (
	"context"
	"database/sql/driver"
	"encoding/json"
	"fmt"
	"path/filepath"
	"reflect"
	"strings"

	"github.com/samsarahq/thunder/sqlgen"
	"verifharness/pkg/fakesql"
	"verifharness/pkg/sqlh"
	"verifharness/pkg/vh"
)

// CV is a stored value: K = "null" | "int" | "str" | "bytes" | "float" (Q quarter units).
type CV struct {
	K string `json:"k"`
	Z int64  `json:"z,omitempty"`
	S string `json:"s,omitempty"`
	Q int64  `json:"q,omitempty"`
}

func (v CV) Driver() driver.Value {
	switch v.K {
	case "int":
		return v.Z
	case "str":
		return v.S
	case "bytes":
		return []byte(v.S)
	case "float":
		return float64(v.Q) / 4
	}
	return nil
}

type Case struct {
	Table    string        `json:"table"`
	Contents [][]CV        `json:"contents"`
	Filters  []sqlh.Filter `json:"filters"`
	Origin   string        `json:"origin"`
}

// ---- generator ----

func genStored(g *sqlh.Gen, t *sqlh.TableDesc, c *sqlh.ColDesc, rowIdx int) CV {
	if c.Primary && c.Name == "id" {
		if c.Ty == "string" {
			return CV{K: "str", S: fmt.Sprintf("e%d", rowIdx+1)}
		}
		return CV{K: "int", Z: int64(rowIdx + 1)}
	}
	nullable := strings.HasPrefix(c.Ty, "*") || c.ImplicitNull || c.Ty == "bytes" // a NULL blob is a nil slice
	if nullable && g.R.Chance(35) {
		return CV{K: "null"}
	}
	switch sqlh.BaseType(c.Ty) {
	case "string", "Label":
		s := g.R.Pick(sqlh.SmallStrings)
		if c.ImplicitNull && s == "" {
			s = "n"
		}
		return CV{K: "str", S: s}
	case "bytes":
		return CV{K: "bytes", S: g.R.Pick(sqlh.SmallStrings)}
	case "bool":
		return CV{K: "int", Z: int64(g.R.Intn(2))}
	case "float64":
		return CV{K: "float", Q: int64(g.R.Intn(9) - 2)}
	}
	return CV{K: "int", Z: int64(g.R.Intn(5))}
}

// filterValue: a value for column c taken from the stored values (so that filters hit rows), in the
// column's exact Go type or another representation of the same column value.
func filterValue(g *sqlh.Gen, c *sqlh.ColDesc, stored CV) sqlh.GV {
	bt := sqlh.BaseType(c.Ty)
	var v sqlh.GV
	switch stored.K {
	case "null":
		switch {
		case bt == "bytes" && g.R.Bool():
			return sqlh.GV{T: "nilbytes"}
		case strings.HasPrefix(c.Ty, "*") && g.R.Bool():
			return sqlh.GV{T: "nilptr", PT: bt}
		case c.ImplicitNull && g.R.Chance(70):
			return sqlh.GV{T: bt} // the zero value: implicitnull makes it NULL
		}
		return sqlh.GV{T: "nil"}
	case "int":
		if bt == "bool" {
			v = sqlh.GV{T: "bool", B: stored.Z != 0}
		} else {
			v = sqlh.GV{T: bt, Z: stored.Z}
		}
	case "str", "bytes":
		v = sqlh.GV{T: bt, S: stored.S}
	case "float":
		v = sqlh.GV{T: bt, Q: stored.Q}
	}
	k := g.R.Intn(100)
	switch {
	case k < 62:
		return v
	case k < 78:
		e := v
		return sqlh.GV{T: "ptr", Addr: g.NewAddr(), Elem: &e}
	default:
		return g.Retype(v) // same column value, another Go type (the known matcher class unless a pointer)
	}
}

func genCase(g *sqlh.Gen) Case {
	t := sqlh.Tables[g.R.Intn(len(sqlh.Tables))]
	c := Case{Table: t.Name, Origin: "generated"}
	nrows := 3 + g.R.Intn(8)
	for i := 0; i < nrows; i++ {
		row := make([]CV, len(t.Cols))
		for j := range t.Cols {
			row[j] = genStored(g, t, &t.Cols[j], i)
		}
		c.Contents = append(c.Contents, row)
	}
	n := 2 + g.R.Intn(6)
	// a few column sets per case so that shapes coincide
	var shapes [][]int
	for s := 1 + g.R.Intn(3); s > 0; s-- {
		var cols []int
		for k := 1 + g.R.Intn(2) + g.R.Intn(2); k > 0; k-- {
			cols = append(cols, g.R.Intn(len(t.Cols)))
		}
		shapes = append(shapes, cols)
	}
	for i := 0; i < n; i++ {
		f := sqlh.Filter{}
		switch k := g.R.Intn(100); {
		case k < 6: // empty filter: matches every row
		case k < 18 && len(c.Filters) > 0: // equal to an earlier filter
			for key, v := range c.Filters[g.R.Intn(len(c.Filters))] {
				f[key] = v
			}
		default:
			shape := shapes[g.R.Intn(len(shapes))]
			src := c.Contents[g.R.Intn(len(c.Contents))]
			for _, ci := range shape {
				col := &t.Cols[ci]
				sv := src[ci]
				if g.R.Chance(25) { // value of another row, or one no row has
					sv = c.Contents[g.R.Intn(len(c.Contents))][ci]
					if g.R.Chance(30) && sv.K != "null" {
						sv.Z, sv.S, sv.Q = sv.Z+7, sv.S+"q", sv.Q+1
					}
				}
				f[col.Name] = filterValue(g, col, sv)
			}
		}
		c.Filters = append(c.Filters, f)
	}
	return c
}

// ---- classification (the harness's own predicates, independent of the Coq model) ----

func isZeroGV(v sqlh.GV) bool {
	switch v.T {
	case "string", "Label", "bytes":
		return v.S == "" && v.T != "bytes"
	case "bool":
		return !v.B
	case "float64":
		return v.Q == 0
	case "nil", "nilptr", "nilbytes":
		return true
	case "ptr":
		return false
	}
	return v.Z == 0
}

// exactlyTyped: the filter value has the Go type of the column's struct field (or is a pointer to it, or
// nil for a column that is not implicitnull).  Its negation is the known finding c10-batch-matcher-go-type.
func exactlyTyped(c *sqlh.ColDesc, v sqlh.GV) bool {
	bt := sqlh.BaseType(c.Ty)
	switch v.T {
	case "nil", "nilptr":
		// nil on a []byte column: the NULL scans into a nil slice, which MakeHashable turns into ""
		return !c.ImplicitNull && bt != "bytes"
	case "nilbytes":
		return false // hashed as "", like an empty slice
	case "ptr":
		return v.Elem.T == bt && !(c.ImplicitNull && isZeroGV(*v.Elem)) && !(bt == "bytes" && v.Elem.S == "")
	case "bytes":
		return bt == "bytes" && v.S != "" // an empty []byte is hashed like a NULL one
	}
	return v.T == bt
}

func denotesNull(c *sqlh.ColDesc, v sqlh.GV) bool {
	return v.T == "nil" || v.T == "nilptr" || v.T == "nilbytes" || (c.ImplicitNull && v.T != "ptr" && isZeroGV(v))
}

// ---- running ----

type runResult struct {
	singleRows  [][]int
	singleLog   []fakesql.Entry
	batchedRows [][]int
	batchedLog  []fakesql.Entry
	arrival     [][]int
	errs        []string
}

func pkOf(t *sqlh.TableDesc, row interface{}) string {
	var parts []string
	v := reflect.ValueOf(row).Elem()
	for _, c := range t.Cols {
		if c.Primary {
			parts = append(parts, fmt.Sprint(v.FieldByName(c.Field).Interface()))
		}
	}
	return strings.Join(parts, "|")
}

func runCase(c Case) (res runResult, fatal string) {
	t := sqlh.TableByName(c.Table)
	if t == nil {
		return res, "unknown table"
	}
	contents := map[string][][]driver.Value{}
	pkIndex := map[string]int{}
	for i, row := range c.Contents {
		if len(row) != len(t.Cols) {
			return res, "row length"
		}
		dv := make([]driver.Value, len(row))
		var parts []string
		for j, v := range row {
			dv[j] = v.Driver()
			if t.Cols[j].Primary {
				parts = append(parts, fmt.Sprint(dv[j]))
			}
		}
		contents[t.Name] = append(contents[t.Name], dv)
		pk := strings.Join(parts, "|")
		if _, dup := pkIndex[pk]; dup {
			return res, "duplicate primary key in contents"
		}
		pkIndex[pk] = i
	}
	env, err := sqlh.NewEnv(sqlh.Handle{}, contents)
	if err != nil {
		return res, err.Error()
	}
	defer env.Close()
	if sqlh.BatchFunc(env.DB) == nil {
		return res, "sqlgen.DB has no batchFetch field any more: the batch function cannot be observed"
	}
	filters := make([]sqlgen.Filter, len(c.Filters))
	for i, f := range c.Filters {
		filters[i] = f.Go(env.Pool)
		if filters[i] == nil {
			filters[i] = sqlgen.Filter{}
		}
	}
	idx := func(rows []interface{}) []int {
		out := []int{}
		for _, r := range rows {
			if k, ok := pkIndex[pkOf(t, r)]; ok {
				out = append(out, k)
			} else {
				out = append(out, -1)
			}
		}
		return out
	}
	// stand-alone
	ctx := context.Background()
	for i := range filters {
		out := t.NewResultSlice()
		e, p := sqlh.Safely(func() error { return env.DB.Query(ctx, out, filters[i], nil) })
		if e != nil || p != "" {
			res.errs = append(res.errs, fmt.Sprintf("stand-alone caller %d: %v %s", i, e, p))
		}
		var rows []interface{}
		s := reflect.ValueOf(out).Elem()
		for k := 0; k < s.Len(); k++ {
			rows = append(rows, s.Index(k).Interface())
		}
		res.singleRows = append(res.singleRows, idx(rows))
	}
	res.singleLog = env.Srv.Statements()
	env.Srv.ResetLog()
	// batched
	br := sqlh.RunBatched(env.DB, t, filters)
	res.batchedLog = env.Srv.Statements()
	res.arrival = br.Arrival
	for i := range filters {
		if br.Errs[i] != nil || br.Panics[i] != "" {
			res.errs = append(res.errs, fmt.Sprintf("batched caller %d: %v %s", i, br.Errs[i], br.Panics[i]))
		}
		res.batchedRows = append(res.batchedRows, idx(br.Rows[i]))
	}
	return res, ""
}

func coqIdx(xs [][]int) string {
	out := make([]string, len(xs))
	for i, l := range xs {
		ys := make([]string, len(l))
		for j, k := range l {
			ys[j] = fmt.Sprint(k)
		}
		out[i] = vh.CoqList(ys)
	}
	return vh.CoqList(out)
}

func main() {
	o := vh.ParseFlags()
	run := vh.NewRun("C10", o)
	run.Rule = "one case = (table of a 3-table catalogue, 3-10 random rows incl. NULLs, 2-7 filters over 1-3 column sets of the case with values taken from the rows: 62% the column's exact Go type, 16% pointer to it, 22% another Go type denoting the same column value; empty filters 6%, repeated filters 12%); each filter is run on its own and as one of the concurrent batched callers; non-trivial = at least two callers were combined into one statement and some caller received at least one row; distinct by JSON of the case"
	r := vh.NewRng(o.Seed)

	var cases []Case
	searching := o.Search != ""
	if searching {
		cases = searchCases(o, r)
	} else if o.Replay != "" {
		var c Case
		if vh.ReadReplayCase(o.Replay, &c) {
			c.Origin = "replay"
			cases = append(cases, c)
		}
	} else {
		for _, f := range vh.CorpusFiles(o.Corpus) {
			var c Case
			if vh.ReadReplayCase(f, &c) {
				c.Origin = "corpus:" + filepath.Base(f)
				cases = append(cases, c)
			}
		}
		for i := 0; i < o.N; i++ {
			g := &sqlh.Gen{R: r.Fork()}
			cases = append(cases, genCase(g))
		}
	}

	const shard = 200
	var terms []string
	start := 0
	flush := func() {
		if len(terms) == 0 {
			return
		}
		run.WriteCasesV(fmt.Sprintf("cases_%d.v", start), []string{"Sql.Model", "Sql.ModelCheck"}, "", "mismatches_c10", 0, terms)
		start += len(terms)
		terms = nil
	}

	totalCallers, totalStatements := 0, 0
	knownRecorded := 0
	for idx, c := range cases {
		run.LogCase(idx, c)
		res, fatal := runCase(c)
		if fatal != "" {
			run.Fail(idx, "c10-harness-cannot-run", fatal, c)
			continue
		}
		t := sqlh.TableByName(c.Table)
		if len(res.errs) > 0 {
			run.Fail(idx, "c10-query-error", strings.Join(res.errs, "; "), c)
			continue
		}
		bad := false
		for _, b := range res.arrival {
			for _, k := range b {
				if k < 0 {
					bad = true
				}
			}
		}
		if bad {
			run.Fail(idx, "c10-harness-cannot-run", "an item of the batch function could not be attributed to a caller", c)
			continue
		}

		for i := range c.Filters {
			for _, k := range append(append([]int{}, res.singleRows[i]...), res.batchedRows[i]...) {
				if k < 0 {
					bad = true
				}
			}
		}
		if bad {
			run.Fail(idx, "c10-unknown-row-returned", "a caller received a row that is not in the table", c)
			continue
		}

		// ---- oracle ----
		anyRows, anyKnown := false, false
		for i, f := range c.Filters {
			if len(res.singleRows[i]) > 0 {
				anyRows = true
			}
			if reflect.DeepEqual(res.singleRows[i], res.batchedRows[i]) {
				continue
			}
			sig := "c10-batched-rows-differ"
			typed, null := true, false
			for k, v := range f {
				col := t.Col(k)
				if !exactlyTyped(col, v) {
					typed = false
				}
				if denotesNull(col, v) {
					null = true
				}
			}
			switch {
			case !typed:
				sig = "c10-batch-matcher-go-type"
				anyKnown = true
			case null:
				sig = "c10-batch-null-in"
			}
			fj, _ := json.Marshal(f)
			if sig == "c10-batch-matcher-go-type" {
				// vh.Run keeps 200 failures: leave room for any other class
				run.Hist("oracle:" + sig)
				if knownRecorded >= 25 {
					continue
				}
				knownRecorded++
			}
			run.Fail(idx, sig, fmt.Sprintf("caller %d filter %s: alone %v, batched %v (row positions)", i, fj, res.singleRows[i], res.batchedRows[i]), c)
		}
		if len(res.batchedLog) != len(res.arrival) {
			run.Fail(idx, "c10-statements-per-invocation", fmt.Sprintf("%d invocations of the batch function, %d statements", len(res.arrival), len(res.batchedLog)), c)
		}
		if len(res.singleLog) != len(c.Filters) {
			run.Fail(idx, "c10-statements-unbatched", fmt.Sprintf("%d stand-alone queries, %d statements", len(c.Filters), len(res.singleLog)), c)
		}
		totalCallers += len(c.Filters)
		totalStatements += len(res.batchedLog)

		// ---- bookkeeping ----
		run.Hist("table:" + c.Table)
		run.Hist(fmt.Sprintf("callers:%d", len(c.Filters)))
		run.Hist(fmt.Sprintf("invocations:%d", len(res.arrival)))
		shapes := map[string]bool{}
		for _, f := range c.Filters {
			shapes[strings.Join(f.Keys(), ";")] = true
			for k, v := range f {
				col := t.Col(k)
				switch {
				case !exactlyTyped(col, v):
					run.Hist("value:other-go-type")
				case v.T == "ptr":
					run.Hist("value:pointer")
				case denotesNull(col, v):
					run.Hist("value:null")
				default:
					run.Hist("value:exact")
				}
			}
			if len(f) == 0 {
				run.Hist("filter:empty")
			}
		}
		run.Hist(fmt.Sprintf("shapes:%d", len(shapes)))
		if anyKnown {
			run.Hist("case:known-matcher-class-observed")
		}
		combined := false
		for _, b := range res.arrival {
			if len(b) > 1 {
				combined = true
			}
		}
		kb, _ := json.Marshal(Case{Table: c.Table, Contents: c.Contents, Filters: c.Filters})
		run.Count(string(kb), combined && anyRows)
		if combined && anyRows {
			var st []string
			for _, e := range res.batchedLog {
				st = append(st, e.SQL+" "+fmt.Sprint(e.Args))
			}
			run.Sample(map[string]interface{}{"case": c, "batched_statements": st, "rows_per_caller": res.batchedRows, "arrival": res.arrival})
		}

		if searching {
			continue
		}
		// ---- Coq case ----
		bev, ok1 := sqlh.CoqEvents(res.batchedLog)
		sev, ok2 := sqlh.CoqEvents(res.singleLog)
		if !ok1 || !ok2 {
			run.Hist("skipped-model:value-outside-model")
			continue
		}
		fs := make([]string, len(c.Filters))
		for i, f := range c.Filters {
			fs[i] = f.Coq()
		}
		rows := make([]string, len(c.Contents))
		for i, row := range c.Contents {
			dv := make([]driver.Value, len(row))
			for j, v := range row {
				dv[j] = v.Driver()
			}
			rows[i] = t.CoqStored(dv)
		}
		terms = append(terms, fmt.Sprintf("(%d, mk_c10 %s %s %s %s %s %s %s %s)", idx, t.Coq(), vh.CoqList(fs),
			sqlh.CoqArrival(res.arrival), vh.CoqList(rows), bev, coqIdx(res.batchedRows), sev, coqIdx(res.singleRows)))
		if len(terms) >= shard {
			flush()
		}
	}
	flush()
	if o.Replay == "" && !searching && totalCallers >= 20 && totalStatements >= totalCallers {
		run.Fail(-1, "c10-no-combining", fmt.Sprintf("%d batched callers needed %d statements: concurrent queries are not combined", totalCallers, totalStatements), nil)
	}
	run.Extra = map[string]interface{}{"batched_callers": totalCallers, "batched_statements": totalStatements}
	run.Finish()
}
