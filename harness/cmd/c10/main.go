// C10: SQL batching is transparent -- each query gets exactly its own rows.
//
// Every case loads random contents into one table of the catalogue (pkg/sqlh) on a fresh fake MySQL server
// (pkg/fakesql), runs a set of filters once on their own (DB.Query without batching) and once as concurrent
// callers under batch.WithBatching, and compares, per caller, the rows received (oracle: batched rows =
// unbatched rows, one statement per invocation of the batch function, fewer statements than callers over
// the run).  Statements and rows of both runs are also written as Coq terms and compared with
// Sql/Model.v ([batch_stmt], [batched_results] through the matcher model, [eval_simple]).
package main

import (
	"context"
	"database/sql"
	"database/sql/driver"
	"encoding/json"
	"fmt"
	"path/filepath"
	"reflect"
	"strings"

	"github.com/samsarahq/thunder/sqlgen"
	"verifharness/pkg/fakesql"
	"verifharness/pkg/sqlh"
	"verifharness/pkg/vh"
)

// CV is a stored value: K = "null" | "int" | "str" | "bytes" | "float" (Q quarter units).
type CV struct {
	K string `json:"k"`
	Z int64  `json:"z,omitempty"`
	S string `json:"s,omitempty"`
	Q int64  `json:"q,omitempty"`
}

func (v CV) Driver() driver.Value {
	switch v.K {
	case "int":
		return v.Z
	case "str":
		return v.S
	case "bytes":
		return []byte(v.S)
	case "float":
		return float64(v.Q) / 4
	}
	return nil
}

// Caller says which method a caller uses and with which SelectOptions (nil = none).
type Caller struct {
	Kind string     `json:"kind,omitempty"` // "" / "query", "queryrow", "fullscan"
	Opts *sqlh.Opts `json:"opts,omitempty"`
}

// Round is one earlier batch on the same DB: plain Query callers, combined by the batch function; Fail = the
// server answers every SELECT of the round with an error (fault injection), so the batch fails as a whole.
type Round struct {
	Filters []sqlh.Filter `json:"filters"`
	Fail    bool          `json:"fail,omitempty"`
}

type Case struct {
	Table    string        `json:"table"`
	Contents [][]CV        `json:"contents"`
	Before   []Round       `json:"before,omitempty"` // history: batches run on the same DB before the callers below
	Filters  []sqlh.Filter `json:"filters"`
	Callers  []Caller      `json:"callers,omitempty"` // parallel to Filters; missing = Query without options
	Origin   string        `json:"origin"`
}

func (c Case) caller(i int) Caller {
	if i < len(c.Callers) {
		return c.Callers[i]
	}
	return Caller{}
}

// optsOf: the options the method finally passes on (FullScanQuery always passes options).
func (cl Caller) effectiveOpts() *sqlh.Opts {
	if cl.Kind == "fullscan" && cl.Opts == nil {
		return &sqlh.Opts{AllowNoIndex: true}
	}
	return cl.Opts
}

var optsCatalogue = []*sqlh.Opts{
	{}, {Limit: 1}, {Limit: 2}, {Limit: 1, AllowNoIndex: true}, {AllowNoIndex: true}, {OrderBy: "id"}, {OrderBy: "id DESC", Limit: 1},
	{OrderBy: "id", Limit: 2, AllowNoIndex: true}, {ForUpdate: true}, {ForUpdate: true, Limit: 1}, {UseIdx: []string{"PRIMARY"}},
	{ForceIdx: []string{"PRIMARY"}, Limit: 2}, {Where: "id > ?", Values: []int64{1}}, {Where: "id > ?", Values: []int64{0}, Limit: 1},
}

func genCaller(g *sqlh.Gen) Caller {
	var cl Caller
	switch k := g.R.Intn(100); {
	case k < 70:
	case k < 85:
		cl.Kind = "queryrow"
	default:
		cl.Kind = "fullscan"
	}
	if g.R.Chance(30) {
		o := *optsCatalogue[g.R.Intn(len(optsCatalogue))]
		cl.Opts = &o
	}
	return cl
}

// ---- generator ----

func genStored(g *sqlh.Gen, t *sqlh.TableDesc, c *sqlh.ColDesc, rowIdx int) CV {
	if c.Primary && c.Name == "id" {
		if c.Ty == "string" {
			return CV{K: "str", S: fmt.Sprintf("e%d", rowIdx+1)}
		}
		return CV{K: "int", Z: int64(rowIdx + 1)}
	}
	nullable := strings.HasPrefix(c.Ty, "*") || c.ImplicitNull || c.Ty == "bytes" // a NULL blob is a nil slice
	if nullable && g.R.Chance(35) {
		return CV{K: "null"}
	}
	switch sqlh.BaseType(c.Ty) {
	case "string", "Label":
		s := g.R.Pick(sqlh.SmallStrings)
		if c.ImplicitNull && s == "" {
			s = "n"
		}
		return CV{K: "str", S: s}
	case "bytes":
		return CV{K: "bytes", S: g.R.Pick(sqlh.SmallStrings)}
	case "bool":
		return CV{K: "int", Z: int64(g.R.Intn(2))}
	case "float64":
		return CV{K: "float", Q: int64(g.R.Intn(9) - 2)}
	}
	return CV{K: "int", Z: int64(g.R.Intn(5))}
}

// filterValue: a value for column c taken from the stored values (so that filters hit rows), in the
// column's exact Go type or another representation of the same column value.
func filterValue(g *sqlh.Gen, c *sqlh.ColDesc, stored CV) sqlh.GV {
	bt := sqlh.BaseType(c.Ty)
	var v sqlh.GV
	switch stored.K {
	case "null":
		switch {
		case bt == "bytes" && g.R.Bool():
			return sqlh.GV{T: "nilbytes"}
		case strings.HasPrefix(c.Ty, "*") && g.R.Bool():
			return sqlh.GV{T: "nilptr", PT: bt}
		case c.ImplicitNull && g.R.Chance(70):
			return sqlh.GV{T: bt} // the zero value: implicitnull makes it NULL
		}
		return sqlh.GV{T: "nil"}
	case "int":
		if bt == "bool" {
			v = sqlh.GV{T: "bool", B: stored.Z != 0}
		} else {
			v = sqlh.GV{T: bt, Z: stored.Z}
		}
	case "str", "bytes":
		v = sqlh.GV{T: bt, S: stored.S}
	case "float":
		v = sqlh.GV{T: bt, Q: stored.Q}
	}
	k := g.R.Intn(100)
	switch {
	case k < 62:
		return v
	case k < 78:
		e := v
		return sqlh.GV{T: "ptr", Addr: g.NewAddr(), Elem: &e}
	default:
		return g.Retype(v) // same column value, another Go type (the known matcher class unless a pointer)
	}
}

func perm(g *sqlh.Gen, n int) []int {
	if n <= 0 {
		return nil
	}
	p := make([]int, n)
	for i := range p {
		p[i] = i
	}
	for i := n - 1; i > 0; i-- {
		j := g.R.Intn(i + 1)
		p[i], p[j] = p[j], p[i]
	}
	return p
}

// shiftFilter returns a filter on the same columns as f whose value tuple differs from f's only by where
// the boundary between two adjacent values lies (columns in sorted order, as tuples are built):
// ("ab","c") / ("a","bc"), ("a2", 1) / ("a", 21), (1, "2x") / (12, "x").  Such tuples are different, but any
// keying of tuples that is not injective (joined text without separators, ...) confuses them.  Only exactly
// typed, non-NULL values of plain string / integer columns are shifted.  ok=false if f has no such pair.
func shiftFilter(g *sqlh.Gen, t *sqlh.TableDesc, f sqlh.Filter) (sqlh.Filter, bool) {
	keys := f.Keys()
	if _, hasID := f["id"]; hasID { // the row added for the shifted filter gets a fresh id
		return nil, false
	}
	isStr := func(k string) bool {
		c := t.Col(k)
		v := f[k]
		return !c.ImplicitNull && (v.T == "string" || v.T == "Label") && v.T == sqlh.BaseType(c.Ty)
	}
	isInt := func(k string) bool {
		c := t.Col(k)
		v := f[k]
		bt := sqlh.BaseType(c.Ty)
		return v.T == bt && (bt == "int64" || bt == "int32" || bt == "uint32" || bt == "Kind") && v.Z >= 0 && !(c.Primary && c.Name == "id")
	}
	digit := func(b byte) bool { return b >= '0' && b <= '9' }
	for _, i := range perm(g, len(keys)-1) {
		a, b := keys[i], keys[i+1]
		out := sqlh.Filter{}
		for k, v := range f {
			out[k] = v
		}
		va, vb := f[a], f[b]
		switch {
		case isStr(a) && isStr(b) && len(vb.S) > 0:
			va.S, vb.S = va.S+vb.S[:1], vb.S[1:]
		case isStr(a) && isStr(b) && len(va.S) > 0:
			va.S, vb.S = va.S[:len(va.S)-1], va.S[len(va.S)-1:]+vb.S
		case isStr(a) && isInt(b) && len(va.S) > 0 && digit(va.S[len(va.S)-1]) && vb.Z < 1000:
			d := int64(va.S[len(va.S)-1] - '0')
			p := int64(10)
			for p <= vb.Z {
				p *= 10
			}
			va.S, vb.Z = va.S[:len(va.S)-1], d*p+vb.Z
			if d == 0 {
				continue
			}
		case isStr(a) && isInt(b) && vb.Z >= 10:
			p := int64(1)
			for p*10 <= vb.Z {
				p *= 10
			}
			va.S, vb.Z = va.S+fmt.Sprint(vb.Z/p), vb.Z%p
			if vb.Z < p/10 { // a leading zero would be lost
				continue
			}
		case isInt(a) && isStr(b) && len(vb.S) > 0 && digit(vb.S[0]) && va.Z < 1000:
			va.Z, vb.S = va.Z*10+int64(vb.S[0]-'0'), vb.S[1:]
		default:
			continue
		}
		out[a], out[b] = va, vb
		return out, true
	}
	return nil, false
}

// rowFor appends a stored row that the (exactly typed) filter f selects: a copy of a random row with f's
// values in f's columns and a fresh id.
func rowFor(g *sqlh.Gen, t *sqlh.TableDesc, c *Case, f sqlh.Filter) {
	src := c.Contents[g.R.Intn(len(c.Contents))]
	row := append([]CV{}, src...)
	for j := range t.Cols {
		col := &t.Cols[j]
		if col.Primary && col.Name == "id" {
			row[j] = genStored(g, t, col, len(c.Contents)+50)
		}
		if v, ok := f[col.Name]; ok {
			if v.T == "ptr" {
				v = *v.Elem
			}
			switch v.T {
			case "string", "Label":
				if !(col.ImplicitNull && v.S == "") {
					row[j] = CV{K: "str", S: v.S}
				}
			case "bytes":
				row[j] = CV{K: "bytes", S: v.S}
			case "bool":
				row[j] = CV{K: "int", Z: map[bool]int64{false: 0, true: 1}[v.B]}
			case "float64":
				row[j] = CV{K: "float", Q: v.Q}
			case "nil", "nilptr", "nilbytes":
				// keep the copied value: the filter's NULL may not be storable in this column
			default:
				if !(col.ImplicitNull && v.Z == 0) {
					row[j] = CV{K: "int", Z: v.Z}
				}
			}
		}
	}
	c.Contents = append(c.Contents, row)
}

// genLarge: one very large batch (1001..2500 plain Query callers) over few rows, the filters drawn from a
// handful of exactly typed ones, so that every row is asked for by many callers far apart in the batch
// (whatever the batch function does per chunk of callers must not show in what a caller receives).
func genLarge(g *sqlh.Gen) Case {
	base := genCase(g)
	t := sqlh.TableByName(base.Table)
	c := Case{Table: base.Table, Contents: base.Contents, Origin: "generated-large"}
	if len(c.Contents) > 5 {
		c.Contents = c.Contents[:5]
	}
	var pool []sqlh.Filter
	for _, f := range base.Filters {
		ok := true
		for k, v := range f {
			if !sqlh.ExactlyTyped(t.Col(k), v) {
				ok = false
			}
		}
		if ok {
			pool = append(pool, f)
		}
	}
	for ci := range t.Cols { // and one filter per column taken from the first row
		col := &t.Cols[ci]
		v := filterValueExact(col, c.Contents[0][ci])
		if sqlh.ExactlyTyped(col, v) {
			pool = append(pool, sqlh.Filter{col.Name: v})
		}
	}
	n := 1001 + g.R.Intn(1500)
	for i := 0; i < n; i++ {
		c.Filters = append(c.Filters, pool[g.R.Intn(len(pool))])
	}
	return c
}

// filterValueExact: the stored value as a filter value of the column's exact Go type.
func filterValueExact(c *sqlh.ColDesc, stored CV) sqlh.GV {
	bt := sqlh.BaseType(c.Ty)
	switch stored.K {
	case "null":
		return sqlh.GV{T: "nil"}
	case "int":
		if bt == "bool" {
			return sqlh.GV{T: "bool", B: stored.Z != 0}
		}
		return sqlh.GV{T: bt, Z: stored.Z}
	case "float":
		return sqlh.GV{T: bt, Q: stored.Q}
	}
	return sqlh.GV{T: bt, S: stored.S}
}

// oddTransparent: filters that are NOT exactly typed and yet answered alike with and without batching (the
// matcher never accepts a row and the WHERE clause never selects one, or both accept exactly the same
// stored values although the Go types differ): the strip between the old hypothesis filter_exactly_typed
// and the exact one, filter_transparent.
func oddTransparent(g *sqlh.Gen, t *sqlh.TableDesc) sqlh.Filter {
	empty := sqlh.GV{T: "string", S: ""}
	switch t.Name {
	case "items":
		switch g.R.Intn(4) {
		case 0: // a pointer to "" on the implicitnull column means IS NULL; the matcher compares "" with the "" a NULL scans into
			return sqlh.Filter{"note": {T: "ptr", Addr: g.NewAddr(), Elem: &empty}}
		case 1: // Shifted(2^31-1) serializes to 2^31, which no int32 column stores, and is never matched
			return sqlh.Filter{"kind": {T: "Shifted", Z: 1<<31 - 1}}
		case 2: // a plain string on the named-string column is never matched; the other column selects nothing
			return sqlh.Filter{"kind": {T: "Shifted", Z: 1<<31 - 1}, "label": {T: "string", S: "a"}}
		}
		return sqlh.Filter{"data": {T: "string", S: g.R.Pick(sqlh.SmallStrings[:3])}} // a string on the blob column: hashed alike
	case "users":
		if g.R.Bool() {
			return sqlh.Filter{"age": {T: "Shifted", Z: 1<<31 - 1}} // serializes to 2^31: no int32 column stores it
		}
		return sqlh.Filter{"age": {T: "Shifted", Z: 1<<31 - 1}, "name": {T: "string", S: g.R.Pick(sqlh.SmallStrings)}}
	case "tags":
		return sqlh.Filter{"ab": {T: "int64", Z: int64(g.R.Intn(5))}, "namespace": {T: "string", S: g.R.Pick(sqlh.SmallStrings)}} // (no odd class on this table)
	}
	return sqlh.Filter{"seq": {T: "Shifted", Z: 1<<32 - 1}, "tag": {T: "Label", S: g.R.Pick(sqlh.SmallStrings)}}
}

func genCase(g *sqlh.Gen) Case {
	t := sqlh.Tables[g.R.Intn(len(sqlh.Tables))]
	c := Case{Table: t.Name, Origin: "generated"}
	nrows := 3 + g.R.Intn(8)
	for i := 0; i < nrows; i++ {
		row := make([]CV, len(t.Cols))
		for j := range t.Cols {
			row[j] = genStored(g, t, &t.Cols[j], i)
		}
		c.Contents = append(c.Contents, row)
	}
	n := 2 + g.R.Intn(6)
	// a few column sets per case so that shapes coincide
	var shapes [][]int
	for s := 1 + g.R.Intn(3); s > 0; s-- {
		var cols []int
		for k := 1 + g.R.Intn(2) + g.R.Intn(2); k > 0; k-- {
			cols = append(cols, g.R.Intn(len(t.Cols)))
		}
		shapes = append(shapes, cols)
	}
	// column sets whose sorted names concatenate to the same text ({namespace} / {name, space}): only the
	// separator in the key of a column set keeps their groups apart, in the combined statement and in the matcher
	if sets := sqlh.CollidingSets[t.Name]; len(sets) > 0 && g.R.Chance(60) {
		for _, names := range sets[g.R.Intn(len(sets))] {
			var cols []int
			for _, nm := range names {
				for ci := range t.Cols {
					if t.Cols[ci].Name == nm {
						cols = append(cols, ci)
					}
				}
			}
			shapes = append(shapes, cols)
		}
		if len(shapes) > 2 {
			shapes = shapes[len(shapes)-2:] // mostly the colliding pair
		}
	}
	for i := 0; i < n; i++ {
		f := sqlh.Filter{}
		switch k := g.R.Intn(100); {
		case k < 6: // empty filter: matches every row
		case k >= 96: // not exactly typed, yet transparent
			f = oddTransparent(g, t)
		case k < 18 && len(c.Filters) > 0: // equal to an earlier filter
			for key, v := range c.Filters[g.R.Intn(len(c.Filters))] {
				f[key] = v
			}
		default:
			shape := shapes[g.R.Intn(len(shapes))]
			src := c.Contents[g.R.Intn(len(c.Contents))]
			for _, ci := range shape {
				col := &t.Cols[ci]
				sv := src[ci]
				if g.R.Chance(25) { // value of another row, or one no row has
					sv = c.Contents[g.R.Intn(len(c.Contents))][ci]
					if g.R.Chance(30) && sv.K != "null" {
						sv.Z, sv.S, sv.Q = sv.Z+7, sv.S+"q", sv.Q+1
					}
				}
				f[col.Name] = filterValue(g, col, sv)
			}
		}
		c.Filters = append(c.Filters, f)
		c.Callers = append(c.Callers, genCaller(g))
		// now and then a second caller whose tuple is the boundary-shifted one, and a row it selects
		if len(f) >= 2 && g.R.Chance(12) {
			if sf, ok := shiftFilter(g, t, f); ok {
				c.Filters = append(c.Filters, sf)
				c.Callers = append(c.Callers, Caller{})
				rowFor(g, t, &c, sf)
			}
		}
	}
	// a history: one to three earlier batches on the same DB over (a shuffled part of) the same filters, most of
	// them failing -- whatever a batch leaves behind in the DB's batch function must not show in the next one
	if g.R.Chance(12) {
		for n := 1 + g.R.Intn(3); n > 0; n-- {
			rd := Round{Fail: g.R.Chance(65)}
			for _, i := range perm(g, len(c.Filters)) {
				if len(rd.Filters) < 2 || g.R.Chance(75) {
					rd.Filters = append(rd.Filters, c.Filters[i])
				}
			}
			c.Before = append(c.Before, rd)
		}
	}
	return c
}

// ---- classification (the harness's own predicates, independent of the Coq model) ----

func isZeroGV(v sqlh.GV) bool { return sqlh.IsZeroGV(v) }

func exactlyTyped(c *sqlh.ColDesc, v sqlh.GV) bool { return sqlh.ExactlyTyped(c, v) }

func denotesNull(c *sqlh.ColDesc, v sqlh.GV) bool {
	if v.T == "ptr" && v.Elem != nil {
		return c.ImplicitNull && isZeroGV(*v.Elem)
	}
	return v.T == "nil" || v.T == "nilptr" || v.T == "nilbytes" || (c.ImplicitNull && isZeroGV(v))
}

// ---- running ----

// callResult: code 0 = rows delivered, 1 = sql.ErrNoRows, 2 = "expected no more than 1 result", 3 = another error.
type callResult struct {
	Code int
	Rows []int
	Err  string
}

// preResult: what one round of the history showed (per caller: alone, in the batch).
type preResult struct {
	single  []callResult
	batched []callResult
}

type runResult struct {
	pre        []preResult
	single     []callResult
	singleLog  []fakesql.Entry
	batched    []callResult
	batchedLog []fakesql.Entry
	arrival    [][]int
	errs       []string
}

func mkCall(t *sqlh.TableDesc, cl Caller) sqlh.Call {
	opts := func() *sqlgen.SelectOptions { return cl.Opts.Go() }
	return func(ctx context.Context, db *sqlgen.DB, f sqlgen.Filter) ([]interface{}, error) {
		switch cl.Kind {
		case "queryrow":
			out := t.NewResultRow()
			if err := db.QueryRow(ctx, out, f, opts()); err != nil {
				return nil, err
			}
			return []interface{}{reflect.ValueOf(out).Elem().Interface()}, nil
		case "fullscan":
			out := t.NewResultSlice()
			if err := db.FullScanQuery(ctx, out, f, opts()); err != nil {
				return nil, err
			}
			var rows []interface{}
			s := reflect.ValueOf(out).Elem()
			for k := 0; k < s.Len(); k++ {
				rows = append(rows, s.Index(k).Interface())
			}
			return rows, nil
		}
		return sqlh.QueryCall(t, opts)(ctx, db, f)
	}
}

func classify(err error, pt string, rows []int) callResult {
	switch {
	case pt != "":
		return callResult{Code: 3, Err: "panic: " + pt}
	case err == nil:
		return callResult{Code: 0, Rows: rows}
	case err == sql.ErrNoRows:
		return callResult{Code: 1, Rows: []int{}}
	case strings.Contains(err.Error(), "expected no more than 1 result"):
		return callResult{Code: 2, Rows: []int{}}
	}
	return callResult{Code: 3, Err: err.Error()}
}

func pkOf(t *sqlh.TableDesc, row interface{}) string {
	var parts []string
	v := reflect.ValueOf(row).Elem()
	for _, c := range t.Cols {
		if c.Primary {
			parts = append(parts, fmt.Sprint(v.FieldByName(c.Field).Interface()))
		}
	}
	return strings.Join(parts, "|")
}

func runCase(c Case) (res runResult, fatal string) {
	t := sqlh.TableByName(c.Table)
	if t == nil {
		return res, "unknown table"
	}
	contents := map[string][][]driver.Value{}
	pkIndex := map[string]int{}
	for i, row := range c.Contents {
		if len(row) != len(t.Cols) {
			return res, "row length"
		}
		dv := make([]driver.Value, len(row))
		var parts []string
		for j, v := range row {
			dv[j] = v.Driver()
			if t.Cols[j].Primary {
				parts = append(parts, fmt.Sprint(dv[j]))
			}
		}
		contents[t.Name] = append(contents[t.Name], dv)
		pk := strings.Join(parts, "|")
		if _, dup := pkIndex[pk]; dup {
			return res, "duplicate primary key in contents"
		}
		pkIndex[pk] = i
	}
	env, err := sqlh.NewEnv(sqlh.Handle{}, contents)
	if err != nil {
		return res, err.Error()
	}
	defer env.Close()
	if sqlh.BatchFunc(env.DB) == nil {
		return res, "sqlgen.DB has no batchFetch field any more: the batch function cannot be observed"
	}
	filters := make([]sqlgen.Filter, len(c.Filters))
	for i, f := range c.Filters {
		filters[i] = f.Go(env.Pool)
		if filters[i] == nil {
			filters[i] = sqlgen.Filter{}
		}
	}
	idx := func(rows []interface{}) []int {
		out := []int{}
		for _, r := range rows {
			if k, ok := pkIndex[pkOf(t, r)]; ok {
				out = append(out, k)
			} else {
				out = append(out, -1)
			}
		}
		return out
	}
	// stand-alone
	ctx := context.Background()
	calls := make([]sqlh.Call, len(filters))
	expect := 0
	for i := range filters {
		calls[i] = mkCall(t, c.caller(i))
		if c.caller(i).effectiveOpts() == nil {
			expect++
		}
	}
	for i := range filters {
		var rows []interface{}
		e, p := sqlh.Safely(func() error {
			var err error
			rows, err = calls[i](ctx, env.DB, filters[i])
			return err
		})
		r := classify(e, p, idx(rows))
		if r.Code == 3 {
			res.errs = append(res.errs, fmt.Sprintf("stand-alone caller %d: %s", i, r.Err))
		}
		res.single = append(res.single, r)
	}
	res.singleLog = env.Srv.Statements()
	// the history: earlier batches on the same DB (and the same batch function), some of them failing
	plain := mkCall(t, Caller{})
	for _, rd := range c.Before {
		var pr preResult
		fs := make([]sqlgen.Filter, len(rd.Filters))
		for i, f := range rd.Filters {
			fs[i] = f.Go(env.Pool)
			if fs[i] == nil {
				fs[i] = sqlgen.Filter{}
			}
			var rows []interface{}
			e, p := sqlh.Safely(func() error {
				var err error
				rows, err = plain(ctx, env.DB, fs[i])
				return err
			})
			pr.single = append(pr.single, classify(e, p, idx(rows)))
		}
		if len(fs) > 0 {
			if rd.Fail {
				env.Srv.FailNext = func(kind, _ string) error {
					if kind == "query" {
						return fmt.Errorf("injected failure of the batched SELECT")
					}
					return nil
				}
			}
			ds := make([]*sqlgen.DB, len(fs))
			for i := range ds {
				ds[i] = env.DB
			}
			br := sqlh.RunBatchedCalls(ds, t, fs, len(fs), nil)
			env.Srv.FailNext = nil
			for i := range fs {
				pr.batched = append(pr.batched, classify(br.Errs[i], br.Panics[i], idx(br.Rows[i])))
			}
		}
		res.pre = append(res.pre, pr)
	}
	env.Srv.ResetLog()
	// on a batching context, concurrently
	dbs := make([]*sqlgen.DB, len(filters))
	for i := range dbs {
		dbs[i] = env.DB
	}
	br := sqlh.RunBatchedCalls(dbs, t, filters, expect, calls)
	res.batchedLog = env.Srv.Statements()
	res.arrival = br.Arrival
	for i := range filters {
		r := classify(br.Errs[i], br.Panics[i], idx(br.Rows[i]))
		if r.Code == 3 {
			res.errs = append(res.errs, fmt.Sprintf("batched caller %d: %s", i, r.Err))
		}
		res.batched = append(res.batched, r)
	}
	return res, ""
}

func coqResults(xs []callResult) string {
	out := make([]string, len(xs))
	for i, r := range xs {
		ys := make([]string, len(r.Rows))
		for j, k := range r.Rows {
			ys[j] = fmt.Sprint(k)
		}
		out[i] = fmt.Sprintf("(%d, %s)", r.Code, vh.CoqList(ys))
	}
	return vh.CoqList(out)
}

func sameResult(a, b callResult) bool {
	return a.Code == b.Code && reflect.DeepEqual(append([]int{}, a.Rows...), append([]int{}, b.Rows...))
}

func main() {
	o := vh.ParseFlags()
	run := vh.NewRun("C10", o)
	run.Rule = "one case = (table of a 3-table catalogue, 3-10 random rows incl. NULLs, 2-7 callers with filters over 1-3 column sets of the case and values taken from the rows: 62% the column's exact Go type, 16% pointer to it, 22% another Go type denoting the same column value; empty filters 6%, repeated filters 12%; each caller uses Query 70% / QueryRow 15% / FullScanQuery 15% and in 30% SelectOptions from a catalogue of Limit, OrderBy, AllowNoIndex, ForUpdate, index hints, free-text Where and combinations); every call is made on its own and as one of the concurrent callers on a batching context; non-trivial = at least two callers were combined into one statement and some caller received at least one row; distinct by JSON of the case"
	r := vh.NewRng(o.Seed)

	// Which batch function does the tree under test have: the one that hands a row to every query the matcher
	// associates it with, or the repaired one (patches/C10-fix-2.patch) that asks the row tester first?  The
	// model, the premise of the theorems and the oracle's known class follow the tree.
	fixed, perr := sqlh.MatcherAsksTester()
	if perr != nil {
		run.Fail(-1, "c10-harness-cannot-run", "probe of the batch function: "+perr.Error(), nil)
	}
	sqlh.Fixed = fixed
	if fixed {
		run.Hist("tree: batch function asks the row tester (C10-fix-2 applied)")
	} else {
		run.Hist("tree: batch function hands over whatever the matcher associates (C10-fix-2 not applied)")
	}

	var cases []Case
	searching := o.Search != ""
	if searching {
		cases = searchCases(o, r)
	} else if o.Replay != "" {
		var c Case
		if vh.ReadReplayCase(o.Replay, &c) {
			c.Origin = "replay"
			cases = append(cases, c)
		}
	} else {
		for _, f := range vh.CorpusFiles(o.Corpus) {
			var c Case
			if vh.ReadReplayCase(f, &c) {
				c.Origin = "corpus:" + filepath.Base(f)
				cases = append(cases, c)
			}
		}
		for i := 0; i < o.N; i++ {
			g := &sqlh.Gen{R: r.Fork()}
			if g.R.Intn(150) == 0 || i == o.N/2 { // a few very large batches per run, at least one
				cases = append(cases, genLarge(g))
				continue
			}
			cases = append(cases, genCase(g))
		}
	}

	const shard = 200
	var terms []string
	start := 0
	flush := func() {
		if len(terms) == 0 {
			return
		}
		run.WriteCasesV(fmt.Sprintf("cases_%d.v", start), []string{"Sql.Model", "Sql.ModelCheck"}, "", "mismatches_c10", 0, terms)
		start += len(terms)
		terms = nil
	}

	totalCallers, totalStatements := 0, 0
	knownRecorded := 0
	premiseAll, premiseTyped, premiseTransparent := 0, 0, 0
	witnesses, witnessBudget := 0, 400
	if o.N > 2000 {
		witnessBudget = o.N / 4
	}
	for idx := 0; idx < len(cases); idx++ {
		c := cases[idx]
		run.LogCase(idx, c)
		res, fatal := runCase(c)
		if fatal != "" {
			run.Fail(idx, "c10-harness-cannot-run", fatal, c)
			continue
		}
		t := sqlh.TableByName(c.Table)
		if len(res.errs) > 0 {
			run.Fail(idx, "c10-query-error", strings.Join(res.errs, "; "), c)
			continue
		}
		bad := false
		for _, b := range res.arrival {
			for _, k := range b {
				if k < 0 {
					bad = true
				}
			}
		}
		if bad {
			run.Fail(idx, "c10-harness-cannot-run", "an item of the batch function could not be attributed to a caller", c)
			continue
		}

		for i := range c.Filters {
			for _, k := range append(append([]int{}, res.single[i].Rows...), res.batched[i].Rows...) {
				if k < 0 {
					bad = true
				}
			}
		}
		if bad {
			run.Fail(idx, "c10-unknown-row-returned", "a caller received a row that is not in the table", c)
			continue
		}

		// ---- oracle on the history: a failed batch answers every caller with its error, any other batch
		// answers every caller with its own rows -- whatever happened on the DB before ----
		for k, rd := range c.Before {
			if k >= len(res.pre) || len(res.pre[k].batched) != len(rd.Filters) {
				continue
			}
			for i, f := range rd.Filters {
				b, sg := res.pre[k].batched[i], res.pre[k].single[i]
				fj, _ := json.Marshal(f)
				switch {
				case rd.Fail && b.Code != 3:
					run.Fail(idx, "c10-failed-batch-answered-a-caller", fmt.Sprintf("round %d caller %d filter %s: the batched SELECT failed, the caller got %+v", k, i, fj, b), c)
				case rd.Fail:
					run.Hist("history:caller-of-a-failed-batch-got-the-error")
				case sameResult(b, sg):
				default:
					if _, tr := sqlh.Transparent(t, f); tr {
						run.Fail(idx, "c10-batched-rows-differ", fmt.Sprintf("history round %d caller %d filter %s: alone %+v, with batching %+v", k, i, fj, sg, b), c)
					} else {
						run.Hist("oracle:c10-batch-matcher-go-type")
					}
				}
			}
			if rd.Fail {
				run.Hist("history:failed-batch")
			} else {
				run.Hist("history:earlier-batch")
			}
		}

		// ---- oracle ----
		anyRows, anyKnown := false, false
		for i, f := range c.Filters {
			if len(res.single[i].Rows) > 0 {
				anyRows = true
			}
			if sameResult(res.single[i], res.batched[i]) {
				continue
			}
			if fixed && c.caller(i).effectiveOpts() == nil && c.caller(i).Kind != "queryrow" {
				// the repaired batch function never hands a caller a row its own query does not select --
				// whatever the Go types of the filter values (Props/C10.v c10_repaired_never_hands_foreign_rows)
				own := map[int]bool{}
				for _, k := range res.single[i].Rows {
					own[k] = true
				}
				foreign := false
				for _, k := range res.batched[i].Rows {
					if !own[k] {
						foreign = true
					}
				}
				if foreign {
					fj, _ := json.Marshal(f)
					run.Fail(idx, "c10-batched-caller-received-foreign-row", fmt.Sprintf("caller %d filter %s: alone %+v, with batching %+v", i, fj, res.single[i], res.batched[i]), c)
					continue
				}
			}
			sig := "c10-batched-rows-differ"
			null := false
			for k, v := range f {
				if denotesNull(t.Col(k), v) {
					null = true
				}
			}
			// the known class is exactly the complement of filter_transparent (proved necessary and
			// sufficient in Sql/BatchExact.v); a transparent filter that is answered differently is a failure
			// even when its Go types are not the columns'
			cmp, transparent := sqlh.Transparent(t, f)
			switch {
			case !cmp || !transparent:
				sig = "c10-batch-matcher-go-type"
				anyKnown = true
			case c.caller(i).effectiveOpts() != nil:
				// a call with SelectOptions gets what its own statement gives: LIMIT, ORDER BY, free text and
				// locks cannot be served from a fetch combined with other queries
				sig = "c10-batched-options-result-differs"
			case null:
				sig = "c10-batch-null-in"
			}
			fj, _ := json.Marshal(f)
			if sig == "c10-batch-matcher-go-type" {
				// vh.Run keeps 200 failures: leave room for any other class
				run.Hist("oracle:" + sig)
				if knownRecorded >= 25 {
					continue
				}
				knownRecorded++
			}
			oj, _ := json.Marshal(c.caller(i))
			run.Fail(idx, sig, fmt.Sprintf("caller %d %s filter %s: alone %+v, with batching %+v (code 0 rows / 1 no rows / 2 more than one row; row positions)", i, oj, fj, res.single[i], res.batched[i]), c)
		}
		// ---- necessity of the theorem's hypothesis, replayed on the implementation ----
		// Sql/BatchExact.v proves that a (comparable) filter outside filter_transparent is answered differently
		// in the company of an empty filter on a one-row table.  For the first such caller of a generated case
		// that one-row case is built (by the harness's own construction, sqlh.SeparatingRow) and queued as a case
		// of its own; when it is run, the difference must show (and the model must predict both results).
		if c.Origin == "generated" && !searching && witnesses < witnessBudget {
			for _, f := range c.Filters {
				if row, ok := sqlh.SeparatingRow(t, f); ok {
					w := Case{Table: c.Table, Origin: "necessity-witness", Filters: []sqlh.Filter{f, {}}, Callers: []Caller{{}, {}}}
					cv := make([]CV, len(row))
					for j, d := range row {
						cv[j] = CV{K: d.K, S: d.S}
						if d.K == "float" {
							cv[j].Q = d.Z
						} else {
							cv[j].Z = d.Z
						}
					}
					w.Contents = [][]CV{cv}
					cases = append(cases, w)
					witnesses++
					break
				}
			}
		}
		if c.Origin == "necessity-witness" {
			together := len(res.arrival) == 1 && len(res.arrival[0]) == 2
			switch {
			case !together:
				run.Hist("necessity-witness:callers-not-combined (nothing to conclude)")
			case sameResult(res.single[0], res.batched[0]):
				fj, _ := json.Marshal(c.Filters[0])
				run.Fail(idx, "c10-necessity-witness-does-not-separate", fmt.Sprintf("filter %s is outside filter_transparent, yet on its witness row it got %+v alone and %+v with batching", fj, res.single[0], res.batched[0]), c)
			case len(res.batched[0].Rows) > len(res.single[0].Rows) && fixed:
				run.Fail(idx, "c10-batched-caller-received-foreign-row", "necessity witness on a tree with C10-fix-2", c)
			case len(res.batched[0].Rows) > len(res.single[0].Rows):
				run.Hist("necessity-witness:separates (batched caller received a row its own query does not select)")
			default:
				run.Hist("necessity-witness:separates (batched caller lost a row of its own query)")
			}
		}
		inBatch := 0
		for _, b := range res.arrival {
			inBatch += len(b)
		}
		if want := len(res.arrival) + len(c.Filters) - inBatch; len(res.batchedLog) != want {
			run.Fail(idx, "c10-statements-per-invocation", fmt.Sprintf("%d invocations of the batch function combining %d of %d callers, but %d statements", len(res.arrival), inBatch, len(c.Filters), len(res.batchedLog)), c)
		}
		if len(res.singleLog) != len(c.Filters) {
			run.Fail(idx, "c10-statements-unbatched", fmt.Sprintf("%d stand-alone queries, %d statements", len(c.Filters), len(res.singleLog)), c)
		}
		totalCallers += inBatch
		totalStatements += len(res.arrival)

		// ---- bookkeeping ----
		run.Hist("table:" + c.Table)
		run.Hist(fmt.Sprintf("callers:%d", len(c.Filters)))
		run.Hist(fmt.Sprintf("invocations:%d", len(res.arrival)))
		shapes := map[string]bool{}
		for _, f := range c.Filters {
			shapes[strings.Join(f.Keys(), ";")] = true
			for k, v := range f {
				col := t.Col(k)
				switch {
				case !exactlyTyped(col, v):
					run.Hist("value:other-go-type")
				case v.T == "ptr":
					run.Hist("value:pointer")
				case denotesNull(col, v):
					run.Hist("value:null")
				default:
					run.Hist("value:exact")
				}
			}
			if len(f) == 0 {
				run.Hist("filter:empty")
			}
			typed := true
			for k, v := range f {
				if !exactlyTyped(t.Col(k), v) {
					typed = false
				}
			}
			cmp, tr := sqlh.Transparent(t, f)
			if c.Origin == "generated-large" || c.Origin == "necessity-witness" {
				continue // a handful of filters repeated a thousand times / built to lie outside: not counted
			}
			premiseAll++
			switch {
			case typed && !tr:
				run.Fail(idx, "c10-harness-premise-inconsistent", "an exactly typed filter is not transparent", c)
			case typed:
				run.Hist("premise:exactly-typed (transparent)")
				premiseTyped++
				premiseTransparent++
			case tr:
				run.Hist("premise:transparent, not exactly typed")
				premiseTransparent++
			case !cmp:
				run.Hist("premise:outside (value not comparable with the column)")
			default:
				run.Hist("premise:outside (known matcher class)")
			}
		}
		for i := range c.Filters {
			cl := c.caller(i)
			k := cl.Kind
			if k == "" {
				k = "query"
			}
			if o := cl.effectiveOpts(); o != nil {
				run.Hist("call:" + k + "+options")
				if o.Limit > 0 && len(res.single[i].Rows) >= o.Limit && o.Where == "" {
					run.Hist("options:limit-cuts-rows")
				}
			} else {
				run.Hist("call:" + k)
			}
		}
		run.Hist(fmt.Sprintf("shapes:%d", len(shapes)))
		for _, pair := range sqlh.CollidingSets[c.Table] {
			if shapes[strings.Join(pair[0], ";")] && shapes[strings.Join(pair[1], ";")] {
				run.Hist("shapes:column sets whose names concatenate alike in one case (" + strings.Join(pair[0], "+") + " / " + strings.Join(pair[1], "+") + ")")
			}
		}
		if anyKnown {
			run.Hist("case:known-matcher-class-observed")
		}
		combined := false
		for _, b := range res.arrival {
			if len(b) > 1 {
				combined = true
			}
		}
		kb, _ := json.Marshal(Case{Table: c.Table, Contents: c.Contents, Filters: c.Filters})
		run.Count(string(kb), combined && anyRows)
		if combined && anyRows {
			var st []string
			for _, e := range res.batchedLog {
				st = append(st, e.SQL+" "+fmt.Sprint(e.Args))
			}
			run.Sample(map[string]interface{}{"case": c, "batched_statements": st, "results_per_caller": res.batched, "arrival": res.arrival})
		}

		if searching {
			continue
		}
		if len(c.Filters) > 300 {
			run.Hist("skipped-model:large-batch (oracle only)")
			continue
		}
		// ---- Coq case ----
		bev, ok1 := sqlh.CoqEvents(res.batchedLog)
		sev, ok2 := sqlh.CoqEvents(res.singleLog)
		if !ok1 || !ok2 {
			run.Hist("skipped-model:value-outside-model")
			continue
		}
		fs := make([]string, len(c.Filters))
		for i, f := range c.Filters {
			fs[i] = f.Coq()
		}
		rows := make([]string, len(c.Contents))
		for i, row := range c.Contents {
			dv := make([]driver.Value, len(row))
			for j, v := range row {
				dv[j] = v.Driver()
			}
			rows[i] = t.CoqStored(dv)
		}
		cls := make([]string, len(c.Filters))
		for i := range c.Filters {
			cl := c.caller(i)
			cls[i] = fmt.Sprintf("(mk_caller %s %s)", vh.CoqBool(cl.Kind == "queryrow"), cl.effectiveOpts().Coq())
		}
		flags := make([]string, len(c.Filters))
		for i, f := range c.Filters {
			_, tr := sqlh.Transparent(t, f)
			flags[i] = vh.CoqBool(tr)
		}
		terms = append(terms, fmt.Sprintf("(%d, mk_c10 %s %s %s %s %s %s %s %s %s %s %s)", idx, t.Coq(), vh.CoqList(fs), vh.CoqList(cls),
			sqlh.CoqArrival(res.arrival), vh.CoqList(rows), bev, coqResults(res.batched), sev, coqResults(res.single), vh.CoqList(flags), vh.CoqBool(fixed)))
		if len(terms) >= shard {
			flush()
		}
	}
	flush()
	if o.Replay == "" && !searching && totalCallers >= 20 && totalStatements >= totalCallers {
		run.Fail(-1, "c10-no-combining", fmt.Sprintf("%d batched callers needed %d statements: concurrent queries are not combined", totalCallers, totalStatements), nil)
	}
	share := func(a, b int) float64 {
		if b == 0 {
			return 0
		}
		return float64(int(10000*float64(a)/float64(b))) / 10000
	}
	if premiseAll > 0 {
		run.Hist(fmt.Sprintf("premise-share: %.1f%% of %d generated / corpus callers satisfy filter_transparent (the theorems' premise), %.1f%% the earlier hypothesis filter_exactly_typed; %d necessity witnesses replayed",
			100*share(premiseTransparent, premiseAll), premiseAll, 100*share(premiseTyped, premiseAll), witnesses))
	}
	run.Extra = map[string]interface{}{"batched_callers": totalCallers, "batched_statements": totalStatements,
		"premise": map[string]interface{}{"filters": premiseAll, "exactly_typed": premiseTyped, "transparent": premiseTransparent,
			"share_transparent": share(premiseTransparent, premiseAll), "share_exactly_typed": share(premiseTyped, premiseAll),
			"necessity_witnesses_replayed": witnesses}}
	run.Finish()
}
