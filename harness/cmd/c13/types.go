package main

import (
	"database/sql"
	"database/sql/driver"
	"encoding/hex"
	"encoding/json"
	"errors"
	"fmt"
	"net"
	"reflect"
	"time"

	"github.com/samsarahq/thunder/sqlgen"
)

// ---- custom column types of the catalogue (the Coq model knows their codecs: Sql/Codec.v) ----

// CVal implements driver.Valuer (value receiver) and sql.Scanner (pointer receiver), like
// internal/testfixtures.CustomType.
type CVal struct{ S string }

func (c CVal) Value() (driver.Value, error) { return []byte(c.S), nil }
func (c *CVal) Scan(v interface{}) error {
	switch x := v.(type) {
	case nil:
	case string:
		c.S = x
	case []byte:
		c.S = string(x)
	default:
		return fmt.Errorf("CVal: cannot scan %T", v)
	}
	return nil
}

// CBin has Marshal / Unmarshal (used with the `binary` tag).
type CBin struct{ S string }

func (c CBin) Marshal() ([]byte, error) { return []byte("B" + c.S), nil }
func (c *CBin) Unmarshal(b []byte) error {
	if len(b) == 0 || b[0] != 'B' {
		return errors.New("CBin: bad prefix")
	}
	c.S = string(b[1:])
	return nil
}

// CText is an encoding.TextMarshaler / TextUnmarshaler (used with the `string` tag).
type CText struct{ S string }

func (c CText) MarshalText() ([]byte, error) { return []byte("T:" + c.S), nil }
func (c *CText) UnmarshalText(b []byte) error {
	if len(b) < 2 || b[0] != 'T' || b[1] != ':' {
		return errors.New("CText: bad prefix")
	}
	c.S = string(b[2:])
	return nil
}

// CUuid is internal/testfixtures.CustomType: a [16]byte whose Value is its bytes and whose Scan copies
// into it (Scan(nil) leaves it alone, so NULL reads as the zero array).
type CUuid [16]byte

func (u CUuid) Value() (driver.Value, error) { return []byte(u[:]), nil }
func (u *CUuid) Scan(value interface{}) error {
	switch value := value.(type) {
	case nil:
	case string:
		copy(u[:], []byte(value))
	case []byte:
		copy(u[:], value)
	default:
		return fmt.Errorf("cannot convert %v (of type %T) to %T", value, value, u)
	}
	return nil
}

// Consent is a tri-state answer that is its own driver.Valuer / sql.Scanner and stands for SQL NULL by a value
// that is not its zero value: Unanswered <-> NULL, No (the zero value) <-> 0, Yes <-> 1.  Scanner.Scan hands
// NULL to a non-pointer column of such a type ("it will handle its own validity"); a decoder that skips NULLs
// reads Unanswered back as No.
type Consent int8

const (
	No         Consent = 0
	Yes        Consent = 1
	Unanswered Consent = 2
)

func (c Consent) Value() (driver.Value, error) {
	if c == Unanswered {
		return nil, nil
	}
	return int64(c), nil
}

func (c *Consent) Scan(v interface{}) error {
	var z int64
	switch x := v.(type) {
	case nil:
		*c = Unanswered
		return nil
	case int8:
		z = int64(x)
	case int16:
		z = int64(x)
	case int32:
		z = int64(x)
	case int64:
		z = x
	case []byte:
		return c.Scan(string(x))
	case string:
		switch x {
		case "0":
			z = 0
		case "1":
			z = 1
		default:
			return fmt.Errorf("Consent: cannot scan %q", x)
		}
	default:
		return fmt.Errorf("Consent: cannot scan %T", v)
	}
	if z != 0 && z != 1 {
		return fmt.Errorf("Consent: %d is not an answer", z)
	}
	*c = Consent(z)
	return nil
}

type MyInt32 int32
type MyU16 uint16
type MyStr string
type MyBool bool
type MyF64 float64
type MyI64 int64

// ---- the catalogue of table structs: every kind x pointer / tag combination ----

type TInts struct {
	Id int64 `sql:",primary"`
	A  int8
	B  int16
	C  int32
	D  int
	E  *int8
	F  *int16
	G  *int32
	H  *int64
	N  MyInt32
	NP *MyInt32
}

type TUints struct {
	Id uint64 `sql:",primary"`
	A  uint8
	B  uint16
	C  uint32
	D  uint
	E  *uint8
	F  *uint16
	G  *uint32
	H  *uint64
	N  MyU16
	NP *MyU16
}

type TFloats struct {
	Id MyI64 `sql:",primary"`
	A  float32
	B  float64
	C  *float32
	D  *float64
	N  MyF64
	Bo bool
	Bp *bool
	Nb MyBool
}

type TText struct {
	Id int32 `sql:",primary"`
	S  string
	Sp *string
	B  []byte
	N  MyStr
	Np *MyStr
	V  CVal
	Vp *CVal
}

type TTime struct {
	Id uint32 `sql:",primary"`
	T  time.Time
	Tp *time.Time
	Ti time.Time `sql:",implicitnull"`
	S  string
}

type TImplicit struct {
	Id int64   `sql:",primary"`
	A  int32   `sql:",implicitnull"`
	B  uint64  `sql:",implicitnull"`
	C  float64 `sql:",implicitnull"`
	D  string  `sql:",implicitnull"`
	E  bool    `sql:",implicitnull"`
	F  []byte  `sql:",implicitnull"`
	G  MyStr   `sql:",implicitnull"`
	H  float32 `sql:",implicitnull"`
}

type TTagged struct {
	Id string `sql:",primary"`
	A  CBin   `sql:",binary"`
	Ap *CBin  `sql:",binary"`
	B  CText  `sql:",string"`
	Bp *CText `sql:",string"`
	J  int64  `sql:",json"`
	Jp *int64 `sql:",json"`
	Jb bool   `sql:",json"`
	Ju uint16 `sql:",json"`
	Ss string `sql:",string"`
	Bb []byte `sql:",binary"`
	Ji *int8  `sql:",json"`
}

// Blob is a named byte slice with encoding.BinaryMarshaler / BinaryUnmarshaler (used with the binary tag):
// the stored form is not the raw bytes.
type Blob []byte

func (b Blob) MarshalBinary() ([]byte, error) { return append([]byte{0xB1}, b...), nil }
func (b *Blob) UnmarshalBinary(d []byte) error {
	if len(d) == 0 || d[0] != 0xB1 {
		return errors.New("Blob: bad prefix")
	}
	*b = append(Blob{}, d[1:]...)
	return nil
}

// Token is a named byte slice with encoding.TextMarshaler / TextUnmarshaler (used with the string tag).
type Token []byte

func (t Token) MarshalText() ([]byte, error) { return []byte("tok-" + hex.EncodeToString(t)), nil }
func (t *Token) UnmarshalText(d []byte) error {
	if len(d) < 4 || string(d[:4]) != "tok-" {
		return errors.New("Token: bad prefix")
	}
	b, err := hex.DecodeString(string(d[4:]))
	*t = Token(b)
	if b == nil {
		*t = Token{}
	}
	return err
}

// TNamedBytes: named byte-slice types that are not their own sql.Scanner, read back through their tags.
type TNamedBytes struct {
	Id  int64   `sql:",primary"`
	Ip  net.IP  `sql:",string"`
	Ipp *net.IP `sql:",string"`
	Bl  Blob    `sql:",binary"`
	Blp *Blob   `sql:",binary"`
	Tk  Token   `sql:",string"`
	Tkp *Token  `sql:",string"`
	Raw []byte
}

type hidden struct{ X int }

// TGaps: fields that are not columns - an unexported embedded struct, unexported fields, `sql:"-"` fields -
// before and between the columns, so that a column's position among the columns differs from its field index.
type TGaps struct {
	hidden
	note    string
	Display string `sql:"-"`
	Id      int64  `sql:",primary"`
	Name    string
	skip2   *int
	Age     *int32
	Gone    float64 `sql:"-"`
	Flag    bool
	cache   map[string]int
	B       []byte
	Score   *int64
	Tail    string `sql:"-"`
}

type TMixed struct {
	before  bool
	Ignored *string `sql:"-"`
	K1      int64   `sql:"key_one,primary"`
	K2      string  `sql:"key_two,primary"`
	U       uint64
	Up      *uint32
	F       *float64
	S       *string
	B       []byte
	T       *time.Time
	X       bool
	V       CVal
	skipped int
	Gone    int `sql:"-"`
}

// TSelf: types that are their own sql.Scanner / driver.Valuer, in pointer and non-pointer columns, and *[]byte.
type TSelf struct {
	Id   int64 `sql:",primary"`
	U    CUuid
	Up   *CUuid
	N    sql.NullString
	Np   *sql.NullString
	V    CVal
	Bp   *[]byte
	Name string
}

// TJsonWide: json payloads the Coq model does not cover (oracle only, counted as an excluded class).
type TJsonWide struct {
	Id int64            `sql:",primary"`
	S  string           `sql:",json"`
	F  float64          `sql:",json"`
	L  []int64          `sql:",json"`
	M  map[string]int64 `sql:",json"`
	P  *string          `sql:",json"`
	St struct {
		A int
		B string
	} `sql:",json"`
	Any interface{}             `sql:",json"` // untyped payloads: numbers are float64 after a round trip
	Mi  map[string]interface{}  `sql:",json"`
	Li  []interface{}           `sql:",json"`
	Raw json.RawMessage         `sql:",json"`
	Pm  *map[string]interface{} `sql:",json"`
}

// TJsonOdd: a json tag on []byte, which Scanner.Scan handles before it looks at tags (a json-tagged
// time.Time is rejected at registration by ValidateSQLType).
type TJsonOdd struct {
	Id int64  `sql:",primary"`
	B  []byte `sql:",json"`
}

// TTri: the tri-state type in non-pointer and pointer columns, beside plain columns.
type TTri struct {
	Id   int64 `sql:",primary"`
	Ans  Consent
	Ansp *Consent
	Note *string
	Opt  Consent
	N    int32
}

// TSelfTagged: types that are their own driver.Valuer / sql.Scanner under every tag.  Valuer.Value asks for
// driver.Valuer and Scanner.Scan for sql.Scanner before either looks at the tags, so the tag must not matter.
type TSelfTagged struct {
	Id  int64           `sql:",primary"`
	Vj  CVal            `sql:",json"`
	Vb  CVal            `sql:",binary"`
	Vs  CVal            `sql:",string"`
	Vi  CVal            `sql:",implicitnull"`
	Vjp *CVal           `sql:",json"`
	Uj  CUuid           `sql:",json"`
	Ub  *CUuid          `sql:",binary"`
	Nj  sql.NullString  `sql:",json"`
	Ns  *sql.NullString `sql:",string"`
	Ni  sql.NullString  `sql:",implicitnull"`
	Cj  Consent         `sql:",json"`
	Ci  Consent         `sql:",implicitnull"`
	Cb  *Consent        `sql:",binary"`
}

type tableInfo struct {
	name string
	zero interface{}
	typ  reflect.Type
}

var catalogue = []tableInfo{
	{"ints", TInts{}, nil}, {"uints", TUints{}, nil}, {"floats", TFloats{}, nil}, {"text", TText{}, nil},
	{"times", TTime{}, nil}, {"implicit", TImplicit{}, nil}, {"tagged", TTagged{}, nil}, {"mixed", TMixed{}, nil},
	{"gaps", TGaps{}, nil}, {"namedbytes", TNamedBytes{}, nil}, {"self", TSelf{}, nil}, {"self2", TSelf2{}, nil}, {"tri", TTri{}, nil}, {"selftagged", TSelfTagged{}, nil}, {"jsonwide", TJsonWide{}, nil}, {"jsonodd", TJsonOdd{}, nil},
}

// TSelf2 doubles the weight of the self-scanning types in the catalogue (plain copies of the columns).
type TSelf2 struct {
	Key string `sql:",primary"`
	U   CUuid
	N   sql.NullString
	V   CVal
	Vp  *CVal
}

// oracleOnly tables are run and judged but not compared with the model.
var oracleOnly = map[string]bool{"jsonwide": true, "jsonodd": true, "namedbytes": true}

func newSchema() *sqlgen.Schema {
	s := sqlgen.NewSchema()
	for i := range catalogue {
		catalogue[i].typ = reflect.TypeOf(catalogue[i].zero)
		s.MustRegisterType(catalogue[i].name, sqlgen.UniqueId, catalogue[i].zero)
	}
	return s
}

var (
	timeType    = reflect.TypeOf(time.Time{})
	bytesType   = reflect.TypeOf([]byte(nil))
	cvalType    = reflect.TypeOf(CVal{})
	cbinType    = reflect.TypeOf(CBin{})
	ctextType   = reflect.TypeOf(CText{})
	cuuidType   = reflect.TypeOf(CUuid{})
	nullStrType = reflect.TypeOf(sql.NullString{})
	consentType = reflect.TypeOf(Consent(0))
	rawMsgType  = reflect.TypeOf(json.RawMessage(nil))
	ipType      = reflect.TypeOf(net.IP(nil))
	blobType    = reflect.TypeOf(Blob(nil))
	tokenType   = reflect.TypeOf(Token(nil))
)
