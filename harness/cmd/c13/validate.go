package main

// Registration verdicts: every (column type, pointer, tag) combination of the catalogue's field types is put into a
// one-column struct type (reflect.StructOf) and registered with a fresh sqlgen.Schema; whether sqlgen accepts it
// (buildDescriptor's tag checks, fields.Descriptor.ValidateSQLType) is compared with the model's register_ok
// (Sql/Validate.v, component 13).  Combinations whose json payload the model does not represent are printed too
// and skipped by the model (tag_modelled).

import (
	"database/sql"
	"fmt"
	"reflect"
	"time"

	"github.com/samsarahq/thunder/sqlgen"
	"verifharness/pkg/vh"
)

var validateTypes = []reflect.Type{
	reflect.TypeOf(int(0)), reflect.TypeOf(int8(0)), reflect.TypeOf(int16(0)), reflect.TypeOf(int32(0)), reflect.TypeOf(int64(0)),
	reflect.TypeOf(uint(0)), reflect.TypeOf(uint8(0)), reflect.TypeOf(uint16(0)), reflect.TypeOf(uint32(0)), reflect.TypeOf(uint64(0)),
	reflect.TypeOf(float32(0)), reflect.TypeOf(float64(0)), reflect.TypeOf(false), reflect.TypeOf(""), reflect.TypeOf([]byte(nil)),
	reflect.TypeOf(time.Time{}), reflect.TypeOf(MyInt32(0)), reflect.TypeOf(MyStr("")), reflect.TypeOf(MyBool(false)),
	reflect.TypeOf(CVal{}), reflect.TypeOf(CBin{}), reflect.TypeOf(CText{}), reflect.TypeOf(CUuid{}), reflect.TypeOf(sql.NullString{}),
	reflect.TypeOf(Consent(0)),
}

var validateTags = []struct{ tag, term string }{
	{"", "TNone"}, {"binary", "TBinary"}, {"string", "TString"}, {"json", "TJson"}, {"implicitnull", "TImplicitNull"},
}

// validateTerms registers every combination and returns the Coq list of (descriptor, accepted).
func validateTerms(run *vh.Run) []string {
	var xs []string
	for _, t := range validateTypes {
		for _, ptr := range []bool{false, true} {
			for _, tg := range validateTags {
				ft := t
				if ptr {
					ft = reflect.PtrTo(t)
				}
				tag := `sql:"f"`
				if tg.tag != "" {
					tag = fmt.Sprintf(`sql:"f,%s"`, tg.tag)
				}
				st := reflect.StructOf([]reflect.StructField{
					{Name: "Id", Type: reflect.TypeOf(int64(0)), Tag: `sql:"id,primary"`},
					{Name: "F", Type: ft, Tag: reflect.StructTag(tag)},
				})
				accepted := false
				p := safely(func() {
					err := sqlgen.NewSchema().RegisterType("t", sqlgen.UniqueId, reflect.New(st).Elem().Interface())
					accepted = err == nil
				})
				if p != "" {
					run.Hist("register:panic")
				}
				b, _, _ := baseOf(t)
				run.Hist(fmt.Sprintf("register:%s=%v", tg.term, accepted))
				xs = append(xs, fmt.Sprintf("(mk_desc %s %s %s, %s)", b, vh.CoqBool(ptr), tg.term, vh.CoqBool(accepted)))
			}
		}
	}
	return xs
}
