// C13: row codec round trip.  Random values of a catalogue of tagged struct types are converted with
// sqlgen.UnbuildStruct, re-encoded the way MySQL (text protocol, prepared-statement protocol) and the
// go-mysql binlog decoder hand values back, decoded with sqlgen.BuildStruct / livesql.parseBinlogRow,
// tested with sqlgen.MakeTester and shipped through livesql.FilterToProto / proto.Marshal /
// FilterFromProto.  The oracle evaluates the property on these outputs; everything observed is written
// as Coq terms for the model in Sql/Codec.v.
package main

import (
	"database/sql"
	"database/sql/driver"
	"encoding/json"
	"fmt"
	"io/ioutil"
	"os"
	"math"
	"math/big"
	"net"
	"path/filepath"
	"reflect"
	"sort"
	"strconv"
	"strings"
	"time"

	"github.com/go-sql-driver/mysql"
	"github.com/gogo/protobuf/proto"
	"github.com/samsarahq/thunder/livesql"
	"github.com/samsarahq/thunder/sqlgen"
	"github.com/samsarahq/thunder/thunderpb"
	"verifharness/pkg/vh"
)

type Case struct {
	Table  string `json:"table"`
	Seed   uint64 `json:"seed"`
	Preset string `json:"preset,omitempty"`
	Origin string `json:"origin,omitempty"`
	// Focus (failing-input search): boundary values everywhere - nil / nil-pointer / zero filter values,
	// rows holding zero values, more filters per case.
	Focus bool `json:"focus,omitempty"`
}

// ---------- column descriptors as the model sees them ----------

type mdesc struct {
	base string // Coq term of the base kind
	kind string // int uint f32 f64 bool str bytes time cval cbin ctext
	w    int
	ptr  bool
	tag  string // TNone ...
}

func baseOf(t reflect.Type) (string, string, int) {
	switch t {
	case timeType:
		return "BTime", "time", 0
	case bytesType:
		return "BBytes", "bytes", 0
	case cvalType:
		return "(BCustom CValuer)", "cval", 0
	case cbinType:
		return "(BCustom CBin)", "cbin", 0
	case ctextType:
		return "(BCustom CText)", "ctext", 0
	case cuuidType:
		return "(BCustom CUuid)", "cuuid", 0
	case nullStrType:
		return "(BCustom CNull)", "cnull", 0
	case consentType:
		return "(BCustom CTri)", "ctri", 0
	}
	switch t.Kind() {
	case reflect.Int, reflect.Int64:
		return "(BInt 64)", "int", 64
	case reflect.Int8:
		return "(BInt 8)", "int", 8
	case reflect.Int16:
		return "(BInt 16)", "int", 16
	case reflect.Int32:
		return "(BInt 32)", "int", 32
	case reflect.Uint, reflect.Uint64:
		return "(BUint 64)", "uint", 64
	case reflect.Uint8:
		return "(BUint 8)", "uint", 8
	case reflect.Uint16:
		return "(BUint 16)", "uint", 16
	case reflect.Uint32:
		return "(BUint 32)", "uint", 32
	case reflect.Float32:
		return "BF32", "f32", 0
	case reflect.Float64:
		return "BF64", "f64", 0
	case reflect.Bool:
		return "BBool", "bool", 0
	case reflect.String:
		return "BStr", "str", 0
	}
	return "BStr", "other", 0 // oracle-only tables: never printed
}

func descOf(c *sqlgen.Column) mdesc {
	d := c.Descriptor
	b, k, w := baseOf(d.Type)
	tag := "TNone"
	switch {
	case d.Tags.Contains("binary"):
		tag = "TBinary"
	case d.Tags.Contains("string"):
		tag = "TString"
	case d.Tags.Contains("json"):
		tag = "TJson"
	case d.Tags.Contains("implicitnull"):
		tag = "TImplicitNull"
	}
	return mdesc{base: b, kind: k, w: w, ptr: d.Ptr, tag: tag}
}

func (d mdesc) term() string {
	return fmt.Sprintf("(mk_desc %s %s %s)", d.base, vh.CoqBool(d.ptr), d.tag)
}

// ---------- registry of opaque floats / times for the model's env ----------

type registry struct {
	floats map[uint64]bool
	times  map[string]time.Time
	strs   map[string]bool
}

func newRegistry() *registry {
	return &registry{floats: map[uint64]bool{}, times: map[string]time.Time{}, strs: map[string]bool{}}
}

func tid(t time.Time) string {
	z := new(big.Int).Mul(big.NewInt(t.Unix()), big.NewInt(1000000000))
	z.Add(z, big.NewInt(int64(t.Nanosecond())))
	return z.String()
}

func zlit(s string) string {
	if strings.HasPrefix(s, "-") {
		return "(" + s + ")%Z"
	}
	return s + "%Z"
}

func (g *registry) fl(f float64) string {
	b := math.Float64bits(f)
	g.floats[b] = true
	return zlit(strconv.FormatUint(b, 10))
}
func (g *registry) tm(t time.Time) string {
	id := tid(t)
	g.times[id] = t.UTC()
	return zlit(id)
}

func printable(s string) bool {
	for i := 0; i < len(s); i++ {
		if s[i] < 32 || s[i] > 126 {
			return false
		}
	}
	return true
}

func (g *registry) str(s string) string {
	g.strs[s] = true
	if printable(s) {
		return vh.CoqString(s)
	}
	xs := make([]string, len(s))
	for i := 0; i < len(s); i++ {
		xs[i] = strconv.Itoa(int(s[i])) + "%nat"
	}
	return "(bytes_of " + vh.CoqList(xs) + ")"
}

// codeFix5: the tree under test has C13-fix-5 (probed in main).
var codeFix5 bool

func parseTimeText(s string) (time.Time, bool) {
	nt := mysql.NullTime{}
	if err := nt.Scan(s); err != nil || !nt.Valid {
		return time.Time{}, false
	}
	return nt.Time, true
}

// prelude closes the registry under the env functions and prints the tables.
func (g *registry) prelude() string {
	for changed := true; changed; {
		changed = false
		for b := range g.floats {
			f := math.Float64frombits(b)
			for _, s := range []string{strconv.FormatFloat(f, 'g', -1, 64), strconv.FormatFloat(f, 'g', -1, 32), strconv.FormatFloat(f, 'g', 6, 32)} {
				if !g.strs[s] {
					g.strs[s], changed = true, true
				}
			}
			r := math.Float64bits(float64(float32(f)))
			if !g.floats[r] && !math.IsNaN(float64(float32(f))) {
				g.floats[r], changed = true, true
			}
		}
		for _, t := range g.times {
			for _, s := range []string{t.Format("2006-01-02 15:04:05"), t.Format("2006-01-02 15:04:05.000000"), t.Format(time.RFC3339Nano)} {
				if !g.strs[s] {
					g.strs[s], changed = true, true
				}
			}
		}
		for s := range g.strs {
			if f, err := strconv.ParseFloat(s, 64); err == nil && !math.IsNaN(f) {
				if b := math.Float64bits(f); !g.floats[b] {
					g.floats[b], changed = true, true
				}
			}
			if t, ok := parseTimeText(s); ok {
				if _, has := g.times[tid(t)]; !has {
					g.times[tid(t)], changed = t.UTC(), true
				}
			}
		}
	}
	var fk []uint64
	for b := range g.floats {
		fk = append(fk, b)
	}
	sort.Slice(fk, func(i, j int) bool { return fk[i] < fk[j] })
	var sk []string
	for s := range g.strs {
		sk = append(sk, s)
	}
	sort.Strings(sk)
	var tk []string
	for id := range g.times {
		tk = append(tk, id)
	}
	sort.Strings(tk)
	var ft, pf, tt, pt []string
	for _, b := range fk {
		f := math.Float64frombits(b)
		ft = append(ft, fmt.Sprintf("(%s, mk_f %s %s %s %s)", zlit(strconv.FormatUint(b, 10)),
			vh.CoqString(strconv.FormatFloat(f, 'g', -1, 64)), vh.CoqString(strconv.FormatFloat(f, 'g', -1, 32)),
			vh.CoqString(strconv.FormatFloat(f, 'g', 6, 32)),
			zlit(strconv.FormatUint(math.Float64bits(float64(float32(f))), 10))))
	}
	for _, id := range tk {
		t := g.times[id]
		tt = append(tt, fmt.Sprintf("(%s, mk_t %s %s %s)", zlit(id), vh.CoqString(t.Format("2006-01-02 15:04:05")),
			vh.CoqString(t.Format("2006-01-02 15:04:05.000000")), vh.CoqString(t.Format(time.RFC3339Nano))))
	}
	plain := &registry{strs: map[string]bool{}}
	for _, s := range sk {
		if f, err := strconv.ParseFloat(s, 64); err == nil && !math.IsNaN(f) {
			pf = append(pf, fmt.Sprintf("(%s, Some %s)", plain.str(s), zlit(strconv.FormatUint(math.Float64bits(f), 10))))
		}
		// every string of the shard with what mysql.NullTime.Scan makes of it, failures included: the model's
		// parse_datetime (Sql/TimeText.v) must agree on all of them (component 9)
		if t, ok := parseTimeText(s); ok {
			pt = append(pt, fmt.Sprintf("(%s, Some %s)", plain.str(s), zlit(tid(t))))
		} else if n := len(s); n == 10 || (n >= 18 && n <= 28) || len(pt)%6 == 0 {
			// rejected texts: all of a length near the accepted ones, a sample of the others (they fail the length test)
			pt = append(pt, fmt.Sprintf("(%s, None)", plain.str(s)))
		}
	}
	// times are concrete in the model (CodecTime.time_env): only the float tables enter the environment; the
	// time tables computed by Go are compared with the model's own formatting / parsing
	return "Definition FT : list (Z * ftab_entry) := " + vh.CoqList(ft) + ".\nDefinition PF : list (string * option Z) := " + vh.CoqList(pf) +
		".\nDefinition TT : list (Z * ttab_entry) := " + vh.CoqList(tt) +
		".\nDefinition PT : list (string * option Z) := " + vh.CoqList(pt) +
		".\nDefinition mm (o : nat) cs := mismatches_ct5 " + vh.CoqBool(codeFix5) + " FT PF TT PT o cs.\n"
}

// ---------- Go values -> model terms ----------

func zU(u uint64) string { return zlit(strconv.FormatUint(u, 10)) }

func (g *registry) gval(v reflect.Value) string {
	switch v.Type() {
	case timeType:
		return "(GTime " + g.tm(v.Interface().(time.Time)) + ")"
	case bytesType:
		if v.IsNil() {
			return "(GBytes None)"
		}
		return "(GBytes (Some " + g.str(string(v.Bytes())) + "))"
	case cvalType, cbinType, ctextType:
		return "(GCust " + g.str(v.Field(0).String()) + ")"
	case cuuidType:
		u := v.Interface().(CUuid)
		return "(GCust " + g.str(string(u[:])) + ")"
	case nullStrType:
		ns := v.Interface().(sql.NullString)
		if !ns.Valid {
			return "(GBytes None)"
		}
		return "(GBytes (Some " + g.str(ns.String) + "))"
	}
	switch v.Kind() {
	case reflect.Int, reflect.Int8, reflect.Int16, reflect.Int32, reflect.Int64:
		return "(GInt " + vh.CoqZ(v.Int()) + ")"
	case reflect.Uint, reflect.Uint8, reflect.Uint16, reflect.Uint32, reflect.Uint64:
		return "(GInt " + zU(v.Uint()) + ")"
	case reflect.Float32, reflect.Float64:
		return "(GFloat " + g.fl(v.Float()) + ")"
	case reflect.Bool:
		return "(GBool " + vh.CoqBool(v.Bool()) + ")"
	case reflect.String:
		return "(GStr " + g.str(v.String()) + ")"
	}
	panic("gval: unsupported " + v.Type().String())
}

func (g *registry) fval(v reflect.Value) string {
	if v.Kind() == reflect.Ptr {
		if v.IsNil() {
			return "FNil"
		}
		v = v.Elem()
	}
	return "(FVal " + g.gval(v) + ")"
}

// dyn prints a filter value (any Go value of a catalogue field type, or nil).
func (g *registry) dyn(x interface{}) string {
	if x == nil {
		return "DynNil"
	}
	v := reflect.ValueOf(x)
	t := v.Type()
	ptr := t.Kind() == reflect.Ptr
	if ptr {
		t = t.Elem()
	}
	b, _, _ := baseOf(t)
	return fmt.Sprintf("(Dyn %s %s %s)", b, vh.CoqBool(ptr), g.fval(v))
}

func (g *registry) structVals(tbl *sqlgen.Table, ptr interface{}) string {
	e := reflect.ValueOf(ptr).Elem()
	xs := make([]string, len(tbl.Columns))
	for i, c := range tbl.Columns {
		xs[i] = g.fval(e.FieldByIndex(c.Index))
	}
	return vh.CoqList(xs)
}

func (g *registry) dval(v driver.Value) string {
	switch x := v.(type) {
	case nil:
		return "DNull"
	case int64:
		return "(DInt " + vh.CoqZ(x) + ")"
	case float64:
		return "(DFloat " + g.fl(x) + ")"
	case bool:
		return "(DBool " + vh.CoqBool(x) + ")"
	case []byte:
		return "(DBytes " + g.str(string(x)) + ")"
	case string:
		return "(DStr " + g.str(x) + ")"
	case time.Time:
		return "(DTime " + g.tm(x) + ")"
	}
	return "DOther"
}

func (g *registry) src(v interface{}) string {
	switch x := v.(type) { // an integer source reaches float / string fields through its decimal text
	case int8, int16, int32, int64, uint64:
		g.strs[fmt.Sprint(x)] = true
	}
	switch x := v.(type) {
	case nil:
		return "SNull"
	case int8:
		return "(SInt 8 " + vh.CoqZ(int64(x)) + ")"
	case int16:
		return "(SInt 16 " + vh.CoqZ(int64(x)) + ")"
	case int32:
		return "(SInt 32 " + vh.CoqZ(int64(x)) + ")"
	case int64:
		return "(SInt 64 " + vh.CoqZ(x) + ")"
	case uint64:
		return "(SUint64 " + zU(x) + ")"
	case float64:
		return "(SF64 " + g.fl(x) + ")"
	case float32:
		return "(SF32 " + g.fl(float64(x)) + ")"
	case bool:
		return "(SBool " + vh.CoqBool(x) + ")"
	case []byte:
		return "(SBytes " + g.str(string(x)) + ")"
	case string:
		return "(SStr " + g.str(x) + ")"
	case time.Time:
		return "(STime " + g.tm(x) + ")"
	}
	panic(fmt.Sprintf("src: unsupported %T", v))
}

func (g *registry) srcs(row []interface{}) string {
	xs := make([]string, len(row))
	for i, s := range row {
		xs[i] = g.src(s)
	}
	return vh.CoqList(xs)
}

// ---------- the stand-in for MySQL: how a stored driver value comes back ----------

type sqlcol struct {
	kind     string // int float double varchar blob datetime
	w        int
	unsigned bool
	micro    bool
}

func (c sqlcol) term() string {
	switch c.kind {
	case "int":
		return fmt.Sprintf("(ColInt %d %s)", c.w, vh.CoqBool(c.unsigned))
	case "float":
		return "ColFloat"
	case "double":
		return "ColDouble"
	case "varchar":
		return "ColVarchar"
	case "blob":
		return "ColBlob"
	}
	return "(ColDatetime " + vh.CoqBool(c.micro) + ")"
}

type how struct {
	col  sqlcol
	path string // PText PBinary PBinlog
}

func wrapS(w int, z int64) interface{} {
	switch w {
	case 24: // MEDIUMINT: the decoder sign-extends the 3 bytes into an int32
		return int32(uint32(z)<<8) >> 8
	case 8:
		return int8(z)
	case 16:
		return int16(z)
	case 32:
		return int32(z)
	}
	return z
}

func intFits(c sqlcol, z int64) bool {
	if c.unsigned {
		if z < 0 {
			return false
		}
		return c.w == 64 || uint64(z) < uint64(1)<<uint(c.w)
	}
	if c.w == 64 {
		return true
	}
	return z >= -(int64(1)<<uint(c.w-1)) && z < int64(1)<<uint(c.w-1)
}

// repr mirrors Codec.repr; ok=false when the column cannot hold / hand back the value.
func repr(c sqlcol, p string, v driver.Value) (interface{}, bool) {
	switch x := v.(type) {
	case nil:
		return nil, true
	case int64:
		switch c.kind {
		case "int":
			if !intFits(c, x) {
				return nil, false
			}
			switch p {
			case "PText":
				return []byte(strconv.FormatInt(x, 10)), true
			case "PBinary":
				return x, true
			}
			return wrapS(c.w, x), true
		case "varchar":
			if p == "PBinlog" {
				return strconv.FormatInt(x, 10), true
			}
			return []byte(strconv.FormatInt(x, 10)), true
		case "blob":
			return []byte(strconv.FormatInt(x, 10)), true
		}
	case bool:
		if c.kind != "int" {
			return nil, false
		}
		z := int64(0)
		if x {
			z = 1
		}
		switch p {
		case "PText":
			return []byte(strconv.FormatInt(z, 10)), true
		case "PBinary":
			return z, true
		}
		return wrapS(c.w, z), true
	case float64:
		switch c.kind {
		case "double":
			if p == "PText" {
				return []byte(strconv.FormatFloat(x, 'g', -1, 64)), true
			}
			return x, true
		case "float":
			if float64(float32(x)) != x {
				return nil, false
			}
			if p == "PText" { // MySQL prints a FLOAT column with 6 significant digits
				t := strconv.FormatFloat(x, 'g', 6, 32)
				if back, err := strconv.ParseFloat(t, 64); err != nil || float64(float32(back)) != x {
					return nil, false
				}
				return []byte(t), true
			}
			return float32(x), true
		}
	case string, []byte:
		var s string
		if b, ok := x.([]byte); ok {
			s = string(b)
		} else {
			s = x.(string)
		}
		switch c.kind {
		case "varchar":
			if p == "PBinlog" {
				return s, true
			}
			return []byte(s), true
		case "blob":
			return []byte(s), true
		}
	case time.Time:
		if c.kind != "datetime" {
			return nil, false
		}
		ns := x.Nanosecond()
		switch {
		case p == "PBinlog":
			if ns != 0 {
				return nil, false
			}
			return x.Format("2006-01-02 15:04:05"), true
		case c.micro:
			if ns%1000 != 0 {
				return nil, false
			}
			if p == "PBinary" {
				return x, true
			}
			return []byte(x.Format("2006-01-02 15:04:05.000000")), true
		default:
			if ns != 0 {
				return nil, false
			}
			if p == "PBinary" {
				return x, true
			}
			return []byte(x.Format("2006-01-02 15:04:05")), true
		}
	}
	return nil, false
}

var intWidths = []int{8, 16, 24, 32, 64}

// pickColumn chooses the MySQL column a field of descriptor d holding driver value v is stored in.
func pickColumn(r *vh.Rng, d mdesc, v driver.Value) sqlcol {
	switch v.(type) {
	case int64:
		if d.tag == "TString" || d.tag == "TJson" || d.tag == "TBinary" {
			if r.Bool() {
				return sqlcol{kind: "varchar"}
			}
			return sqlcol{kind: "blob"}
		}
		w := d.w
		if w == 0 {
			w = 64
		}
		switch r.Intn(10) {
		case 0, 1:
			w = intWidths[r.Intn(5)]
		case 2:
			if w < 64 {
				w *= 2
			}
		case 3:
			if w == 32 && r.Bool() {
				w = 24
			}
		}
		return sqlcol{kind: "int", w: w, unsigned: d.kind == "uint"}
	case bool:
		return sqlcol{kind: "int", w: 8}
	case float64:
		if d.kind == "f32" && r.Chance(70) {
			return sqlcol{kind: "float"}
		}
		return sqlcol{kind: "double"}
	case time.Time:
		return sqlcol{kind: "datetime", micro: r.Chance(60)}
	}
	// text / bytes; a binary-tagged field lives in a BLOB (see the report: VARBINARY comes back from the
	// binlog decoder as a string, which the binary branch of Scanner.Scan rejects)
	if d.tag == "TBinary" {
		return sqlcol{kind: "blob"}
	}
	if r.Bool() {
		return sqlcol{kind: "varchar"}
	}
	return sqlcol{kind: "blob"}
}

// ---------- generators ----------

var strPool = []string{"", "a", "bob", "0", "1", "-5", "true", "x y", "B", "Bx", "T:", "T:q", "null", "12", "3.5", "1e3", "2020-01-02 03:04:05", "h\xc3\xa9", "\x00\x01", "007", "+5", "\"q\"", "'"}

func genInt(r *vh.Rng, w int, unsigned bool) uint64 {
	var edges []uint64
	if unsigned {
		max := uint64(math.MaxUint64)
		if w < 64 {
			max = uint64(1)<<uint(w) - 1
		}
		edges = []uint64{0, 1, 2, max, max - 1, max / 2, max/2 + 1, 200, 3000000000}
		x := edges[r.Intn(len(edges))]
		if r.Chance(40) {
			x = r.U64()
		}
		if w < 64 {
			x &= max
		}
		return x
	}
	min := int64(math.MinInt64)
	max := int64(math.MaxInt64)
	if w < 64 {
		min, max = -(int64(1) << uint(w-1)), int64(1)<<uint(w-1)-1
	}
	se := []int64{0, 1, -1, 2, min, max, min + 1, 100, -100}
	x := se[r.Intn(len(se))]
	if r.Chance(40) {
		x = int64(r.U64())
		if w < 64 {
			x = x >> uint(64-w)
		}
	}
	return uint64(x)
}

func genF64(r *vh.Rng) float64 {
	fs := []float64{0, 1, -1, 0.5, 0.1, 3.14159, 1e21, 1e-7, 123456789, -2.5, 1e20, 5e-324, math.MaxFloat64, 1 << 53, 100}
	if r.Chance(30) {
		for {
			f := math.Float64frombits(r.U64())
			if !math.IsNaN(f) && !math.IsInf(f, 0) && !(f == 0 && math.Signbit(f)) {
				return f
			}
		}
	}
	return fs[r.Intn(len(fs))]
}

func genF32(r *vh.Rng) float32 {
	fs := []float32{0, 1, -1, 0.5, 0.1, 3.14159, 1e21, 1e-7, 16777216, -2.5, math.MaxFloat32, 1.2345678, 100}
	if r.Chance(30) {
		for {
			f := math.Float32frombits(uint32(r.U64()))
			if f == f && !math.IsInf(float64(f), 0) && !(f == 0 && math.Signbit(float64(f))) {
				return f
			}
		}
	}
	return fs[r.Intn(len(fs))]
}

func genTime(r *vh.Rng, hist func(string)) time.Time {
	base := time.Date(1971+r.Intn(120), time.Month(1+r.Intn(12)), 1+r.Intn(28), r.Intn(24), r.Intn(60), r.Intn(60), 0, time.UTC)
	switch r.Intn(10) {
	case 0, 1, 2:
		return base.Add(time.Duration(r.Intn(1000000)) * time.Microsecond)
	case 3:
		hist("excluded:time-sub-microsecond")
		return base.Add(time.Duration(1 + r.Intn(999)))
	case 4:
		hist("excluded:time-non-utc")
		return base.In(time.FixedZone("x", 3600*(1+r.Intn(5))))
	}
	return base
}

// genTimeText draws a text a time column may be read from: what mysql.parseDateTime accepts (lengths 10, 19,
// 21..26; a one-digit hour, several blanks, a comma before the fraction, up to nine digits of it, the zero
// date) and what it rejects (other lengths, fields out of range, days the month does not have, trailing
// text), as []byte or string.
func genTimeText(r *vh.Rng, hist func(string)) interface{} {
	year := []int{1971 + r.Intn(120), 0, 1, 999, 1000, 1600, 1900, 2000, 2024, 2100, 9999}[r.Intn(11)]
	if r.Chance(60) {
		year = 1971 + r.Intn(120)
	}
	mo, d := 1+r.Intn(12), 1+r.Intn(28)
	hh, mi, ss := r.Intn(24), r.Intn(60), r.Intn(60)
	kind := "plain"
	switch r.Intn(12) {
	case 0:
		mo, kind = []int{0, 13, 19, 99}[r.Intn(4)], "month-out-of-range"
	case 1:
		d, kind = []int{0, 29, 30, 31, 32, 99}[r.Intn(6)], "day-edge"
		if r.Chance(50) {
			mo = []int{2, 4, 6, 9, 11, 12}[r.Intn(6)]
		}
	case 2:
		hh, kind = []int{24, 25, 99}[r.Intn(3)], "hour-out-of-range"
	case 3:
		if r.Chance(50) {
			mi = 60 + r.Intn(40)
		} else {
			ss = 60 + r.Intn(40)
		}
		kind = "minute-second-out-of-range"
	case 4:
		mo, d, kind = 2, 29, "feb-29"
		if r.Chance(50) {
			year = []int{1900, 2000, 2023, 2024, 2100, 2400, 0, 4, 100}[r.Intn(9)]
		}
	}
	date := fmt.Sprintf("%04d-%02d-%02d", year, mo, d)
	hour := fmt.Sprintf("%02d", hh)
	sep := " "
	frac := ""
	switch r.Intn(10) {
	case 0:
		hour, kind = fmt.Sprintf("%d", hh), kind+"+short-hour"
	case 1:
		sep, kind = strings.Repeat(" ", 2+r.Intn(2)), kind+"+blanks"
		if r.Chance(50) {
			hour = fmt.Sprintf("%d", hh)
		}
	case 2:
		sep, kind = []string{"T", "", "_", "  T"}[r.Intn(4)], kind+"+bad-separator"
	}
	if r.Chance(60) {
		n := 1 + r.Intn(6)
		if r.Chance(20) {
			n = 7 + r.Intn(3)
		}
		digits := ""
		for i := 0; i < n; i++ {
			digits += string(rune('0' + r.Intn(10)))
		}
		dot := "."
		if r.Chance(15) {
			dot, kind = ",", kind+"+comma"
		}
		if r.Chance(5) {
			digits = ""
		}
		frac = dot + digits
	}
	s := date + sep + hour + fmt.Sprintf(":%02d:%02d", mi, ss) + frac
	switch r.Intn(14) {
	case 0:
		s, kind = date, kind+"+date-only"
	case 1:
		s, kind = s+[]string{"Z", " ", "x", "0", "+00:00"}[r.Intn(5)], kind+"+trailing"
	case 2:
		if len(s) > 3 {
			s, kind = s[:len(s)-1-r.Intn(3)], kind+"+cut"
		}
	case 3:
		zero := "0000-00-00 00:00:00.0000000"
		s, kind = zero[:[]int{10, 19, 21, 23, 26, 27, 11, 20}[r.Intn(8)]], "zero-date"
	case 4:
		b := []byte(s)
		b[r.Intn(len(b))] = "0123456789-: .x"[r.Intn(15)]
		s, kind = string(b), kind+"+one-byte-changed"
	}
	hist("timetext:" + kind)
	if _, ok := parseTimeText(s); ok {
		hist("timetext:accepted")
	} else {
		hist("timetext:rejected")
	}
	if r.Chance(50) {
		return []byte(s)
	}
	return s
}

func genValue(r *vh.Rng, t reflect.Type, implicitZero bool, hist func(string)) reflect.Value {
	if t.Kind() == reflect.Ptr {
		if r.Chance(30) {
			return reflect.Zero(t)
		}
		p := reflect.New(t.Elem())
		p.Elem().Set(genValue(r, t.Elem(), false, hist))
		if et := t.Elem(); (et == blobType || et == tokenType) && p.Elem().IsNil() {
			// a pointer to a nil Blob / Token is written as the encoding of the empty value and comes back
			// pointing at an empty one (the class pointer-to-nil-slice of *[]byte)
			p.Elem().SetBytes([]byte{})
		}
		return p
	}
	v := reflect.New(t).Elem()
	if implicitZero && r.Chance(40) {
		return v
	}
	switch t {
	case timeType:
		v.Set(reflect.ValueOf(genTime(r, hist)))
		return v
	case bytesType:
		switch r.Intn(4) {
		case 0:
		case 1:
			v.SetBytes([]byte{})
		default:
			v.SetBytes([]byte(r.Pick(strPool)))
		}
		return v
	case cvalType, cbinType, ctextType:
		v.Field(0).SetString(r.Pick(strPool))
		return v
	case cuuidType:
		var u CUuid
		if !r.Chance(35) { // 35%: the zero array
			copy(u[:], r.Pick(strPool)+"0123456789abcdef")
		}
		v.Set(reflect.ValueOf(u))
		return v
	case nullStrType:
		if !r.Chance(35) {
			v.Set(reflect.ValueOf(sql.NullString{String: r.Pick(strPool), Valid: true}))
		}
		return v
	case consentType:
		v.SetInt(int64([]Consent{No, Yes, Unanswered, Unanswered}[r.Intn(4)]))
		return v
	case ipType:
		switch r.Intn(4) {
		case 0: // nil: NULL
		case 1:
			v.Set(reflect.ValueOf(net.IPv4(byte(r.Intn(256)), byte(r.Intn(256)), 0, 1))) // 16-byte form, as ParseIP gives it back
		default:
			ip := make(net.IP, 16)
			for i := range ip {
				ip[i] = byte(r.Intn(256))
			}
			ip[0] = 0x20 // not an IPv4-mapped address
			v.Set(reflect.ValueOf(ip))
		}
		return v
	case blobType, tokenType:
		switch r.Intn(4) {
		case 0:
		case 1:
			v.SetBytes([]byte{})
		default:
			v.SetBytes([]byte(r.Pick(strPool)))
		}
		return v
	case rawMsgType:
		if !r.Chance(25) {
			v.SetBytes([]byte(r.Pick([]string{`{"a":1}`, `[1,2.5,"x"]`, `"s"`, `12345678901234567890`, `null`, `true`, `{"n":{"m":[9007199254740993]}}`, `-0.1e-3`})))
		}
		return v
	}
	switch t.Kind() {
	case reflect.Int, reflect.Int8, reflect.Int16, reflect.Int32, reflect.Int64:
		v.SetInt(int64(genInt(r, t.Bits(), false)))
	case reflect.Uint, reflect.Uint8, reflect.Uint16, reflect.Uint32, reflect.Uint64:
		v.SetUint(genInt(r, t.Bits(), true))
	case reflect.Float32:
		v.SetFloat(float64(genF32(r)))
	case reflect.Float64:
		v.SetFloat(genF64(r))
	case reflect.Bool:
		v.SetBool(r.Bool())
	case reflect.String:
		v.SetString(r.Pick(strPool))
	case reflect.Interface: // an untyped json payload
		if x := genJSONAny(r, 2); x != nil {
			v.Set(reflect.ValueOf(x))
		}
	case reflect.Slice: // json payloads: []int64, []interface{}
		if n := r.Intn(4); n > 0 {
			sl := reflect.MakeSlice(t, n-1, n-1)
			for i := 0; i < n-1; i++ {
				sl.Index(i).Set(genValue(r, t.Elem(), false, hist))
			}
			v.Set(sl)
		}
	case reflect.Map:
		if n := r.Intn(4); n > 0 {
			m := reflect.MakeMap(t)
			for i := 0; i < n-1; i++ {
				m.SetMapIndex(reflect.ValueOf(r.Pick(strPool)), genValue(r, t.Elem(), false, hist))
			}
			v.Set(m)
		}
	case reflect.Struct:
		for i := 0; i < t.NumField(); i++ {
			v.Field(i).Set(genValue(r, t.Field(i).Type, false, hist))
		}
	}
	return v
}

// genJSONAny draws a value of the shapes encoding/json produces for untyped targets (float64 numbers,
// strings, bools, nil, []interface{}, map[string]interface{}), so that a faithful round trip is DeepEqual.
func genJSONAny(r *vh.Rng, depth int) interface{} {
	k := r.Intn(8)
	if depth <= 0 && k >= 5 {
		k = r.Intn(5)
	}
	switch k {
	case 0:
		return nil
	case 1:
		return genF64(r)
	case 2:
		return float64(int64(genInt(r, 32, false))) // an integral number
	case 3:
		return r.Pick(strPool)
	case 4:
		return r.Bool()
	case 5, 6:
		n := r.Intn(4)
		l := make([]interface{}, n)
		for i := range l {
			l[i] = genJSONAny(r, depth-1)
		}
		return l
	}
	m := map[string]interface{}{}
	for i := r.Intn(4); i > 0; i-- {
		m[r.Pick(strPool)] = genJSONAny(r, depth-1)
	}
	return m
}

func genStruct(r *vh.Rng, tbl *sqlgen.Table, hist func(string)) interface{} {
	p := reflect.New(tbl.Type)
	for _, c := range tbl.Columns {
		f := p.Elem().FieldByIndex(c.Index)
		f.Set(genValue(r, f.Type(), c.Descriptor.Tags.Contains("implicitnull"), hist))
	}
	return p.Interface()
}

// mutate returns a copy of x with a few fields regenerated.
func mutateStruct(r *vh.Rng, tbl *sqlgen.Table, x interface{}, hist func(string)) interface{} {
	p := reflect.New(tbl.Type)
	p.Elem().Set(reflect.ValueOf(x).Elem())
	for k := 1 + r.Intn(2); k > 0; k-- {
		c := tbl.Columns[r.Intn(len(tbl.Columns))]
		f := p.Elem().FieldByIndex(c.Index)
		f.Set(genValue(r, f.Type(), c.Descriptor.Tags.Contains("implicitnull"), hist))
	}
	return p.Interface()
}

// isZeroValue mirrors fields.isZero for the catalogue's types.
func isZeroValue(v reflect.Value) bool {
	switch v.Kind() {
	case reflect.Slice, reflect.Map, reflect.Ptr:
		return v.IsNil()
	}
	return reflect.DeepEqual(v.Interface(), reflect.Zero(v.Type()).Interface())
}

// zeroSome returns a copy of x with some (all, when every is set) fields set to their zero value.
func zeroSome(r *vh.Rng, tbl *sqlgen.Table, x interface{}, every bool) interface{} {
	p := reflect.New(tbl.Type)
	p.Elem().Set(reflect.ValueOf(x).Elem())
	for _, c := range tbl.Columns {
		if every || r.Chance(50) {
			f := p.Elem().FieldByIndex(c.Index)
			f.Set(reflect.Zero(f.Type()))
		}
	}
	return p.Interface()
}

var junkSrc = []interface{}{nil, int64(0), int64(1), int64(-7), int64(300), int8(-3), int16(1000), int32(-70000), uint64(5),
	uint64(math.MaxUint64), float64(1), float64(2.5), float32(0.5), float64(1e21), true, false, []byte("1"), []byte("x"), []byte(""), "1", "true", "+5", "007",
	"-9223372036854775808", "9223372036854775808", []byte("2020-01-02 03:04:05"), "2020-01-02 03:04:05.123456", "0000-00-00 00:00:00", "2020-13-02 03:04:05",
	time.Date(2001, 2, 3, 4, 5, 6, 0, time.UTC), []byte("Bq"), "T:z", []byte("null"), []byte("12"), "3.5", []byte("1e3"), "B", []byte("T:"), "-0", []byte("-1"), []byte("-0")}

// ---------- equality of decoded structs (DeepEqual modulo time representation) ----------

func sameStruct(tbl *sqlgen.Table, a, b interface{}) (bool, string) {
	ea, eb := reflect.ValueOf(a).Elem(), reflect.ValueOf(b).Elem()
	// fields that are not columns (unexported, `sql:"-"`) are never set by the generator and must not be
	// written by a decoder either
	isCol := map[int]bool{}
	for _, c := range tbl.Columns {
		if len(c.Index) == 1 {
			isCol[c.Index[0]] = true
		}
	}
	for i := 0; i < eb.NumField(); i++ {
		if !isCol[i] && !reflect.DeepEqual(fieldValue(eb.Field(i)), fieldValue(ea.Field(i))) {
			return false, "(non-column field " + tbl.Type.Field(i).Name + ")"
		}
	}
	for _, c := range tbl.Columns {
		fa, fb := ea.FieldByIndex(c.Index), eb.FieldByIndex(c.Index)
		if !sameField(fa, fb) {
			return false, c.Name
		}
	}
	return true, ""
}

// fieldValue reads a field, also an unexported one, for comparison.
func fieldValue(f reflect.Value) interface{} {
	if f.CanInterface() {
		return f.Interface()
	}
	switch f.Kind() {
	case reflect.Bool:
		return f.Bool()
	case reflect.String:
		return f.String()
	case reflect.Int, reflect.Int8, reflect.Int16, reflect.Int32, reflect.Int64:
		return f.Int()
	case reflect.Ptr, reflect.Map, reflect.Slice:
		return f.IsNil()
	}
	return fmt.Sprint(f)
}

func sameField(a, b reflect.Value) bool {
	if a.Kind() == reflect.Ptr {
		if a.IsNil() || b.IsNil() {
			return a.IsNil() == b.IsNil()
		}
		a, b = a.Elem(), b.Elem()
	}
	if a.Type() == timeType {
		ta, tb := a.Interface().(time.Time), b.Interface().(time.Time)
		return ta.Equal(tb)
	}
	return reflect.DeepEqual(a.Interface(), b.Interface())
}

// failCap records a failure unless 25 of the same signature are already recorded, so that a frequent (known)
// class cannot crowd a rare one out of the 200 failures a run keeps.
var sigCount = map[string]int{}

func failCap(run *vh.Run, idx int, sig, detail string, c interface{}) {
	sigCount[sig]++
	if sigCount[sig] <= 25 {
		run.Fail(idx, sig, detail, c)
	}
}

// ---------- observations ----------

type rowObs struct {
	hows     []*how
	row      []interface{}
	built    interface{}
	builtErr bool
	expected int
	source   []int
	binlog   []interface{}
	parsed   interface{}
	parseErr bool
}

type filterObs struct {
	filter   sqlgen.Filter
	names    []string
	known    bool
	rows     []interface{}
	verdicts []bool
	proto    *thunderpb.SQLFilter
	protoErr bool
	back     sqlgen.Filter
	backErr  bool
}

type obs struct {
	c       Case
	tbl     *sqlgen.Table
	descs   []mdesc
	x       interface{}
	unbuilt []interface{}
	failed  bool
	rows    []*rowObs
	extract sqlgen.Filter
	self    bool
	filters []*filterObs
}

func safely(f func()) (p string) {
	defer func() {
		if e := recover(); e != nil {
			p = fmt.Sprint(e)
		}
	}()
	f()
	return ""
}

func sortedNames(f sqlgen.Filter) []string {
	var ns []string
	for n := range f {
		ns = append(ns, n)
	}
	sort.Strings(ns)
	return ns
}

func timeExcluded(v interface{}) string {
	rv := reflect.ValueOf(v)
	if !rv.IsValid() {
		return ""
	}
	if rv.Kind() == reflect.Ptr {
		if rv.IsNil() {
			return ""
		}
		rv = rv.Elem()
	}
	if rv.Type() == timeType {
		t := rv.Interface().(time.Time)
		if t.Location() != time.UTC {
			return "non-utc"
		}
	}
	return ""
}

func main() {
	o := vh.ParseFlags()
	run := vh.NewRun("C13", o)
	run.Rule = "one case = one random value of one of 15 catalogue struct types (ints/uints of every width, floats, bool, string, named scalars, []byte, time, pointers, binary/string/json tags, implicitnull, Valuer/Scanner types incl. one that reads NULL as a non-zero value; 3 tables oracle-only), re-encoded into 4 rows over random MySQL column types x {text, prepared, binlog} paths plus 1 malformed row (time columns: texts around what mysql.parseDateTime accepts), a permuted binlog row, and 4 filters (own values, another value's, pointer/nil variants, mistyped) x 3 rows through MakeTester and the protobuf round trip; plus, once per run, the dispatch tables extracted from the source and the registration verdict of every (type, pointer, tag) combination; non-trivial = at least one non-NULL column and the value not seen before; distinct by the printed struct"
	schema := newSchema()
	r := vh.NewRng(o.Seed)
	// Which Valuer the tree under test has (proposed repair C13-fix-5: a non-nil pointer handed in for a column
	// whose type is not a pointer is dereferenced first).  One value decides which of the two model functions the
	// correspondence evaluates; the property itself is judged by the oracle either way (the ambiguous pointer
	// filters are failures of an open known finding before the repair and must not occur after it).
	{
		f := false
		v, err := schema.ByName["implicit"].ColumnsByName["e"].Descriptor.Valuer(reflect.ValueOf(&f)).Value()
		codeFix5 = err == nil && v == nil
		run.Hist(fmt.Sprintf("code:valuer-dereferences-pointer-for-non-pointer-column=%v", codeFix5))
	}

	var cases []Case
	searching := o.Search != ""
	if searching {
		// failing-input search: fresh values of the struct types on which model and implementation disagreed
		// (all types when there are none), generated with boundary values everywhere; oracle only
		var tables []string
		if b, err := ioutil.ReadFile(o.Search); err == nil {
			for _, line := range strings.Split(string(b), "\n") {
				var w struct {
					Case Case `json:"case"`
				}
				if strings.TrimSpace(line) != "" && json.Unmarshal([]byte(line), &w) == nil && w.Case.Table != "" {
					tables = append(tables, w.Case.Table)
				}
			}
		}
		for i := 0; i < o.N; i++ {
			t := catalogue[r.Intn(len(catalogue))].name
			if len(tables) > 0 && r.Chance(85) {
				t = tables[r.Intn(len(tables))]
			}
			cases = append(cases, Case{Table: t, Seed: r.U64(), Focus: true, Origin: "search"})
		}
	} else if o.Replay != "" {
		var c Case
		if vh.ReadReplayCase(o.Replay, &c) {
			c.Origin = "replay"
			cases = append(cases, c)
		}
	} else {
		for _, f := range vh.CorpusFiles(o.Corpus) {
			var c Case
			if vh.ReadReplayCase(f, &c) {
				c.Origin = "corpus:" + filepath.Base(f)
				cases = append(cases, c)
			}
		}
		for i := 0; i < o.N; i++ {
			cases = append(cases, Case{Table: catalogue[r.Intn(len(catalogue))].name, Seed: r.U64(), Origin: "generated"})
		}
	}

	var all []*obs
	for idx, c := range cases {
		run.LogCase(idx, c)
		ob := runCase(run, schema, idx, c)
		all = append(all, ob)
	}

	if searching {
		run.Finish()
		return
	}
	// Coq cases
	const shard = 100 // elaborating the terms dominates the evaluation: more, smaller files in parallel
	for start := 0; start < len(all); start += shard {
		end := start + shard
		if end > len(all) {
			end = len(all)
		}
		g := newRegistry()
		var terms []string
		for idx := start; idx < end; idx++ {
			if ob := all[idx]; ob != nil && !ob.failed && !oracleOnly[ob.c.Table] {
				terms = append(terms, fmt.Sprintf("(%d%%nat, %s)", idx, caseTerm(g, ob)))
			}
		}
		if len(terms) > 0 {
			run.WriteCasesV(fmt.Sprintf("cases_%d.v", start), []string{"Sql.Codec", "Sql.CodecTime"}, g.prelude(), "mm", 0, terms)
		}
	}
	// the codec's constant sets and dispatch tables, extracted from the source of the tree under test (component 12)
	if o.Replay == "" {
		tabs, err := extractTables(o.Repo)
		if err != nil {
			tabs = make([]string, len(tableNames))
			for i := range tabs {
				tabs[i] = "[]"
			}
			run.Hist("tables:source-not-parsed")
		}
		run.WriteCasesV("cases_tables.v", []string{"Sql.Codec", "Sql.FieldTables"}, tablesPrelude(tabs), "tmm", 0, []string{"tt"})
		if f := os.Getenv("C13_WRITE_SNAPSHOT"); f != "" && err == nil {
			ioutil.WriteFile(f, []byte(snapshotFile(tabs)), 0o644)
		}
		// registration verdicts of every (type, pointer, tag) combination (component 13)
		run.WriteCasesV("cases_validate.v", []string{"Sql.Codec", "Sql.Validate"},
			"Definition vmm (o : nat) (obs : list (desc * bool)) := validate_mm (env_of_tables [] [] [] []) o obs.\n", "vmm", 0, validateTerms(run))
	}
	run.Finish()
}

func presetValue(c Case, tbl *sqlgen.Table) interface{} {
	switch c.Preset {
	case "uint64-field-on-int-unsigned-column":
		return &TUints{Id: 3000000000, D: 3000000000}
	}
	return nil
}

func runCase(run *vh.Run, schema *sqlgen.Schema, idx int, c Case) *obs {
	tbl, ok := schema.ByName[c.Table]
	if !ok {
		failCap(run, idx, "bad-case", "unknown table "+c.Table, c)
		return nil
	}
	r := vh.NewRng(c.Seed)
	ob := &obs{c: c, tbl: tbl}
	for _, col := range tbl.Columns {
		ob.descs = append(ob.descs, descOf(col))
	}
	hist := run.Hist
	ob.x = genStruct(r, tbl, hist)
	if pv := presetValue(c, tbl); pv != nil {
		ob.x = pv
	}
	run.Hist("table:" + c.Table)
	if oracleOnly[c.Table] {
		run.Hist("excluded:payload-outside-model(oracle-only):" + c.Table)
	}

	var err error
	if p := safely(func() { ob.unbuilt, err = schema.UnbuildStruct(c.Table, ob.x) }); p != "" || err != nil {
		failCap(run, idx, "unbuild-failed", p+fmt.Sprint(err), c)
		ob.failed = true
		return ob
	}
	nonNull := 0
	for _, v := range ob.unbuilt {
		if v != nil {
			nonNull++
		}
	}
	run.Count(fmt.Sprintf("%s|%+v", c.Table, printStruct(tbl, ob.x)), nonNull > 0)
	if len(run.Samples) < 5 {
		run.Sample(map[string]interface{}{"table": c.Table, "value": printStruct(tbl, ob.x)})
	}

	// excluded classes per column (the value cannot be stored / handed back faithfully)
	excluded := make([]string, len(tbl.Columns))
	e := reflect.ValueOf(ob.x).Elem()
	for i, col := range tbl.Columns {
		f := e.FieldByIndex(col.Index)
		if f.Kind() == reflect.Ptr && !f.IsNil() {
			f = f.Elem()
		}
		isPtrField := e.FieldByIndex(col.Index).Kind() == reflect.Ptr
		switch {
		case isPtrField && f.Kind() != reflect.Ptr && f.Type() == bytesType && f.IsNil():
			excluded[i] = "pointer-to-nil-slice"
		case isPtrField && f.Kind() != reflect.Ptr && f.Type() == nullStrType && !f.Interface().(sql.NullString).Valid:
			excluded[i] = "pointer-to-invalid-nullstring"
		case isPtrField && f.Kind() != reflect.Ptr && f.Type() == consentType && f.Interface().(Consent) == Unanswered:
			excluded[i] = "pointer-to-null-image"
		case ob.descs[i].kind == "uint" && f.Kind() != reflect.Ptr && f.Uint() > math.MaxInt64:
			excluded[i] = "uint64-above-int64"
		case f.Kind() != reflect.Ptr && f.Type() == timeType:
			t := f.Interface().(time.Time)
			if t.Location() != time.UTC {
				excluded[i] = "time-non-utc"
			} else if t.Nanosecond()%1000 != 0 {
				excluded[i] = "time-sub-microsecond"
			}
		}
		if excluded[i] != "" {
			run.Hist("excluded:" + excluded[i])
		}
	}

	// rows
	nrows := 4
	for k := 0; k <= nrows; k++ {
		ro := &rowObs{}
		malformed := k == nrows
		paths := []string{"PText", "PBinary", "PBinlog"}
		rowPath := paths[r.Intn(3)]
		mixed := r.Chance(25)
		inDomain := true
		f24 := map[string]bool{}
		for i, dv := range ob.unbuilt {
			d := ob.descs[i]
			var s interface{}
			var h *how
			if malformed && d.base == "BTime" && r.Chance(70) {
				// a time column read from text: canonical forms, the forms time.Parse tolerates, and near misses
				s = genTimeText(r, func(k string) { run.Hist(k) })
				inDomain = false
			} else if malformed && r.Chance(35) {
				s = junkSrc[r.Intn(len(junkSrc))]
				inDomain = false
			} else {
				p := rowPath
				if mixed {
					p = paths[r.Intn(3)]
				}
				col := pickColumn(r, d, dv)
				if c.Preset == "uint64-field-on-int-unsigned-column" && k == 0 && d.kind == "uint" {
					col, p = sqlcol{kind: "int", w: 32, unsigned: true}, "PBinlog"
				}
				v, ok := repr(col, p, dv)
				if !ok { // try the natural column before giving up
					col = naturalColumn(d, dv)
					v, ok = repr(col, p, dv)
				}
				if ok && excluded[i] == "" {
					s, h = v, &how{col, p}
					run.Hist("repr:" + col.kind + "/" + p)
					if col.kind == "int" && col.w == 24 && col.unsigned && p == "PBinlog" {
						inDomain = false // values from 2^23 come back negative: excluded by col_matches
						run.Hist("excluded:mediumint-unsigned-binlog")
					}
					if d.kind == "uint" && col.kind == "int" && p == "PBinlog" && col.w < d.w {
						if z, isInt := dv.(int64); isInt && z >= int64(1)<<uint(col.w-1) {
							f24[tbl.Columns[i].Name] = true
						}
					}
				} else {
					// not representable (excluded class, or precision the column/decoder drops): hand the driver value
					// back unchanged, as the protobuf path or a driver that does not convert would (model: PProto)
					s, h = dv, &how{col, "PProto"}
					run.Hist("repr:passthrough/PProto")
					if excluded[i] == "pointer-to-nil-slice" || excluded[i] == "pointer-to-invalid-nullstring" || excluded[i] == "pointer-to-null-image" {
						inDomain = false
						if b, isB := dv.([]byte); isB && b == nil {
							h = nil // []byte(nil) inside a driver.Value: the model's DBytes "" is handed back as an empty slice
						}
					}
					if !ok && excluded[i] == "" {
						run.Hist("excluded:" + col.kind + "/" + p + "-cannot-hold-value")
					}
				}
			}
			ro.hows = append(ro.hows, h)
			ro.row = append(ro.row, s)
		}
		var berr error
		if p := safely(func() { ro.built, berr = schema.BuildStruct(c.Table, cloneRow(ro.row)) }); p != "" {
			failCap(run, idx, "build-panic", p, c)
			ob.failed = true
			return ob
		}
		ro.builtErr = berr != nil
		if inDomain {
			if berr != nil {
				sig := "round-trip-decode-error"
				failCap(run, idx, sig, fmt.Sprintf("row %d: BuildStruct(%s) failed: %v; value %s", k, describeRow(ro), berr, printStruct(tbl, ob.x)), c)
			} else if same, col := sameStruct(tbl, ob.x, ro.built); !same {
				sig := "round-trip-mismatch"
				if f24[col] {
					sig = "binlog-unsigned-int-narrower-than-field"
				}
				if cc := tbl.ColumnsByName[col]; cc != nil && cc.Descriptor.Type == bytesType && cc.Descriptor.Tags.Contains("json") {
					sig = "json-tagged-bytes-not-decoded-as-json"
				}
				failCap(run, idx, sig, fmt.Sprintf("row %d column %s: sent %s, representation %s, decoded %s", k, col, printStruct(tbl, ob.x), describeRow(ro), printStruct(tbl, ro.built)), c)
			} else {
				run.Hist("roundtrip:ok")
			}
		} else {
			run.Hist("roundtrip:not-in-domain")
		}

		// the same row through parseBinlogRow in MySQL column order
		n := len(tbl.Columns)
		perm := make([]int, n) // perm[j] = struct column at MySQL position j, or -1 for a column the struct lacks
		for i := range perm {
			perm[i] = i
		}
		for i := n - 1; i > 0; i-- {
			j := r.Intn(i + 1)
			perm[i], perm[j] = perm[j], perm[i]
		}
		if r.Chance(30) { // a MySQL column unknown to the struct
			at := r.Intn(len(perm) + 1)
			perm = append(perm[:at], append([]int{-1}, perm[at:]...)...)
		}
		dropped := -1
		if r.Chance(20) { // a struct column missing in MySQL
			at := r.Intn(len(perm))
			dropped = perm[at]
			perm = append(perm[:at], perm[at+1:]...)
		}
		ro.expected = len(perm)
		ro.source = make([]int, n)
		for i := range ro.source {
			ro.source[i] = -1
		}
		for j, i := range perm {
			if i >= 0 {
				ro.source[i] = j
			}
			if i >= 0 {
				ro.binlog = append(ro.binlog, ro.row[i])
			} else {
				ro.binlog = append(ro.binlog, junkSrc[r.Intn(len(junkSrc))])
			}
		}
		if malformed && r.Chance(50) && len(ro.binlog) > 1 { // wrong column count
			ro.binlog = ro.binlog[:len(ro.binlog)-1]
			run.Hist("binlog:wrong-column-count")
		}
		var perr error
		if p := safely(func() {
			ro.parsed, perr = livesql.VerifParseBinlogRow(tbl, cloneRowI(ro.binlog), ro.expected, ro.source)
		}); p != "" {
			failCap(run, idx, "parse-binlog-row-panic", p, c)
			ob.failed = true
			return ob
		}
		ro.parseErr = perr != nil
		if len(ro.binlog) == ro.expected && dropped < 0 {
			// same sources, same struct expected as BuildStruct
			if ro.builtErr != ro.parseErr {
				failCap(run, idx, "binlog-row-differs-from-build", fmt.Sprintf("BuildStruct err=%v parseBinlogRow err=%v", berr, perr), c)
			} else if !ro.builtErr {
				if same, col := sameStruct(tbl, ro.built, ro.parsed); !same {
					failCap(run, idx, "binlog-row-differs-from-build", "column "+col, c)
				}
			}
		}
		if len(ro.binlog) != ro.expected && perr == nil {
			failCap(run, idx, "binlog-column-count-not-checked", "", c)
		}
		ob.rows = append(ob.rows, ro)
	}

	// tester reflexivity
	ob.extract = tbl.VerifExtractRow(ob.x)
	anyExcluded := false
	for n, v := range ob.extract {
		_ = n
		if timeExcluded(v) != "" {
			anyExcluded = true
		}
	}
	if p := safely(func() {
		t, err := schema.MakeTester(c.Table, ob.extract)
		if err != nil {
			panic(err)
		}
		ob.self = t.Test(ob.x)
	}); p != "" {
		failCap(run, idx, "tester-panic", p, c)
		ob.failed = true
		return ob
	}
	if !ob.self {
		failCap(run, idx, "tester-not-reflexive", "MakeTester(extractRow(x)).Test(x) = false for "+printStruct(tbl, ob.x), c)
	}
	_ = anyExcluded

	// filters
	others := []interface{}{ob.x, mutateStruct(r, tbl, ob.x, func(string) {}), genStruct(r, tbl, func(string) {}),
		zeroSome(r, tbl, ob.x, r.Chance(30))}
	nfilters := 4
	if c.Focus {
		nfilters = 10
		others = append(others, zeroSome(r, tbl, ob.x, true))
	}
	for k := 0; k < nfilters; k++ {
		fo := &filterObs{filter: sqlgen.Filter{}, rows: others}
		typed := true
		nonUTC := false
		ptrZeroImplicit := false // a pointer to a zero value on an implicitnull column
		ptrOnMarshaler := false  // a pointer on a non-pointer binary-tagged column whose type has Marshal
		ptrNilJSON := false      // a pointer to a nil slice / map on a json-tagged column
		ptrNilNamed := false     // a pointer to a nil named byte slice on a string / binary column
		jsonBytes := false       // a json-tagged []byte column: Valuer encodes base64 JSON, Scanner copies the text
		ncols := 1 + r.Intn(3)
		if r.Chance(10) {
			ncols = 0
		}
		for j := 0; j < ncols; j++ {
			ci := r.Intn(len(tbl.Columns))
			col := tbl.Columns[ci]
			from := others[r.Intn(len(others))]
			fv := reflect.ValueOf(from).Elem().FieldByIndex(col.Index)
			var val interface{}
			q := r.Intn(20)
			if c.Focus && r.Chance(60) {
				q = 13 + r.Intn(3)*3 // nil, typed nil pointer, zero value
				if q > 19 {
					q = 19
				}
			}
			switch {
			case q < 10:
				val = fv.Interface()
			case q < 13: // pointer <-> value variant of the same type
				if fv.Kind() == reflect.Ptr {
					if fv.IsNil() {
						val = nil
					} else {
						val = fv.Elem().Interface()
					}
				} else {
					p := reflect.New(fv.Type())
					p.Elem().Set(fv)
					val = p.Interface()
				}
			case q < 14:
				val = nil
			case q == 16: // a nil pointer of the column's Go type (also for non-pointer columns)
				t := fv.Type()
				if t.Kind() != reflect.Ptr {
					t = reflect.PtrTo(t)
				}
				val = reflect.Zero(t).Interface()
			case q == 19: // the zero value of the column's Go type
				val = reflect.Zero(fv.Type()).Interface()
			case q < 16 && k == 3 && !c.Focus: // mistyped: a value of another field's type
				oc := tbl.Columns[r.Intn(len(tbl.Columns))]
				ofv := reflect.ValueOf(from).Elem().FieldByIndex(oc.Index)
				if d := descOf(oc); d.kind == "cbin" || d.kind == "ctext" || (ob.descs[ci].tag != "TNone" && ob.descs[ci].tag != "TImplicitNull") {
					val = fv.Interface() // reflect.Set inside nonPointerMarshal needs the column's own type
				} else {
					val = ofv.Interface()
					if baseKey(ofv.Type()) != baseKey(fv.Type()) {
						typed = false
					}
				}
			default:
				val = genValue(r, fv.Type(), false, func(string) {}).Interface()
			}
			if r.Chance(3) {
				fo.filter["no_such_column"] = int64(1)
			}
			if timeExcluded(val) != "" {
				nonUTC = true
			}
			if rv := reflect.ValueOf(val); rv.IsValid() && rv.Kind() == reflect.Ptr && !rv.IsNil() {
				if ob.descs[ci].tag == "TImplicitNull" && isZeroValue(rv.Elem()) {
					ptrZeroImplicit = true
				}
				if ob.descs[ci].kind == "cbin" && !ob.descs[ci].ptr {
					ptrOnMarshaler = true
				}
				_ = rv
			}
			if rv := reflect.ValueOf(val); rv.IsValid() && rv.Kind() == reflect.Ptr && !rv.IsNil() && rv.Elem().Kind() == reflect.Slice &&
				rv.Elem().IsNil() && (col.Descriptor.Tags.Contains("string") || col.Descriptor.Tags.Contains("binary")) {
				// a pointer to a nil named byte slice on a string / binary column: the text-marshaller analogue of
				// the open finding proto-pointer-to-nil-on-json-column (net.IP(nil) marshals to "", which
				// unmarshals to nil, i.e. NULL): its own known signature
				ptrNilNamed = true
			}
			if col.Descriptor.Type == bytesType && col.Descriptor.Tags.Contains("json") {
				jsonBytes = true
			}
			if rv := reflect.ValueOf(val); rv.IsValid() && rv.Kind() == reflect.Ptr && !rv.IsNil() {
				// a non-nil pointer to a payload that json.Marshal renders as null (nil slice, map, interface or
				// pointer) while the payload itself is NULL for Valuer: typed and untyped json columns alike
				if k := rv.Elem().Kind(); col.Descriptor.Tags.Contains("json") &&
					(k == reflect.Slice || k == reflect.Map || k == reflect.Interface || k == reflect.Ptr) && rv.Elem().IsNil() {
					ptrNilJSON = true
				}
			}
			fo.filter[col.Name] = val
		}
		fo.names = sortedNames(fo.filter)
		var t sqlgen.Tester
		var terr error
		t, terr = schema.MakeTester(c.Table, fo.filter)
		fo.known = terr == nil
		if fo.known {
			if p := safely(func() {
				for _, row := range fo.rows {
					fo.verdicts = append(fo.verdicts, t.Test(row))
				}
			}); p != "" {
				if ptrOnMarshaler {
					failCap(run, idx, "valuer-panics-on-pointer-filter-for-binary-column", fmt.Sprintf("filter %v: %s", fo.filter, p), c)
					continue
				}
				failCap(run, idx, "tester-panic", p, c)
				ob.failed = true
				return ob
			}
			var pb *thunderpb.SQLFilter
			var perr error
			if p := safely(func() { pb, perr = livesql.FilterToProto(schema, c.Table, fo.filter) }); p != "" {
				failCap(run, idx, "filter-to-proto-panic", p, c)
				ob.failed = true
				return ob
			}
			if perr != nil {
				fo.protoErr = true
			} else {
				wire, merr := proto.Marshal(pb)
				back := &thunderpb.SQLFilter{}
				if merr == nil {
					merr = proto.Unmarshal(wire, back)
				}
				if merr != nil {
					fo.protoErr = true // the shipment itself is rejected
					run.Hist("proto:marshal-error")
				} else {
					fo.proto = back
					var tn string
					var ferr error
					if p := safely(func() { tn, fo.back, ferr = livesql.FilterFromProto(schema, back) }); p != "" {
						failCap(run, idx, "filter-from-proto-panic", p, c)
						ob.failed = true
						return ob
					}
					fo.backErr = ferr != nil
					if ferr == nil {
						run.Hist("proto:ok")
						if tn != c.Table {
							failCap(run, idx, "proto-table-changed", tn, c)
						}
						t2, e2 := schema.MakeTester(c.Table, fo.back)
						if e2 != nil {
							failCap(run, idx, "proto-filter-unusable", e2.Error(), c)
						} else if typed && !nonUTC {
							for i, row := range fo.rows {
								if v2 := t2.Test(row); v2 != fo.verdicts[i] {
									sig := "proto-round-trip-changes-verdict"
									if ptrZeroImplicit {
										sig = "proto-pointer-to-zero-on-implicitnull-column"
									} else if ptrNilJSON {
										sig = "proto-pointer-to-nil-on-json-column"
									} else if ptrNilNamed {
										sig = "proto-pointer-to-nil-on-text-marshalled-column"
									} else if jsonBytes {
										sig = "json-tagged-bytes-not-decoded-as-json"
									}
									failCap(run, idx, sig, fmt.Sprintf("filter %v -> %v on row %s: %v -> %v", fo.filter, fo.back, printStruct(tbl, row), fo.verdicts[i], v2), c)
									break
								}
							}
						} else {
							run.Hist("proto:verdict-not-compared(mistyped-or-non-utc)")
						}
					} else {
						run.Hist("proto:rejected")
					}
				}
			}
		}
		ob.filters = append(ob.filters, fo)
	}
	return ob
}

func baseKey(t reflect.Type) string {
	if t.Kind() == reflect.Ptr {
		t = t.Elem()
	}
	b, _, _ := baseOf(t)
	return b
}

func naturalColumn(d mdesc, v driver.Value) sqlcol {
	switch v.(type) {
	case int64:
		if d.tag == "TString" || d.tag == "TJson" || d.tag == "TBinary" {
			return sqlcol{kind: "blob"}
		}
		w := d.w
		if w == 0 {
			w = 64
		}
		return sqlcol{kind: "int", w: w, unsigned: d.kind == "uint"}
	case bool:
		return sqlcol{kind: "int", w: 8}
	case float64:
		return sqlcol{kind: "double"}
	case time.Time:
		return sqlcol{kind: "datetime", micro: true}
	}
	return sqlcol{kind: "blob"}
}

func cloneRow(row []interface{}) []driver.Value {
	out := make([]driver.Value, len(row))
	for i, v := range row {
		if b, ok := v.([]byte); ok {
			v = append([]byte{}, b...)
		}
		out[i] = v
	}
	return out
}

func cloneRowI(row []interface{}) []interface{} {
	out := make([]interface{}, len(row))
	for i, v := range row {
		if b, ok := v.([]byte); ok {
			v = append([]byte{}, b...)
		}
		out[i] = v
	}
	return out
}

func describeRow(ro *rowObs) string {
	var xs []string
	for i, s := range ro.row {
		h := "raw"
		if ro.hows[i] != nil {
			h = ro.hows[i].col.term() + "/" + ro.hows[i].path
		}
		xs = append(xs, fmt.Sprintf("%s:%T(%v)", h, s, s))
	}
	return "[" + strings.Join(xs, " ") + "]"
}

func printStruct(tbl *sqlgen.Table, x interface{}) string {
	if x == nil {
		return "<nil>"
	}
	e := reflect.ValueOf(x).Elem()
	var xs []string
	for _, c := range tbl.Columns {
		f := e.FieldByIndex(c.Index)
		if f.Kind() == reflect.Ptr {
			if f.IsNil() {
				xs = append(xs, c.Name+"=nil")
				continue
			}
			xs = append(xs, fmt.Sprintf("%s=&%#v", c.Name, f.Elem().Interface()))
			continue
		}
		xs = append(xs, fmt.Sprintf("%s=%#v", c.Name, f.Interface()))
	}
	return "{" + strings.Join(xs, " ") + "}"
}

// ---------- Coq term of one case ----------

func resVals(g *registry, tbl *sqlgen.Table, x interface{}, isErr bool) string {
	if isErr {
		return "Err"
	}
	return "(Ok " + g.structVals(tbl, x) + ")"
}

func pfieldTerm(g *registry, f *thunderpb.Field) string {
	switch f.Kind {
	case thunderpb.FieldKind_Null:
		return "PNull"
	case thunderpb.FieldKind_Bool:
		return "(PBool " + vh.CoqBool(f.GetBool()) + ")"
	case thunderpb.FieldKind_Int:
		g.strs[fmt.Sprint(f.GetInt())] = true
		return "(PInt " + vh.CoqZ(f.GetInt()) + ")"
	case thunderpb.FieldKind_Uint:
		g.strs[fmt.Sprint(f.GetUint())] = true
		return "(PUint " + zU(f.GetUint()) + ")"
	case thunderpb.FieldKind_String:
		return "(PStr " + g.str(f.GetString_()) + ")"
	case thunderpb.FieldKind_Bytes:
		return "(PBytes " + g.str(string(f.GetBytes())) + ")"
	case thunderpb.FieldKind_Float64:
		return "(PFloat " + g.fl(f.GetFloat64()) + ")"
	case thunderpb.FieldKind_Time:
		t := time.Time{}
		if p := f.GetTime(); p != nil {
			t = *p
		}
		return "(PTime " + g.tm(t) + ")"
	}
	return "PNull"
}

func filterTerm(g *registry, f sqlgen.Filter) string {
	var xs []string
	for _, n := range sortedNames(f) {
		xs = append(xs, "("+vh.CoqString(n)+", "+g.dyn(f[n])+")")
	}
	return vh.CoqList(xs)
}

func extractTerm(g *registry, tbl *sqlgen.Table, f sqlgen.Filter) string {
	var xs []string
	for _, c := range tbl.Columns { // the model lists the row's own filter in column order
		if v, ok := f[c.Name]; ok {
			xs = append(xs, "("+vh.CoqString(c.Name)+", "+g.dyn(v)+")")
		}
	}
	if len(xs) != len(f) {
		xs = append(xs, "(\"<extra>\", DynNil)")
	}
	return vh.CoqList(xs)
}

func caseTerm(g *registry, ob *obs) string {
	tbl := ob.tbl
	var cols []string
	for i, c := range tbl.Columns {
		cols = append(cols, "("+vh.CoqString(c.Name)+", "+ob.descs[i].term()+")")
	}
	var dvs []string
	for _, v := range ob.unbuilt {
		dvs = append(dvs, g.dval(v))
	}
	var rows []string
	for _, ro := range ob.rows {
		var hs []string
		for _, h := range ro.hows {
			if h == nil {
				hs = append(hs, "None")
			} else {
				hs = append(hs, "(Some ("+h.col.term()+", "+h.path+"))")
			}
		}
		var srcIdx []string
		for _, j := range ro.source {
			srcIdx = append(srcIdx, vh.CoqZ(int64(j)))
		}
		rows = append(rows, fmt.Sprintf("(mk_rowobs %s %s %s %s %s %s %s)", vh.CoqList(hs), g.srcs(ro.row),
			resVals(g, tbl, ro.built, ro.builtErr), vh.CoqZ(int64(ro.expected)), vh.CoqList(srcIdx), g.srcs(ro.binlog),
			resVals(g, tbl, ro.parsed, ro.parseErr)))
	}
	var fos []string
	for _, fo := range ob.filters {
		var rvs []string
		if fo.known {
			for i, row := range fo.rows {
				rvs = append(rvs, "("+g.structVals(tbl, row)+", "+vh.CoqBool(fo.verdicts[i])+")")
			}
		}
		protoT, backT := "Err", "Err"
		if fo.known && !fo.protoErr && fo.proto != nil {
			var ps []string
			var ns []string
			for n := range fo.proto.Fields {
				ns = append(ns, n)
			}
			sort.Strings(ns)
			for _, n := range ns {
				ps = append(ps, "("+vh.CoqString(n)+", "+pfieldTerm(g, fo.proto.Fields[n])+")")
			}
			protoT = "(Ok " + vh.CoqList(ps) + ")"
			if !fo.backErr {
				backT = "(Ok " + filterTerm(g, fo.back) + ")"
			}
		}
		fos = append(fos, fmt.Sprintf("(mk_filterobs %s %s %s %s %s)", filterTerm(g, fo.filter), vh.CoqBool(fo.known),
			vh.CoqList(rvs), protoT, backT))
	}
	return fmt.Sprintf("mk_case %s %s %s\n %s\n %s %s\n %s", vh.CoqList(cols), g.structVals(tbl, ob.x), vh.CoqList(dvs),
		vh.CoqList(rows), extractTerm(g, tbl, ob.extract), vh.CoqBool(ob.self), vh.CoqList(fos))
}
