package main

// The constant sets and dispatch tables of the row codec, extracted with go/ast from the source of the tree under
// test (internal/fields/sql.go, livesql/marshal.go) -- nothing of the repository is executed for this.  They are
// written into cases_tables.v, where the model's field_tables_check (Sql/FieldTables.v) must accept them
// (component 12).  Entries are in source order; the comparison ignores the order of map-like tables.
//
//	valuer_nilable_kinds   kinds of the nil check at the top of Valuer.Value
//	valuer_tags            tag names of Valuer.Value's tag switch, in source order
//	valuer_kinds           kind -> reflect.Value accessor used in the final switch of Valuer.Value
//	scanner_tags           tag names of Scanner.Scan's tag switch, in source order
//	scanner_self_nil_kinds kinds for which a sql.Scanner column is not handed NULL
//	scanner_kinds          kind -> database/sql Null type used in the final switch of Scanner.Scan
//	own_width_kinds/types  unsignedAtOwnWidth: target kinds, source types reinterpreted at their own width
//	proto_of_value         livesql.valueToField: Go type of the driver value -> thunderpb.FieldKind
//	value_of_proto         livesql.FieldToValue: thunderpb.FieldKind -> getter

import (
	"fmt"
	"go/ast"
	"go/parser"
	"go/token"
	"go/types"
	"path/filepath"
	"strings"
)

func coqStr(s string) string { return "\"" + strings.ReplaceAll(s, "\"", "\"\"") + "\"" }

func coqList(xs []string) string { return "[" + strings.Join(xs, "; ") + "]" }

func strs(xs []string) string {
	var q []string
	for _, x := range xs {
		q = append(q, coqStr(x))
	}
	return coqList(q)
}

func pairs(xs [][2]string) string {
	var q []string
	for _, x := range xs {
		q = append(q, "("+coqStr(x[0])+", "+coqStr(x[1])+")")
	}
	return coqList(q)
}

func findFunc(f *ast.File, recv, name string) *ast.FuncDecl {
	for _, d := range f.Decls {
		fd, ok := d.(*ast.FuncDecl)
		if !ok || fd.Name.Name != name {
			continue
		}
		r := ""
		if fd.Recv != nil && len(fd.Recv.List) == 1 {
			r = strings.TrimPrefix(types.ExprString(fd.Recv.List[0].Type), "*")
		}
		if r == recv {
			return fd
		}
	}
	return nil
}

// kindNames lists the reflect.X selectors among the case expressions.
func kindNames(cc *ast.CaseClause) []string {
	var out []string
	for _, e := range cc.List {
		if s, ok := e.(*ast.SelectorExpr); ok {
			if id, ok := s.X.(*ast.Ident); ok && id.Name == "reflect" {
				out = append(out, s.Sel.Name)
			}
		}
	}
	return out
}

// kindSwitches returns the `switch <x>.Kind()` / `switch <x>.Kind` statements directly or indirectly in body, in source order.
func kindSwitches(body ast.Node) []*ast.SwitchStmt {
	var out []*ast.SwitchStmt
	ast.Inspect(body, func(n ast.Node) bool {
		if sw, ok := n.(*ast.SwitchStmt); ok && sw.Tag != nil {
			t := types.ExprString(sw.Tag)
			if strings.HasSuffix(t, ".Kind()") || strings.HasSuffix(t, ".Kind") || t == "kind" {
				out = append(out, sw)
			}
		}
		return true
	})
	return out
}

// tagSwitch returns the string literals X of the `case <recv>.Tags.Contains("X")` clauses of the first tagless switch
// that has such clauses.
func tagSwitch(body ast.Node) []string {
	var out []string
	done := false
	ast.Inspect(body, func(n ast.Node) bool {
		sw, ok := n.(*ast.SwitchStmt)
		if !ok || sw.Tag != nil || done {
			return true
		}
		var tags []string
		for _, st := range sw.Body.List {
			cc := st.(*ast.CaseClause)
			for _, e := range cc.List {
				if c, ok := e.(*ast.CallExpr); ok && strings.HasSuffix(types.ExprString(c.Fun), ".Tags.Contains") && len(c.Args) == 1 {
					if lit, ok := c.Args[0].(*ast.BasicLit); ok && lit.Kind == token.STRING {
						tags = append(tags, strings.Trim(lit.Value, "\"`"))
					}
				}
			}
		}
		if len(tags) > 0 {
			out, done = tags, true
		}
		return true
	})
	return out
}

// calledOn lists, without repetition and in source order, the methods called as <recv>.value.M() in n.
func calledOn(n ast.Node, field string) []string {
	var out []string
	seen := map[string]bool{}
	ast.Inspect(n, func(x ast.Node) bool {
		if c, ok := x.(*ast.CallExpr); ok {
			if s, ok := c.Fun.(*ast.SelectorExpr); ok && strings.HasSuffix(types.ExprString(s.X), field) && !seen[s.Sel.Name] {
				seen[s.Sel.Name] = true
				out = append(out, s.Sel.Name)
			}
		}
		return true
	})
	return out
}

// nullTypes lists the sql.NullX composite literal types in n.
func nullTypes(n ast.Node) []string {
	var out []string
	ast.Inspect(n, func(x ast.Node) bool {
		if cl, ok := x.(*ast.CompositeLit); ok && cl.Type != nil {
			if t := types.ExprString(cl.Type); strings.HasPrefix(t, "sql.Null") {
				out = append(out, strings.TrimPrefix(t, "sql."))
			}
		}
		return true
	})
	return out
}

func containsIsNil(n ast.Node) bool {
	found := false
	ast.Inspect(n, func(x ast.Node) bool {
		if s, ok := x.(*ast.SelectorExpr); ok && s.Sel.Name == "IsNil" {
			found = true
		}
		return true
	})
	return found
}


// extractTables returns the ten tables as Coq terms, in the order of the fields of Sql.FieldTables.field_tables.
func extractTables(repo string) ([]string, error) {
	fset := token.NewFileSet()
	sqlF, err := parser.ParseFile(fset, filepath.Join(repo, "internal/fields/sql.go"), nil, 0)
	if err != nil {
		return nil, err
	}
	marF, err := parser.ParseFile(fset, filepath.Join(repo, "livesql/marshal.go"), nil, 0)
	if err != nil {
		return nil, err
	}
	var nilable, vtags, stags, selfNil, ownKinds, ownTypes []string
	var vkinds, skinds, protoOf, valueOf [][2]string

	if fd := findFunc(sqlF, "Valuer", "Value"); fd != nil {
		sws := kindSwitches(fd.Body)
		for _, sw := range sws {
			for _, st := range sw.Body.List {
				cc := st.(*ast.CaseClause)
				if containsIsNil(cc) && len(nilable) == 0 {
					nilable = kindNames(cc)
				}
			}
		}
		if len(sws) > 0 {
			last := sws[len(sws)-1]
			for _, st := range last.Body.List {
				cc := st.(*ast.CaseClause)
				m := calledOn(cc, ".value")
				for _, k := range kindNames(cc) {
					vkinds = append(vkinds, [2]string{k, strings.Join(m, "+")})
				}
			}
		}
		vtags = tagSwitch(fd.Body)
	}
	if fd := findFunc(sqlF, "Scanner", "Scan"); fd != nil {
		sws := kindSwitches(fd.Body)
		for i, sw := range sws {
			for _, st := range sw.Body.List {
				cc := st.(*ast.CaseClause)
				if i == len(sws)-1 {
					nt := nullTypes(cc)
					for _, k := range kindNames(cc) {
						skinds = append(skinds, [2]string{k, strings.Join(nt, "+")})
					}
				} else if len(selfNil) == 0 {
					selfNil = kindNames(cc)
				}
			}
		}
		stags = tagSwitch(fd.Body)
	}
	if fd := findFunc(sqlF, "", "unsignedAtOwnWidth"); fd != nil {
		for _, sw := range kindSwitches(fd.Body) {
			for _, st := range sw.Body.List {
				ownKinds = append(ownKinds, kindNames(st.(*ast.CaseClause))...)
			}
		}
		ast.Inspect(fd.Body, func(n ast.Node) bool {
			if ts, ok := n.(*ast.TypeSwitchStmt); ok {
				for _, st := range ts.Body.List {
					for _, e := range st.(*ast.CaseClause).List {
						ownTypes = append(ownTypes, types.ExprString(e))
					}
				}
			}
			return true
		})
	}
	if fd := findFunc(marF, "", "valueToField"); fd != nil {
		ast.Inspect(fd.Body, func(n ast.Node) bool {
			if ts, ok := n.(*ast.TypeSwitchStmt); ok {
				for _, st := range ts.Body.List {
					cc := st.(*ast.CaseClause)
					kind := ""
					ast.Inspect(cc, func(x ast.Node) bool {
						if s, ok := x.(*ast.SelectorExpr); ok && strings.HasPrefix(s.Sel.Name, "FieldKind_") && kind == "" {
							kind = strings.TrimPrefix(s.Sel.Name, "FieldKind_")
						}
						return true
					})
					for _, e := range cc.List {
						protoOf = append(protoOf, [2]string{types.ExprString(e), kind})
					}
				}
			}
			return true
		})
	}
	if fd := findFunc(marF, "", "FieldToValue"); fd != nil {
		ast.Inspect(fd.Body, func(n ast.Node) bool {
			if sw, ok := n.(*ast.SwitchStmt); ok && sw.Tag != nil && strings.HasSuffix(types.ExprString(sw.Tag), ".Kind") {
				for _, st := range sw.Body.List {
					cc := st.(*ast.CaseClause)
					getter := ""
					ast.Inspect(cc, func(x ast.Node) bool {
						if c, ok := x.(*ast.CallExpr); ok && getter == "" {
							if s, ok := c.Fun.(*ast.SelectorExpr); ok && strings.HasPrefix(s.Sel.Name, "Get") {
								getter = s.Sel.Name
							}
						}
						return true
					})
					for _, e := range cc.List {
						if s, ok := e.(*ast.SelectorExpr); ok && strings.HasPrefix(s.Sel.Name, "FieldKind_") {
							valueOf = append(valueOf, [2]string{strings.TrimPrefix(s.Sel.Name, "FieldKind_"), getter})
						}
					}
				}
			}
			return true
		})
	}

	return []string{strs(nilable), strs(vtags), pairs(vkinds), strs(stags), strs(selfNil), pairs(skinds),
		strs(ownKinds), strs(ownTypes), pairs(protoOf), pairs(valueOf)}, nil
}

var tableNames = []string{"valuer_nilable_kinds", "valuer_tags", "valuer_kinds", "scanner_tags", "scanner_self_nil_kinds",
	"scanner_kinds", "own_width_kinds", "own_width_types", "proto_of_value", "value_of_proto"}

var tableTypes = []string{"list string", "list string", "list (string * string)", "list string", "list string",
	"list (string * string)", "list string", "list string", "list (string * string)", "list (string * string)"}

// tablesPrelude defines the extracted tables and the evaluation function of cases_tables.v.
func tablesPrelude(tabs []string) string {
	var b strings.Builder
	for i, t := range tabs {
		fmt.Fprintf(&b, "Definition x_%s : %s := %s.\n", tableNames[i], tableTypes[i], t)
	}
	b.WriteString("Definition tmm := tables_mm (mk_field_tables")
	for _, n := range tableNames {
		b.WriteString(" x_" + n)
	}
	b.WriteString(").\n")
	return b.String()
}

// snapshotFile is the text of coq/theories/Gen/FieldKinds.v for these tables.
func snapshotFile(tabs []string) string {
	var b strings.Builder
	b.WriteString("(* Snapshot of the row codec's constant sets and dispatch tables, extracted by harness/cmd/c13/tables.go from\n   internal/fields/sql.go and livesql/marshal.go (C13_WRITE_SNAPSHOT=<this file> ./check C13).  The check itself\n   extracts them afresh on every run; this copy is what the theorem field_tables_agree is stated about. *)\n")
	b.WriteString("From Coq Require Import List String.\nImport ListNotations.\nOpen Scope string_scope.\n\n")
	for i, t := range tabs {
		fmt.Fprintf(&b, "Definition %s : %s := %s.\n", tableNames[i], tableTypes[i], t)
	}
	return b.String()
}
