// Websocket scripts: a sequence of inbound envelopes (subscribe / mutate with the case's query, with a
// query that succeeds, with one that is rejected, with a malformed message; unsubscribe; echo; url;
// unknown type) is sent to a real connection over a fake JSONSocket.  One recorder keeps the envelopes
// written and the SubscriptionLogger calls in the order they happened; after every envelope the driver
// waits for the connection to go quiet (the first computation and the close it asks for, then an echo as
// a fence for the serve loop).  The recorded segments are checked against the property directly
// (oracle) and replayed through Gql/Socket.v (correspondence, codes 7 and 8).
package main

import (
	"context"
	"encoding/json"
	"fmt"
	"sort"
	"strings"
	"sync"
	"time"

	"github.com/gorilla/websocket"
	"github.com/samsarahq/thunder/graphql"
	"verifharness/pkg/gqlgen"
	"verifharness/pkg/vh"
)

type recEvent struct {
	Kind string `json:"kind"` // error update result echo other | sub unsub
	ID   string `json:"id"`
	Msg  string `json:"msg,omitempty"` // message of an error envelope
	Raw  string `json:"raw,omitempty"` // the whole envelope
}

type recorder struct {
	mu   sync.Mutex
	evs  []recEvent
	wake chan struct{}
}

func (r *recorder) add(e recEvent) {
	r.mu.Lock()
	r.evs = append(r.evs, e)
	r.mu.Unlock()
	select {
	case r.wake <- struct{}{}:
	default:
	}
}

func (r *recorder) snapshot() []recEvent {
	r.mu.Lock()
	defer r.mu.Unlock()
	return append([]recEvent{}, r.evs...)
}

// waitFor polls the recorded events until ok(events) or the deadline.
func (r *recorder) waitFor(ok func([]recEvent) bool, d time.Duration) bool {
	deadline := time.After(d)
	for {
		if ok(r.snapshot()) {
			return true
		}
		select {
		case <-r.wake:
		case <-time.After(20 * time.Millisecond):
		case <-deadline:
			return ok(r.snapshot())
		}
	}
}

func (r *recorder) Subscribe(ctx context.Context, id string, tags map[string]string) {
	r.add(recEvent{Kind: "sub", ID: id})
}
func (r *recorder) Unsubscribe(ctx context.Context, id string) { r.add(recEvent{Kind: "unsub", ID: id}) }

type recSocket struct {
	in     chan interface{}
	rec    *recorder
	closed chan struct{}
	once   sync.Once
}

func (s *recSocket) ReadJSON(v interface{}) error {
	select {
	case m := <-s.in:
		b, _ := json.Marshal(m)
		return json.Unmarshal(b, v)
	case <-s.closed:
		return &websocket.CloseError{Code: websocket.CloseNormalClosure}
	}
}

func (s *recSocket) WriteJSON(v interface{}) error {
	b, err := json.Marshal(v)
	if err != nil {
		return err
	}
	var m map[string]interface{}
	json.Unmarshal(b, &m)
	e := recEvent{Kind: "other", Raw: string(b)}
	e.ID, _ = m["id"].(string)
	switch m["type"] {
	case "error", "update", "result", "echo":
		e.Kind = m["type"].(string)
	}
	if e.Kind == "error" {
		e.Msg, _ = m["message"].(string)
	}
	s.rec.add(e)
	return nil
}

func (s *recSocket) Close() error {
	s.once.Do(func() { close(s.closed) })
	return nil
}

// fifoSched runs the units in the order they were handed over; it keeps no state between runs, so
// concurrent executions on one connection may share it.
type fifoSched struct{}

func (fifoSched) Run(resolver graphql.UnitResolver, units ...*graphql.WorkUnit) {
	pool := append([]*graphql.WorkUnit{}, units...)
	for len(pool) > 0 {
		u := pool[0]
		pool = append(pool[1:], resolver(u)...)
	}
}

type scriptStep struct {
	Msg      string     `json:"msg"` // sub mut unsub echo url unknown
	ID       string     `json:"id"`
	Q        string     `json:"q,omitempty"` // case ok reject syntax badmsg
	OK       bool       `json:"ok,omitempty"`
	Events   []recEvent `json:"events"`
	TimedOut bool       `json:"timed_out,omitempty"`
}

type scriptResult struct {
	Max     int          `json:"max"`
	Steps   []scriptStep `json:"steps"`
	Closing []string     `json:"closing"`
	Hung    bool         `json:"hung,omitempty"`
}

// genScript derives the script from a list of choices (so that a replay file reproduces it).
func genScript(ch []int) []scriptStep {
	at := func(i int) int {
		if len(ch) == 0 {
			return 0
		}
		return ch[i%len(ch)]
	}
	n := 5 + at(0)%4
	ids := []string{"a", "b", "c"}
	var steps []scriptStep
	for i := 0; i < n; i++ {
		k, j := at(2*i+1), at(2*i+2)
		st := scriptStep{ID: ids[j%3]}
		switch k % 9 {
		case 0, 1, 2:
			st.Msg, st.Q = "sub", "case"
		case 3, 8:
			st.Msg, st.Q = "sub", "ok"
		case 4:
			st.Msg, st.Q = "sub", []string{"reject", "syntax", "badmsg"}[(j/3)%3]
		case 5:
			st.Msg, st.Q = "mut", []string{"case", "case", "ok", "reject", "badmsg"}[(j/3+i)%5]
		case 6:
			st.Msg = "unsub"
		default:
			st.Msg = []string{"echo", "url", "unknown"}[(j/3)%3]
			st.OK = i%2 == 0
		}
		steps = append(steps, st)
	}
	return steps
}

const scriptWait = 20 * time.Second

// runScript serves the script to a fresh connection.
func runScript(b *gqlgen.Built, text string, vars map[string]interface{}, sched graphql.WorkScheduler, steps []scriptStep, max int) scriptResult {
	rec := &recorder{wake: make(chan struct{}, 1)}
	sock := &recSocket{in: make(chan interface{}, 4), rec: rec, closed: make(chan struct{})}
	ctx, cancel := context.WithCancel(context.Background())
	defer cancel()
	// the case's query served as a mutation too: the root object stands in for the Mutation object
	msch := &graphql.Schema{Query: b.Schema.Query, Mutation: b.Schema.Query}
	conn := graphql.CreateConnection(ctx, sock, b.Schema,
		graphql.WithExecutor(graphql.NewExecutor(sched)),
		graphql.WithSubscriptionLogger(rec),
		graphql.WithMutationSchema(msch),
		graphql.WithMaxSubscriptions(max),
		graphql.WithMinRerunInterval(time.Hour))
	done := make(chan struct{})
	go func() { defer close(done); conn.ServeJSONSocket() }()
	res := scriptResult{Max: max}
	queryOf := func(q string) interface{} {
		switch q {
		case "case":
			return map[string]interface{}{"query": text, "variables": vars}
		case "ok":
			return map[string]interface{}{"query": "{ __typename }", "variables": map[string]interface{}{}}
		case "reject":
			return map[string]interface{}{"query": "{ noSuchFieldAnywhere }", "variables": map[string]interface{}{}}
		case "syntax":
			return map[string]interface{}{"query": "{ a { ", "variables": map[string]interface{}{}}
		}
		return "not an object" // badmsg
	}
	has := func(evs []recEvent, kind, id string) bool {
		for _, e := range evs {
			if e.Kind == kind && e.ID == id {
				return true
			}
		}
		return false
	}
	for i, st := range steps {
		n0 := len(rec.snapshot())
		var env map[string]interface{}
		switch st.Msg {
		case "sub":
			env = map[string]interface{}{"id": st.ID, "type": "subscribe", "message": queryOf(st.Q)}
		case "mut":
			env = map[string]interface{}{"id": st.ID, "type": "mutate", "message": queryOf(st.Q)}
		case "unsub":
			env = map[string]interface{}{"id": st.ID, "type": "unsubscribe"}
		case "echo":
			env = map[string]interface{}{"id": st.ID, "type": "echo"}
		case "url":
			if st.OK {
				env = map[string]interface{}{"id": st.ID, "type": "url", "message": "http://x/y"}
			} else {
				env = map[string]interface{}{"id": st.ID, "type": "url", "message": map[string]interface{}{"not": "a string"}}
			}
		default:
			env = map[string]interface{}{"id": st.ID, "type": "frobnicate"}
		}
		sock.in <- env
		if st.Msg == "sub" || st.Msg == "mut" {
			// an answer for this id: an envelope, or (a subscription closed without a word) its end in the log
			ok := rec.waitFor(func(evs []recEvent) bool {
				seg := evs[n0:]
				return has(seg, "error", st.ID) || has(seg, "update", st.ID) || has(seg, "result", st.ID) || has(seg, "unsub", st.ID)
			}, scriptWait)
			if !ok {
				st.TimedOut = true
			}
			seg := rec.snapshot()[n0:]
			if has(seg, "sub", st.ID) && (has(seg, "error", st.ID) || has(seg, "result", st.ID)) {
				// the computation asked for its own close
				if !rec.waitFor(func(evs []recEvent) bool { return has(evs[n0:], "unsub", st.ID) }, scriptWait/4) {
					st.TimedOut = true
				}
			}
		}
		fence := fmt.Sprintf("fence-%d", i)
		sock.in <- map[string]interface{}{"id": fence, "type": "echo"}
		if !rec.waitFor(func(evs []recEvent) bool { return has(evs[n0:], "echo", fence) }, scriptWait) {
			st.TimedOut = true
		}
		for _, e := range rec.snapshot()[n0:] {
			if e.Kind == "echo" && e.ID == fence {
				continue
			}
			st.Events = append(st.Events, e)
		}
		res.Steps = append(res.Steps, st)
		if st.TimedOut {
			res.Hung = true
			break
		}
	}
	n0 := len(rec.snapshot())
	sock.Close()
	select {
	case <-done:
	case <-time.After(scriptWait):
		res.Hung = true
	}
	for _, e := range rec.snapshot()[n0:] {
		if e.Kind == "unsub" {
			res.Closing = append(res.Closing, e.ID)
		}
	}
	sort.Strings(res.Closing)
	return res
}

// checkScript evaluates clause (iv) on a recorded script, without the model.
func checkScript(sr scriptResult, fs []gqlgen.RefFailure, failing bool, fail func(sig, detail string)) {
	all := js(sr)
	if sr.Hung {
		fail("ws-timeout", "script: "+all)
		return
	}
	// no text of an error that is not safe for clients, anywhere
	var raw []string
	for _, st := range sr.Steps {
		for _, e := range st.Events {
			raw = append(raw, e.Raw)
		}
	}
	sent := strings.Join(raw, "\n")
	for _, f := range fs {
		switch f.Kind {
		case "safe", "wrapped":
		case "custom":
			if strings.Contains(sent, "detail of "+f.Msg) {
				fail("ws-unsafe-text-leaked", "script: Error() text of a custom sanitized error reached the socket: "+sent)
			}
		default:
			if strings.Contains(sent, f.Msg) {
				fail("ws-unsafe-text-leaked", fmt.Sprintf("script: text of %s failure %q reached the socket: %s", f.Kind, f.Msg, sent))
			}
		}
	}
	if strings.Contains(sent, "inner secret") || strings.Contains(sent, "goroutine ") {
		fail("ws-unsafe-text-leaked", "script: "+sent)
	}
	live := map[string]bool{}
	subs, unsubs := map[string]int{}, map[string]int{}
	for _, st := range sr.Steps {
		var errs, updates, results int
		accepted := false
		for _, e := range st.Events {
			switch e.Kind {
			case "error":
				if e.ID == st.ID {
					errs++
				}
			case "update":
				updates++
			case "result":
				results++
			case "sub":
				subs[e.ID]++
				if e.ID == st.ID {
					accepted = true
				}
				if live[e.ID] {
					fail("ws-live-subscription-id-reusable", "script: "+all)
				}
				live[e.ID] = true
				n := 0
				for _, l := range live {
					if l {
						n++
					}
				}
				if n > sr.Max && st.Msg == "sub" {
					fail("ws-too-many-subscriptions", "script: "+all)
				}
			case "unsub":
				unsubs[e.ID]++
				live[e.ID] = false
			}
		}
		if (st.Msg == "sub" || st.Msg == "mut") && !accepted {
			// refused: said so once, nothing else
			if errs != 1 || updates+results != 0 {
				fail("ws-refusal-not-reported-exactly-once", fmt.Sprintf("script step %s %s %s: %s", st.Msg, st.ID, st.Q, js(st.Events)))
			}
		}
		if (st.Msg == "sub" || st.Msg == "mut") && accepted && st.Q == "case" && failing {
			if errs != 1 || updates+results != 0 {
				fail("ws-initial-failure-not-reported-exactly-once", fmt.Sprintf("script step %s %s: %s", st.Msg, st.ID, js(st.Events)))
			} else {
				for _, e := range st.Events {
					if e.Kind == "error" && !allowedMessage(e.Msg, fs) {
						fail("ws-error-message-wrong", fmt.Sprintf("script step %s %s: %s; needed failures %s", st.Msg, st.ID, js(e), js(fs)))
					}
				}
			}
			if live[st.ID] {
				fail("ws-failed-subscription-not-closed", fmt.Sprintf("script step %s %s: %s", st.Msg, st.ID, js(st.Events)))
			}
		}
		if st.Msg == "mut" && accepted && live[st.ID] {
			fail("ws-mutation-not-closed", fmt.Sprintf("script step %s: %s", st.ID, js(st.Events)))
		}
		if (st.Msg == "sub" || st.Msg == "mut") && accepted && (st.Q == "ok" || (st.Q == "case" && !failing)) {
			want := "update"
			if st.Msg == "mut" {
				want = "result"
			}
			got := updates
			if st.Msg == "mut" {
				got = results
			}
			if errs != 0 || got != 1 {
				fail("ws-unexpected-envelopes", fmt.Sprintf("script step %s %s %s wants one %s: %s", st.Msg, st.ID, st.Q, want, js(st.Events)))
			}
		}
	}
	for _, id := range sr.Closing {
		unsubs[id]++
	}
	for id, n := range subs {
		if unsubs[id] != n {
			fail("ws-subscription-end-not-logged", fmt.Sprintf("script: id %s began %d times and ended %d times: %s", id, n, unsubs[id], all))
		}
	}
}

// coqScript prints the recorded script as a Gql/CheckSocket.v [script].
func coqScript(sr scriptResult, fs []gqlgen.RefFailure) string {
	safeText := map[string]bool{}
	for _, f := range fs {
		switch f.Kind {
		case "safe", "wrapped":
			safeText[f.Msg] = true
		case "custom":
			safeText["public "+f.Msg] = true
		}
	}
	qk := map[string]string{"case": "QCase", "ok": "QOk", "reject": "QReject", "syntax": "QReject", "badmsg": "QBadMsg"}
	var steps []string
	for _, st := range sr.Steps {
		var m string
		id := vh.CoqString(st.ID)
		switch st.Msg {
		case "sub":
			m = fmt.Sprintf("SSub %s %s", id, qk[st.Q])
		case "mut":
			m = fmt.Sprintf("SMut %s %s", id, qk[st.Q])
		case "unsub":
			m = "SUnsub " + id
		case "echo":
			m = "SEcho " + id
		case "url":
			m = fmt.Sprintf("SUrl %s %v", id, st.OK)
		default:
			m = "SUnknown " + id
		}
		var evs []string
		for _, e := range st.Events {
			eid := vh.CoqString(e.ID)
			switch e.Kind {
			case "error":
				cls := "EOwn"
				if e.Msg == generic {
					cls = "EGeneric"
				} else if safeText[e.Msg] {
					cls = "(EText " + vh.CoqString(e.Msg) + ")"
				}
				evs = append(evs, fmt.Sprintf("CError %s %s", eid, cls))
			case "update":
				evs = append(evs, "CUpdate "+eid)
			case "result":
				evs = append(evs, "CResult "+eid)
			case "echo":
				evs = append(evs, "CEcho "+eid)
			case "sub":
				evs = append(evs, "CSub "+eid)
			case "unsub":
				evs = append(evs, "CUnsub "+eid)
			default:
				evs = append(evs, `CEcho "?unknown-envelope-type"`)
			}
		}
		steps = append(steps, fmt.Sprintf("(%s, %s)", m, vh.CoqList(evs)))
	}
	var closing []string
	for _, id := range sr.Closing {
		closing = append(closing, vh.CoqString(id))
	}
	return fmt.Sprintf("(mk_script %d %s %s)", sr.Max, vh.CoqList(steps), vh.CoqList(closing))
}
