// C16: a failing resolver fails the whole query; clients only see sanitised errors.  As C01, with a
// random subset of resolvers failing (plain error, SafeError, wrapped SafeError, panic; in plain,
// expensive, batch and fallback fields).  The four clauses of the property are evaluated on what
// Execute returned and on the envelopes written to a fake JSONSocket; the observations are compared
// with the Coq model (Gql/Check.v, Gql/Envelope.v).
package main

import (
	"encoding/json"
	"errors"
	"fmt"
	"io/ioutil"
	"log"
	"path/filepath"
	"reflect"
	"regexp"
	"sort"
	"strings"

	"github.com/samsarahq/thunder/graphql"
	"verifharness/pkg/gqlgen"
	"verifharness/pkg/vh"
)

// what thunder sends instead of an unsafe error, taken from thunder itself
var generic = graphql.SanitizeError(errors.New("x"))

// the same in the Coq model (Gql/Envelope.v)
const modelGeneric = "Internal server error"

func js(v interface{}) string {
	b, _ := json.Marshal(v)
	return string(b)
}

func roundTrip(v interface{}) interface{} {
	b, _ := json.Marshal(v)
	var out interface{}
	json.Unmarshal(b, &out)
	return out
}

func genCase(cr *vh.Rng) *gqlgen.Case {
	spec := gqlgen.GenSchema(cr)
	c := &gqlgen.Case{Spec: spec, Origin: "generated"}
	c.Modes = []gqlgen.Modes{gqlgen.GenModes(cr, spec), gqlgen.GenModes(cr, spec)}
	if cr.Chance(50) {
		// the second assignment without any field run as a batch (plain, Expensive, fallback not batched,
		// NumParallelInvocations kept): the premise of the exact form of clause (i)
		keys := make([]string, 0, len(c.Modes[1]))
		for k := range c.Modes[1] {
			keys = append(keys, k)
		}
		sort.Strings(keys)
		for _, k := range keys {
			m := c.Modes[1][k]
			if m.Kind == "batch" {
				m.Kind = []string{"plain", "expensive"}[cr.Intn(2)]
				c.Modes[1][k] = m
			} else if m.Kind == "fallback" && m.UseBatch {
				m.UseBatch = false
				c.Modes[1][k] = m
			}
		}
	}
	single := cr.Chance(45)
	pf := []int{0, 5, 8, 12, 20, 30, 40}[cr.Intn(7)]
	if single {
		pf = 0
	}
	c.Data = gqlgen.GenData(cr, spec, pf)
	c.Query = gqlgen.GenQuery(cr, spec, gqlgen.QOpts{PDir: 0, Depth: 2 + cr.Intn(3), AllowDup: true})
	if single {
		// exactly one of the resolver results the query uses fails
		rr := gqlgen.RefEval(spec, c.Data, c.Query.Prune())
		gqlgen.InjectFailure(cr, rr.Reached, rr.Enums)
		c.Origin = "generated:single-failure"
	}
	if cr.Chance(12) {
		// some of the ordinary failures are context.Canceled itself, handed back by a call with a
		// context of its own while the request is alive (/repo 151d367)
		var walk func(o *gqlgen.Obj, seen map[int64]bool)
		walk = func(o *gqlgen.Obj, seen map[int64]bool) {
			if o == nil || seen[o.ID] {
				return
			}
			seen[o.ID] = true
			var vis func(v *gqlgen.Val)
			vis = func(v *gqlgen.Val) {
				if v == nil {
					return
				}
				if v.O != nil {
					walk(v.O, seen)
				}
				for _, e := range v.L {
					vis(e)
				}
			}
			keys := make([]string, 0, len(o.Res))
			for k := range o.Res {
				keys = append(keys, k)
			}
			sort.Strings(keys)
			for _, k := range keys {
				oc := o.Res[k]
				if oc.Fail == "err" && cr.Chance(60) {
					oc.Fail = "cancel"
				}
				vis(oc.Val)
			}
		}
		walk(c.Data.Root, map[int64]bool{})
	}
	for k := 0; k < 3; k++ {
		var ch []int
		for i := 0; i < 24; i++ {
			ch = append(ch, cr.Intn(9))
		}
		c.Choices = append(c.Choices, ch)
	}
	return c
}

func isBatchMode(md gqlgen.Modes, typ, field string) bool {
	m := md[typ+"."+field]
	return m.Kind == "batch" || (m.Kind == "fallback" && m.UseBatch)
}

// batchElsewhere counts the errors of whole-batch failures reported at another list index than that
// of the failing source (the unit's first destination: theorem whole_batch_failure_at_first_destination).
var batchElsewhere int

// texts the harness's resolvers raise
var injected = regexp.MustCompile(`E\d*\.[a-z]|S\.f`)

func pathSim(a, b []string) bool {
	if len(a) != len(b) {
		return false
	}
	num := func(s string) bool {
		if s == "" {
			return false
		}
		for _, c := range s {
			if c < '0' || c > '9' {
				return false
			}
		}
		return true
	}
	for i := range a {
		if a[i] != b[i] && !(num(a[i]) && num(b[i])) {
			return false
		}
	}
	return true
}

// checkError evaluates clauses (i) and the path rule on one error returned by Execute.
func checkError(obs gqlgen.Observed, fs []gqlgen.RefFailure, md gqlgen.Modes, qname string) (string, string) {
	var sameCause []gqlgen.RefFailure
	for _, f := range fs {
		if f.Kind == obs.Class && gqlgen.FailText(f.Kind, f.Msg) == obs.Text {
			sameCause = append(sameCause, f)
		}
	}
	if len(sameCause) == 0 && obs.Class == "err" && !injected.MatchString(obs.Text) {
		// an error of thunder's own (its text is not compared): an enum value without a name, reported
		// at the very element that holds it, whatever the execution mode
		for _, f := range fs {
			if f.Kind == "badenum" && reflect.DeepEqual(f.Path, obs.Path) {
				return "", ""
			}
		}
		for _, f := range fs {
			if f.Kind == "badenum" {
				return "wrong-error-path", fmt.Sprintf("got path %v (%q); the enum values without a name are at %s", obs.Path, obs.Full, js(fs))
			}
		}
	}
	if len(sameCause) == 0 {
		return "error-not-from-a-needed-failing-field", fmt.Sprintf("got %s; needed failures: %s", obs, js(fs))
	}
	if obs.Class == "custom" {
		// handed back as it is: no path, and its own Error() text
		if len(obs.Path) != 0 || obs.Full != "detail of "+sameCause[0].Msg {
			return "safe-error-decorated", fmt.Sprintf("got %q", obs.Full)
		}
		return "", ""
	}
	if obs.Class == "safe" || obs.Class == "wrapped" {
		if len(obs.Path) != 0 || obs.Full != obs.Text {
			return "safe-error-decorated", fmt.Sprintf("got %q want %q", obs.Full, obs.Text)
		}
		return "", ""
	}
	for _, f := range sameCause {
		if reflect.DeepEqual(f.Path, obs.Path) || (len(obs.Path) == 0 && len(f.Path) == 0) {
			goto pathok
		}
		if isBatchMode(md, f.Type, f.Field) && pathSim(f.Path, obs.Path) {
			batchElsewhere++
			goto pathok
		}
	}
	return "wrong-error-path", fmt.Sprintf("got path %v (%q); failures with this cause: %s", obs.Path, obs.Full, js(sameCause))
pathok:
	if obs.Class == "err" || obs.Class == "wrapsafe" || obs.Class == "cancelwrap" || obs.Class == "cancel" {
		segs := obs.Path
		if qname != "" {
			segs = append([]string{qname}, segs...)
		}
		want := strings.Join(segs, ".") + ": " + obs.Text
		if obs.Full != want {
			return "error-text-format", fmt.Sprintf("got %q want %q", obs.Full, want)
		}
	}
	return "", ""
}

func main() {
	log.SetOutput(ioutil.Discard)
	o := vh.ParseFlags()
	run := vh.NewRun("C16", o)
	run.Rule = "as C01 with 0-25% of resolver results failing (error / SafeError / WrapAsSafeError / ordinary error wrapping a safe one with %w / user-defined SanitizedError with a public text other than its Error() text / ordinary error wrapping context.Canceled or DeadlineExceeded / panic), one POST to the HTTP handler under 2 execution-mode assignments x (scripted, FIFO, LIFO, goroutines) plus one subscribe over a fake JSONSocket; non-trivial = at least one needed resolver fails and the scripted run executed at least 3 work units, or at least two needed resolvers fail; distinct by query text + data + modes"
	r := vh.NewRng(o.Seed)

	var cases []*gqlgen.Case
	if o.Replay != "" {
		c := &gqlgen.Case{}
		if vh.ReadReplayCase(o.Replay, c) {
			c.Fix()
			c.Origin = "replay"
			cases = append(cases, c)
		}
	} else if o.Search != "" {
		// failing-input search: variants of the cases on which model and implementation disagreed
		// (fresh cases when there are none); the oracle only, no Coq cases
		seeds := gqlgen.ReadSeeds(o.Search)
		for i := 0; i < o.N; i++ {
			cr := r.Fork()
			if len(seeds) == 0 {
				cases = append(cases, genCase(cr))
			} else {
				cases = append(cases, gqlgen.Variant(cr, seeds[cr.Intn(len(seeds))], gqlgen.QOpts{PDir: 0, Depth: 3, AllowDup: true}, 15, true))
			}
		}
	} else {
		for _, f := range vh.CorpusFiles(o.Corpus) {
			c := &gqlgen.Case{}
			if vh.ReadReplayCase(f, c) {
				c.Fix()
				c.Origin = "corpus:" + filepath.Base(f)
				cases = append(cases, c)
			}
		}
		for i := 0; i < o.N; i++ {
			cases = append(cases, genCase(r.Fork()))
		}
	}

	const shard = 40
	var terms []string
	start := 0
	flush := func(end int) {
		if o.Search != "" {
			terms = nil
		}
		if len(terms) == 0 {
			return
		}
		run.WriteCasesV(fmt.Sprintf("cases_%d.v", start), []string{"Lib.Json", "Gql.Types", "Gql.Value", "Gql.Query", "Gql.Check", "Gql.Envelope", "Gql.Socket", "Gql.CheckSocket"}, "", "mismatches16s_from_sparse", 0, terms)
		terms = nil
		start = end
	}

	wsHangs := 0
	for idx, c := range cases {
		run.LogCase(idx, c)
		q := c.Query
		text := q.Text()
		ref := gqlgen.RefEval(c.Spec, c.Data, q.Prune())
		refJSON := roundTrip(ref.JSON)
		failing := len(ref.Failures) > 0
		reported := map[string]bool{}
		fail := func(sig, detail string) {
			if !reported[sig] {
				reported[sig] = true
				run.Fail(idx, sig, detail+"\nquery: "+text, c)
			}
		}
		var schemas, runs []string
		bad := false
		units := 0
		var ws gqlgen.WSResult
		haveWS := false
		var script scriptResult
		haveScript := false
		for mi, md := range c.Modes {
			b, err := gqlgen.Build(c.Spec, md)
			if err != nil {
				run.Fail(idx, "harness-schema-build", err.Error(), c)
				bad = true
				break
			}
			b.SetData(c.Data)
			schemas = append(schemas, gqlgen.CoqSchema(b.Schema))
			if failing {
				// premise of failing_resolver_fails_query_exact: no field of this mode assignment is run as a batch
				nb := true
				for _, m := range md {
					if m.Kind == "batch" || (m.Kind == "fallback" && m.UseBatch) {
						nb = false
					}
				}
				if nb {
					run.Hist("failing-run:exact-theorem-premise-holds(no field run as a batch)")
				} else {
					run.Hist("failing-run:some-field-run-as-a-batch(path up to the list index)")
				}
			}
			var ch []int
			if mi < len(c.Choices) {
				ch = c.Choices[mi]
			}
			scripted := &gqlgen.Scripted{Choices: ch}
			scheds := []struct {
				name string
				s    graphql.WorkScheduler
			}{
				{"scripted", scripted},
				{"fifo", &gqlgen.Scripted{}},
				{"lifo", &gqlgen.Scripted{LIFO: true}},
				{"goroutines", graphql.NewImmediateGoroutineScheduler()},
			}
			for si, sc := range scheds {
				obs := gqlgen.Exec(b, text, q.Vars, sc.s)
				tag := fmt.Sprintf("modes#%d/%s", mi, sc.name)
				if obs.Mutated != "" {
					fail("execute-modifies-parsed-query", tag+": "+obs.Mutated)
				}
				switch {
				case obs.Stage == "harness":
					fail("escaped-panic-or-timeout", tag+": "+obs.String())
					bad = true
				case obs.Stage == "parse" || obs.Stage == "prepare":
					fail("harness-generated-invalid-query", obs.String())
					bad = true
				case obs.Stage == "execute-partial-data":
					fail("partial-data-with-error", tag+": "+obs.String())
				case obs.OK && failing:
					fail("failure-swallowed", fmt.Sprintf("%s returned data although needed resolvers fail: %s\nfailures: %s", tag, js(obs.JSON), js(ref.Failures)))
				case !obs.OK && !failing:
					fail("error-without-failing-resolver", tag+": "+obs.String())
				case obs.OK:
					if !reflect.DeepEqual(obs.JSON, refJSON) {
						fail("result-differs-from-reference", fmt.Sprintf("%s\ngot:  %s\nwant: %s", tag, js(obs.JSON), js(refJSON)))
					}
				default:
					if sig, det := checkError(obs, ref.Failures, md, q.Name); sig != "" {
						fail(sig, tag+": "+det)
					}
					run.Hist("error-class:" + obs.Class)
				}
				if bad {
					break
				}
				if si == 0 {
					units = len(scripted.Log)
					runs = append(runs, gqlgen.CoqRun(mi, 0, ch, obs))
				} else if si == 3 {
					runs = append(runs, gqlgen.CoqRun(mi, 0, nil, obs))
				}
			}
			if bad {
				break
			}
			if mi == 0 {
				// the same over HTTP: a failing resolver always yields an error response, and no data
				hr := gqlgen.HTTPPost(b, text, q.Vars, &gqlgen.Scripted{})
				checkHTTP(hr, ref.Failures, failing, refJSON, fail)
			}
			if mi == 0 && wsHangs < 3 {
				// websocket clause
				var ch2 []int
				if len(c.Choices) > 2 {
					ch2 = c.Choices[2]
				}
				ws = gqlgen.Subscribe(b, text, q.Vars, &gqlgen.Scripted{Choices: ch2})
				haveWS = true
				if ws.TimedOut {
					wsHangs++
				}
				checkWS(ws, ref.Failures, failing, fail)
				if !ws.TimedOut && len(c.Choices) > 2 {
					// a whole script of inbound envelopes on one connection
					script = runScript(b, text, q.Vars, fifoSched{}, genScript(c.Choices[2]), 2)
					haveScript = true
					if script.Hung {
						wsHangs++
					}
					checkScript(script, ref.Failures, failing, fail)
					for _, st := range script.Steps {
						run.Hist("script-step:" + st.Msg + "/" + st.Q)
						for _, e := range st.Events {
							if e.Kind == "error" {
								cls := "own"
								if e.Msg == generic {
									cls = "generic"
								} else if allowedMessage(e.Msg, ref.Failures) {
									cls = "safe-text"
								}
								run.Hist("script-error-envelope:" + cls)
							}
						}
					}
				}
			}
		}
		if bad {
			continue
		}
		run.Hist(fmt.Sprintf("needed-failures:%d", min(len(ref.Failures), 4)))
		for _, f := range ref.Failures {
			if f.AfterNil && (f.Kind == "err" || f.Kind == "panic" || f.Kind == "wrapsafe" || f.Kind == "cancelwrap" || f.Kind == "cancel" || f.Kind == "badenum") {
				run.Hist("unsafe-failure-after-nil-list-entry")
				break
			}
		}
		nontrivial := (failing && units >= 3) || len(ref.Failures) >= 2
		run.Count(text+"|"+js(c.Data)+"|"+js(c.Modes), nontrivial)
		if failing {
			run.Sample(map[string]interface{}{"query": text, "needed_failures": ref.Failures, "ws": ws.Envelopes})
		}
		modelled := true
		for _, f := range ref.Failures {
			if f.Kind == "badenum" {
				modelled = false // enum maps are outside the model
				run.Hist("enum-value-without-name")
				break
			}
		}
		if !modelled {
			continue
		}
		wsTerm := "(@None (list wsevent))"
		if haveWS && !ws.TimedOut {
			wsTerm = "(Some " + coqWS(ws) + ")"
		}
		scTerm := "(@None script)"
		if haveScript && !script.Hung {
			scTerm = "(Some " + coqScript(script, ref.Failures) + ")"
		}
		terms = append(terms, fmt.Sprintf("(%d, (%s, %s, %s))", idx, gqlgen.CoqCase(schemas, c.Data, q.Eff(), []string{gqlgen.CoqQuery(q)}, runs), wsTerm, scTerm))
		if len(terms) >= shard {
			flush(idx + 1)
		}
	}
	flush(len(cases))
	for i := 0; i < batchElsewhere; i++ {
		run.Hist("whole-batch-failure-reported-at-first-destination-not-at-failing-source")
	}
	run.Finish()
}

// checkWS evaluates clause (iv): only safe messages verbatim, everything else the generic message;
// an initially failing subscription is reported once and then closed.
func checkWS(ws gqlgen.WSResult, fs []gqlgen.RefFailure, failing bool, fail func(sig, detail string)) {
	if ws.TimedOut && failing && len(ws.Envelopes) == 0 {
		fail("ws-failing-subscription-not-reported", "no envelope at all for a subscription whose first computation fails; needed failures "+js(fs))
		return
	}
	if ws.TimedOut {
		fail("ws-timeout", js(ws))
		return
	}
	var errs, updates []map[string]interface{}
	for _, e := range ws.Envelopes {
		switch e["type"] {
		case "error":
			errs = append(errs, e)
		case "update":
			updates = append(updates, e)
		}
	}
	all := js(ws.Envelopes) + js(ws.Resubscribe)
	for _, f := range fs {
		if f.Kind == "safe" || f.Kind == "wrapped" {
			continue
		}
		if f.Kind == "custom" {
			// only its SanitizedError() text may be sent, never its Error() text
			if strings.Contains(all, "detail of "+f.Msg) {
				fail("ws-unsafe-text-leaked", fmt.Sprintf("Error() text of a custom sanitized error reached the socket: %s", all))
			}
			continue
		}
		if strings.Contains(all, f.Msg) {
			fail("ws-unsafe-text-leaked", fmt.Sprintf("text of %s failure %q reached the socket: %s", f.Kind, f.Msg, all))
		}
	}
	if strings.Contains(all, "inner secret") || strings.Contains(all, "goroutine ") {
		fail("ws-unsafe-text-leaked", all)
	}
	if !failing {
		if len(errs) != 0 || len(updates) != 1 {
			fail("ws-unexpected-envelopes", js(ws.Envelopes))
		}
		// the subscription lives on: the same id is refused
		// (refused: one error envelope for that id and no update; thunder's wording is its own business)
		if len(ws.Resubscribe) != 1 || ws.Resubscribe[0]["type"] != "error" || ws.Resubscribe[0]["id"] != "s1" {
			fail("ws-live-subscription-id-reusable", js(ws.Resubscribe))
		}
		return
	}
	if len(errs) != 1 || len(updates) != 0 {
		fail("ws-initial-failure-not-reported-exactly-once", js(ws.Envelopes))
		return
	}
	e := errs[0]
	msg, _ := e["message"].(string)
	ok := allowedMessage(msg, fs)
	if !ok || e["id"] != "s1" {
		fail("ws-error-message-wrong", fmt.Sprintf("envelope %s; needed failures %s", js(e), js(fs)))
	}
	// closed: one Subscribe and one Unsubscribe logged, and the id can be used again (the second
	// subscription fails the same way: one more error envelope, not "duplicate subscription")
	if !reflect.DeepEqual(ws.Log, []string{"subscribe:s1", "unsubscribe:s1"}) {
		fail("ws-failed-subscription-not-closed", "logger saw "+js(ws.Log))
	}
	// the second subscription fails the way the first did: an error envelope of a needed failure
	for _, e2 := range ws.Resubscribe {
		m2, _ := e2["message"].(string)
		if e2["type"] != "error" || !allowedMessage(m2, fs) {
			fail("ws-failed-subscription-not-closed", "subscribing again with the same id: "+js(ws.Resubscribe))
		}
	}
}

// allowedMessage: the message an error envelope may carry when the needed failures are fs.
func allowedMessage(msg string, fs []gqlgen.RefFailure) bool {
	for _, f := range fs {
		switch f.Kind {
		case "safe", "wrapped":
			if msg == f.Msg {
				return true
			}
		case "custom":
			if msg == "public "+f.Msg {
				return true
			}
		default:
			if msg == generic {
				return true
			}
		}
	}
	return false
}

// checkHTTP: over HTTP a failing resolver yields an error response without data, carrying the text of
// one of the needed failures; otherwise the data of the reference evaluator.
func checkHTTP(hr gqlgen.HTTPResult, fs []gqlgen.RefFailure, failing bool, refJSON interface{}, fail func(sig, detail string)) {
	if hr.TimedOut {
		fail("http-no-response", "the HTTP handler did not return")
		return
	}
	if !failing {
		if len(hr.Errors) != 0 || !reflect.DeepEqual(hr.Data, refJSON) {
			fail("http-result-differs", fmt.Sprintf("body %s\nwant data %s", hr.Body, js(refJSON)))
		}
		return
	}
	if len(hr.Errors) == 0 || hr.Data != nil {
		fail("http-failure-not-reported", fmt.Sprintf("status %d body %q; needed failures %s", hr.Status, hr.Body, js(fs)))
		return
	}
	for _, f := range fs {
		want := gqlgen.FailText(f.Kind, f.Msg)
		if f.Kind == "custom" {
			want = "detail of " + f.Msg
		}
		if f.Kind == "badenum" {
			if strings.Contains(hr.Errors[0], strings.Join(f.Path, ".")+": ") {
				return
			}
			continue
		}
		if strings.Contains(hr.Errors[0], want) {
			return
		}
	}
	fail("http-error-not-from-a-needed-failing-field", fmt.Sprintf("errors %s; needed failures %s", js(hr.Errors), js(fs)))
}

func coqWS(ws gqlgen.WSResult) string {
	var xs []string
	for _, e := range ws.Envelopes {
		id, _ := e["id"].(string)
		switch e["type"] {
		case "error":
			m, _ := e["message"].(string)
			if m == generic {
				m = modelGeneric
			}
			xs = append(xs, fmt.Sprintf("WError %s %s", vh.CoqString(id), vh.CoqString(m)))
		case "update":
			xs = append(xs, "WUpdate "+vh.CoqString(id))
		default:
			xs = append(xs, "WOther "+vh.CoqString(id))
		}
	}
	closed := false
	for _, l := range ws.Log {
		if l == "unsubscribe:s1" {
			closed = true
		}
	}
	if closed {
		xs = append(xs, `WClosed "s1"`)
	}
	return vh.CoqList(xs)
}

func min(a, b int) int {
	if a < b {
		return a
	}
	return b
}
