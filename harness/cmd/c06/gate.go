package main

import (
	"context"
	"fmt"
	"strings"
	"sync"
	"sync/atomic"
	"time"

	"github.com/samsarahq/thunder/federation"
	"github.com/samsarahq/thunder/graphql"

	"verifharness/pkg/fedgen"
	"verifharness/pkg/vh"
)

// A schema refresh that lands in the middle of a request (the property quantifies over all interleavings of
// requests with periodic schema refreshes; the model's reading is: a request uses one planner throughout).
//
// The request is held at its root sub-queries (a gate in the services' clients), i.e. after planning and before
// any hop.  Meanwhile the planner a refresh would install is installed -- built from a different but compatible
// set of service versions, as in a rolling deploy: services the request only reaches by hops are gone from it, and
// every remaining (service, object) identifies the object by id alone -- and the request is released.  It must
// answer exactly as it does without the refresh.

func runGatewayOnce(g *gateway, c *Case) (res interface{}, errs string) {
	ctx, cancel := context.WithTimeout(context.Background(), 3*time.Second)
	defer cancel()
	return runGatewayCtx(ctx, g, c)
}

func runGatewayCtx(ctx context.Context, g *gateway, c *Case) (res interface{}, errs string) {
	type out struct {
		v   interface{}
		err string
	}
	ch := make(chan out, 1)
	go func() {
		var o out
		defer func() {
			if e := recover(); e != nil {
				o.err = "panic: " + fmt.Sprint(e)
			}
			ch <- o
		}()
		q, err := graphql.Parse(c.text(), c.variables())
		if err != nil {
			o.err = "parse: " + err.Error()
			return
		}
		v, _, err := g.exec.Execute(ctx, q, nil)
		if err != nil {
			o.err = "execute: " + firstLine(err.Error())
			return
		}
		o.v, err = canonJSON(v)
		if err != nil {
			o.err = "marshal: " + err.Error()
		}
	}()
	select {
	case o := <-ch:
		return o.v, o.err
	case <-time.After(4 * time.Second):
		return nil, "timeout"
	}
}

func isHop(text string) bool { return strings.HasPrefix(text, "_federation {") }

func refreshMidRequest(run *vh.Run, idx int, c *Case, g *gateway, w *fedgen.World, subs []subRequest, plan *federation.Plan, plain interface{}) {
	rootSvc, hopSvc := map[string]bool{}, map[string]bool{}
	for _, s := range subs {
		if isHop(s.Text) {
			hopSvc[s.Service] = true
		} else {
			rootSvc[s.Service] = true
		}
	}
	if len(hopSvc) == 0 || plan == nil {
		return
	}
	// the versions the refresh sees
	changed := false
	var alt []fedgen.Service
	for _, s := range c.Services {
		if hopSvc[s.Name] && !rootSvc[s.Name] {
			changed = true // gone
			continue
		}
		a := fedgen.CloneService(s)
		for i := range a.Objects {
			if a.Objects[i].KeyVariant != 0 {
				a.Objects[i].KeyVariant = 0
				changed = true
			}
		}
		alt = append(alt, a)
	}
	if !changed || len(alt) == 0 {
		run.Hist("refresh-mid-request:no-different-version")
		return
	}
	clients := map[string]federation.ExecutorClient{}
	var pB *federation.Planner
	var sB *graphql.Schema
	var altSync *syncer // kept for refresh_trace.go: the merged schema the other planner was built from
	err := func() (err error) {
		defer func() {
			if e := recover(); e != nil {
				err = fmt.Errorf("panic: %v", e)
			}
		}()
		for _, sv := range alt {
			sb, err := fedgen.Build(sv, w, fedgen.AllColors)
			if err != nil {
				return err
			}
			built, err := sb.Build()
			if err != nil {
				return err
			}
			srv, err := federation.NewServer(built)
			if err != nil {
				return err
			}
			clients[sv.Name] = &federation.DirectExecutorClient{Client: srv}
		}
		altSync = &syncer{clients: clients, selector: g.sel}
		pB, sB, err = altSync.FetchPlannerAndSchema(context.Background())
		return err
	}()
	if err != nil || pB == nil {
		run.Hist("refresh-mid-request:other-version-does-not-build")
		return
	}
	// the gate: every root sub-query of the request waits until the planner has been swapped
	expected := int32(0)
	for _, a := range plan.After {
		if a.Service != "" {
			expected++
		}
	}
	var arrived int32
	all := make(chan struct{})
	release := make(chan struct{})
	var once sync.Once
	gate := func(text string) error {
		if isHop(text) {
			return nil
		}
		if atomic.AddInt32(&arrived, 1) >= expected {
			once.Do(func() { close(all) })
		}
		<-release
		return nil
	}
	for _, cl := range g.clients {
		if rc, ok := cl.(*recClient); ok {
			rc.gate = gate
		}
	}
	defer func() {
		for _, cl := range g.clients {
			if rc, ok := cl.(*recClient); ok {
				rc.gate = nil
			}
		}
	}()
	type res struct {
		v   interface{}
		err string
	}
	done := make(chan res, 1)
	go func() {
		v, e := runGatewayOnce(g, c)
		done <- res{v, e}
	}()
	swapped := false
	select {
	case <-all:
		// every goroutine of the request is parked inside a client: nothing reads the executor's maps now
		g.exec.VerifSetPlanner(pB, sB)
		swapped = true
	case <-time.After(500 * time.Millisecond):
	case r := <-done:
		done <- r
	}
	close(release)
	r := <-done
	if !swapped {
		run.Hist("refresh-mid-request:not-synchronised")
		return
	}
	run.Hist("refresh-mid-request:compared")
	recordRefreshTrace(run, idx, c, g, w, altSync, plan, r.v, r.err)
	switch {
	case r.err != "":
		failCapped(run, idx, "gateway-request-fails-when-schema-refresh-lands-mid-request", fmt.Sprintf("planner swapped between planning and the first hop (new version set: %s): %s; without the refresh: %s; query: %s", altSummary(c, alt), short(r.err, 300), short(js(plain), 200), short(c.text(), 400)), *c)
	case !deepEqualJSON(r.v, plain):
		failCapped(run, idx, "gateway-answer-depends-on-schema-refresh-mid-request", fmt.Sprintf("planner swapped between planning and the first hop (new version set: %s): %s; without the refresh: %s; query: %s", altSummary(c, alt), short(js(r.v), 300), short(js(plain), 300), short(c.text(), 400)), *c)
	}
}

func altSummary(c *Case, alt []fedgen.Service) string {
	var parts []string
	kept := map[string]bool{}
	for _, a := range alt {
		kept[a.Name] = true
	}
	for _, s := range c.Services {
		if !kept[s.Name] {
			parts = append(parts, s.Name+" gone")
		}
	}
	parts = append(parts, "objects keyed by id only")
	return strings.Join(parts, ", ")
}

// The caller's context is cancelled while a sub-query is in flight (the service call fails with the context's
// error): the request must fail -- never a "successful" answer with the fields of that sub-plan missing.
func cancelMidRequest(run *vh.Run, idx int, c *Case, g *gateway, subs []subRequest, plain interface{}) {
	hops := false
	for _, s := range subs {
		hops = hops || isHop(s.Text)
	}
	if len(subs) == 0 {
		return
	}
	ctx, cancel := context.WithTimeout(context.Background(), 3*time.Second)
	defer cancel()
	var once sync.Once
	var hit int32
	gate := func(text string) error {
		if isHop(text) != hops {
			return nil
		}
		var err error
		once.Do(func() {
			atomic.StoreInt32(&hit, 1)
			cancel()
			err = ctx.Err()
		})
		return err
	}
	for _, cl := range g.clients {
		if rc, ok := cl.(*recClient); ok {
			rc.gate = gate
		}
	}
	defer func() {
		for _, cl := range g.clients {
			if rc, ok := cl.(*recClient); ok {
				rc.gate = nil
			}
		}
	}()
	v, errs := runGatewayCtx(ctx, g, c)
	if atomic.LoadInt32(&hit) == 0 {
		return
	}
	where := "root sub-query"
	if hops {
		where = "hop"
	}
	run.Hist("cancel-mid-request:" + where)
	if errs == "" && !deepEqualJSON(v, plain) {
		failCapped(run, idx, "gateway-answers-partially-when-request-is-cancelled", fmt.Sprintf("context cancelled during a %s: Execute returns no error and %s; the full answer is %s; query: %s", where, short(js(v), 300), short(js(plain), 300), short(c.text(), 400)), *c)
	}
}
