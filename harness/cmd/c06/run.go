package main

import (
	"bytes"
	"context"
	"encoding/json"
	"fmt"
	"reflect"
	"sort"
	"strings"
	"sync"
	"time"

	"github.com/samsarahq/thunder/federation"
	"github.com/samsarahq/thunder/graphql"
	"github.com/samsarahq/thunder/graphql/introspection"
	"verifharness/pkg/fedgen"
)

// ---- recording executor client ----

type subRequest struct {
	Service string `json:"service"`
	Kind    string `json:"kind"`
	Text    string `json:"text"`
	Problem string `json:"problem,omitempty"`
	Sig     string `json:"sig,omitempty"`
}

type recClient struct {
	name    string
	inner   federation.ExecutorClient
	schema  *graphql.Schema // the service's own schema (with introspection added, as the server has it)
	mu      *sync.Mutex
	log     *[]subRequest
	hookFn  func()
	lastBig time.Time
	bigSeq  int
	gate    func(text string) error // when set: called with the text of every non-introspection request before it is executed; an error is returned to the gateway as the service's failure
}

func cloneSS(ss *graphql.SelectionSet) *graphql.SelectionSet {
	if ss == nil {
		return nil
	}
	out := &graphql.SelectionSet{}
	for _, s := range ss.Selections {
		c := &graphql.Selection{Name: s.Name, Alias: s.Alias, SelectionSet: cloneSS(s.SelectionSet), Directives: s.Directives}
		if s.UnparsedArgs != nil {
			b, _ := json.Marshal(s.UnparsedArgs)
			var m map[string]interface{}
			json.Unmarshal(b, &m)
			c.UnparsedArgs = m
		}
		out.Selections = append(out.Selections, c)
	}
	for _, f := range ss.Fragments {
		out.Fragments = append(out.Fragments, &graphql.Fragment{On: f.On, SelectionSet: cloneSS(f.SelectionSet), Directives: f.Directives})
	}
	return out
}

func ssText(ss *graphql.SelectionSet) string {
	if ss == nil {
		return ""
	}
	var parts []string
	for _, s := range ss.Selections {
		t := s.Name
		if s.Alias != s.Name {
			t = s.Alias + ": " + s.Name
		}
		if len(s.UnparsedArgs) > 0 {
			b, _ := json.Marshal(s.UnparsedArgs)
			t += "(" + string(b) + ")"
		}
		for _, d := range s.Directives {
			b, _ := json.Marshal(d.Args)
			t += " @" + d.Name + string(b)
		}
		if s.SelectionSet != nil {
			t += " { " + ssText(s.SelectionSet) + " }"
		}
		parts = append(parts, t)
	}
	for _, f := range ss.Fragments {
		t := "... on " + f.On
		for _, d := range f.Directives {
			b, _ := json.Marshal(d.Args)
			t += " @" + d.Name + string(b)
		}
		parts = append(parts, t+" { "+ssText(f.SelectionSet)+" }")
	}
	return strings.Join(parts, " ")
}

// strictCheck: every field and every argument name the sub-query uses is declared by the service's own schema.
func strictCheck(typ graphql.Type, ss *graphql.SelectionSet) (sig, msg string) {
	switch t := typ.(type) {
	case *graphql.NonNull:
		return strictCheck(t.Type, ss)
	case *graphql.List:
		return strictCheck(t.Type, ss)
	case *graphql.Object:
		if ss == nil {
			return "", ""
		}
		for _, s := range ss.Selections {
			if s.Name == "__typename" {
				continue
			}
			f, ok := t.Fields[s.Name]
			if !ok {
				return "subquery-uses-field-unknown-to-service", t.Name + "." + s.Name
			}
			for a := range s.UnparsedArgs {
				if _, ok := f.Args[a]; !ok {
					return "subquery-uses-argument-unknown-to-service", t.Name + "." + s.Name + "(" + a + ")"
				}
			}
			if sg, m := strictCheck(f.Type, s.SelectionSet); sg != "" {
				return sg, m
			}
		}
		for _, fr := range ss.Fragments {
			if sg, m := strictCheck(t, fr.SelectionSet); sg != "" {
				return sg, m
			}
		}
	case *graphql.Union:
		if ss == nil {
			return "", ""
		}
		for _, fr := range ss.Fragments {
			m, ok := t.Types[fr.On]
			if !ok {
				return "subquery-uses-union-member-unknown-to-service", t.Name + " ... on " + fr.On
			}
			if sg, msg := strictCheck(m, fr.SelectionSet); sg != "" {
				return sg, msg
			}
		}
	}
	return "", ""
}

func (c *recClient) Execute(ctx context.Context, req *federation.QueryRequest) (resp *federation.QueryResponse, err error) {
	rec := subRequest{Service: c.name, Kind: req.Query.Kind, Text: ssText(req.Query.SelectionSet)}
	isIntrospection := strings.Contains(rec.Text, "__schema")
	if !isIntrospection {
		func() {
			defer func() {
				if e := recover(); e != nil {
					rec.Problem, rec.Sig = "panic in PrepareQuery: "+fmt.Sprint(e), "subquery-rejected-by-service"
				}
			}()
			var root graphql.Type = c.schema.Query
			if req.Query.Kind == "mutation" {
				root = c.schema.Mutation
			}
			if perr := graphql.PrepareQuery(ctx, root, cloneSS(req.Query.SelectionSet)); perr != nil {
				rec.Problem, rec.Sig = perr.Error(), "subquery-rejected-by-service"
			} else if sg, m := strictCheck(root, req.Query.SelectionSet); sg != "" {
				rec.Problem, rec.Sig = m, sg
			}
		}()
		c.mu.Lock()
		*c.log = append(*c.log, rec)
		c.mu.Unlock()
		if c.hookFn != nil {
			c.hookFn()
		}
		// large hop requests to one service that arrive together are answered in the reverse order of arrival
		if len(rec.Text) > 4000 && strings.HasPrefix(rec.Text, "_federation {") {
			c.mu.Lock()
			if time.Since(c.lastBig) > 150*time.Millisecond {
				c.bigSeq = 0
			}
			seq := c.bigSeq
			c.bigSeq++
			c.lastBig = time.Now()
			c.mu.Unlock()
			if seq < 2 {
				time.Sleep(time.Duration(2-seq) * 12 * time.Millisecond)
			}
		}
		if gate := c.gate; gate != nil {
			if gerr := gate(rec.Text); gerr != nil {
				return nil, gerr
			}
		}
	}
	return c.inner.Execute(ctx, req)
}

// ---- a schema syncer with a service selector (otherwise as federation.IntrospectionSchemaSyncer) ----

type syncer struct {
	clients  map[string]federation.ExecutorClient
	selector federation.ServiceSelector
	last     *federation.SchemaWithFederationInfo
}

func (s *syncer) FetchPlannerAndSchema(ctx context.Context) (*federation.Planner, *graphql.Schema, error) {
	schemas := map[string]map[string]*federation.IntrospectionQueryResult{}
	for name, cl := range s.clients {
		q, err := graphql.Parse(introspection.IntrospectionQuery, map[string]interface{}{})
		if err != nil {
			return nil, nil, err
		}
		resp, err := cl.Execute(ctx, &federation.QueryRequest{Query: q})
		if err != nil {
			return nil, nil, fmt.Errorf("fetching schema %s: %v", name, err)
		}
		var iq federation.IntrospectionQueryResult
		if err := json.Unmarshal(resp.Result, &iq); err != nil {
			return nil, nil, err
		}
		schemas[name] = map[string]*federation.IntrospectionQueryResult{"": &iq}
	}
	types, err := federation.ConvertVersionedSchemas(schemas)
	if err != nil {
		return nil, nil, fmt.Errorf("converting schemas: %v", err)
	}
	is := introspection.BareIntrospectionSchema(types.Schema)
	b, err := introspection.RunIntrospectionQuery(introspection.BareIntrospectionSchema(is))
	if err != nil {
		return nil, nil, err
	}
	var iq federation.IntrospectionQueryResult
	if err := json.Unmarshal(b, &iq); err != nil {
		return nil, nil, err
	}
	schemas[federation.IntrospectionClientName] = map[string]*federation.IntrospectionQueryResult{"": &iq}
	types, err = federation.ConvertVersionedSchemas(schemas)
	if err != nil {
		return nil, nil, fmt.Errorf("converting schemas (2): %v", err)
	}
	p, err := federation.NewPlanner(types, s.selector)
	if err != nil {
		return nil, nil, err
	}
	s.last = types
	return p, introspection.BareIntrospectionSchema(types.Schema), nil
}

// ---- one case ----

type result struct {
	buildErr   string
	gwJSON     interface{}
	gwErr      string
	monoJSON   interface{}
	monoErr    string
	subs       []subRequest
	plan       *federation.Plan
	planErr    string
	flat       *graphql.SelectionSet
	unionPaths map[string]bool
	timedOut   bool
}

func canonJSON(v interface{}) (interface{}, error) {
	b, err := json.Marshal(v)
	if err != nil {
		return nil, err
	}
	var out interface{}
	d := json.NewDecoder(bytes.NewReader(b))
	if err := d.Decode(&out); err != nil {
		return nil, err
	}
	return out, nil
}

type gateway struct {
	exec    *federation.Executor
	cancel  context.CancelFunc
	clients map[string]federation.ExecutorClient
	schemas map[string]*graphql.Schema
	mu      sync.Mutex
	log     []subRequest
	sel     federation.ServiceSelector
	sync    *syncer
}

func selectorOf(m map[string]string) federation.ServiceSelector {
	if len(m) == 0 {
		return nil
	}
	return func(typ, field string) string { return m[typ+"."+field] }
}

func buildGateway(c *Case, w *fedgen.World) (g *gateway, err error) {
	defer func() {
		if e := recover(); e != nil {
			err = fmt.Errorf("panic: %v", e)
		}
	}()
	g = &gateway{clients: map[string]federation.ExecutorClient{}, schemas: map[string]*graphql.Schema{}, sel: selectorOf(c.Selector)}
	for _, sv := range c.Services {
		sb, err := fedgen.Build(sv, w, fedgen.AllColors)
		if err != nil {
			return nil, err
		}
		built, err := sb.Build()
		if err != nil {
			return nil, err
		}
		srv, err := federation.NewServer(built) // adds introspection to built
		if err != nil {
			return nil, err
		}
		g.schemas[sv.Name] = built
		g.clients[sv.Name] = &recClient{name: sv.Name, inner: &federation.DirectExecutorClient{Client: srv}, schema: built, mu: &g.mu, log: &g.log}
	}
	ctx, cancel := context.WithCancel(context.Background())
	g.cancel = cancel
	execs := map[string]federation.ExecutorClient{}
	for k, v := range g.clients {
		execs[k] = v
	}
	g.sync = &syncer{clients: g.clients, selector: g.sel}
	g.exec, err = federation.NewExecutor(ctx, execs, &federation.SchemaSyncerConfig{
		SchemaSyncer:              g.sync,
		SchemaSyncIntervalSeconds: func(context.Context) int64 { return 3600 },
	})
	if err != nil {
		cancel()
		return nil, err
	}
	return g, nil
}

func runMonolith(c *Case, w *fedgen.World) (interface{}, string) {
	var res interface{}
	var errs string
	func() {
		defer func() {
			if e := recover(); e != nil {
				errs = "panic: " + fmt.Sprint(e)
			}
		}()
		sb, err := fedgen.Build(monolith(c.Services), w, fedgen.AllColors)
		if err != nil {
			errs = "build: " + err.Error()
			return
		}
		schema, err := sb.Build()
		if err != nil {
			errs = "build: " + err.Error()
			return
		}
		q, err := graphql.Parse(c.text(), c.variables())
		if err != nil {
			errs = "parse: " + err.Error()
			return
		}
		root := schema.Query
		if q.Kind == "mutation" {
			root = schema.Mutation
		}
		if err := graphql.PrepareQuery(context.Background(), root, q.SelectionSet); err != nil {
			errs = "prepare: " + err.Error()
			return
		}
		ex := graphql.NewExecutor(graphql.NewImmediateGoroutineScheduler())
		v, err := ex.Execute(context.Background(), root, nil, q)
		if err != nil {
			errs = "execute: " + err.Error()
			return
		}
		res, err = canonJSON(v)
		if err != nil {
			errs = "marshal: " + err.Error()
		}
	}()
	return res, errs
}

func runGateway(g *gateway, c *Case) (res interface{}, errs string, timedOut bool) {
	res, errs, timedOut, _ = runGateway2(g, c)
	return
}

func runGateway2(g *gateway, c *Case) (res interface{}, errs string, timedOut bool, mutated string) {
	type out struct {
		v       interface{}
		err     string
		mutated string
	}
	ch := make(chan out, 1)
	ctx, cancel := context.WithTimeout(context.Background(), 3*time.Second)
	defer cancel()
	go func() {
		var o out
		defer func() {
			if e := recover(); e != nil {
				o.err = "panic: " + fmt.Sprint(e)
			}
			ch <- o
		}()
		q, err := graphql.Parse(c.text(), c.variables())
		if err != nil {
			o.err = "parse: " + err.Error()
			return
		}
		before := ssText(q.SelectionSet)
		v, _, err := g.exec.Execute(ctx, q, nil)
		if err != nil {
			o.err = "execute: " + firstLine(err.Error())
			return
		}
		o.v, err = canonJSON(v)
		if err != nil {
			o.err = "marshal: " + err.Error()
			return
		}
		// the gateway must leave the parsed query as it found it ...
		if after := ssText(q.SelectionSet); after != before {
			o.mutated = "parsed query changed by Execute: " + short(before, 300) + "  ==>  " + short(after, 300)
		}
		// ... so executing the same parsed query again gives the same answer
		if v2, _, err2 := g.exec.Execute(ctx, q, nil); err2 != nil {
			o.mutated = "second Execute of the same parsed query fails: " + firstLine(err2.Error())
		} else if c2, _ := canonJSON(v2); !reflect.DeepEqual(c2, o.v) && o.mutated == "" {
			o.mutated = "second Execute of the same parsed query answers differently: " + short(js(c2), 300) + " vs " + short(js(o.v), 300)
		}
	}()
	select {
	case o := <-ch:
		return o.v, o.err, false, o.mutated
	case <-time.After(4 * time.Second):
		return nil, "timeout", true, ""
	}
}

func firstLine(s string) string {
	if i := strings.Index(s, "\n"); i >= 0 {
		return s[:i]
	}
	return s
}

// typenameAsked records, for every alias path (from the root, "/"-joined) whose type is a union, where the
// query itself asks for __typename: on the union selection (all members) or inside the fragment of a member.
// Elsewhere the __typename in the gateway's answer is the one the planner adds on every union selection (its
// own tests expect it in the output); the monolith has none there, and it is removed before comparing.
type asked struct {
	all     bool
	members map[string]bool
}

func unionTypenameStrips(c *Case, u map[string]fedgen.Ret, frags map[string]FragDef) map[string]*asked {
	out := map[string]*asked{}
	var walk func(path string, typ string, sels []Sel, union *asked)
	walk = func(path string, typ string, sels []Sel, union *asked) {
		for _, s := range sels {
			switch {
			case s.Spread != "":
				if !selIncluded(s, c.Vars) {
					continue
				}
				f := frags[s.Spread]
				walk(path, typ, f.Subs, union)
			case s.On != "" && !selIncluded(s, c.Vars):
				// an excluded fragment asks for nothing
			case s.On != "":
				if _, isObj := fedgen.ObjTypes[s.On]; isObj {
					// inside a member fragment: __typename asked here counts for that member of the enclosing union
					var u2 *asked
					if union != nil || out[path] != nil {
						u2 = &asked{members: map[string]bool{}}
					}
					walk(path, s.On, s.Subs, u2)
					if u2 != nil && u2.all && out[path] != nil {
						out[path].members[s.On] = true
					}
				} else {
					walk(path, typ, s.Subs, union)
				}
			default:
				if !selIncluded(s, c.Vars) {
					continue
				}
				if s.Name == "__typename" {
					if union != nil {
						union.all = true
					}
					continue
				}
				ret, ok := u[typ+"."+s.Name]
				if !ok {
					continue
				}
				p := path + "/" + s.Alias
				switch ret.Kind {
				case "obj":
					walk(p, ret.Target, s.Subs, nil)
				case "union":
					if out[p] == nil {
						out[p] = &asked{members: map[string]bool{}}
					}
					walk(p, ret.Target, s.Subs, out[p])
				}
			}
		}
	}
	walk("", "Query", c.Query, nil)
	return out
}

func stripAt(v interface{}, path string, strips map[string]*asked) interface{} {
	switch x := v.(type) {
	case []interface{}:
		for i := range x {
			x[i] = stripAt(x[i], path, strips)
		}
		return x
	case map[string]interface{}:
		if a := strips[path]; a != nil && !a.all {
			if t, ok := x["__typename"].(string); ok && !a.members[t] {
				delete(x, "__typename")
			}
		}
		for k, e := range x {
			x[k] = stripAt(e, path+"/"+k, strips)
		}
		return x
	}
	return v
}

func retMap(svcs []fedgen.Service) map[string]fedgen.Ret {
	m := map[string]fedgen.Ret{}
	for _, s := range svcs {
		for _, f := range s.Query {
			m["Query."+fedgen.GqlName(f.Name)] = f.Ret
		}
		for _, o := range s.Objects {
			for _, f := range o.Fields {
				m[o.Name+"."+fedgen.GqlName(f.Name)] = f.Ret
			}
		}
	}
	return m
}

func deepEqualJSON(a, b interface{}) bool { return reflect.DeepEqual(a, b) }

func sortedSubs(l []subRequest) []subRequest {
	out := append([]subRequest{}, l...)
	sort.SliceStable(out, func(i, j int) bool {
		if out[i].Service != out[j].Service {
			return out[i].Service < out[j].Service
		}
		return out[i].Text < out[j].Text
	})
	return out
}

// selIncluded: graphql.ShouldIncludeNode on the directives of a selection: kept only if every directive allows it.
func selIncluded(s Sel, vars map[string]bool) bool {
	return dirIncluded(s.Dir, vars) && dirIncluded(s.Dir2, vars)
}

func dirIncluded(d *Dir, vars map[string]bool) bool {
	if d == nil {
		return true
	}
	v := d.Val
	if d.Var != "" {
		v = vars[d.Var]
	}
	if d.Name == "skip" {
		return !v
	}
	return v
}
