package main

import (
	"context"
	"encoding/json"
	"fmt"
	"io/ioutil"
	"os"
	"os/exec"
	"path/filepath"
	"strings"
	"sync"
	"sync/atomic"
	"time"

	"verifharness/pkg/fedgen"
	"verifharness/pkg/vh"
)

// Schema refresh: while requests run, a goroutine swaps the executor's planner (exactly what Executor.poll does
// after a schema sync) between two planners for the same schemas that differ in their ServiceSelector.  Every
// answer must still equal the monolith's.  This runs in a child process: Executor.setPlanner writes the
// Executors map while runOnService reads it without synchronisation (DESIGN C06 B), which the Go runtime may
// abort with "concurrent map read and map write"; that abort is counted, not claimed.

type refreshOut struct {
	Requests   int      `json:"requests"`
	Swaps      int64    `json:"swaps"`
	Mismatches []string `json:"mismatches"`
	Errors     []string `json:"errors"`
	SubProblem []string `json:"sub_problems"`
}

func refreshChild(path string) {
	var c Case
	b, err := ioutil.ReadFile(path)
	if err != nil || json.Unmarshal(b, &c) != nil {
		fmt.Println(`{"errors":["cannot read case"]}`)
		os.Exit(3)
	}
	out := refreshOut{}
	w := fedgen.NewWorld(c.Seed)
	g, err := buildGateway(&c, w)
	if err != nil {
		out.Errors = append(out.Errors, "build: "+err.Error())
		b, _ := json.Marshal(out)
		fmt.Println(string(b))
		return
	}
	defer g.cancel()
	mono, monoErr := runMonolith(&c, fedgen.NewWorld(c.Seed))
	frags := map[string]FragDef{}
	for _, f := range c.Frags {
		frags[f.Name] = f
	}
	strips := unionTypenameStrips(&c, retMap(c.Services), frags)
	var want interface{}
	if monoErr == "" {
		want = normaliseUnions(mono, "", strips)
	}
	if ref, refErr := runReference(&c, fedgen.NewWorld(c.Seed)); refErr == "" {
		r, _ := canonJSON(ref)
		want = normaliseUnions(r, "", strips) // the reference arbitrates (see main.go)
	}
	// the alternative planner: every multi-service field forced to its *other* owner where there is one
	owners := map[string][]string{}
	for _, s := range c.Services {
		for _, f := range s.Query {
			k := "Query." + fedgen.GqlName(f.Name)
			owners[k] = append(owners[k], s.Name)
		}
		for _, o := range s.Objects {
			for _, f := range o.Fields {
				k := o.Name + "." + fedgen.GqlName(f.Name)
				owners[k] = append(owners[k], s.Name)
			}
		}
	}
	alt := map[string]string{}
	for k, os_ := range owners {
		if len(os_) > 1 {
			pick := os_[len(os_)-1]
			if c.Selector[k] == pick {
				pick = os_[0]
			}
			alt[k] = pick
		}
	}
	ctx := context.Background()
	pA, sA, errA := (&syncer{clients: g.clients, selector: selectorOf(c.Selector)}).FetchPlannerAndSchema(ctx)
	pB, sB, errB := (&syncer{clients: g.clients, selector: selectorOf(alt)}).FetchPlannerAndSchema(ctx)
	if errA != nil || errB != nil {
		out.Errors = append(out.Errors, fmt.Sprint("planner: ", errA, errB))
		b, _ := json.Marshal(out)
		fmt.Println(string(b))
		return
	}
	var stop int32
	var swaps int64
	var wg sync.WaitGroup
	wg.Add(1)
	go func() {
		defer wg.Done()
		for i := 0; atomic.LoadInt32(&stop) == 0; i++ {
			if i%2 == 0 {
				g.exec.VerifSetPlanner(pB, sB)
			} else {
				g.exec.VerifSetPlanner(pA, sA)
			}
			atomic.AddInt64(&swaps, 1)
			time.Sleep(50 * time.Microsecond)
		}
	}()
	var mu sync.Mutex
	var rw sync.WaitGroup
	for k := 0; k < 3; k++ {
		rw.Add(1)
		go func() {
			defer rw.Done()
			for i := 0; i < 12; i++ {
				gw, gwErr, timedOut := runGateway(g, &c)
				mu.Lock()
				out.Requests++
				switch {
				case timedOut:
					out.Errors = append(out.Errors, "timeout")
				case gwErr != "" && monoErr == "":
					out.Errors = append(out.Errors, gwErr)
				case gwErr == "" && want != nil:
					got := normaliseUnions(stripAt(gw, "", strips), "", strips)
					if !deepEqualJSON(got, want) {
						out.Mismatches = append(out.Mismatches, short(js(got), 300)+" vs "+short(js(want), 300))
					}
				}
				mu.Unlock()
			}
		}()
	}
	rw.Wait()
	atomic.StoreInt32(&stop, 1)
	wg.Wait()
	out.Swaps = atomic.LoadInt64(&swaps)
	g.mu.Lock()
	for _, s := range g.log {
		if s.Sig != "" {
			out.SubProblem = append(out.SubProblem, s.Sig+": "+s.Service+" {"+short(s.Text, 200)+"} "+s.Problem)
		}
	}
	g.mu.Unlock()
	b, _ = json.Marshal(out)
	fmt.Println(string(b))
}

func runRefresh(run *vh.Run, o *vh.Opts, cases []Case) {
	emitRefreshTraces(run) // the traces recorded by refreshMidRequest (refresh_trace.go), as their own shard for the model
	limit := 6
	if o.Tier == "thorough" {
		limit = 60
	}
	n := 0
	for idx, c := range cases {
		if !c.Refresh || n >= limit {
			continue
		}
		n++
		path := filepath.Join(o.Out, fmt.Sprintf("refresh_%d.json", idx))
		b, _ := json.Marshal(c)
		ioutil.WriteFile(path, b, 0o644)
		ctx, cancel := context.WithTimeout(context.Background(), 60*time.Second)
		cmd := exec.CommandContext(ctx, os.Args[0], "-refresh-child", path)
		outb, err := cmd.CombinedOutput()
		cancel()
		text := string(outb)
		if err != nil {
			if strings.Contains(text, "concurrent map") {
				run.Hist("refresh:executors-map-race-abort(not claimed)")
				continue
			}
			failCapped(run, idx, "refresh-run-crashed", short(text, 1500), c)
			continue
		}
		var ro refreshOut
		line := text
		if i := strings.LastIndex(strings.TrimSpace(text), "\n"); i >= 0 {
			line = strings.TrimSpace(text)[i+1:]
		}
		if json.Unmarshal([]byte(line), &ro) != nil {
			failCapped(run, idx, "refresh-run-crashed", "unparsable child output: "+short(text, 800), c)
			continue
		}
		run.Hist("refresh:cases")
		run.Histogram["refresh:requests"] += ro.Requests
		run.Histogram["refresh:planner-swaps"] += int(ro.Swaps)
		if len(ro.Mismatches) > 0 {
			failCapped(run, idx, "gateway-answer-changes-during-schema-refresh", ro.Mismatches[0], c)
		} else if len(ro.Errors) > 0 {
			failCapped(run, idx, "gateway-error-during-schema-refresh", ro.Errors[0], c)
		} else if len(ro.SubProblem) > 0 {
			failCapped(run, idx, "subquery-problem-during-schema-refresh", ro.SubProblem[0], c)
		}
	}
}
