package main

import (
	"verifharness/pkg/vh"
)

func refreshChild(path string) {}

func runRefresh(run *vh.Run, o *vh.Opts, cases []Case) {}
