package main

import (
	"context"
	"encoding/json"
	"fmt"
	"math"

	"github.com/samsarahq/thunder/federation"
	"github.com/samsarahq/thunder/graphql"
	"github.com/samsarahq/thunder/graphql/schemabuilder"
	"verifharness/pkg/vh"
)

// Numbers pass through the gateway unchanged: "the gateway returns the same JSON as a single server".  The
// random cases compare answers after decoding (float64), which cannot see a number that is re-printed with
// another text.  This scenario serves numeric extremes -- uint64 above MaxInt64, MinInt64 / MaxInt64, 2^53±1,
// very large and very small floats, exponents -- as scalar fields on two services (one reached through a hop)
// and large ids as federated keys, and compares the gateway's answer with the combined server's TEXTUALLY
// (encoding/json prints maps with sorted keys, so equal answers are equal texts).

type numN struct{ Id int64 }
type numKey struct{ Id int64 }

var numU64 = []uint64{math.MaxUint64, 1 << 63, (1 << 63) + 1, math.MaxUint64 - 1, 12345678901234567890, 1<<53 + 1, 1 << 53, 0, 7}
var numI64 = []int64{math.MinInt64, math.MaxInt64, 1<<53 + 1, -(1 << 53) - 1, 1<<53 - 1, -1, 0, 42, 999999999999999999}
var numF64 = []float64{1e300, 5e-324, math.MaxFloat64, 0.1, 1e21, 1e20, 1e-7, 123456789012345680000, -2.5, 3, 1 << 53, 9007199254740993, 1.5e-300, 2.5e15}

// ids that the argument parser (float64) carries exactly
var numIds = []int64{1 << 53, -(1 << 53), 1<<53 - 1, 4503599627370497, 0, 1, -7, 1 << 40}

func numPick(seed uint64, id int64, field string, n int) int {
	h := seed*0x9E3779B97F4A7C15 ^ uint64(id)*0xBF58476D1CE4E5B9
	for i := 0; i < len(field); i++ {
		h = (h ^ uint64(field[i])) * 0x100000001B3
	}
	h ^= h >> 31
	return int(h % uint64(n))
}

func numService(name string, seed uint64, ids []int64, withQuery bool, u, f, i []string) *schemabuilder.Schema {
	s := schemabuilder.NewSchemaWithName(name)
	obj := s.Object("N", numN{}, schemabuilder.FetchObjectFromKeys(func(args struct{ Keys []*numKey }) []*numN {
		out := make([]*numN, 0, len(args.Keys))
		for _, k := range args.Keys {
			out = append(out, &numN{Id: k.Id})
		}
		return out
	}))
	for _, fn := range u {
		fn := fn
		obj.FieldFunc(fn, func(n *numN) uint64 { return numU64[numPick(seed, n.Id, fn, len(numU64))] })
	}
	for _, fn := range f {
		fn := fn
		obj.FieldFunc(fn, func(n *numN) float64 { return numF64[numPick(seed, n.Id, fn, len(numF64))] })
	}
	for _, fn := range i {
		fn := fn
		obj.FieldFunc(fn, func(n *numN) int64 { return numI64[numPick(seed, n.Id, fn, len(numI64))] })
	}
	q := s.Query()
	if withQuery {
		q.FieldFunc("ns", func() []*numN {
			var out []*numN
			for _, id := range ids {
				out = append(out, &numN{Id: id})
			}
			return out
		})
		q.FieldFunc("top", func() uint64 { return numU64[numPick(seed, 0, "top", len(numU64))] })
		q.FieldFunc("ftop", func() []float64 { return numF64 })
	}
	s.Mutation()
	return s
}

// numbersCase runs the scenario of one case (Case.NumSeed != 0; replayable like every other case).
func numbersCase(run *vh.Run, idx int, c Case) {
	rounds := 1
	_ = rounds
	{
		sd := c.NumSeed
		var ids []int64
		for j := 0; j < 4; j++ {
			ids = append(ids, numIds[numPick(sd, int64(j), "id", len(numIds))])
		}
		text := "query Q { top ftop ns { id u1 f1 i1 u2 f2 i2 } }"
		caseDesc := c
		var gwText, monoText, problem string
		func() {
			defer func() {
				if e := recover(); e != nil {
					problem = "panic: " + fmt.Sprint(e)
				}
			}()
			clients := map[string]federation.ExecutorClient{}
			for _, spec := range []struct {
				name    string
				q       bool
				u, f, i []string
			}{{"s1", true, []string{"u1"}, []string{"f1"}, []string{"i1"}}, {"s2", false, []string{"u2"}, []string{"f2"}, []string{"i2"}}} {
				built, err := numService(spec.name, sd, ids, spec.q, spec.u, spec.f, spec.i).Build()
				if err != nil {
					problem = "build: " + err.Error()
					return
				}
				srv, err := federation.NewServer(built)
				if err != nil {
					problem = "server: " + err.Error()
					return
				}
				clients[spec.name] = &federation.DirectExecutorClient{Client: srv}
			}
			ctx, cancel := context.WithCancel(context.Background())
			defer cancel()
			execs := map[string]federation.ExecutorClient{}
			for n, c := range clients {
				execs[n] = c
			}
			ex, err := federation.NewExecutor(ctx, execs, &federation.SchemaSyncerConfig{
				SchemaSyncer:              &syncer{clients: clients},
				SchemaSyncIntervalSeconds: func(context.Context) int64 { return 3600 },
			})
			if err != nil {
				problem = "gateway: " + err.Error()
				return
			}
			q, err := graphql.Parse(text, map[string]interface{}{})
			if err != nil {
				problem = "parse: " + err.Error()
				return
			}
			v, _, err := ex.Execute(ctx, q, nil)
			if err != nil {
				problem = "gateway execute: " + firstLine(err.Error())
				return
			}
			b, err := json.Marshal(v)
			if err != nil {
				problem = "gateway marshal: " + err.Error()
				return
			}
			gwText = string(b)
			// the combined server
			mono, err := numService("mono", sd, ids, true, []string{"u1", "u2"}, []string{"f1", "f2"}, []string{"i1", "i2"}).Build()
			if err != nil {
				problem = "build monolith: " + err.Error()
				return
			}
			q2, _ := graphql.Parse(text, map[string]interface{}{})
			if err := graphql.PrepareQuery(context.Background(), mono.Query, q2.SelectionSet); err != nil {
				problem = "monolith prepare: " + err.Error()
				return
			}
			mv, err := graphql.NewExecutor(graphql.NewImmediateGoroutineScheduler()).Execute(context.Background(), mono.Query, nil, q2)
			if err != nil {
				problem = "monolith execute: " + err.Error()
				return
			}
			mb, err := json.Marshal(mv)
			if err != nil {
				problem = "monolith marshal: " + err.Error()
				return
			}
			monoText = string(mb)
		}()
		run.Hist("numbers:scenarios")
		switch {
		case problem != "":
			failCapped(run, idx, "numeric-extremes-scenario-fails", problem, caseDesc)
		case gwText != monoText:
			failCapped(run, idx, "gateway-prints-a-number-differently-from-the-combined-server", fmt.Sprintf("ids %v; gateway: %s; combined server: %s", ids, short(gwText, 700), short(monoText, 700)), caseDesc)
		}
	}
}
