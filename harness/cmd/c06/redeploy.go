package main

import (
	"context"
	"fmt"
	"sort"
	"strings"

	"github.com/samsarahq/thunder/federation"
	"verifharness/pkg/fedgen"
	"verifharness/pkg/vh"
)

// A refresh history across a redeployment ("all interleavings of requests with periodic schema refreshes"):
//
//	deployment 1 -- request -- redeployment (fields of federated objects move between services that both have the
//	object; nothing is added or removed, so the merged gateway schema is the same) -- schema refresh (the poller's
//	FetchPlannerAndSchema + setPlanner) -- the same request again.
//
// The combined server is the same before and after (one shared world, the same fields), so the second answer
// must equal the first, and every sub-query must still only use fields the receiving service exposes NOW.
// The gateway runs without a ServiceSelector here (routing is the planner's own).

var redeployBudget = 40 // gateways built for this oracle per run (quick); raised for the thorough tier in main

type fieldMove struct {
	obj, field, from, to string
}

// moves: for every field of a federated object that exactly one service serves, and that the query mentions, a
// move to another service that has the object; at most three of them, deterministic.
func redeployMoves(c *Case, text string) (alt []fedgen.Service, moved []fieldMove) {
	alt = make([]fedgen.Service, len(c.Services))
	for i, s := range c.Services {
		alt[i] = fedgen.CloneService(s)
	}
	owners := map[string][]int{} // "Obj.field" -> service indices
	has := map[string][]int{}    // Obj -> service indices
	for i, s := range c.Services {
		for _, o := range s.Objects {
			has[o.Name] = append(has[o.Name], i)
			for _, f := range o.Fields {
				k := o.Name + "." + f.Name
				owners[k] = append(owners[k], i)
			}
		}
	}
	var keys []string
	for k, os_ := range owners {
		if len(os_) == 1 {
			keys = append(keys, k)
		}
	}
	sort.Strings(keys)
	for _, k := range keys {
		if len(moved) >= 3 {
			break
		}
		parts := strings.SplitN(k, ".", 2)
		obj, fname := parts[0], parts[1]
		if !strings.Contains(text, fedgen.GqlName(fname)) {
			continue
		}
		from := owners[k][0]
		to := -1
		for _, j := range has[obj] {
			if j != from {
				to = j
				break
			}
		}
		if to < 0 {
			continue
		}
		// a field that returns an object or a union needs the target registered on the new service as well
		var fld fedgen.Field
		for _, o := range alt[from].Objects {
			if o.Name == obj {
				for _, f := range o.Fields {
					if f.Name == fname {
						fld = f
					}
				}
			}
		}
		if fld.Ret.Kind == "obj" || fld.Ret.Kind == "union" || fld.Ret.Kind == "leaf" || fld.Ret.Kind == "enum" {
			continue
		}
		usesEnum := false
		for _, a := range fld.Args {
			usesEnum = usesEnum || a.Kind == "enum" || a.Kind == "filter" || a.Kind == "req"
		}
		if usesEnum {
			continue
		}
		for oi := range alt[from].Objects {
			if alt[from].Objects[oi].Name == obj {
				var keep []fedgen.Field
				for _, f := range alt[from].Objects[oi].Fields {
					if f.Name != fname {
						keep = append(keep, f)
					}
				}
				alt[from].Objects[oi].Fields = keep
			}
		}
		for oi := range alt[to].Objects {
			if alt[to].Objects[oi].Name == obj {
				alt[to].Objects[oi].Fields = append(alt[to].Objects[oi].Fields, fld)
			}
		}
		moved = append(moved, fieldMove{obj, fedgen.GqlName(fname), c.Services[from].Name, c.Services[to].Name})
	}
	return alt, moved
}

func redeployRefresh(run *vh.Run, idx int, c *Case, w *fedgen.World, plain interface{}) {
	if redeployBudget <= 0 || c.Mutation || c.Wide {
		return
	}
	alt, moved := redeployMoves(c, c.text())
	if len(moved) == 0 {
		run.Hist("redeploy:no-field-to-move")
		return
	}
	redeployBudget--
	c1 := *c
	c1.Selector = nil
	g, err := buildGateway(&c1, w)
	if err != nil {
		run.Hist("redeploy:deployment-1-does-not-build")
		return
	}
	defer g.cancel()
	first, firstErr := runGatewayOnce(g, &c1)
	if firstErr != "" || !deepEqualJSON(deepCopyJSON(first), plain) {
		// without a selector the routing may differ, the answer may not: reported by the main oracle's comparison
		// with the monolith only if it also differs there; here it is just not a baseline
		if firstErr != "" {
			run.Hist("redeploy:baseline-request-fails")
			return
		}
	}
	// deployment 2: the same services, the moved fields served by their new owners
	ok := func() (ok bool) {
		defer func() {
			if e := recover(); e != nil {
				ok = false
			}
		}()
		for _, sv := range alt {
			sb, err := fedgen.Build(sv, w, fedgen.AllColors)
			if err != nil {
				return false
			}
			built, err := sb.Build()
			if err != nil {
				return false
			}
			srv, err := federation.NewServer(built)
			if err != nil {
				return false
			}
			rc, isRec := g.clients[sv.Name].(*recClient)
			if !isRec {
				return false
			}
			rc.inner = &federation.DirectExecutorClient{Client: srv}
			rc.schema = built
		}
		return true
	}()
	if !ok {
		run.Hist("redeploy:deployment-2-does-not-build")
		return
	}
	// the refresh, as Executor.poll does it: fetch from the (redeployed) services, install
	p, s, err := g.sync.FetchPlannerAndSchema(context.Background())
	if err != nil || p == nil {
		run.Hist("redeploy:refresh-fails")
		failCapped(run, idx, "schema-refresh-fails-after-redeployment", fmt.Sprintf("moved %v: %v", moved, err), *c)
		return
	}
	g.exec.VerifSetPlanner(p, s)
	g.mu.Lock()
	g.log = nil
	g.mu.Unlock()
	second, secondErr := runGatewayOnce(g, &c1)
	run.Hist("redeploy:compared")
	detail := func(what string) string {
		return fmt.Sprintf("after a redeployment that moved %v and a schema refresh: %s; before: %s; query: %s", moved, what, short(js(first), 300), short(c.text(), 400))
	}
	g.mu.Lock()
	subs := append([]subRequest{}, g.log...)
	g.mu.Unlock()
	for _, sr := range subs {
		if sr.Sig != "" {
			failCapped(run, idx, sr.Sig+"-after-redeployment-and-refresh", detail(fmt.Sprintf("service %s got {%s}: %s", sr.Service, short(sr.Text, 200), sr.Problem)), *c)
			return
		}
	}
	switch {
	case secondErr != "":
		failCapped(run, idx, "gateway-fails-after-redeployment-and-refresh", detail(short(secondErr, 300)), *c)
	case !deepEqualJSON(deepCopyJSON(second), deepCopyJSON(first)):
		failCapped(run, idx, "gateway-answer-changes-after-redeployment-and-refresh", detail(short(js(second), 300)), *c)
	}
}
