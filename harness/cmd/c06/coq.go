package main

import (
	"fmt"
	"sort"
	"strings"

	"github.com/samsarahq/thunder/federation"
	"github.com/samsarahq/thunder/graphql"
	"verifharness/pkg/fedgen"
	"verifharness/pkg/vh"
)

// ---- the gateway's schema as a Coq gschema term (read off the implementation's SchemaWithFederationInfo) ----

func rtypeOf(t graphql.Type) string {
	switch x := t.(type) {
	case *graphql.NonNull:
		return rtypeOf(x.Type)
	case *graphql.List:
		return rtypeOf(x.Type)
	case *graphql.Object:
		return "(RObj " + vh.CoqString(x.Name) + ")"
	case *graphql.Union:
		return "(RUnion " + vh.CoqString(x.Name) + ")"
	}
	return "RScalar"
}

func coqStrings(xs []string) string {
	ys := make([]string, len(xs))
	for i, x := range xs {
		ys[i] = vh.CoqString(x)
	}
	return vh.CoqList(ys)
}

type schemaInfo struct {
	term     string
	explicit bool
}

func gschemaCoq(types *federation.SchemaWithFederationInfo, c *Case) schemaInfo {
	all := map[graphql.Type]string{}
	federation.CollectTypes(types.Schema.Query, all)
	var objs []*graphql.Object
	var unions []*graphql.Union
	for t, name := range all {
		if strings.HasPrefix(name, "__") || name == "Federation" {
			continue // introspection types and the Federation plumbing object: never visited for a user query
		}
		switch x := t.(type) {
		case *graphql.Object:
			objs = append(objs, x)
		case *graphql.Union:
			unions = append(unions, x)
		}
	}
	sort.Slice(objs, func(i, j int) bool { return objs[i].Name < objs[j].Name })
	sort.Slice(unions, func(i, j int) bool { return unions[i].Name < unions[j].Name })
	var objNames, unionTerms, fieldTerms, fkeyTerms, selTerms, keyed []string
	explicit := true
	for _, o := range objs {
		objNames = append(objNames, o.Name)
		var fns []string
		for fn := range o.Fields {
			fns = append(fns, fn)
		}
		sort.Strings(fns)
		fk := map[string][]string{}
		for _, fn := range fns {
			if strings.HasPrefix(fn, "__") {
				continue
			}
			f := o.Fields[fn]
			var owners []string
			if info := types.Fields[f]; info != nil {
				for s, ok := range info.Services {
					if ok {
						owners = append(owners, s)
					}
				}
			}
			sort.Strings(owners)
			fieldTerms = append(fieldTerms, fmt.Sprintf("(%s, %s, %s, %s)", vh.CoqString(o.Name), vh.CoqString(fn), rtypeOf(f.Type), coqStrings(owners)))
			for s := range f.FederatedKey {
				fk[s] = append(fk[s], fn)
			}
			if len(owners) > 1 && fn != "id" && fn != "org" && fn != "val" && fn != "tag" && fn != "_federation" && c.Selector[o.Name+"."+fn] == "" {
				explicit = false
			}
		}
		var svcs []string
		for s := range fk {
			svcs = append(svcs, s)
		}
		sort.Strings(svcs)
		for _, s := range svcs {
			sort.Strings(fk[s])
			fkeyTerms = append(fkeyTerms, fmt.Sprintf("(%s, %s, %s)", vh.CoqString(o.Name), vh.CoqString(s), coqStrings(fk[s])))
		}
	}
	for _, u := range unions {
		var ms []string
		for m := range u.Types {
			ms = append(ms, m)
		}
		sort.Strings(ms)
		unionTerms = append(unionTerms, "("+vh.CoqString(u.Name)+", "+coqStrings(ms)+")")
	}
	var sk []string
	for k := range c.Selector {
		sk = append(sk, k)
	}
	sort.Strings(sk)
	for _, k := range sk {
		parts := strings.SplitN(k, ".", 2)
		selTerms = append(selTerms, fmt.Sprintf("(%s, %s, %s)", vh.CoqString(parts[0]), vh.CoqString(parts[1]), vh.CoqString(c.Selector[k])))
	}
	useKey := false
	for _, s := range c.Services {
		useKey = useKey || s.UseKey
	}
	if useKey {
		for _, n := range fedgen.ObjNames {
			keyed = append(keyed, n)
		}
	}
	return schemaInfo{term: fmt.Sprintf("(mk_gschema %s %s %s %s %s %s)", coqStrings(objNames), vh.CoqList(unionTerms), vh.CoqList(fieldTerms),
		vh.CoqList(fkeyTerms), vh.CoqList(selTerms), coqStrings(keyed)), explicit: explicit}
}

// ---- queries ----

func dirsCoq(s Sel, vars map[string]bool) string {
	var xs []string
	for _, d := range []*Dir{s.Dir, s.Dir2} {
		if d == nil {
			continue
		}
		v := d.Val
		if d.Var != "" {
			v = vars[d.Var]
		}
		xs = append(xs, "("+vh.CoqString(d.Name)+", "+vh.CoqBool(v)+")")
	}
	return vh.CoqList(xs)
}

func argsJSON(args []KV) map[string]interface{} {
	m := map[string]interface{}{}
	for _, kv := range args {
		m[kv.K] = jsonArg(kv.V)
	}
	return m
}

type nodePrinter struct {
	c      *Case
	frags  map[string]FragDef
	fields map[string]fedgen.Field
	rets   map[string]fedgen.Ret
	bad    bool
}

// selsCoq prints a structured selection list on type typ.
func (p *nodePrinter) selsCoq(typ string, sels []Sel) string {
	var xs []string
	for _, s := range sels {
		switch {
		case s.Spread != "":
			f := p.frags[s.Spread]
			xs = append(xs, "NFrag "+vh.CoqString(f.On)+" "+dirsCoq(s, p.c.Vars)+" "+p.selsCoq(p.innerType(typ, f.On), f.Subs))
		case s.On != "":
			xs = append(xs, "NFrag "+vh.CoqString(s.On)+" "+dirsCoq(s, p.c.Vars)+" "+p.selsCoq(p.innerType(typ, s.On), s.Subs))
		default:
			argkey := ""
			sub := "[]"
			if s.Name != "__typename" && s.Name != "id" && s.Name != "org" && s.Name != "val" && s.Name != "tag" {
				f, ok := p.fields[typ+"."+s.Name]
				if !ok {
					p.bad = true
				} else {
					ak, err := fedgen.CanonArgsFromJSON(f.Args, argsJSON(s.Args))
					if err != nil {
						p.bad = true
					}
					argkey = ak
					switch f.Ret.Kind {
					case "obj", "union":
						sub = p.selsCoq(f.Ret.Target, s.Subs)
					case "leaf":
						sub = p.selsCoq("Leaf", s.Subs)
					}
				}
			}
			xs = append(xs, fmt.Sprintf("NField %s %s %s %s %s %s %s", vh.CoqString(s.Alias), vh.CoqString(s.Name), vh.CoqJSON(argsJSON(s.Args)),
				vh.CoqString(argkey), dirsCoq(s, p.c.Vars), vh.CoqBool(len(s.Subs) > 0), sub))
		}
	}
	return vh.CoqList(xs)
}

// innerType: inside a fragment on an object type the selections are on that object; a fragment on a union
// (or on the same type) keeps the current type.
func (p *nodePrinter) innerType(cur, on string) string {
	if _, ok := fedgen.ObjTypes[on]; ok {
		return on
	}
	return cur
}

// ---- the implementation's structures ----

func goDirs(ds []*graphql.Directive) string {
	var xs []string
	for _, d := range ds {
		v := false
		if m, ok := d.Args.(map[string]interface{}); ok {
			v, _ = m["if"].(bool)
		}
		xs = append(xs, "("+vh.CoqString(d.Name)+", "+vh.CoqBool(v)+")")
	}
	return vh.CoqList(xs)
}

func goArgs(m map[string]interface{}) string {
	if m == nil {
		return "(JObj [])"
	}
	j, err := canonJSON(m)
	if err != nil {
		return "(JObj [])"
	}
	return vh.CoqJSON(j)
}

func goSelSet(ss *graphql.SelectionSet, withDirs bool) string {
	if ss == nil {
		return "[]"
	}
	var xs []string
	for _, s := range ss.Selections {
		dirs := "[]"
		if withDirs {
			dirs = goDirs(s.Directives)
		}
		xs = append(xs, fmt.Sprintf("NField %s %s %s \"\" %s %s %s", vh.CoqString(s.Alias), vh.CoqString(s.Name), goArgs(s.UnparsedArgs), dirs,
			vh.CoqBool(s.SelectionSet != nil), goSelSet(s.SelectionSet, withDirs)))
	}
	for _, f := range ss.Fragments {
		dirs := "[]"
		if withDirs {
			dirs = goDirs(f.Directives)
		}
		xs = append(xs, "NFrag "+vh.CoqString(f.On)+" "+dirs+" "+goSelSet(f.SelectionSet, withDirs))
	}
	return vh.CoqList(xs)
}

func goPlan(p *federation.Plan) string {
	var steps []string
	for _, s := range p.Path {
		if s.Kind == federation.KindField {
			steps = append(steps, "SField "+vh.CoqString(s.Name))
		} else {
			steps = append(steps, "SType "+vh.CoqString(s.Name))
		}
	}
	var after []string
	for _, a := range p.After {
		after = append(after, goPlan(a))
	}
	return fmt.Sprintf("(Plan %s %s %s %s %s)", vh.CoqList(steps), vh.CoqString(p.Service), vh.CoqString(p.Type), goSelSet(p.SelectionSet, true), vh.CoqList(after))
}

// ---- the world ----

func avalCoq(v interface{}, ret fedgen.Ret) string {
	switch x := v.(type) {
	case nil:
		return "ANull"
	case []interface{}:
		xs := make([]string, len(x))
		for i, e := range x {
			xs[i] = avalCoq(e, ret)
		}
		return "(AList " + vh.CoqList(xs) + ")"
	case int64:
		return "(AScalar (JNum " + vh.CoqZ(x) + "))"
	case bool:
		return "(AScalar (JBool " + vh.CoqBool(x) + "))"
	case string:
		if ret.Kind == "enum" && ret.Ptr {
			return "(AScalar (JNum " + vh.CoqZ(fedgen.ColorValue(x)) + "))"
		}
		return "(AScalar (JStr " + vh.CoqString(x) + "))"
	case fedgen.Ref:
		if ret.Kind == "union" {
			return "(AURef " + vh.CoqString(x.Type) + " " + vh.CoqZ(x.Id) + ")"
		}
		return "(ARef " + vh.CoqString(x.Type) + " " + vh.CoqZ(x.Id) + ")"
	case fedgen.LeafV:
		return "(ALeaf " + vh.CoqZ(x.Val) + " " + vh.CoqString(x.Tag) + ")"
	}
	panic(fmt.Sprintf("avalCoq %T", v))
}

func worldCoq(w *fedgen.World, fields map[string]fedgen.Field) (calls, orgs string) {
	snap := w.Snapshot()
	var keys []string
	for k := range snap {
		keys = append(keys, k)
	}
	sort.Strings(keys)
	var cs []string
	for _, k := range keys {
		parts := strings.SplitN(k, "|", 4)
		var id int64
		fmt.Sscan(parts[1], &id)
		f := fields[parts[0]+"."+parts[2]]
		cs = append(cs, fmt.Sprintf("(%s, %s, %s, %s, %s)", vh.CoqString(parts[0]), vh.CoqZ(id), vh.CoqString(parts[2]), vh.CoqString(parts[3]), avalCoq(snap[k], f.Ret)))
	}
	var os []string
	for _, n := range fedgen.ObjNames {
		for id := int64(0); id < 4; id++ {
			os = append(os, fmt.Sprintf("(%s, %s, %s)", vh.CoqString(n), vh.CoqZ(id), vh.CoqZ(w.Org(n, id))))
		}
	}
	return vh.CoqList(cs), vh.CoqList(os)
}

func emitCoq(run *vh.Run, all []*obs) {
	const shard = 40
	var terms []string
	start := 0
	flush := func() {
		if len(terms) == 0 {
			return
		}
		run.WriteCasesV(fmt.Sprintf("cases_%d.v", start), []string{"Lib.Json", "Federation.Normalize", "Federation.Planner", "Federation.Executor", "Federation.Check06"},
			"", "mismatches_from_sparse", 0, terms)
		start += len(terms)
		terms = nil
	}
	for _, ob := range all {
		if ob.coq != "" {
			terms = append(terms, fmt.Sprintf("(%d, %s)", ob.idx, ob.coq))
			if len(terms) >= shard {
				flush()
			}
		}
	}
	flush()
}
