package main

import "verifharness/pkg/vh"

func emitCoq(run *vh.Run, all []*obs) {}
