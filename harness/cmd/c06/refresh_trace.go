package main

import (
	"fmt"

	"github.com/samsarahq/thunder/federation"

	"verifharness/pkg/fedgen"
	"verifharness/pkg/vh"
)

// The labelled transition system of coq/theories/Federation/Refresh.v evaluated on traces the gateway just ran.
//
// refreshMidRequest (gate.go) produces a real trace with a refresh inside a request: Execute has captured the
// planner and planned (LBegin), every root sub-query is parked in a service client, setPlanner installs the planner
// of another version set (LRefresh), the request is released and runs its sub-plans (one LStep per root sub-plan) and
// answers (LEnd).  For a few such traces per run the case (snapshot at begin, world, query, snapshot installed by
// the refresh, number of root sub-plans, the answer the gateway gave) goes to its own Coq shard, where the model's
// gateway is run over the same labels and must deliver the same answer (Refresh.check_refresh_case).

const refreshTraceLimit = 12

var refreshTraceTerms []string

// recordRefreshTrace is called by refreshMidRequest once the held request has answered (v, errs) with the planner
// built by alt installed mid-request.
func recordRefreshTrace(run *vh.Run, idx int, c *Case, g *gateway, w *fedgen.World, alt *syncer, plan *federation.Plan, v interface{}, errs string) {
	if searching || len(refreshTraceTerms) >= refreshTraceLimit {
		return
	}
	// the cases the model is evaluated on (as for the main case stream, main.go)
	if c.QueryText != "" || c.Mutation || c.Wide || g.sync.last == nil || alt == nil || alt.last == nil || plan == nil || errs == "timeout" {
		return
	}
	frags := map[string]FragDef{}
	for _, f := range c.Frags {
		frags[f.Name] = f
	}
	if pa, ok := prunedForAnalysis(c, frags); !ok || hasPartialUnion(&pa, map[string]FragDef{}) {
		return
	}
	np := &nodePrinter{c: c, frags: frags, fields: fieldMap(c.Services)}
	qTerm := np.selsCoq("Query", c.Query)
	if np.bad {
		return
	}
	calls, orgs := worldCoq(w, fieldMap(c.Services))
	answer := "None"
	if errs == "" {
		answer = "(Some " + vh.CoqJSON(v) + ")"
	}
	steps := 0
	for _, a := range plan.After {
		if a != nil {
			steps++
		}
	}
	refreshTraceTerms = append(refreshTraceTerms, fmt.Sprintf("(%d, mk_refresh_case %s (world_of %s %s) %s %s %d %s)", idx,
		gschemaCoq(g.sync.last, c).term, calls, orgs, qTerm, gschemaCoq(alt.last, c).term, steps, answer))
	run.Hist("refresh-mid-request:trace-evaluated-in-model")
}

// emitRefreshTraces writes the shard (called once, after all cases have run).
func emitRefreshTraces(run *vh.Run) {
	if len(refreshTraceTerms) == 0 {
		return
	}
	run.WriteCasesV("cases_refresh_0.v", []string{"Lib.Json", "Federation.Normalize", "Federation.Planner", "Federation.Executor", "Federation.Premises", "Federation.Refresh"},
		"", "refresh_mismatches", 0, refreshTraceTerms)
	refreshTraceTerms = nil
}
