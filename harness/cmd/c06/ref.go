package main

import (
	"fmt"

	"verifharness/pkg/fedgen"
)

// Reference semantics: the answer GraphQL prescribes for the query over the world, computed directly (no
// thunder code involved).  It arbitrates when the monolith -- which runs through thunder's graphql executor and
// shares that executor's own defects (DESIGN F4, F5: fragments on unions) -- and the gateway disagree.

type refEval struct {
	w      *fedgen.World
	fields map[string]fedgen.Field // "Type.field" -> spec
	frags  map[string]FragDef
	useKey bool
}

func jsonArg(v interface{}) interface{} {
	switch x := v.(type) {
	case Enum:
		return x.E
	case map[string]interface{}:
		if e, ok := x["$enum"]; ok && len(x) == 1 {
			return e
		}
		m := map[string]interface{}{}
		for k, e := range x {
			m[k] = jsonArg(e)
		}
		return m
	case []interface{}:
		l := make([]interface{}, len(x))
		for i, e := range x {
			l[i] = jsonArg(e)
		}
		return l
	}
	return v
}

type collected struct {
	name string
	args []KV
	subs []Sel
}

func included(d *Dir) bool {
	if d == nil {
		return true
	}
	if d.Name == "skip" {
		return !d.Val
	}
	return d.Val
}

func (e *refEval) applies(on, typ string) bool {
	if on == typ {
		return true
	}
	for _, m := range fedgen.UnionMembers[on] {
		if m == typ {
			return true
		}
	}
	return false
}

func (e *refEval) collect(typ string, sels []Sel, order *[]string, acc map[string]*collected) {
	for _, s := range sels {
		if !included(s.Dir) || !included(s.Dir2) {
			continue
		}
		switch {
		case s.Spread != "":
			f := e.frags[s.Spread]
			if e.applies(f.On, typ) {
				e.collect(typ, f.Subs, order, acc)
			}
		case s.On != "":
			if e.applies(s.On, typ) {
				e.collect(typ, s.Subs, order, acc)
			}
		default:
			c := acc[s.Alias]
			if c == nil {
				c = &collected{name: s.Name, args: s.Args}
				acc[s.Alias] = c
				*order = append(*order, s.Alias)
			}
			c.subs = append(c.subs, s.Subs...)
		}
	}
}

func (e *refEval) object(typ string, id int64, sels []Sel) (map[string]interface{}, error) {
	out := map[string]interface{}{}
	var order []string
	acc := map[string]*collected{}
	e.collect(typ, sels, &order, acc)
	if e.useKey && typ != "Query" && typ != "Leaf" {
		out["__key"] = float64(id)
	}
	for _, alias := range order {
		c := acc[alias]
		switch {
		case c.name == "__typename":
			out[alias] = typ
		case c.name == "id" && typ != "Query":
			out[alias] = float64(id)
		case c.name == "org" && typ != "Query":
			out[alias] = float64(e.w.Org(typ, id))
		default:
			f, ok := e.fields[typ+"."+c.name]
			if !ok {
				return nil, fmt.Errorf("unknown field %s.%s", typ, c.name)
			}
			vals := map[string]interface{}{}
			for _, kv := range c.args {
				vals[kv.K] = jsonArg(kv.V)
			}
			ca, err := fedgen.CanonArgsFromJSON(f.Args, vals)
			if err != nil {
				return nil, fmt.Errorf("%s.%s: %v", typ, c.name, err)
			}
			v := e.w.Value(typ, id, c.name, ca, f.Ret, fedgen.AllColors)
			r, err := e.render(v, f.Ret, c.subs)
			if err != nil {
				return nil, err
			}
			out[alias] = r
		}
	}
	return out, nil
}

func (e *refEval) render(v interface{}, ret fedgen.Ret, subs []Sel) (interface{}, error) {
	switch x := v.(type) {
	case nil:
		return nil, nil
	case []interface{}:
		l := make([]interface{}, len(x))
		for i, el := range x {
			r, err := e.render(el, ret, subs)
			if err != nil {
				return nil, err
			}
			l[i] = r
		}
		return l, nil
	case int64:
		return float64(x), nil
	case string:
		if ret.Kind == "enum" && ret.Ptr {
			// schemabuilder types a *Color result as the scalar int64 (a pointer to a scalar alias), so the value is
			// rendered as a number; a plain Color is an ENUM and rendered by name
			return float64(fedgen.ColorValue(x)), nil
		}
		return x, nil
	case bool:
		return x, nil
	case fedgen.Ref:
		return e.object(x.Type, x.Id, subs)
	case fedgen.LeafV:
		out := map[string]interface{}{}
		var order []string
		acc := map[string]*collected{}
		e.collect("Leaf", subs, &order, acc)
		for _, a := range order {
			switch acc[a].name {
			case "val":
				out[a] = float64(x.Val)
			case "tag":
				out[a] = x.Tag
			case "__typename":
				out[a] = "Leaf"
			}
		}
		return out, nil
	}
	return nil, fmt.Errorf("render %T", v)
}

func fieldMap(svcs []fedgen.Service) map[string]fedgen.Field {
	m := map[string]fedgen.Field{}
	for _, s := range svcs {
		for _, f := range s.Query {
			m["Query."+fedgen.GqlName(f.Name)] = f
		}
		for _, o := range s.Objects {
			for _, f := range o.Fields {
				m[o.Name+"."+fedgen.GqlName(f.Name)] = f
			}
		}
	}
	return m
}

func runReference(c *Case, w *fedgen.World) (interface{}, string) {
	if c.QueryText != "" {
		return nil, "no structured query"
	}
	frags := map[string]FragDef{}
	for _, f := range c.Frags {
		frags[f.Name] = f
	}
	useKey := false
	for _, s := range c.Services {
		useKey = useKey || s.UseKey
	}
	// directive values given through variables
	var fix func(sels []Sel) []Sel
	fix = func(sels []Sel) []Sel {
		out := make([]Sel, len(sels))
		for i, s := range sels {
			out[i] = s
			if s.Dir != nil && s.Dir.Var != "" {
				d := *s.Dir
				d.Val = c.Vars[d.Var]
				out[i].Dir = &d
			}
			if s.Dir2 != nil && s.Dir2.Var != "" {
				d := *s.Dir2
				d.Val = c.Vars[d.Var]
				out[i].Dir2 = &d
			}
			out[i].Subs = fix(s.Subs)
		}
		return out
	}
	for k, f := range frags {
		f.Subs = fix(f.Subs)
		frags[k] = f
	}
	e := &refEval{w: w, fields: fieldMap(c.Services), frags: frags, useKey: useKey}
	r, err := e.object("Query", 0, fix(c.Query))
	if err != nil {
		return nil, err.Error()
	}
	return r, ""
}

// normaliseUnions: at union positions an object with nothing but __key is what the graphql executor renders as
// null when the query has no fragment for that member (DESIGN F5, outside this property): both are mapped to null.
func normaliseUnions(v interface{}, path string, strips map[string]*asked) interface{} {
	switch x := v.(type) {
	case []interface{}:
		for i := range x {
			x[i] = normaliseUnions(x[i], path, strips)
		}
		return x
	case map[string]interface{}:
		for k, e := range x {
			x[k] = normaliseUnions(e, path+"/"+k, strips)
		}
		if strips[path] != nil {
			n := len(x)
			if _, ok := x["__key"]; ok {
				n--
			}
			if n == 0 {
				return nil
			}
		}
		return x
	}
	return v
}

// hasPartialUnion: some selection of a union field has no fragment for one of the members.
func hasPartialUnion(c *Case, frags map[string]FragDef) bool {
	rets := retMap(c.Services)
	partial := false
	var walk func(typ string, sels []Sel)
	covered := func(sels []Sel, acc map[string]bool) {}
	var cov func(sels []Sel, acc map[string]bool)
	cov = func(sels []Sel, acc map[string]bool) {
		for _, s := range sels {
			switch {
			case !selIncluded(s, c.Vars):
				// an excluded fragment covers nothing
			case s.Spread != "":
				f := frags[s.Spread]
				if _, ok := fedgen.ObjTypes[f.On]; ok {
					acc[f.On] = true
				} else {
					cov(f.Subs, acc)
				}
			case s.On != "":
				if _, ok := fedgen.ObjTypes[s.On]; ok {
					acc[s.On] = true
				} else {
					cov(s.Subs, acc)
				}
			}
		}
	}
	_ = covered
	walk = func(typ string, sels []Sel) {
		for _, s := range sels {
			switch {
			case s.Spread != "":
				f := frags[s.Spread]
				t := typ
				if _, ok := fedgen.ObjTypes[f.On]; ok {
					t = f.On
				}
				walk(t, f.Subs)
			case s.On != "":
				t := typ
				if _, ok := fedgen.ObjTypes[s.On]; ok {
					t = s.On
				}
				walk(t, s.Subs)
			default:
				ret, ok := rets[typ+"."+s.Name]
				if !ok {
					continue
				}
				switch ret.Kind {
				case "obj":
					walk(ret.Target, s.Subs)
				case "union":
					acc := map[string]bool{}
					cov(s.Subs, acc)
					for _, m := range fedgen.UnionMembers[ret.Target] {
						if !acc[m] {
							partial = true
						}
					}
					walk(ret.Target, s.Subs)
				}
			}
		}
	}
	walk("Query", c.Query)
	return partial
}
