package main

import (
	"context"
	"encoding/json"
	"fmt"

	"github.com/samsarahq/thunder/federation"
	"github.com/samsarahq/thunder/graphql"
	"github.com/samsarahq/thunder/graphql/introspection"
	"verifharness/pkg/fedgen"
)

func main() {
	w := fedgen.NewWorld(1)
	s1 := fedgen.Service{Name: "s1", Federated: true, UseKey: true,
		Query: []fedgen.Field{{Name: "As", Ret: fedgen.Ret{Kind: "obj", Target: "A", List: true, Ptr: true}},
			{Name: "U", Ret: fedgen.Ret{Kind: "union", Target: "UAB", List: true, Ptr: true}, Args: []fedgen.Arg{{Name: "N", Kind: "int", Opt: true}, {Name: "F", Kind: "filter", Opt: true}}}},
		Objects: []fedgen.Object{{Name: "A", Fields: []fedgen.Field{{Name: "AName", Ret: fedgen.Ret{Kind: "str"}}, {Name: "AB", Ret: fedgen.Ret{Kind: "obj", Target: "B", Ptr: true}}}}}}
	s2 := fedgen.Service{Name: "s2", Federated: true, UseKey: true,
		Objects: []fedgen.Object{{Name: "A", KeyVariant: 1, Fields: []fedgen.Field{{Name: "ACol", Ret: fedgen.Ret{Kind: "enum", Ptr: true}}, {Name: "AL", Ret: fedgen.Ret{Kind: "leaf"}}}},
			{Name: "B", Fields: []fedgen.Field{{Name: "BN", Ret: fedgen.Ret{Kind: "int"}, Args: []fedgen.Arg{{Name: "X", Kind: "int"}}}}}}}
	fedgen.Complete(&s1, func(string) int { return 0 })
	fedgen.Complete(&s2, func(string) int { return 0 })
	execs := map[string]federation.ExecutorClient{}
	for _, sv := range []fedgen.Service{s1, s2} {
		sb, err := fedgen.Build(sv, w, fedgen.AllColors)
		if err != nil {
			panic(err)
		}
		b, err := introspection.ComputeSchemaJSON(*sb)
		if err != nil {
			panic(err)
		}
		fmt.Println(sv.Name, len(b))
		srv, err := federation.NewServer(sb.MustBuild())
		if err != nil {
			panic(err)
		}
		execs[sv.Name] = &federation.DirectExecutorClient{Client: srv}
	}
	ctx := context.Background()
	e, err := federation.NewExecutor(ctx, execs, &federation.SchemaSyncerConfig{SchemaSyncer: federation.NewIntrospectionSchemaSyncer(ctx, execs, nil)})
	if err != nil {
		panic(err)
	}
	for _, q := range []string{`{ as { id aName aCol aL { val tag } aB { id bN(x: 3) } } }`, `{ u(n: 2, f: {min: 1}) { __typename ... on A { aCol } ... on B { bN(x: 1) } } }`} {
		res, _, err := e.Execute(ctx, graphql.MustParse(q, map[string]interface{}{}), nil)
		b, _ := json.Marshal(res)
		fmt.Println(string(b), err)
	}
}
