// C06: federation is transparent -- the gateway answers like one combined server.
//
// Each case is a random partition of a random set of field funcs (over a small catalogue of object / union
// types, see pkg/fedgen) into 2-4 in-process services, a ServiceSelector choice, a deterministic world of
// data and a query.  The query is run through the gateway (federation.Executor over DirectExecutorClients)
// and through a monolith (one non-federated schema with all fields, graphql executor) built over the same
// world.  Oracle: same JSON (modulo the __typename the gateway adds on union values); every sub-request a
// service receives validates against that service's own schema and uses only fields / arguments it declares.
package main

import (
	"encoding/json"
	"fmt"
	"os"
	"path/filepath"
	"strings"
	"time"

	"github.com/samsarahq/thunder/graphql"
	"verifharness/pkg/fedgen"
	"verifharness/pkg/vh"
)

func js(v interface{}) string {
	b, _ := json.Marshal(v)
	return string(b)
}

func short(s string, n int) string {
	if len(s) > n {
		return s[:n] + "..."
	}
	return s
}

type obs struct {
	idx     int
	c       Case
	res     result
	coq     string // the case as a Coq term (empty: not comparable with the model)
	runaway bool   // a goroutine of the code under test is still running (cannot be stopped): end the run early
}

func runCase(run *vh.Run, idx int, c Case) *obs {
	ob := &obs{idx: idx, c: c}
	if c.Overlap {
		overlapCase(run, idx, c)
		run.Count("refresh-overlap", false)
		return ob
	}
	if c.NumSeed != 0 {
		numbersCase(run, idx, c)
		run.Count(fmt.Sprintf("numbers|%d", c.NumSeed), false)
		return ob
	}
	w := fedgen.NewWorld(c.Seed)
	text := c.text()
	key := js(c.Services) + "|" + js(c.Selector) + "|" + text
	g, err := buildGateway(&c, w)
	if err != nil {
		ob.res.buildErr = err.Error()
		run.Hist("build-failed")
		run.Count(key, false)
		return ob
	}
	defer g.cancel()
	frags := map[string]FragDef{}
	for _, f := range c.Frags {
		frags[f.Name] = f
	}
	mono, monoErr := runMonolith(&c, w)
	ob.res.monoJSON, ob.res.monoErr = mono, monoErr
	var flatTerm, planTerm string = "None", "None"
	var flatSS *graphql.SelectionSet

	// plan and normalised query (through the verif hooks) on a separate parse
	// normalising / planning runs under a watchdog: a change that makes it loop or blow up must end as a reported
	// failing input, not as a harness that never returns
	finished := within(5*time.Second, func() {
		if q, perr := graphql.Parse(text, c.variables()); perr == nil {
			func() {
				defer func() {
					if e := recover(); e != nil {
						ob.res.planErr = "panic: " + fmt.Sprint(e)
					}
				}()
				p, err := g.exec.VerifPlan(q)
				if err != nil {
					ob.res.planErr = firstLine(err.Error())
				} else {
					ob.res.plan = p
					planTerm = "(Some " + goPlan(p) + ")"
				}
			}()
		}
		if q, perr := graphql.Parse(text, c.variables()); perr == nil {
			func() {
				defer func() { recover() }()
				if f, err := g.exec.VerifFlatten(q); err == nil && f != nil {
					flatTerm = "(Some " + goSelSet(f, true) + ")"
					flatSS = f
				}
			}()
		}
	})
	if !finished {
		failCapped(run, idx, "gateway-planning-does-not-terminate", "normalising/planning did not finish within 5 s; query: "+short(text, 600), c)
		ob.res.timedOut = true
		ob.runaway = true
		run.Count(key, false)
		return ob
	}

	gw, gwErr, timedOut, mutated := runGateway2(g, &c)
	ob.res.gwJSON, ob.res.gwErr, ob.res.timedOut = gw, gwErr, timedOut
	if mutated != "" {
		failCapped(run, idx, "gateway-mutates-parsed-query", mutated+"; query: "+short(text, 400), c)
	}
	answerTerm := "None"
	if gwErr == "" && !timedOut {
		answerTerm = "(Some " + vh.CoqJSON(gw) + ")" // before any stripping
	}
	defer func() {
		// the Coq case: structured query, reference available, every union selection covers all members (the
		// null thunder's executor renders for an uncovered member, DESIGN F5, is not part of the model's contract)
		if searching {
			return
		}
		switch {
		case c.QueryText != "":
			run.Hist("model:not-evaluated:query-given-as-text(corpus)")
			return
		case c.Mutation:
			run.Hist("model:not-evaluated:mutation")
			return
		case c.Wide:
			run.Hist("model:not-evaluated:wide-list")
			return
		case timedOut || g.sync.last == nil:
			run.Hist("model:not-evaluated:no-answer")
			return
		}
		// coverage of the unions once the directives are applied (a member fragment left without content covers nothing)
		partialUnion := false
		if pa, ok := prunedForAnalysis(&c, frags); !ok || hasPartialUnion(&pa, map[string]FragDef{}) {
			run.Hist("model:partial-union-coverage")
			partialUnion = true
		}
		ref, refErr := runReference(&c, w)
		if refErr != "" {
			run.Hist("model:not-evaluated:reference-evaluator-rejects")
			return
		}
		refC, _ := canonJSON(ref)
		info := gschemaCoq(g.sync.last, &c)
		np := &nodePrinter{c: &c, frags: frags, fields: fieldMap(c.Services)}
		qTerm := np.selsCoq("Query", c.Query)
		if np.bad {
			run.Hist("model:not-evaluated:query-not-printable")
			return
		}
		calls, orgs := worldCoq(w, fieldMap(c.Services))
		allFed := true
		for _, s := range c.Services {
			// a service without any federated object has no _federation on its Query either
			allFed = allFed && len(s.Objects) > 0
			for _, f := range s.Query {
				allFed = allFed && f.Ret.Kind != "leaf"
			}
			for _, o := range s.Objects {
				for _, f := range o.Fields {
					allFed = allFed && f.Ret.Kind != "leaf"
				}
			}
		}
		if allFed {
			run.Hist("model:all-objects-federated")
		}
		// the premises of Props/C06.subquery_closed (fed_ok, plain_ok) are evaluated where every service has a federated
		// object (a service without one has no _federation on its Query); the plain object Leaf is allowed
		everySvcFederates := true
		for _, s := range c.Services {
			everySvcFederates = everySvcFederates && len(s.Objects) > 0
		}
		if everySvcFederates {
			run.Hist("model:premises-of-subquery-closed-hold")
		}
		// the premises of Props/C06.federation_transparent, as far as the harness can see them (the Coq side
		// evaluates the precise ones on every case counted here)
		// (since round 7 the theorem covers the plain, non-federated object Leaf: all-objects-federated is no longer required)
		inScope := flatSS != nil && planTerm != "None" &&
			answerTerm != "None" && flatInScope(flatSS, "Query", retMap(c.Services))
		if inScope {
			run.Hist("model:premises-of-transparency-theorem-hold")
		}
		if partialUnion && inScope {
			run.Hist("model:premises-hold-with-partial-union-coverage")
		}
		ob.coq = fmt.Sprintf("mk_case %s %s %s %s %s %s %s %s (Some %s) %s %s", info.term, calls, orgs, qTerm, vh.CoqBool(info.explicit),
			flatTerm, planTerm, answerTerm, vh.CoqJSON(refC), vh.CoqBool(everySvcFederates), vh.CoqBool(inScope))
	}()
	g.mu.Lock()
	ob.res.subs = append([]subRequest{}, g.log...)
	g.mu.Unlock()

	// ---- oracles
	nSub := (len(ob.res.subs) + 1) / 2 // every request is executed twice (re-execution oracle)
	hops := 0
	for _, s := range ob.res.subs {
		if strings.HasPrefix(s.Text, "_federation {") {
			hops++
		}
	}
	hops = (hops + 1) / 2
	run.Hist(fmt.Sprintf("services:%d", len(c.Services)))
	run.Hist(fmt.Sprintf("subrequests:%d", min(nSub, 6)))
	run.Hist(fmt.Sprintf("hops:%d", min(hops, 4)))
	if strings.Contains(text, "... on") || strings.Contains(text, "...F") {
		run.Hist("query:fragments")
	}
	if strings.Contains(text, "@skip") || strings.Contains(text, "@include") {
		run.Hist("query:directives")
	}
	if strings.Contains(text, "(") {
		run.Hist("query:args")
	}
	nontrivial := monoErr == "" && gwErr == "" && nSub >= 2 && js(mono) != "{}"
	run.Count(key, nontrivial)

	if timedOut {
		failCapped(run, idx, "gateway-request-hangs", text, c)
		return ob
	}
	// kinds of the sub-queries: the steps directly below the root of a mutation are mutations, run once per
	// request; every hop (a _federation sub-query for objects already returned) is a query
	nMut := 0
	for _, s := range ob.res.subs {
		switch {
		case isHop(s.Text) && s.Kind != "query":
			failCapped(run, idx, "hop-subquery-sent-as-"+s.Kind, fmt.Sprintf("service %s got a %s {%s}; request: %s", s.Service, s.Kind, short(s.Text, 300), short(text, 300)), c)
		case !isHop(s.Text) && s.Kind == "mutation":
			nMut++
		case !isHop(s.Text) && c.Mutation && s.Kind != "mutation":
			failCapped(run, idx, "mutation-root-step-sent-as-"+s.Kind, fmt.Sprintf("service %s got a %s {%s}; request: %s", s.Service, s.Kind, short(s.Text, 300), short(text, 300)), c)
		}
	}
	if c.Wide {
		run.Hist("query:wide-list-under-a-hop")
	}
	if c.Mutation {
		run.Hist("query:mutation")
		if gwErr == "" && nMut != 2 && nMut != 0 { // the request is executed twice (re-execution oracle); none when the directives leave nothing to run
			failCapped(run, idx, "mutation-root-step-not-run-exactly-once", fmt.Sprintf("%d mutation sub-queries for 2 executions of %s", nMut, short(text, 300)), c)
		}
	} else if nMut > 0 {
		failCapped(run, idx, "query-sent-as-mutation", short(text, 300), c)
	}
	for _, s := range ob.res.subs {
		if s.Sig != "" {
			failCapped(run, idx, s.Sig, fmt.Sprintf("service %s got {%s}: %s  (query: %s)", s.Service, short(s.Text, 300), s.Problem, short(text, 300)), c)
			break
		}
	}
	switch {
	case monoErr != "" && gwErr != "":
		run.Hist("outcome:both-error")
	case monoErr != "":
		run.Hist("outcome:mono-error-only")
		// the monolith rejects or fails but the gateway answers: the gateway answered a query the combined
		// server does not accept
		failCapped(run, idx, "gateway-answers-what-monolith-rejects", fmt.Sprintf("monolith: %s; gateway: %s; query: %s", short(monoErr, 200), short(js(gw), 200), short(text, 400)), c)
	case gwErr != "":
		run.Hist("outcome:gateway-error-only")
		sig := "gateway-error-monolith-ok"
		if strings.Contains(gwErr, "not an object: map[]") {
			sig = "gateway-fails-on-null-at-service-hop"
		}
		failCapped(run, idx, sig, fmt.Sprintf("gateway: %s; monolith: %s; query: %s", short(gwErr, 300), short(js(mono), 200), short(text, 400)), c)
	default:
		run.Hist("outcome:both-ok")
		// directives: the annotated query is answered exactly as the query with the directives applied textually
		if c.QueryText == "" && anyDirective(&c) {
			if pc, ok := prunedCase(&c, frags); ok {
				run.Hist("oracle:pruned-query-compared")
				gwP, errP, toP := runGateway(g, &pc)
				switch {
				case toP:
				case errP != "":
					failCapped(run, idx, "gateway-directive-not-equivalent-to-pruned", fmt.Sprintf("annotated query answered, pruned query fails: %s; annotated: %s; pruned: %s", short(errP, 200), short(text, 400), short(pc.text(), 300)), c)
				case !deepEqualJSON(gw, gwP):
					failCapped(run, idx, "gateway-directive-not-equivalent-to-pruned", fmt.Sprintf("annotated: %s gives %s; pruned: %s gives %s", short(text, 400), short(js(gw), 300), short(pc.text(), 300), short(js(gwP), 300)), c)
				}
			} else {
				run.Hist("oracle:pruned-query-not-expressible")
			}
		}
		// a redeployment that moves fields between services, then a schema refresh, then the request again (own gateway)
		defer redeployRefresh(run, idx, &c, w, deepCopyJSON(gw))
		// a schema refresh landing between planning and the first hop changes nothing (last use of g)
		defer refreshMidRequest(run, idx, &c, g, w, ob.res.subs, ob.res.plan, deepCopyJSON(gw))
		// the caller gives up while a sub-query is in flight: an error, not a partial answer (runs before the refresh)
		defer cancelMidRequest(run, idx, &c, g, ob.res.subs, deepCopyJSON(gw))
		strips := unionTypenameStrips(&c, retMap(c.Services), frags)
		gwN := normaliseUnions(stripAt(gw, "", strips), "", strips)
		monoN := normaliseUnions(mono, "", strips)
		ob.res.gwJSON = gwN
		ref, refErr := runReference(&c, w)
		var refN interface{}
		if refErr == "" {
			refN, _ = canonJSON(ref)
			refN = normaliseUnions(refN, "", strips)
		}
		monoOK := refErr != "" || deepEqualJSON(monoN, refN)
		if refErr != "" {
			run.Hist("reference:unavailable")
		} else if !monoOK {
			// the graphql executor itself deviates from GraphQL here (fragments on unions, DESIGN F4/F5): not this property
			run.Hist("monolith-deviates-from-reference")
		}
		switch {
		case monoOK && !deepEqualJSON(gwN, monoN):
			sig := "gateway-differs-from-monolith"
			if isSubset(gwN, monoN) {
				sig = "gateway-drops-selections"
			}
			failCapped(run, idx, sig, fmt.Sprintf("gateway: %s; monolith: %s; query: %s", short(js(gwN), 500), short(js(monoN), 500), short(text, 500)), c)
		case !monoOK && !deepEqualJSON(gwN, refN) && !deepEqualJSON(gwN, monoN):
			sig := "gateway-differs-from-reference"
			if isSubset(gwN, refN) {
				sig = "gateway-drops-selections"
			}
			failCapped(run, idx, sig, fmt.Sprintf("gateway: %s; reference: %s; monolith: %s; query: %s", short(js(gwN), 400), short(js(refN), 400), short(js(monoN), 400), short(text, 500)), c)
		case !monoOK && deepEqualJSON(gwN, monoN):
			run.Hist("gateway-and-monolith-deviate-alike")
		}
	}
	if nontrivial {
		run.Sample(map[string]interface{}{"query": short(text, 300), "services": len(c.Services), "subrequests": nSub, "result": short(js(mono), 200)})
	}
	return ob
}

// flatInScope: the gateway's normalised query keeps no selection its directives exclude and every selection on a union-typed field
// has a non-empty fragment for every member of the union (Coq: flat_ok).
func flatInScope(ss *graphql.SelectionSet, typ string, rets map[string]fedgen.Ret) bool {
	if ss == nil {
		return true
	}
	for _, s := range ss.Selections {
		if ok, err := graphql.ShouldIncludeNode(s.Directives); err != nil || !ok {
			return false
		}
		if s.Name == "__typename" {
			continue
		}
		ret, ok := rets[typ+"."+s.Name]
		if !ok {
			// the key fields id and org: scalars
			if s.SelectionSet != nil {
				return false
			}
			continue
		}
		switch ret.Kind {
		case "obj":
			if s.SelectionSet == nil || len(s.SelectionSet.Fragments) > 0 || !flatInScope(s.SelectionSet, ret.Target, rets) {
				return false
			}
		case "union":
			if s.SelectionSet == nil || len(s.SelectionSet.Selections) > 0 {
				return false
			}
			// (since round 7 the theorem covers union selections that leave members out: at least one fragment, every
			// fragment on a member of the union, undirected, non-empty and flat)
			if len(s.SelectionSet.Fragments) == 0 {
				return false
			}
			for _, f := range s.SelectionSet.Fragments {
				member := false
				for _, m := range fedgen.UnionMembers[ret.Target] {
					member = member || f.On == m
				}
				if !member || len(f.Directives) != 0 || f.SelectionSet == nil || len(f.SelectionSet.Selections) == 0 ||
					len(f.SelectionSet.Fragments) != 0 || !flatInScope(f.SelectionSet, f.On, rets) {
					return false
				}
			}
		}
	}
	return len(ss.Fragments) == 0 || typ == ""
}

func deepCopyJSON(v interface{}) interface{} {
	c, _ := canonJSON(v)
	return c
}

// searching: failing-input search (-search): variants of given cases, oracle only, no Coq cases
var searching bool

// within runs f in a goroutine and reports whether it finished in time.
func within(d time.Duration, f func()) bool {
	done := make(chan struct{})
	go func() {
		defer close(done)
		f()
	}()
	select {
	case <-done:
		return true
	case <-time.After(d):
		return false
	}
}

func min(a, b int) int {
	if a < b {
		return a
	}
	return b
}

func main() {
	for i, a := range os.Args {
		if a == "-refresh-child" && i+1 < len(os.Args) {
			refreshChild(os.Args[i+1])
			return
		}
	}
	o := vh.ParseFlags()
	run := vh.NewRun("C06", o)
	run.Rule = "a case = (random set of field funcs over catalogue objects A-D, unions, a plain object; scalars, enums, lists, nullable and non-null results; arguments incl. input objects) x (random partition over 2-4 services, 20% of the fields on two services, random key struct per (service, object)) x (ServiceSelector choice) x (query: aliases, repeated aliases with different sub-selections at several levels (55%), @skip/@include (55%; literals and variables, both on one node, on field selections incl. __typename and repeated aliases, on inline fragments and on fragment spreads), inline / nested / named fragments, unions, arguments, depth 2-4) fragments typed on a union spread under its member objects and under the union) over a seeded world with nulls, null list elements and empty lists; non-trivial = gateway and monolith both answer, at least 2 sub-requests reach services and the answer is not {}; distinct by (partition, selector, query text)"
	r := vh.NewRng(o.Seed)
	if o.Tier == "thorough" {
		redeployBudget = 1500
	} else if o.Search != "" {
		redeployBudget = 400
	}

	var cases []Case
	searching = o.Search != ""
	if searching {
		cases = searchCases(o, r)
	} else if o.Replay != "" {
		var c Case
		if vh.ReadReplayCase(o.Replay, &c) {
			c.Origin = "replay"
			cases = append(cases, c)
		}
	} else {
		for _, f := range vh.CorpusFiles(o.Corpus) {
			var c Case
			if vh.ReadReplayCase(f, &c) {
				c.Origin = "corpus:" + filepath.Base(f)
				cases = append(cases, c)
			}
		}
		for i := 0; i < o.N; i++ {
			cases = append(cases, genCase(r.Fork()))
		}
		// numeric extremes through the gateway, compared textually (numbers.go); after the generated cases, so that
		// their indices and random streams stay what they were
		nr := vh.NewRng(o.Seed ^ 0x6e756d)
		nn := 8
		if o.Tier == "thorough" {
			nn = 200
		}
		for i := 0; i < nn; i++ {
			cases = append(cases, Case{Origin: "numbers", NumSeed: uint64(nr.Intn(1<<30)) + 1})
		}
		// the poller with a slow fetch overlapping a later one (refresh_overlap.go; about 2.5 s of waiting)
		cases = append(cases, Case{Origin: "refresh-overlap", Overlap: true, Seed: uint64(nr.Intn(1<<30)) + 1})
	}
	var all []*obs
	hangs := 0
	for idx, c := range cases {
		run.LogCase(idx, c)
		if hangs >= 8 {
			// every hang costs seconds; eight are enough to report
			run.Hist("skipped-after-repeated-hangs")
			run.Count(fmt.Sprint("skipped", idx), false)
			continue
		}
		ob := runCase(run, idx, c)
		if ob.res.timedOut {
			hangs++
		}
		all = append(all, ob)
		if ob.runaway {
			// the stuck computation keeps consuming CPU and memory: report what we have and stop
			run.Hist("run-ended-early-after-runaway-computation")
			emitCoq(run, nil)
			run.Finish()
			os.Exit(0)
		}
	}
	if searching {
		// oracle only
		run.Finish()
		return
	}
	// refresh: planners swapped while requests run (in a child process, see refresh.go)
	if o.Replay == "" {
		runRefresh(run, o, cases)
	}
	emitCoq(run, all)
	run.Finish()
}

// isSubset: a is b with some object keys removed (at any depth).
func isSubset(a, b interface{}) bool {
	switch x := a.(type) {
	case map[string]interface{}:
		y, ok := b.(map[string]interface{})
		if !ok {
			return false
		}
		for k, v := range x {
			w, ok := y[k]
			if !ok || !isSubset(v, w) {
				return false
			}
		}
		return true
	case []interface{}:
		y, ok := b.([]interface{})
		if !ok || len(x) != len(y) {
			return false
		}
		for i := range x {
			if !isSubset(x[i], y[i]) {
				return false
			}
		}
		return true
	}
	return deepEqualJSON(a, b)
}

// failCapped records at most 12 failures per signature (vh.Run keeps 200 in all), so that a frequent signature
// -- e.g. an open known finding -- cannot crowd out a different one; the rest are counted in the histogram.
var failCount = map[string]int{}

func failCapped(run *vh.Run, idx int, sig, detail string, c interface{}) {
	failCount[sig]++
	if failCount[sig] > 12 {
		run.Hist("failures-not-listed:" + sig)
		return
	}
	run.Fail(idx, sig, detail, c)
}
