package main

import (
	"encoding/json"
	"fmt"
	"sort"
	"strings"

	"verifharness/pkg/fedgen"
	"verifharness/pkg/vh"
)

// ---- case ----

type KV struct {
	K string      `json:"k"`
	V interface{} `json:"v"` // JSON value; enum literals are Enum{...}
}

type Dir struct {
	Name string `json:"name"` // skip | include
	Val  bool   `json:"val"`
	Var  string `json:"var,omitempty"` // if set, the value comes from this variable
}

// Sel: a field selection (On == "" && Spread == ""), an inline fragment (On != "") or a spread of a named
// fragment (Spread != "").
type Sel struct {
	Alias  string `json:"alias,omitempty"`
	Name   string `json:"name,omitempty"`
	Args   []KV   `json:"args,omitempty"`
	Subs   []Sel  `json:"subs,omitempty"`
	On     string `json:"on,omitempty"`
	Spread string `json:"spread,omitempty"`
	Dir    *Dir   `json:"dir,omitempty"`
	Dir2   *Dir   `json:"dir2,omitempty"` // a second directive of the other name (@skip and @include on one node)
}

type FragDef struct {
	Name string `json:"name"`
	On   string `json:"on"`
	Subs []Sel  `json:"subs"`
}

type Case struct {
	Origin    string            `json:"origin"`
	Seed      uint64            `json:"seed"`
	Services  []fedgen.Service  `json:"services"`
	Selector  map[string]string `json:"selector,omitempty"` // "Type.field" -> service
	Query     []Sel             `json:"query"`
	Frags     []FragDef         `json:"frags,omitempty"`
	Vars      map[string]bool   `json:"vars,omitempty"`
	Refresh   bool              `json:"refresh,omitempty"`
	QueryText string            `json:"query_text,omitempty"` // if set, used verbatim instead of Query/Frags
	Wide      bool              `json:"wide,omitempty"`       // a hop below a list of hundreds of objects (oracle only: too large for the model evaluation)
	Mutation  bool              `json:"mutation,omitempty"`   // the selection set is run as a mutation (the services mirror their Query fields on Mutation)
	NumSeed   uint64            `json:"num_seed,omitempty"`   // != 0: the numeric-extremes scenario (numbers.go) with this seed instead of a generated federation
	Overlap   bool              `json:"overlap,omitempty"`    // the overlapping-refreshes scenario (refresh_overlap.go: the poller against a SchemaSyncer double with a slow fetch)
}

// ---- universe: all fields of all types, then a partition over services ----

type universe struct {
	query   []fedgen.Field
	objects map[string][]fedgen.Field
	names   []string // object names in use
}

func genUniverse(r *vh.Rng) *universe {
	u := &universe{objects: map[string][]fedgen.Field{}}
	n := 2 + r.Intn(3)
	u.names = append([]string{}, fedgen.ObjNames[:n]...)
	o := fedgen.GenOpts{Objects: u.names, Unions: n >= 3, Leaf: true, Args: true, Lists: true}
	if n == 2 {
		o.Unions = true // UAB only needs A and B
	}
	pickUnion := func(f *fedgen.Field) {
		if f.Ret.Kind != "union" {
			return
		}
		var ok []string
		for _, un := range fedgen.UnionNames {
			all := true
			for _, m := range fedgen.UnionMembers[un] {
				found := false
				for _, x := range u.names {
					found = found || x == m
				}
				all = all && found
			}
			if all {
				ok = append(ok, un)
			}
		}
		f.Ret.Target = ok[r.Intn(len(ok))]
	}
	for i, k := 1, 2+r.Intn(4); i <= k; i++ {
		f := fedgen.GenField(r, "Query", i, o)
		// the roots should mostly lead somewhere
		if i <= 2 && f.Ret.Kind != "obj" && f.Ret.Kind != "union" {
			f.Ret = fedgen.Ret{Kind: "obj", Target: u.names[r.Intn(len(u.names))], Ptr: true, List: r.Chance(60)}
			f.Ret.List2 = f.Ret.List && r.Chance(25)
		}
		pickUnion(&f)
		u.query = append(u.query, f)
	}
	for _, on := range u.names {
		for i, k := 1, 2+r.Intn(4); i <= k; i++ {
			f := fedgen.GenField(r, on, i, o)
			pickUnion(&f)
			u.objects[on] = append(u.objects[on], f)
		}
	}
	return u
}

// partition distributes the universe's fields over nSvc services.
func partition(r *vh.Rng, u *universe, nSvc int) ([]fedgen.Service, map[string][]string) {
	svcs := make([]fedgen.Service, nSvc)
	useKey := r.Bool()
	for i := range svcs {
		svcs[i] = fedgen.Service{Name: fmt.Sprintf("s%d", i+1), Federated: true, UseKey: useKey}
	}
	owners := map[string][]string{}
	assign := func(typ string, f fedgen.Field) {
		k := 1
		if r.Chance(20) {
			k = 2
		}
		perm := r.Intn(nSvc)
		for j := 0; j < k && j < nSvc; j++ {
			si := (perm + j) % nSvc
			owners[typ+"."+fedgen.GqlName(f.Name)] = append(owners[typ+"."+fedgen.GqlName(f.Name)], svcs[si].Name)
			if typ == "Query" {
				svcs[si].Query = append(svcs[si].Query, f)
				continue
			}
			found := false
			for oi := range svcs[si].Objects {
				if svcs[si].Objects[oi].Name == typ {
					svcs[si].Objects[oi].Fields = append(svcs[si].Objects[oi].Fields, f)
					found = true
				}
			}
			if !found {
				svcs[si].Objects = append(svcs[si].Objects, fedgen.Object{Name: typ, KeyVariant: r.Intn(2), Fields: []fedgen.Field{f}})
			}
		}
	}
	for _, f := range u.query {
		assign("Query", f)
	}
	for _, on := range u.names {
		for _, f := range u.objects[on] {
			assign(on, f)
		}
	}
	for i := range svcs {
		fedgen.Complete(&svcs[i], func(string) int { return r.Intn(2) })
	}
	return svcs, owners
}

// monolith: one non-federated service with every field.
func monolith(svcs []fedgen.Service) fedgen.Service {
	m := fedgen.Service{Name: "mono", Federated: false}
	for _, s := range svcs {
		m.MirrorMutation = m.MirrorMutation || s.MirrorMutation
	}
	seenQ := map[string]bool{}
	objs := map[string]*fedgen.Object{}
	var order []string
	for _, s := range svcs {
		m.UseKey = m.UseKey || s.UseKey
		for _, f := range s.Query {
			if !seenQ[f.Name] {
				seenQ[f.Name] = true
				m.Query = append(m.Query, f)
			}
		}
		for _, o := range s.Objects {
			mo := objs[o.Name]
			if mo == nil {
				mo = &fedgen.Object{Name: o.Name}
				objs[o.Name] = mo
				order = append(order, o.Name)
			}
			for _, f := range o.Fields {
				dup := false
				for _, g := range mo.Fields {
					dup = dup || g.Name == f.Name
				}
				if !dup {
					mo.Fields = append(mo.Fields, f)
				}
			}
		}
	}
	sort.Strings(order)
	for _, n := range order {
		m.Objects = append(m.Objects, *objs[n])
	}
	return m
}

// ---- query generation over the universe ----

type qgen struct {
	r       *vh.Rng
	u       *universe
	frags   []FragDef
	vars    map[string]bool
	nextVar int
	stats   map[string]int
	pool    map[string][]string // object type -> names of reusable named fragments on it
	aliases map[string]int      // (field, arguments) -> alias number: injective, so equal aliases never conflict
	dups    bool                // this query repeats aliases with different sub-selections
	nodirs  bool                // this query carries no directives
}

type Enum struct {
	E string `json:"$enum"`
}

func (g *qgen) argValue(a fedgen.Arg) interface{} {
	r := g.r
	one := func() interface{} {
		switch a.Kind {
		case "int":
			return float64(r.Intn(7) - 2)
		case "str":
			return r.Pick([]string{"", "x", "a b", "é\"q"})
		case "bool":
			return r.Bool()
		case "enum":
			return Enum{r.Pick(fedgen.AllColors)}
		case "filter":
			m := map[string]interface{}{}
			if r.Bool() {
				m["min"] = float64(r.Intn(5))
			}
			if r.Bool() {
				m["tag"] = r.Pick([]string{"t", ""})
			}
			return m
		case "req":
			m := map[string]interface{}{"n": float64(r.Intn(5))}
			if r.Bool() {
				m["s"] = "z"
			}
			return m
		}
		panic(a.Kind)
	}
	if a.List {
		n := r.Intn(3)
		l := []interface{}{}
		for i := 0; i < n; i++ {
			l = append(l, one())
		}
		return l
	}
	return one()
}

func (g *qgen) fieldsOf(typ string) []fedgen.Field {
	if typ == "Query" {
		return g.u.query
	}
	return g.u.objects[typ]
}

func argKey(args []KV) string {
	b, _ := json.Marshal(args)
	return string(b)
}

// selsFor generates a selection list for object type typ.  The same alias always means the same field with
// the same arguments (as validation demands); duplicates with different sub-selections are frequent.
func (g *qgen) selsFor(typ string, depth int) []Sel {
	r := g.r
	var out []Sel
	fields := g.fieldsOf(typ)
	aliasArgs := map[string]string{} // alias -> name+args, to keep duplicates consistent
	n := 1 + r.Intn(4)
	mk := func(f fedgen.Field) (Sel, bool) {
		s := Sel{Name: fedgen.GqlName(f.Name)}
		for _, a := range f.Args {
			if !a.Opt || r.Chance(55) {
				s.Args = append(s.Args, KV{fedgen.GqlName(a.Name), g.argValue(a)})
			}
		}
		// the alias is a function of (field, arguments), so equal aliases never conflict anywhere in the query
		s.Alias = s.Name
		if len(s.Args) > 0 {
			k := s.Name + argKey(s.Args)
			n, ok := g.aliases[k]
			if !ok {
				n = len(g.aliases) + 1
				g.aliases[k] = n
			}
			s.Alias = fmt.Sprintf("%s_%d", s.Name, n)
		} else if r.Chance(25) {
			s.Alias = fmt.Sprintf("%s_x", s.Name)
		}
		key := s.Name + argKey(s.Args)
		if prev, ok := aliasArgs[s.Alias]; ok && (prev != key || !g.dups) {
			return s, false
		}
		aliasArgs[s.Alias] = key
		switch f.Ret.Kind {
		case "obj":
			s.Subs = g.selsFor(f.Ret.Target, depth-1)
		case "union":
			s.Subs = g.unionSels(f.Ret.Target, depth-1)
		case "leaf":
			s.Subs = []Sel{{Alias: "val", Name: "val"}}
			if r.Bool() {
				s.Subs = append(s.Subs, Sel{Alias: "tag", Name: "tag"})
			}
		}
		return s, true
	}
	for k := 0; k < n; k++ {
		c := r.Intn(10)
		switch {
		case typ != "Query" && c == 0:
			out = append(out, Sel{Alias: "id", Name: "id"})
		case typ != "Query" && c == 1:
			out = append(out, Sel{Alias: "org", Name: "org"})
		case c == 2 && (typ != "Query" || r.Chance(40)):
			out = append(out, Sel{Alias: "__typename", Name: "__typename"})
		default:
			if len(fields) == 0 {
				continue
			}
			f := fields[r.Intn(len(fields))]
			composite := f.Ret.Kind == "obj" || f.Ret.Kind == "union" || f.Ret.Kind == "leaf"
			if composite && depth <= 0 {
				continue
			}
			s, ok := mk(f)
			if !ok {
				continue
			}
			out = append(out, s)
			// the same alias again with a different sub-selection
			if composite && g.dups && r.Chance(40) {
				d := s
				switch f.Ret.Kind {
				case "obj":
					d.Subs = g.selsFor(f.Ret.Target, depth-1)
				case "union":
					continue // one selection of a union field per level (monolith defect F4 otherwise)
				case "leaf":
					d.Subs = []Sel{{Alias: "tag", Name: "tag"}}
				}
				out = append(out, d)
				g.stats["dup-alias"]++
			}
		}
	}
	if len(out) == 0 {
		if typ == "Query" {
			for _, f := range fields {
				if s, ok := mk(f); ok && (depth > 0 || len(s.Subs) == 0) {
					out = append(out, s)
					break
				}
			}
		} else {
			out = append(out, Sel{Alias: "id", Name: "id"})
		}
	}
	// directives on selections whose alias is unique at this level
	count := map[string]int{}
	for _, s := range out {
		count[s.Alias]++
	}
	_ = count
	pd := 15
	if g.dups {
		pd = 8
	}
	for i := range out {
		// on any field selection, __typename and repeated aliases included: a selection excluded by its own
		// directives counts as absent, whatever else carries the same alias
		if r.Chance(pd) {
			g.dirs(&out[i])
		}
	}
	// named fragments from a pool: a fragment is spread at several places of the query, and several fragments on
	// the same type meet in one selection set, where they may give the same alias different sub-selections
	// (queries without directives only: equal aliases must then carry equal directives)
	if typ != "Query" && g.dups && depth >= 0 {
		for k := 0; k < 2; k++ {
			if !r.Chance(35) {
				continue
			}
			var name string
			if pool := g.pool[typ]; len(pool) > 0 && r.Chance(60) {
				name = pool[r.Intn(len(pool))]
			} else if len(g.frags) < 8 {
				name = fmt.Sprintf("P%d", len(g.frags))
				// reserve the slot first so that nested pool fragments get later numbers and cannot be cyclic
				g.frags = append(g.frags, FragDef{Name: name, On: typ})
				idx := len(g.frags) - 1
				body := g.selsFor(typ, depth-1)
				g.frags[idx].Subs = body
				g.pool[typ] = append(g.pool[typ], name)
			}
			if name != "" {
				sp := Sel{Spread: name}
				if r.Chance(25) {
					g.dirs(&sp)
				}
				if r.Bool() {
					out = append([]Sel{sp}, out...) // the spread's selections come first for their aliases
				} else {
					out = append(out, sp)
				}
				g.stats["pool-fragment-spread"]++
			}
		}
	}
	// a fragment whose type condition is a union this object belongs to (inline or named): it applies to the object
	if us := g.unionsWith(typ); typ != "Query" && len(us) > 0 && len(out) > 0 && r.Chance(14) {
		un := us[r.Intn(len(us))]
		cut := r.Intn(len(out))
		inner := append([]Sel{}, out[cut:]...)
		out = out[:cut]
		if r.Chance(40) && len(g.frags) < 10 {
			name := fmt.Sprintf("U%d", len(g.frags))
			g.frags = append(g.frags, FragDef{Name: name, On: un, Subs: inner})
			out = append(out, Sel{Spread: name})
		} else {
			out = append(out, Sel{On: un, Subs: inner})
		}
		g.stats["union-typed-fragment-on-member"]++
	}
	// fragments: move a suffix into an inline or a named fragment on this type
	if typ != "Query" && len(out) > 1 && r.Chance(30) {
		cut := 1 + r.Intn(len(out)-1)
		inner := append([]Sel{}, out[cut:]...)
		out = out[:cut]
		if r.Chance(40) {
			name := fmt.Sprintf("F%d", len(g.frags))
			g.frags = append(g.frags, FragDef{Name: name, On: typ, Subs: inner})
			sp := Sel{Spread: name}
			if r.Chance(20) {
				g.dirs(&sp)
			}
			out = append(out, sp)
			if r.Chance(30) {
				// spread twice: the directives of one spread are its own -- also when both spreads carry the same
				// directive with different conditions
				sp2 := Sel{Spread: name}
				if sp.Dir != nil && r.Chance(70) {
					d := *sp.Dir
					d.Val = !d.Val
					if d.Var != "" {
						d.Var = fmt.Sprintf("v%d", g.nextVar)
						g.nextVar++
						g.vars[d.Var] = d.Val
					}
					sp2.Dir = &d
					if sp.Dir2 != nil {
						d2 := *sp.Dir2
						sp2.Dir2 = &d2
					}
				} else if r.Chance(30) {
					g.dirs(&sp2)
				}
				out = append(out, sp2)
			}
			g.stats["named-fragment"]++
		} else {
			fr := Sel{On: typ, Subs: inner}
			if r.Chance(20) {
				fr.Subs = []Sel{{On: typ, Subs: inner}} // nested
				g.stats["nested-fragment"]++
			}
			if r.Chance(20) {
				g.dirs(&fr)
			}
			out = append(out, fr)
			g.stats["inline-fragment"]++
		}
	}
	return out
}

// dirs puts @skip or @include on the selection, sometimes both.
func (g *qgen) dirs(s *Sel) {
	if g.nodirs {
		return
	}
	s.Dir = g.dir()
	if g.r.Chance(25) {
		d := g.dir()
		if s.Dir.Name == "skip" {
			d.Name = "include"
		} else {
			d.Name = "skip"
		}
		s.Dir2 = d
		g.stats["both-directives"]++
	}
}

// unionsWith: the unions of the schema (those some field returns) that have typ as a member.
func (g *qgen) unionsWith(typ string) []string {
	used := map[string]bool{}
	note := func(fs []fedgen.Field) {
		for _, f := range fs {
			if f.Ret.Kind == "union" {
				used[f.Ret.Target] = true
			}
		}
	}
	note(g.u.query)
	for _, fs := range g.u.objects {
		note(fs)
	}
	var out []string
	for _, un := range fedgen.UnionNames {
		if !used[un] {
			continue
		}
		for _, m := range fedgen.UnionMembers[un] {
			if m == typ {
				out = append(out, un)
			}
		}
	}
	return out
}

func (g *qgen) dir() *Dir {
	r := g.r
	d := &Dir{Name: r.Pick([]string{"skip", "include"}), Val: r.Bool()}
	if r.Chance(40) {
		d.Var = fmt.Sprintf("v%d", g.nextVar)
		g.nextVar++
		g.vars[d.Var] = d.Val
	}
	g.stats["directive"]++
	return d
}

func (g *qgen) unionSels(un string, depth int) []Sel {
	r := g.r
	var out []Sel
	// When __typename is asked on the union itself every member gets a fragment: for a member without one the
	// graphql executor renders null (DESIGN F5, a defect of the monolith side, outside this property) where the
	// gateway -- which pushes __typename into a fragment per member -- renders {"__typename": ...}.
	all := false
	if r.Chance(55) {
		tn := Sel{Alias: "__typename", Name: "__typename"}
		if r.Chance(15) {
			g.dirs(&tn)
		}
		out = append(out, tn)
		all = true
	}
	for _, m := range fedgen.UnionMembers[un] {
		if all || r.Chance(70) {
			fr := Sel{On: m, Subs: g.selsFor(m, depth)}
			if !all && r.Chance(10) {
				g.dirs(&fr)
			}
			out = append(out, fr)
		}
	}
	if len(out) == 0 {
		ms := fedgen.UnionMembers[un]
		m := ms[r.Intn(len(ms))]
		out = append(out, Sel{On: m, Subs: g.selsFor(m, depth)})
	}
	// the member fragments inside a fragment on the union itself (inline or named)
	if r.Chance(12) {
		k := 0
		for k < len(out) && out[k].On == "" {
			k++
		}
		inner := append([]Sel{}, out[k:]...)
		out = out[:k]
		if r.Chance(40) && len(g.frags) < 10 {
			name := fmt.Sprintf("U%d", len(g.frags))
			g.frags = append(g.frags, FragDef{Name: name, On: un, Subs: inner})
			out = append(out, Sel{Spread: name})
		} else {
			out = append(out, Sel{On: un, Subs: inner})
		}
		g.stats["union-typed-fragment-on-union"]++
	}
	g.stats["union"]++
	return out
}

// ---- printing ----

func valueText(v interface{}) string {
	switch x := v.(type) {
	case nil:
		return "$nul" // an undeclared variable: thunder's parser turns it into nil
	case Enum:
		return x.E
	case float64:
		return fmt.Sprintf("%d", int64(x))
	case bool:
		if x {
			return "true"
		}
		return "false"
	case string:
		b, _ := json.Marshal(x)
		return string(b)
	case []interface{}:
		xs := make([]string, len(x))
		for i, e := range x {
			xs[i] = valueText(e)
		}
		return "[" + strings.Join(xs, ", ") + "]"
	case map[string]interface{}:
		if e, ok := x["$enum"]; ok && len(x) == 1 {
			return e.(string)
		}
		ks := make([]string, 0, len(x))
		for k := range x {
			ks = append(ks, k)
		}
		sort.Strings(ks)
		xs := make([]string, len(ks))
		for i, k := range ks {
			xs[i] = k + ": " + valueText(x[k])
		}
		return "{" + strings.Join(xs, ", ") + "}"
	}
	panic(fmt.Sprintf("valueText %T", v))
}

func dirText(d *Dir) string {
	if d == nil {
		return ""
	}
	v := "false"
	if d.Val {
		v = "true"
	}
	if d.Var != "" {
		v = "$" + d.Var
	}
	return " @" + d.Name + "(if: " + v + ")"
}

func selsText(sels []Sel) string {
	var b strings.Builder
	for i, s := range sels {
		if i > 0 {
			b.WriteString(" ")
		}
		switch {
		case s.Spread != "":
			b.WriteString("..." + s.Spread + dirText(s.Dir) + dirText(s.Dir2))
		case s.On != "":
			b.WriteString("... on " + s.On + dirText(s.Dir) + dirText(s.Dir2) + " { " + selsText(s.Subs) + " }")
		default:
			if s.Alias != "" && s.Alias != s.Name {
				b.WriteString(s.Alias + ": ")
			}
			b.WriteString(s.Name)
			if len(s.Args) > 0 {
				b.WriteString("(")
				for j, kv := range s.Args {
					if j > 0 {
						b.WriteString(", ")
					}
					b.WriteString(kv.K + ": " + valueText(kv.V))
				}
				b.WriteString(")")
			}
			b.WriteString(dirText(s.Dir) + dirText(s.Dir2))
			if len(s.Subs) > 0 {
				b.WriteString(" { " + selsText(s.Subs) + " }")
			}
		}
	}
	return b.String()
}

func (c *Case) text() string {
	if c.QueryText != "" {
		return c.QueryText
	}
	var b strings.Builder
	if c.Mutation {
		b.WriteString("mutation Q")
	} else {
		b.WriteString("query Q")
	}
	if len(c.Vars) > 0 {
		var ks []string
		for k := range c.Vars {
			ks = append(ks, k)
		}
		sort.Strings(ks)
		b.WriteString("(")
		for i, k := range ks {
			if i > 0 {
				b.WriteString(", ")
			}
			b.WriteString("$" + k + ": bool")
		}
		b.WriteString(")")
	}
	b.WriteString(" { " + selsText(c.Query) + " }")
	for _, f := range c.Frags {
		b.WriteString(" fragment " + f.Name + " on " + f.On + " { " + selsText(f.Subs) + " }")
	}
	return b.String()
}

func (c *Case) variables() map[string]interface{} {
	m := map[string]interface{}{}
	for k, v := range c.Vars {
		m[k] = v
	}
	return m
}

func genCase(r *vh.Rng) Case {
	u := genUniverse(r)
	nSvc := 2 + r.Intn(3)
	svcs, owners := partition(r, u, nSvc)
	c := Case{Origin: "generated", Seed: r.U64(), Services: svcs}
	// service selector: for fields several services can serve, pick one explicitly most of the time
	explicit := r.Chance(70)
	c.Selector = map[string]string{}
	var keys []string
	for k := range owners {
		keys = append(keys, k)
	}
	sort.Strings(keys)
	for _, k := range keys {
		o := owners[k]
		if len(o) > 1 && (explicit || r.Chance(30)) {
			c.Selector[k] = o[r.Intn(len(o))]
		}
	}
	g := &qgen{r: r, u: u, vars: map[string]bool{}, stats: map[string]int{}, aliases: map[string]int{}, pool: map[string][]string{}, dups: r.Chance(55), nodirs: r.Chance(45)}
	c.Query = g.selsFor("Query", 2+r.Intn(3))
	c.Frags = g.frags
	c.Vars = g.vars
	c.Refresh = r.Chance(10)
	if r.Chance(14) {
		asMutation(r, &c, owners)
	} else if r.Chance(9) {
		asWide(r, &c, g, owners)
	}
	return c
}

// asMutation turns the case into a mutation: the root selections that live on one single service (a mutation
// may have one step below the root only) are kept and run against Mutation, on which every service mirrors its
// Query fields.  Objects returned by the mutation still have fields on other services: hops below a mutation.
func asMutation(r *vh.Rng, c *Case, owners map[string][]string) {
	bySvc := map[string][]Sel{}
	var order []string
	for _, s := range c.Query {
		if s.On != "" || s.Spread != "" || s.Name == "__typename" {
			continue
		}
		o := owners["Query."+s.Name]
		if len(o) != 1 {
			continue
		}
		if bySvc[o[0]] == nil {
			order = append(order, o[0])
		}
		bySvc[o[0]] = append(bySvc[o[0]], s)
	}
	if len(order) == 0 {
		return
	}
	c.Query = bySvc[order[r.Intn(len(order))]]
	c.Mutation = true
	c.Refresh = false
	for i := range c.Services {
		c.Services[i].MirrorMutation = true
	}
}

// asWide turns the case into a wide one: a root field returning a list of objects gets 300..1500 elements and the
// query selects, below it, a field of the object that lives on another service -- one hop for hundreds of keys.
func asWide(r *vh.Rng, c *Case, g *qgen, owners map[string][]string) {
	type cand struct {
		qf    fedgen.Field
		other fedgen.Field
	}
	var cands []cand
	for _, qf := range g.u.query {
		if qf.Ret.Kind != "obj" || !qf.Ret.List || qf.Ret.List2 {
			continue
		}
		qo := owners["Query."+fedgen.GqlName(qf.Name)]
		if len(qo) != 1 {
			continue
		}
		for _, f := range g.u.objects[qf.Ret.Target] {
			fo := owners[qf.Ret.Target+"."+fedgen.GqlName(f.Name)]
			if len(fo) != 1 || fo[0] == qo[0] || f.Ret.List || f.Ret.Kind == "union" || f.Ret.Kind == "leaf" {
				continue
			}
			cands = append(cands, cand{qf, f})
		}
	}
	if len(cands) == 0 {
		return
	}
	k := cands[r.Intn(len(cands))]
	wide := []int{300, 501, 700, 1001, 1100, 1500}[r.Intn(6)]
	for i := range c.Services {
		for j := range c.Services[i].Query {
			if c.Services[i].Query[j].Name == k.qf.Name {
				c.Services[i].Query[j].Ret.Wide = wide
			}
		}
	}
	mk := func(f fedgen.Field) Sel {
		s := Sel{Name: fedgen.GqlName(f.Name), Alias: fedgen.GqlName(f.Name)}
		for _, a := range f.Args {
			if !a.Opt {
				s.Args = append(s.Args, KV{fedgen.GqlName(a.Name), g.argValue(a)})
			}
		}
		return s
	}
	root := mk(k.qf)
	child := mk(k.other)
	if k.other.Ret.Kind == "obj" {
		child.Subs = []Sel{{Alias: "id", Name: "id"}}
	}
	root.Subs = []Sel{{Alias: "id", Name: "id"}, child}
	if r.Bool() {
		root.Subs = append(root.Subs, Sel{Alias: "org", Name: "org"})
	}
	c.Query, c.Frags, c.Vars = []Sel{root}, nil, nil
	c.Wide = true
	c.Refresh = false
}
