package main

import (
	"encoding/json"
	"fmt"
	"io/ioutil"
	"sort"
	"strings"

	"verifharness/pkg/fedgen"
	"verifharness/pkg/vh"
)

// Failing-input search (FRAMEWORK.md): variants of the cases on which model and implementation disagreed --
// small edits of the query, of the partition of the fields over the services, of the selector and of the data --
// evaluated by the oracle only.

func readSeeds(path string) []Case {
	var seeds []Case
	b, err := ioutil.ReadFile(path)
	if err != nil {
		return nil
	}
	for _, line := range strings.Split(string(b), "\n") {
		var w struct {
			Case Case `json:"case"`
		}
		if strings.TrimSpace(line) != "" && json.Unmarshal([]byte(line), &w) == nil && len(w.Case.Services) > 0 {
			seeds = append(seeds, w.Case)
		}
	}
	return seeds
}

func cloneCase(c Case) Case {
	b, _ := json.Marshal(c)
	var d Case
	_ = json.Unmarshal(b, &d)
	return d
}

func cloneSels(s []Sel) []Sel {
	b, _ := json.Marshal(s)
	var d []Sel
	_ = json.Unmarshal(b, &d)
	return d
}

// allLists: every selection list of the query and of its named fragments.
func allLists(c *Case) []*[]Sel {
	var out []*[]Sel
	var walk func(l *[]Sel)
	walk = func(l *[]Sel) {
		out = append(out, l)
		for i := range *l {
			if len((*l)[i].Subs) > 0 {
				walk(&(*l)[i].Subs)
			}
		}
	}
	walk(&c.Query)
	for i := range c.Frags {
		walk(&c.Frags[i].Subs)
	}
	return out
}

func isField(s Sel) bool { return s.On == "" && s.Spread == "" }

// plainSubs: the sub-selections are field selections only (so the field is not union-typed)
func plainSubs(s Sel) bool {
	for _, x := range s.Subs {
		if !isField(x) {
			return false
		}
	}
	return len(s.Subs) > 0
}

func editQuery(r *vh.Rng, c *Case) string {
	lists := allLists(c)
	l := lists[r.Intn(len(lists))]
	n := len(*l)
	if n == 0 {
		return ""
	}
	i := r.Intn(n)
	s := (*l)[i]
	switch r.Intn(9) {
	case 0, 1: // the same alias once more, with part of the sub-selections (in another order)
		if !isField(s) || !plainSubs(s) {
			return ""
		}
		d := s
		d.Subs = nil
		for _, x := range cloneSels(s.Subs) {
			if r.Chance(60) {
				d.Subs = append(d.Subs, x)
			}
		}
		if len(d.Subs) == 0 {
			d.Subs = cloneSels(s.Subs[len(s.Subs)-1:])
		}
		if r.Chance(30) {
			for a, b := 0, len(d.Subs)-1; a < b; a, b = a+1, b-1 {
				d.Subs[a], d.Subs[b] = d.Subs[b], d.Subs[a]
			}
		}
		if r.Bool() {
			*l = append(*l, d)
		} else {
			*l = append(append(append([]Sel{}, (*l)[:i]...), d), (*l)[i:]...)
		}
		return "repeat-alias"
	case 2: // one selection less
		if n < 2 {
			return ""
		}
		*l = append(append([]Sel{}, (*l)[:i]...), (*l)[i+1:]...)
		return "drop-selection"
	case 3: // another order
		j := r.Intn(n)
		(*l)[i], (*l)[j] = (*l)[j], (*l)[i]
		return "swap-selections"
	case 4: // __typename
		for _, x := range *l {
			if x.Alias == "__typename" {
				return ""
			}
		}
		if r.Bool() {
			*l = append(*l, Sel{Alias: "__typename", Name: "__typename"})
		} else {
			*l = append([]Sel{{Alias: "__typename", Name: "__typename"}}, (*l)...)
		}
		return "add-typename"
	case 5: // a directive more; an existing directive: other value, or gone
		if s.Dir == nil {
			(*l)[i].Dir = &Dir{Name: r.Pick([]string{"skip", "include"}), Val: r.Bool()}
			return "add-directive"
		}
		if r.Chance(30) {
			(*l)[i].Dir = nil
			return "drop-directive"
		}
		d := *s.Dir
		d.Val = !d.Val
		if d.Var != "" {
			if c.Vars == nil {
				c.Vars = map[string]bool{}
			}
			c.Vars[d.Var] = d.Val
		}
		(*l)[i].Dir = &d
		return "flip-directive"
	case 6: // a spread of a named fragment: inline, or once more
		if s.Spread == "" {
			return ""
		}
		for _, f := range c.Frags {
			if f.Name == s.Spread {
				if r.Bool() {
					(*l)[i] = Sel{On: f.On, Subs: cloneSels(f.Subs)}
					return "inline-spread"
				}
				*l = append(*l, Sel{Spread: s.Spread})
				return "spread-again"
			}
		}
		return ""
	case 7: // an inline fragment on an object type: nested once more, or split in two
		if s.On == "" || len(s.Subs) == 0 {
			return ""
		}
		if _, ok := fedgen.ObjTypes[s.On]; !ok {
			return ""
		}
		if len(s.Subs) > 1 && r.Bool() {
			cut := 1 + r.Intn(len(s.Subs)-1)
			a := Sel{On: s.On, Dir: s.Dir, Dir2: s.Dir2, Subs: cloneSels(s.Subs[:cut])}
			b := Sel{On: s.On, Dir: s.Dir, Dir2: s.Dir2, Subs: cloneSels(s.Subs[cut:])}
			*l = append(append(append([]Sel{}, (*l)[:i]...), a, b), (*l)[i+1:]...)
			return "split-fragment"
		}
		(*l)[i].Subs = []Sel{{On: s.On, Subs: cloneSels(s.Subs)}}
		return "nest-fragment"
	default: // field selections of this list moved into a fragment on the type of an enclosing inline fragment
		if !isField(s) || s.Name == "__typename" {
			return ""
		}
		// only where the type is known: inside an inline fragment on an object type
		for _, ll := range lists {
			for k := range *ll {
				p := &(*ll)[k]
				if p.On == "" || &p.Subs != l {
					continue
				}
				if _, ok := fedgen.ObjTypes[p.On]; !ok {
					return ""
				}
				moved := (*l)[i]
				*l = append(append([]Sel{}, (*l)[:i]...), (*l)[i+1:]...)
				*l = append(*l, Sel{On: p.On, Subs: []Sel{moved}})
				return "move-into-fragment"
			}
		}
		return ""
	}
}

type fieldAt struct {
	svc, typ string
	f        fedgen.Field
}

func fieldsOfServices(c *Case) []fieldAt {
	var out []fieldAt
	for _, s := range c.Services {
		for _, f := range s.Query {
			out = append(out, fieldAt{s.Name, "Query", f})
		}
		for _, o := range s.Objects {
			for _, f := range o.Fields {
				out = append(out, fieldAt{s.Name, o.Name, f})
			}
		}
	}
	return out
}

func ownersOf(c *Case) map[string][]string {
	m := map[string][]string{}
	for _, x := range fieldsOfServices(c) {
		k := x.typ + "." + fedgen.GqlName(x.f.Name)
		m[k] = append(m[k], x.svc)
	}
	return m
}

func hasField(s *fedgen.Service, typ, name string) bool {
	if typ == "Query" {
		for _, f := range s.Query {
			if f.Name == name {
				return true
			}
		}
		return false
	}
	for _, o := range s.Objects {
		if o.Name == typ {
			for _, f := range o.Fields {
				if f.Name == name {
					return true
				}
			}
		}
	}
	return false
}

func addField(r *vh.Rng, s *fedgen.Service, typ string, f fedgen.Field) {
	if typ == "Query" {
		s.Query = append(s.Query, f)
	} else {
		found := false
		for i := range s.Objects {
			if s.Objects[i].Name == typ {
				s.Objects[i].Fields = append(s.Objects[i].Fields, f)
				found = true
			}
		}
		if !found {
			s.Objects = append(s.Objects, fedgen.Object{Name: typ, KeyVariant: r.Intn(2), Fields: []fedgen.Field{f}})
		}
	}
	fedgen.Complete(s, func(string) int { return r.Intn(2) })
}

func removeField(s *fedgen.Service, typ, name string) {
	if typ == "Query" {
		var q []fedgen.Field
		for _, f := range s.Query {
			if f.Name != name {
				q = append(q, f)
			}
		}
		s.Query = q
		return
	}
	for i := range s.Objects {
		if s.Objects[i].Name == typ {
			var fs []fedgen.Field
			for _, f := range s.Objects[i].Fields {
				if f.Name != name {
					fs = append(fs, f)
				}
			}
			s.Objects[i].Fields = fs
		}
	}
}

func editPartition(r *vh.Rng, c *Case) string {
	all := fieldsOfServices(c)
	if len(all) == 0 || len(c.Services) < 2 {
		return ""
	}
	x := all[r.Intn(len(all))]
	switch r.Intn(5) {
	case 0, 1: // one more service serves the field
		t := &c.Services[r.Intn(len(c.Services))]
		if t.Name == x.svc || hasField(t, x.typ, x.f.Name) {
			return ""
		}
		addField(r, t, x.typ, x.f)
		return "second-owner"
	case 2: // the field moves to another service
		t := &c.Services[r.Intn(len(c.Services))]
		if t.Name == x.svc || hasField(t, x.typ, x.f.Name) {
			return ""
		}
		for i := range c.Services {
			if c.Services[i].Name == x.svc {
				if x.typ == "Query" && len(c.Services[i].Query) < 2 {
					return ""
				}
				removeField(&c.Services[i], x.typ, x.f.Name)
			}
		}
		addField(r, t, x.typ, x.f)
		return "move-field"
	case 3: // another key struct for an object of a service
		s := &c.Services[r.Intn(len(c.Services))]
		if len(s.Objects) == 0 {
			return ""
		}
		o := &s.Objects[r.Intn(len(s.Objects))]
		o.KeyVariant = 1 - o.KeyVariant
		return "key-variant"
	default:
		u := !c.Services[0].UseKey
		for i := range c.Services {
			c.Services[i].UseKey = u
		}
		return "use-key"
	}
}

// fixSelector keeps the ServiceSelector meaningful: entries only for fields with several owners, naming an owner.
func fixSelector(r *vh.Rng, c *Case, edit bool) {
	owners := ownersOf(c)
	if c.Selector == nil {
		c.Selector = map[string]string{}
	}
	for k, s := range c.Selector {
		ok := false
		for _, o := range owners[k] {
			ok = ok || o == s
		}
		if !ok || len(owners[k]) < 2 {
			delete(c.Selector, k)
		}
	}
	if !edit {
		return
	}
	var multi []string
	for k, o := range owners {
		if len(o) > 1 {
			multi = append(multi, k)
		}
	}
	sort.Strings(multi)
	if len(multi) == 0 {
		return
	}
	k := multi[r.Intn(len(multi))]
	if _, ok := c.Selector[k]; ok && r.Chance(30) {
		delete(c.Selector, k)
		return
	}
	o := owners[k]
	c.Selector[k] = o[r.Intn(len(o))]
}

func variant(r *vh.Rng, seed Case) Case {
	c := cloneCase(seed)
	c.Refresh = false
	var edits []string
	for k := 1 + r.Intn(3); k > 0; k-- {
		e := ""
		switch x := r.Intn(10); {
		case x < 5:
			for try := 0; try < 8 && e == "" && c.QueryText == ""; try++ {
				e = editQuery(r, &c)
			}
		case x < 7:
			for try := 0; try < 4 && e == ""; try++ {
				e = editPartition(r, &c)
			}
			fixSelector(r, &c, false)
		case x < 8:
			fixSelector(r, &c, true)
			e = "selector"
		default:
			c.Seed = r.U64() // other data: nulls, empty lists and ids elsewhere
			e = "data"
		}
		if e != "" {
			edits = append(edits, e)
		}
	}
	c.Origin = "search:" + strings.Join(edits, "+")
	return c
}

func searchCases(o *vh.Opts, r *vh.Rng) []Case {
	seeds := readSeeds(o.Search)
	var cases []Case
	for i := 0; i < o.N; i++ {
		cr := r.Fork()
		if len(seeds) == 0 {
			c := genCase(cr)
			c.Origin = "search-fresh"
			c.Refresh = false
			cases = append(cases, c)
			continue
		}
		cases = append(cases, variant(cr, seeds[cr.Intn(len(seeds))]))
	}
	return cases
}

var _ = fmt.Sprint
