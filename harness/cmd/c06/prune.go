package main

// The query with its directives applied textually: every selection (field, inline fragment, fragment spread)
// that its own @skip/@include exclude is deleted, the directives of the others are removed, named fragments are
// inlined.  The gateway must answer the annotated query exactly as it answers this one.

func anyDirective(c *Case) bool {
	var walk func(sels []Sel) bool
	walk = func(sels []Sel) bool {
		for _, s := range sels {
			if s.Dir != nil || s.Dir2 != nil || walk(s.Subs) {
				return true
			}
		}
		return false
	}
	if walk(c.Query) {
		return true
	}
	for _, f := range c.Frags {
		if walk(f.Subs) {
			return true
		}
	}
	return false
}

// pruneSels returns the pruned list; ok is false when a field selection that had sub-selections is left with
// none (there is no query text for that).
func pruneSels(sels []Sel, vars map[string]bool, frags map[string]FragDef, depth int, allowEmpty bool) (out []Sel, ok bool) {
	ok = true
	if depth > 40 {
		return nil, false
	}
	for _, s := range sels {
		if !selIncluded(s, vars) {
			continue
		}
		switch {
		case s.Spread != "":
			f, found := frags[s.Spread]
			if !found {
				return nil, false
			}
			body, ok2 := pruneSels(f.Subs, vars, frags, depth+1, allowEmpty)
			if !ok2 {
				return nil, false
			}
			if len(body) > 0 {
				out = append(out, Sel{On: f.On, Subs: body})
			}
		case s.On != "":
			body, ok2 := pruneSels(s.Subs, vars, frags, depth+1, allowEmpty)
			if !ok2 {
				return nil, false
			}
			if len(body) > 0 {
				out = append(out, Sel{On: s.On, Subs: body})
			}
		default:
			n := Sel{Alias: s.Alias, Name: s.Name, Args: s.Args}
			if len(s.Subs) > 0 {
				body, ok2 := pruneSels(s.Subs, vars, frags, depth+1, allowEmpty)
				if !ok2 || (len(body) == 0 && !allowEmpty) {
					return nil, false
				}
				n.Subs = body
			}
			out = append(out, n)
		}
	}
	return out, true
}

func prunedCase(c *Case, frags map[string]FragDef) (Case, bool) {
	q, ok := pruneSels(c.Query, c.Vars, frags, 0, false)
	if !ok || len(q) == 0 {
		return Case{}, false
	}
	p := *c
	p.Query, p.Frags, p.Vars, p.QueryText = q, nil, nil, ""
	return p, true
}

// prunedForAnalysis: the same, but a field may be left without sub-selections (not a query text; used to decide
// which members of a union a selection covers once the directives are applied).
func prunedForAnalysis(c *Case, frags map[string]FragDef) (Case, bool) {
	q, ok := pruneSels(c.Query, c.Vars, frags, 0, true)
	if !ok {
		return Case{}, false
	}
	p := *c
	p.Query, p.Frags, p.Vars, p.QueryText = q, nil, nil, ""
	return p, true
}
