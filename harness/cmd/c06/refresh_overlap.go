package main

import (
	"context"
	"fmt"
	"sync"
	"time"

	"github.com/samsarahq/thunder/federation"
	"github.com/samsarahq/thunder/graphql"
	"verifharness/pkg/vh"
)

// Periodic refreshes with a slow fetch: the poller's own loop (Executor.poll, 1 s ticker) runs against a
// SchemaSyncer double whose every fetch answers with the schema that was deployed WHEN THE FETCH STARTED.  The
// second fetch is slow: it is held until a later fetch has completed (or 1.4 s have passed -- a poller that
// fetches one after the other never starts the later one before); a field is deployed right after the slow
// fetch started.  Whatever the poller does, once the fetches are over the installed planner must be the newest
// one that was fetched: a request for the new field must be answered.  (History: fetch 2 starts (old schema) --
// deployment -- fetch 3 starts and completes (new schema) -- fetch 2 completes.)

type overlapSyncer struct {
	mu        sync.Mutex
	n         int
	version   int // deployed version: 1 or 2
	planners  [3]*federation.Planner
	schemas   [3]*graphql.Schema
	completed map[int]bool
	laterDone chan struct{}
	once      sync.Once
	started   []int // version captured by fetch i
}

func (s *overlapSyncer) FetchPlannerAndSchema(ctx context.Context) (*federation.Planner, *graphql.Schema, error) {
	s.mu.Lock()
	s.n++
	n := s.n
	ver := s.version
	s.started = append(s.started, ver)
	if n == 2 {
		s.version = 2 // the deployment lands right after the slow fetch has read the old schema
	}
	s.mu.Unlock()
	if n == 2 {
		select {
		case <-s.laterDone:
		case <-time.After(1400 * time.Millisecond):
		case <-ctx.Done():
		}
	}
	s.mu.Lock()
	s.completed[n] = true
	if n > 2 {
		s.once.Do(func() { close(s.laterDone) })
	}
	p, sc := s.planners[ver], s.schemas[ver]
	s.mu.Unlock()
	return p, sc, nil
}

func overlapCase(run *vh.Run, idx int, c Case) {
	run.Hist("refresh-overlap:scenarios")
	sd := c.Seed | 1
	ids := []int64{1, 2, 3}
	var problem string
	var gwErr error
	var fetches int
	func() {
		defer func() {
			if e := recover(); e != nil {
				problem = "panic: " + fmt.Sprint(e)
			}
		}()
		mk := func(withNew bool) (map[string]federation.ExecutorClient, error) {
			clients := map[string]federation.ExecutorClient{}
			u2 := []string{"u2"}
			if withNew {
				u2 = []string{"u2", "u3"}
			}
			for _, spec := range []struct {
				name string
				q    bool
				u    []string
			}{{"s1", true, []string{"u1"}}, {"s2", false, u2}} {
				built, err := numService(spec.name, sd, ids, spec.q, spec.u, nil, nil).Build()
				if err != nil {
					return nil, err
				}
				srv, err := federation.NewServer(built)
				if err != nil {
					return nil, err
				}
				clients[spec.name] = &federation.DirectExecutorClient{Client: srv}
			}
			return clients, nil
		}
		v1, err := mk(false)
		if err != nil {
			problem = "build v1: " + err.Error()
			return
		}
		v2, err := mk(true)
		if err != nil {
			problem = "build v2: " + err.Error()
			return
		}
		os_ := &overlapSyncer{version: 1, completed: map[int]bool{}, laterDone: make(chan struct{})}
		for ver, cl := range map[int]map[string]federation.ExecutorClient{1: v1, 2: v2} {
			p, s, err := (&syncer{clients: cl}).FetchPlannerAndSchema(context.Background())
			if err != nil {
				problem = fmt.Sprintf("planner v%d: %v", ver, err)
				return
			}
			os_.planners[ver], os_.schemas[ver] = p, s
		}
		ctx, cancel := context.WithCancel(context.Background())
		defer cancel()
		execs := map[string]federation.ExecutorClient{}
		for n, cl := range v2 { // the running services: after the deployment they serve the new field as well
			execs[n] = cl
		}
		ex, err := federation.NewExecutor(ctx, execs, &federation.SchemaSyncerConfig{
			SchemaSyncer:              os_,
			SchemaSyncIntervalSeconds: func(context.Context) int64 { return 1 },
		})
		if err != nil {
			problem = "gateway: " + err.Error()
			return
		}
		// wait until the slow fetch and a later one are both over (and installed)
		deadline := time.Now().Add(6 * time.Second)
		for time.Now().Before(deadline) {
			os_.mu.Lock()
			done := os_.completed[2] && os_.completed[3]
			fetches = os_.n
			os_.mu.Unlock()
			if done {
				break
			}
			time.Sleep(20 * time.Millisecond)
		}
		time.Sleep(150 * time.Millisecond) // setPlanner follows the fetch
		os_.mu.Lock()
		done := os_.completed[2] && os_.completed[3]
		os_.mu.Unlock()
		if !done {
			problem = fmt.Sprintf("the poller did not complete three fetches within 6 s (%d started)", fetches)
			return
		}
		q, err := graphql.Parse("query Q { ns { id u1 u3 } }", map[string]interface{}{})
		if err != nil {
			problem = "parse: " + err.Error()
			return
		}
		_, _, gwErr = ex.Execute(ctx, q, nil)
	}()
	switch {
	case problem != "":
		failCapped(run, idx, "refresh-overlap-scenario-fails", problem, c)
	case gwErr != nil:
		failCapped(run, idx, "gateway-serves-an-older-schema-after-overlapping-refreshes", fmt.Sprintf("fetch 2 (old schema, slow) and fetch 3 (new schema: N.u3 on s2) are both over, yet { ns { id u1 u3 } } fails: %s", short(firstLine(gwErr.Error()), 300)), c)
	}
}
