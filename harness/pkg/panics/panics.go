// Package panics makes a batch function panic with values of different kinds: what recover() returns is a
// string, an error, a runtime.Error raised by the Go runtime itself (nil-map write, index out of range, nil
// dereference, failed type assertion, integer division by zero), or a value of a type of the client's own.
package panics

import (
	"errors"
	"strings"
)

// Kinds lists the outcome names understood by Do.
var Kinds = []string{"panic", "panic-error", "panic-rt-nilmap", "panic-rt-index", "panic-rt-nilptr", "panic-rt-assert", "panic-rt-divide", "panic-custom"}

// Is reports whether the outcome name is a panic.
func Is(outcome string) bool { return strings.HasPrefix(outcome, "panic") }

// Coq is the constructor of Batch.Model.pkind for the outcome.
func Coq(outcome string) string {
	switch {
	case outcome == "panic":
		return "PString"
	case outcome == "panic-error":
		return "PError"
	case strings.HasPrefix(outcome, "panic-rt-"):
		return "PRuntime"
	}
	return "PCustom"
}

type Custom struct {
	Code int
	What string
}

type node struct{ next *node }

// Do panics the way the outcome says; n is any number known only at run time (so the compiler cannot reject the
// faulty operation).
func Do(outcome string, n int) {
	switch outcome {
	case "panic":
		panic("boom")
	case "panic-error":
		panic(errors.New("boom"))
	case "panic-rt-nilmap":
		var m map[int]int
		m[n] = 1
	case "panic-rt-index":
		xs := make([]int, n%3)
		xs[n%3+1] = 1
	case "panic-rt-nilptr":
		var p *node
		if n < 0 {
			p = &node{}
		}
		_ = p.next.next
	case "panic-rt-assert":
		var x interface{} = n
		_ = x.(string)
	case "panic-rt-divide":
		z := n - n
		_ = n / z
	default:
		panic(Custom{Code: n, What: outcome})
	}
	panic("unreachable: " + outcome)
}
