package fedgen

import (
	"fmt"

	"verifharness/pkg/vh"
)

// GenOpts steers GenField.
type GenOpts struct {
	Objects []string // catalogue objects that may be returned
	Unions  bool
	Leaf    bool
	Args    bool
	Lists   bool
}

var argKinds = []string{"int", "int", "str", "bool", "enum", "filter", "req"}

func GenArg(r *vh.Rng, i int) Arg {
	k := argKinds[r.Intn(len(argKinds))]
	a := Arg{Kind: k, Opt: r.Chance(60)}
	if k != "req" && k != "filter" && r.Chance(15) {
		a.List = true
	}
	a.Name = fmt.Sprintf("%s%d", map[string]string{"int": "N", "str": "S", "bool": "B", "enum": "E", "filter": "F", "req": "R"}[k], i)
	return a
}

// GenField makes a field func specification for owner ("Query", "A", ...); idx makes the name unique.
func GenField(r *vh.Rng, owner string, idx int, o GenOpts) Field {
	prefix := "Q"
	if owner != "Query" {
		prefix = owner
	}
	f := Field{Name: fmt.Sprintf("%sf%d", prefix, idx)}
	k := r.Intn(100)
	switch {
	case k < 18:
		f.Ret.Kind = "int"
	case k < 30:
		f.Ret.Kind = "str"
	case k < 35:
		f.Ret.Kind = "bool"
	case k < 45:
		f.Ret.Kind = "enum"
	case k < 80 && len(o.Objects) > 0:
		f.Ret.Kind = "obj"
		f.Ret.Target = o.Objects[r.Intn(len(o.Objects))]
	case k < 93 && o.Unions:
		f.Ret.Kind = "union"
		f.Ret.Target = UnionNames[r.Intn(len(UnionNames))]
	case o.Leaf:
		f.Ret.Kind = "leaf"
	default:
		f.Ret.Kind = "int"
	}
	f.Ret.Ptr = r.Chance(65)
	if f.Ret.Kind == "obj" || f.Ret.Kind == "union" {
		f.Ret.Ptr = true
	}
	if o.Lists && r.Chance(30) {
		f.Ret.List = true
		f.Ret.ElemNN = r.Chance(20)
		f.Ret.List2 = r.Chance(30) // [[T]]
	}
	if f.Ret.Ptr && r.Chance(12) {
		f.Ret.NN = true
	}
	if o.Args {
		for i, n := 1, r.Intn(3); i <= n; i++ {
			f.Args = append(f.Args, GenArg(r, i))
		}
	}
	return f
}

// MutateService applies one edit to a service specification (a new version of it); returns a label.
func MutateService(r *vh.Rng, s *Service, o GenOpts, allowIncompat bool) string {
	type slot struct {
		owner string
		fs    *[]Field
	}
	slots := []slot{{"Query", &s.Query}}
	for i := range s.Objects {
		slots = append(slots, slot{s.Objects[i].Name, &s.Objects[i].Fields})
	}
	sl := slots[r.Intn(len(slots))]
	fs := sl.fs
	pick := func() *Field {
		if len(*fs) == 0 {
			return nil
		}
		return &(*fs)[r.Intn(len(*fs))]
	}
	if allowIncompat && r.Chance(15) {
		f := pick()
		if f == nil {
			return "noop"
		}
		switch r.Intn(4) {
		case 0:
			f.Ret.List = !f.Ret.List
			return "x-toggle-list"
		case 1:
			if f.Ret.Kind == "int" {
				f.Ret.Kind = "str"
			} else if f.Ret.Kind == "str" {
				f.Ret.Kind = "int"
			} else if f.Ret.Kind == "obj" {
				f.Ret.Target = o.Objects[r.Intn(len(o.Objects))]
			} else {
				return "noop"
			}
			return "x-retype"
		case 2:
			a := GenArg(r, 7)
			a.Opt = false
			f.Args = append(f.Args, a)
			return "x-add-required-arg"
		case 3:
			if len(f.Args) > 0 {
				a := &f.Args[r.Intn(len(f.Args))]
				if a.Kind == "int" {
					a.Kind = "str"
				} else {
					a.Kind = "int"
				}
				return "x-retype-arg"
			}
		}
		return "noop"
	}
	switch r.Intn(10) {
	case 0, 1:
		*fs = append(*fs, GenField(r, sl.owner, 10+r.Intn(6), o))
		// names must stay unique
		seen := map[string]bool{}
		out := (*fs)[:0]
		for _, f := range *fs {
			if !seen[f.Name] {
				seen[f.Name] = true
				out = append(out, f)
			}
		}
		*fs = out
		return "add-field"
	case 2:
		if len(*fs) > 1 {
			i := r.Intn(len(*fs))
			*fs = append((*fs)[:i:i], (*fs)[i+1:]...)
			return "remove-field"
		}
	case 3, 4:
		if f := pick(); f != nil {
			switch r.Intn(3) {
			case 0:
				if f.Ret.Kind != "obj" && f.Ret.Kind != "union" {
					f.Ret.Ptr = !f.Ret.Ptr
					return "toggle-ptr"
				}
				f.Ret.NN = !f.Ret.NN
				return "toggle-nonnull"
			case 1:
				f.Ret.NN = !f.Ret.NN
				return "toggle-nonnull"
			default:
				if f.Ret.List {
					f.Ret.ElemNN = !f.Ret.ElemNN
					return "toggle-elem-nonnull"
				}
			}
		}
	case 5:
		if f := pick(); f != nil {
			a := GenArg(r, 4+r.Intn(3))
			a.Opt = true
			for _, b := range f.Args {
				if b.Name == a.Name {
					return "noop"
				}
			}
			f.Args = append(f.Args, a)
			return "add-optional-arg"
		}
	case 6:
		if f := pick(); f != nil && len(f.Args) > 0 {
			i := r.Intn(len(f.Args))
			f.Args = append(f.Args[:i:i], f.Args[i+1:]...)
			return "remove-arg"
		}
	case 7:
		if f := pick(); f != nil && len(f.Args) > 0 {
			a := &f.Args[r.Intn(len(f.Args))]
			a.Opt = !a.Opt
			return "toggle-arg-optional"
		}
	case 8:
		cs := []string{}
		for _, c := range AllColors {
			if r.Chance(70) {
				cs = append(cs, c)
			}
		}
		if len(cs) == 0 {
			cs = []string{"RED"}
		}
		s.Colors = cs
		return "enum-values"
	case 9:
		if len(s.Objects) > 0 {
			ob := &s.Objects[r.Intn(len(s.Objects))]
			ob.KeyVariant = 1 - ob.KeyVariant
			return "key-variant"
		}
	}
	return "noop"
}

func CloneService(s Service) Service {
	c := s
	c.Query = cloneFields(s.Query)
	c.Objects = make([]Object, len(s.Objects))
	for i, o := range s.Objects {
		c.Objects[i] = o
		c.Objects[i].Fields = cloneFields(o.Fields)
	}
	c.Colors = append([]string{}, s.Colors...)
	return c
}

func cloneFields(fs []Field) []Field {
	out := make([]Field, len(fs))
	for i, f := range fs {
		out[i] = f
		out[i].Args = append([]Arg{}, f.Args...)
	}
	return out
}
