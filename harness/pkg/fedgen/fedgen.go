// Package fedgen builds thunder schemas dynamically from a JSON-serialisable specification, over a
// deterministic "world" of data, for the federation checks (C09, C06).
//
// Object types come from a small static catalogue of named Go structs (schemabuilder needs named types
// for nested input objects and for union members); everything else -- which object has which field funcs,
// their return kinds / nullability / list-ness, their arguments, which service registers what, which key
// struct a service uses to re-fetch an object -- is decided by the specification and implemented with
// reflect.MakeFunc / reflect.StructOf.
package fedgen

import (
	"encoding/json"
	"fmt"
	"reflect"
	"sort"
	"strings"
	"sync"

	"github.com/samsarahq/thunder/graphql/schemabuilder"
)

// ---- catalogue ----

type A struct {
	Id  int64
	Org int64
}
type B struct {
	Id  int64
	Org int64
}
type C struct {
	Id  int64
	Org int64
}
type D struct {
	Id  int64
	Org int64
}

// Leaf is a plain (non-federated) object.
type Leaf struct {
	Val int64
	Tag string
}

type KA1 struct{ Id int64 }
type KA2 struct {
	Id  int64
	Org int64
}
type KB1 struct{ Id int64 }
type KB2 struct {
	Id  int64
	Org int64
}
type KC1 struct{ Id int64 }
type KC2 struct {
	Id  int64
	Org int64
}
type KD1 struct{ Id int64 }
type KD2 struct {
	Id  int64
	Org int64
}

type UAB struct {
	schemabuilder.Union
	*A
	*B
}
type UBC struct {
	schemabuilder.Union
	*B
	*C
}
type UABC struct {
	schemabuilder.Union
	*A
	*B
	*C
}

// UAB2 is a second Go type for a union that a later version widens: registered under the GraphQL name
// of its Go type, so UAB and UAB2 are different unions; see Unions below.
type Color int64

type Filter struct {
	Min *int64
	Tag *string
}
type Req struct {
	N int64
	S *string
}

var ObjTypes = map[string]reflect.Type{
	"A": reflect.TypeOf(A{}), "B": reflect.TypeOf(B{}), "C": reflect.TypeOf(C{}), "D": reflect.TypeOf(D{}),
}
var ObjNames = []string{"A", "B", "C", "D"}
var keyTypes = map[string][2]reflect.Type{
	"A": {reflect.TypeOf(KA1{}), reflect.TypeOf(KA2{})},
	"B": {reflect.TypeOf(KB1{}), reflect.TypeOf(KB2{})},
	"C": {reflect.TypeOf(KC1{}), reflect.TypeOf(KC2{})},
	"D": {reflect.TypeOf(KD1{}), reflect.TypeOf(KD2{})},
}
var UnionTypes = map[string]reflect.Type{
	"UAB": reflect.TypeOf(UAB{}), "UBC": reflect.TypeOf(UBC{}), "UABC": reflect.TypeOf(UABC{}),
}
var UnionMembers = map[string][]string{"UAB": {"A", "B"}, "UBC": {"B", "C"}, "UABC": {"A", "B", "C"}}
var UnionNames = []string{"UAB", "UBC", "UABC"}
var AllColors = []string{"RED", "GREEN", "BLUE", "BLACK"}

// ---- specification ----

type Arg struct {
	Name string `json:"name"` // Go field name (capitalised); GraphQL name has the first letter lowered
	Kind string `json:"kind"` // int | str | bool | enum | filter | req
	Opt  bool   `json:"opt"`  // pointer => nullable
	List bool   `json:"list"`
}

type Ret struct {
	Kind   string `json:"kind"`             // int | str | bool | enum | obj | union | leaf
	Target string `json:"target,omitempty"` // object or union name
	List   bool   `json:"list,omitempty"`
	List2  bool   `json:"list2,omitempty"` // with List: a list of lists ([[T]])
	Ptr    bool   `json:"ptr,omitempty"`      // nullable value (for a list: nullable elements)
	NN     bool   `json:"nn,omitempty"`       // schemabuilder.NonNullable
	ElemNN bool   `json:"elem_nn,omitempty"`  // schemabuilder.ListEntryNonNullable
	NoNull bool   `json:"no_null,omitempty"`  // the world never yields nil here although the type is a pointer
	Wide   int    `json:"wide,omitempty"`     // with List (of objects): the list has this many elements, over 61 object ids
}

type Field struct {
	Name string `json:"name"`
	Ret  Ret    `json:"ret"`
	Args []Arg  `json:"args,omitempty"`
}

type Object struct {
	Name       string  `json:"name"`
	KeyVariant int     `json:"key_variant"` // 0: KX1{Id}, 1: KX2{Id,Org}
	Fields     []Field `json:"fields"`
}

type Service struct {
	Name      string   `json:"name"`
	Federated bool     `json:"federated"` // objects registered with FetchObjectFromKeys
	UseKey    bool     `json:"use_key"`   // obj.Key("id") on the catalogue objects
	Objects   []Object `json:"objects"`
	Query     []Field  `json:"query"`
	Colors    []string `json:"colors,omitempty"` // enum values this service knows (default: all)
	LeafFull  bool     `json:"leaf"`             // register Leaf explicitly
	// MirrorMutation registers every Query field func on Mutation as well (same resolvers over the same world),
	// so that a selection set can be run as a mutation.
	MirrorMutation bool `json:"mirror_mutation,omitempty"`
}

func GqlName(goName string) string {
	if goName == "" {
		return goName
	}
	return strings.ToLower(goName[:1]) + goName[1:]
}

// ---- world ----

// World is a pure function from (type, id, field, canonical args) to a value; every service and the
// monolith resolve through it, so they agree by construction.  Calls are recorded for the model.
type World struct {
	Seed uint64
	mu   sync.Mutex
	// Calls maps "type|id|field|args" to the abstract value returned (see Abstract)
	Calls map[string]interface{}
	// Fail, when non-nil, makes the listed field resolvers return an error.
}

func NewWorld(seed uint64) *World { return &World{Seed: seed, Calls: map[string]interface{}{}} }

func hash(seed uint64, parts ...string) uint64 {
	h := seed*0x9E3779B97F4A7C15 + 0xABCDEF
	for _, p := range parts {
		for i := 0; i < len(p); i++ {
			h ^= uint64(p[i])
			h *= 0x100000001B3
		}
		h ^= 0xFF
		h *= 0x100000001B3
	}
	h ^= h >> 29
	h *= 0xBF58476D1CE4E5B9
	h ^= h >> 32
	return h
}

func (w *World) Org(typ string, id int64) int64 {
	return int64(hash(w.Seed, "org", typ, fmt.Sprint(id)) % 3)
}

func (w *World) record(key string, v interface{}) {
	w.mu.Lock()
	w.Calls[key] = v
	w.mu.Unlock()
}

// Abstract value: nil | int64 | string | bool | Ref{Type,Id} | []interface{} (elements as above) | LeafV
type Ref struct {
	Type string `json:"type"`
	Id   int64  `json:"id"`
}
type LeafV struct {
	Val int64  `json:"val"`
	Tag string `json:"tag"`
}

var strPool = []string{"", "x", "yy", "zed", "q r", "é"}

func (w *World) scalar(kind string, colors []string, h uint64) interface{} {
	switch kind {
	case "int":
		return int64(h%9) - 2
	case "str":
		return strPool[h%uint64(len(strPool))]
	case "bool":
		return h%2 == 0
	case "enum":
		return colors[h%uint64(len(colors))]
	}
	panic("scalar kind " + kind)
}

func (w *World) one(ret Ret, colors []string, h uint64) interface{} {
	switch ret.Kind {
	case "int", "str", "bool", "enum":
		return w.scalar(ret.Kind, colors, h)
	case "obj":
		return Ref{ret.Target, int64(h % 4)}
	case "union":
		ms := UnionMembers[ret.Target]
		return Ref{ms[(h>>8)%uint64(len(ms))], int64(h % 4)}
	case "leaf":
		return LeafV{int64(h % 5), strPool[(h>>4)%uint64(len(strPool))]}
	}
	panic("ret kind " + ret.Kind)
}

// Value computes the abstract value of field `field` on object (typ,id) with canonical args.
// colors: enum values every participant knows.
func (w *World) Value(typ string, id int64, field string, args string, ret Ret, colors []string) interface{} {
	key := fmt.Sprintf("%s|%d|%s|%s", typ, id, field, args)
	h := hash(w.Seed, typ, fmt.Sprint(id), field, args)
	var v interface{}
	canNull := ret.Ptr && !ret.NoNull && !ret.NN
	if ret.List {
		mkList := func(h uint64) []interface{} {
			n := int(h % 4)
			if (h>>20)%5 == 0 {
				n = 0
			}
			if ret.Wide > 0 {
				n = ret.Wide
			}
			l := make([]interface{}, 0, n)
			for i := 0; i < n; i++ {
				hi := hash(h, "elem", fmt.Sprint(i))
				if canNull && !ret.ElemNN && hi%5 == 0 {
					l = append(l, nil)
				} else if ret.Wide > 0 && ret.Kind == "obj" {
					l = append(l, Ref{ret.Target, int64((hi >> 5) % 61)})
				} else {
					l = append(l, w.one(ret, colors, hi>>3))
				}
			}
			return l
		}
		if ret.List2 {
			n := int((h >> 7) % 4)
			outer := make([]interface{}, 0, n)
			for i := 0; i < n; i++ {
				outer = append(outer, mkList(hash(h, "row", fmt.Sprint(i))))
			}
			v = outer
		} else {
			v = mkList(h)
		}
	} else if canNull && (h>>16)%4 == 0 {
		v = nil
	} else {
		v = w.one(ret, colors, h>>3)
	}
	w.record(key, v)
	return v
}

// ---- building ----

var colorIndex = map[string]Color{"RED": 1, "GREEN": 2, "BLUE": 3, "BLACK": 4}
var colorName = map[Color]string{1: "RED", 2: "GREEN", 3: "BLUE", 4: "BLACK"}

func scalarType(kind string) reflect.Type {
	switch kind {
	case "int":
		return reflect.TypeOf(int64(0))
	case "str":
		return reflect.TypeOf("")
	case "bool":
		return reflect.TypeOf(false)
	case "enum":
		return reflect.TypeOf(Color(0))
	case "filter":
		return reflect.TypeOf(Filter{})
	case "req":
		return reflect.TypeOf(Req{})
	}
	panic("scalar type " + kind)
}

func argsType(args []Arg) reflect.Type {
	fs := make([]reflect.StructField, 0, len(args))
	for _, a := range args {
		t := scalarType(a.Kind)
		if a.List {
			t = reflect.SliceOf(t)
			if a.Opt {
				t = reflect.PtrTo(t)
			}
		} else if a.Opt {
			t = reflect.PtrTo(t)
		}
		fs = append(fs, reflect.StructField{Name: a.Name, Type: t})
	}
	return reflect.StructOf(fs)
}

func elemType(ret Ret) reflect.Type {
	switch ret.Kind {
	case "obj":
		return reflect.PtrTo(ObjTypes[ret.Target])
	case "union":
		return reflect.PtrTo(UnionTypes[ret.Target])
	case "leaf":
		if ret.Ptr {
			return reflect.PtrTo(reflect.TypeOf(Leaf{}))
		}
		return reflect.TypeOf(Leaf{})
	default:
		t := scalarType(ret.Kind)
		if ret.Ptr {
			return reflect.PtrTo(t)
		}
		return t
	}
}

func retType(ret Ret) reflect.Type {
	t := elemType(ret)
	if ret.List {
		t = reflect.SliceOf(t)
		if ret.List2 {
			t = reflect.SliceOf(t)
		}
	}
	return t
}

// canonArgs renders the parsed argument struct canonically (JSON of the struct; nil pointers as null).
func canonArgs(v reflect.Value) string {
	b, err := json.Marshal(v.Interface())
	if err != nil {
		return "!" + err.Error()
	}
	return string(b)
}

func (w *World) concrete(t reflect.Type, ret Ret, v interface{}) reflect.Value {
	if v == nil {
		return reflect.Zero(t)
	}
	switch x := v.(type) {
	case Ref:
		switch ret.Kind {
		case "obj":
			o := reflect.New(ObjTypes[x.Type])
			o.Elem().Field(0).SetInt(x.Id)
			o.Elem().Field(1).SetInt(w.Org(x.Type, x.Id))
			return o
		case "union":
			u := reflect.New(UnionTypes[ret.Target])
			o := reflect.New(ObjTypes[x.Type])
			o.Elem().Field(0).SetInt(x.Id)
			o.Elem().Field(1).SetInt(w.Org(x.Type, x.Id))
			ut := UnionTypes[ret.Target]
			for i := 0; i < ut.NumField(); i++ {
				if ut.Field(i).Type == o.Type() {
					u.Elem().Field(i).Set(o)
				}
			}
			return u
		}
	case LeafV:
		l := reflect.ValueOf(Leaf{Val: x.Val, Tag: x.Tag})
		if t.Kind() == reflect.Ptr {
			p := reflect.New(reflect.TypeOf(Leaf{}))
			p.Elem().Set(l)
			return p
		}
		return l
	case []interface{}:
		s := reflect.MakeSlice(t, 0, len(x))
		for _, e := range x {
			s = reflect.Append(s, w.concrete(t.Elem(), ret, e))
		}
		return s
	}
	var sv reflect.Value
	switch x := v.(type) {
	case int64:
		sv = reflect.ValueOf(x)
	case string:
		if ret.Kind == "enum" {
			sv = reflect.ValueOf(colorIndex[x])
		} else {
			sv = reflect.ValueOf(x)
		}
	case bool:
		sv = reflect.ValueOf(x)
	default:
		panic(fmt.Sprintf("concrete: %T", v))
	}
	if t.Kind() == reflect.Ptr {
		p := reflect.New(t.Elem())
		p.Elem().Set(sv)
		return p
	}
	return sv
}

func (w *World) fieldFunc(owner string, src reflect.Type, f Field, colors []string) (interface{}, []schemabuilder.FieldFuncOption) {
	var in []reflect.Type
	if src != nil {
		in = append(in, reflect.PtrTo(src))
	}
	hasArgs := len(f.Args) > 0
	if hasArgs {
		in = append(in, argsType(f.Args))
	}
	rt := retType(f.Ret)
	ft := reflect.FuncOf(in, []reflect.Type{rt}, false)
	ret := f.Ret
	name := GqlName(f.Name)
	fn := reflect.MakeFunc(ft, func(a []reflect.Value) []reflect.Value {
		var id int64
		i := 0
		if src != nil {
			id = a[0].Elem().Field(0).Int()
			i = 1
		}
		args := ""
		if hasArgs {
			args = canonArgs(a[i])
		}
		v := w.Value(owner, id, name, args, ret, colors)
		return []reflect.Value{w.concrete(rt, ret, v)}
	})
	var opts []schemabuilder.FieldFuncOption
	if ret.NN {
		opts = append(opts, schemabuilder.NonNullable)
	}
	if ret.ElemNN {
		opts = append(opts, schemabuilder.ListEntryNonNullable)
	}
	return fn.Interface(), opts
}

func (w *World) fetchFunc(obj string, variant int) interface{} {
	kt := keyTypes[obj][variant]
	ot := ObjTypes[obj]
	argT := reflect.StructOf([]reflect.StructField{{Name: "Keys", Type: reflect.SliceOf(reflect.PtrTo(kt))}})
	ft := reflect.FuncOf([]reflect.Type{argT}, []reflect.Type{reflect.SliceOf(reflect.PtrTo(ot))}, false)
	return reflect.MakeFunc(ft, func(a []reflect.Value) []reflect.Value {
		keys := a[0].Field(0)
		out := reflect.MakeSlice(reflect.SliceOf(reflect.PtrTo(ot)), 0, keys.Len())
		for i := 0; i < keys.Len(); i++ {
			k := keys.Index(i)
			o := reflect.New(ot)
			if !k.IsNil() {
				id := k.Elem().Field(0).Int()
				o.Elem().Field(0).SetInt(id)
				o.Elem().Field(1).SetInt(w.Org(obj, id))
			}
			out = reflect.Append(out, o)
		}
		return []reflect.Value{out}
	}).Interface()
}

func usesKind(fs []Field, kind string) bool {
	for _, f := range fs {
		if f.Ret.Kind == kind {
			return true
		}
		for _, a := range f.Args {
			if a.Kind == kind {
				return true
			}
		}
	}
	return false
}

// Build constructs the schemabuilder schema of one service.  colors = the enum values the world may yield.
func Build(svc Service, w *World, worldColors []string) (s *schemabuilder.Schema, err error) {
	defer func() {
		if e := recover(); e != nil {
			err = fmt.Errorf("build %s: %v", svc.Name, e)
		}
	}()
	s = schemabuilder.NewSchemaWithName(svc.Name)
	colors := svc.Colors
	if len(colors) == 0 {
		colors = AllColors
	}
	em := map[string]Color{}
	for _, c := range colors {
		em[c] = colorIndex[c]
	}
	s.Enum(Color(0), em)
	q := s.Query()
	m := s.Mutation()
	for _, f := range svc.Query {
		fn, opts := w.fieldFunc("Query", nil, f, worldColors)
		q.FieldFunc(GqlName(f.Name), fn, opts...)
		if svc.MirrorMutation {
			fn2, opts2 := w.fieldFunc("Query", nil, f, worldColors)
			m.FieldFunc(GqlName(f.Name), fn2, opts2...)
		}
	}
	objs := append([]Object{}, svc.Objects...)
	sort.SliceStable(objs, func(i, j int) bool { return objs[i].Name < objs[j].Name })
	for _, o := range objs {
		var so *schemabuilder.Object
		zero := reflect.New(ObjTypes[o.Name]).Elem().Interface()
		if svc.Federated {
			so = s.Object(o.Name, zero, schemabuilder.FetchObjectFromKeys(w.fetchFunc(o.Name, o.KeyVariant)))
		} else {
			so = s.Object(o.Name, zero)
		}
		if svc.UseKey {
			so.Key("id")
		}
		for _, f := range o.Fields {
			fn, opts := w.fieldFunc(o.Name, ObjTypes[o.Name], f, worldColors)
			so.FieldFunc(GqlName(f.Name), fn, opts...)
		}
	}
	if svc.LeafFull {
		s.Object("Leaf", Leaf{})
	}
	return s, nil
}

// Referenced returns the catalogue objects reachable from the service's fields (they must be registered
// as Objects for the service to build federated).
func Referenced(svc Service) []string {
	seen := map[string]bool{}
	var visit func(fs []Field)
	visit = func(fs []Field) {
		for _, f := range fs {
			switch f.Ret.Kind {
			case "obj":
				seen[f.Ret.Target] = true
			case "union":
				for _, m := range UnionMembers[f.Ret.Target] {
					seen[m] = true
				}
			}
		}
	}
	visit(svc.Query)
	for _, o := range svc.Objects {
		seen[o.Name] = true
		visit(o.Fields)
	}
	var out []string
	for k := range seen {
		out = append(out, k)
	}
	sort.Strings(out)
	return out
}

// Complete adds an empty Object entry for every referenced but unregistered catalogue object.
func Complete(svc *Service, variant func(obj string) int) {
	have := map[string]bool{}
	for _, o := range svc.Objects {
		have[o.Name] = true
	}
	for _, n := range Referenced(*svc) {
		if !have[n] {
			svc.Objects = append(svc.Objects, Object{Name: n, KeyVariant: variant(n)})
		}
	}
	sort.SliceStable(svc.Objects, func(i, j int) bool { return svc.Objects[i].Name < svc.Objects[j].Name })
}

// CanonArgsFromJSON renders query arguments (JSON values as thunder's parser produces them: float64 numbers,
// enum names as strings) exactly as the resolvers of Build see them (canonArgs of the parsed argument struct).
func CanonArgsFromJSON(args []Arg, values map[string]interface{}) (string, error) {
	if len(args) == 0 {
		return "", nil
	}
	t := argsType(args)
	v := reflect.New(t).Elem()
	for i, a := range args {
		raw, ok := values[GqlName(a.Name)]
		if !ok || raw == nil {
			if !a.Opt {
				return "", fmt.Errorf("missing required argument %s", GqlName(a.Name))
			}
			continue
		}
		fv := v.Field(i)
		set := func(dst reflect.Value, x interface{}) error {
			switch a.Kind {
			case "int":
				f, ok := x.(float64)
				if !ok {
					return fmt.Errorf("not a number")
				}
				dst.SetInt(int64(f))
			case "str":
				s, ok := x.(string)
				if !ok {
					return fmt.Errorf("not a string")
				}
				dst.SetString(s)
			case "bool":
				b, ok := x.(bool)
				if !ok {
					return fmt.Errorf("not a bool")
				}
				dst.SetBool(b)
			case "enum":
				s, ok := x.(string)
				if !ok {
					return fmt.Errorf("not an enum")
				}
				dst.SetInt(int64(colorIndex[s]))
			case "filter":
				m, ok := x.(map[string]interface{})
				if !ok {
					return fmt.Errorf("not an object")
				}
				var f Filter
				if n, ok := m["min"].(float64); ok {
					k := int64(n)
					f.Min = &k
				}
				if s, ok := m["tag"].(string); ok {
					f.Tag = &s
				}
				dst.Set(reflect.ValueOf(f))
			case "req":
				m, ok := x.(map[string]interface{})
				if !ok {
					return fmt.Errorf("not an object")
				}
				var q Req
				n, ok := m["n"].(float64)
				if !ok {
					return fmt.Errorf("missing n")
				}
				q.N = int64(n)
				if s, ok := m["s"].(string); ok {
					q.S = &s
				}
				dst.Set(reflect.ValueOf(q))
			}
			return nil
		}
		target := fv
		if a.Opt {
			p := reflect.New(fv.Type().Elem())
			fv.Set(p)
			target = p.Elem()
		}
		if a.List {
			l, ok := raw.([]interface{})
			if !ok {
				return "", fmt.Errorf("not a list")
			}
			s := reflect.MakeSlice(target.Type(), len(l), len(l))
			for j, e := range l {
				if err := set(s.Index(j), e); err != nil {
					return "", err
				}
			}
			target.Set(s)
		} else if err := set(target, raw); err != nil {
			return "", err
		}
	}
	return canonArgs(v), nil
}

// ColorValue is how thunder renders an enum result: the underlying Go value.
func ColorValue(name string) int64 { return int64(colorIndex[name]) }

// Snapshot returns a copy of the recorded resolver calls.
func (w *World) Snapshot() map[string]interface{} {
	w.mu.Lock()
	defer w.mu.Unlock()
	m := make(map[string]interface{}, len(w.Calls))
	for k, v := range w.Calls {
		m[k] = v
	}
	return m
}
