package fakesql

import (
	"bytes"
	"database/sql/driver"
	"fmt"
	"math"
	"sort"
	"strconv"
	"strings"
	"time"
)

// ColType is the storage class of a column.
type ColType int

const (
	Int ColType = iota // any integer column (TINYINT .. BIGINT)
	Float
	Bool // TINYINT(1): stored as int64 0/1
	Text // CHAR / VARCHAR / TEXT: stored as string
	Blob // BINARY / BLOB: stored as []byte
	Time // DATETIME: stored as time.Time (UTC)
)

func (t ColType) String() string {
	return [...]string{"int", "float", "bool", "text", "blob", "time"}[t]
}

// Column describes one column of a table.
type Column struct {
	Name          string
	Type          ColType
	Primary       bool
	AutoIncrement bool
	Nullable      bool // NULL allowed (INSERT of NULL into a non-nullable column is an error)
}

// Table is an in-memory table.  Rows hold canonical values in Columns order.
type Table struct {
	Name    string
	Columns []Column
	Rows    [][]driver.Value
	nextID  int64
}

func (t *Table) colIndex(name string) int {
	for i, c := range t.Columns {
		if strings.EqualFold(c.Name, name) {
			return i
		}
	}
	return -1
}

func (t *Table) clone() *Table {
	c := &Table{Name: t.Name, Columns: t.Columns, nextID: t.nextID, Rows: make([][]driver.Value, len(t.Rows))}
	for i, r := range t.Rows {
		c.Rows[i] = append([]driver.Value{}, r...)
	}
	return c
}

// Tri is a truth value of SQL's three-valued logic.
type Tri int

const (
	False Tri = iota
	True
	Unknown
)

func triNot(a Tri) Tri {
	switch a {
	case True:
		return False
	case False:
		return True
	}
	return Unknown
}
func triAnd(a, b Tri) Tri {
	if a == False || b == False {
		return False
	}
	if a == True && b == True {
		return True
	}
	return Unknown
}
func triOr(a, b Tri) Tri {
	if a == True || b == True {
		return True
	}
	if a == False && b == False {
		return False
	}
	return Unknown
}

// ---- values ----

var timeLayouts = []string{"2006-01-02 15:04:05.999999999", "2006-01-02 15:04:05", time.RFC3339Nano, "2006-01-02"}

func parseTime(s string) (time.Time, bool) {
	for _, l := range timeLayouts {
		if t, err := time.ParseInLocation(l, s, time.UTC); err == nil {
			return t.UTC(), true
		}
	}
	return time.Time{}, false
}

// numPrefix converts a string the way MySQL does in numeric context: longest numeric prefix, else 0.
func numPrefix(s string) float64 {
	s = strings.TrimLeft(s, " \t\n")
	end := 0
	seenDigit, seenDot, seenExp := false, false, false
	for i := 0; i < len(s); i++ {
		c := s[i]
		switch {
		case c >= '0' && c <= '9':
			seenDigit = true
			end = i + 1
		case (c == '-' || c == '+') && (i == 0 || s[i-1] == 'e' || s[i-1] == 'E'):
		case c == '.' && !seenDot && !seenExp:
			seenDot = true
		case (c == 'e' || c == 'E') && seenDigit && !seenExp:
			seenExp = true
		default:
			i = len(s)
		}
	}
	if !seenDigit {
		return 0
	}
	f, err := strconv.ParseFloat(s[:end], 64)
	if err != nil {
		return 0
	}
	return f
}

// Normalize maps an argument as database/sql hands it to the driver (int64, float64, bool, []byte,
// string, time.Time, nil) to itself; anything else is an error.
func normalizeArg(v interface{}) (driver.Value, error) {
	switch x := v.(type) {
	case nil, int64, float64, bool, string, []byte, time.Time:
		return x, nil
	}
	return nil, fmt.Errorf("fakesql: unsupported argument type %T", v)
}

// Coerce converts a value to the canonical storage form of column type t (strict).
func Coerce(t ColType, v driver.Value) (driver.Value, error) {
	if v == nil {
		return nil, nil
	}
	bad := func() (driver.Value, error) {
		return nil, fmt.Errorf("Error 1366: incorrect %s value: %T %v", t, v, v)
	}
	switch t {
	case Int, Bool:
		switch x := v.(type) {
		case int64:
			return x, nil
		case bool:
			if x {
				return int64(1), nil
			}
			return int64(0), nil
		case float64:
			return int64(math.RoundToEven(x)), nil
		case string:
			n, err := strconv.ParseInt(strings.TrimSpace(x), 10, 64)
			if err != nil {
				return bad()
			}
			return n, nil
		case []byte:
			n, err := strconv.ParseInt(strings.TrimSpace(string(x)), 10, 64)
			if err != nil {
				return bad()
			}
			return n, nil
		}
	case Float:
		switch x := v.(type) {
		case int64:
			return float64(x), nil
		case float64:
			return x, nil
		case bool:
			if x {
				return float64(1), nil
			}
			return float64(0), nil
		case string:
			f, err := strconv.ParseFloat(strings.TrimSpace(x), 64)
			if err != nil {
				return bad()
			}
			return f, nil
		case []byte:
			f, err := strconv.ParseFloat(strings.TrimSpace(string(x)), 64)
			if err != nil {
				return bad()
			}
			return f, nil
		}
	case Text:
		switch x := v.(type) {
		case string:
			return x, nil
		case []byte:
			return string(x), nil
		case int64:
			return strconv.FormatInt(x, 10), nil
		case float64:
			return strconv.FormatFloat(x, 'g', -1, 64), nil
		case bool:
			if x {
				return "1", nil
			}
			return "0", nil
		case time.Time:
			return x.UTC().Format("2006-01-02 15:04:05.999999999"), nil
		}
	case Blob:
		switch x := v.(type) {
		case string:
			return []byte(x), nil
		case []byte:
			return append([]byte{}, x...), nil
		case int64:
			return []byte(strconv.FormatInt(x, 10)), nil
		}
	case Time:
		switch x := v.(type) {
		case time.Time:
			return x.UTC(), nil
		case string:
			if tt, ok := parseTime(x); ok {
				return tt, nil
			}
		case []byte:
			if tt, ok := parseTime(string(x)); ok {
				return tt, nil
			}
		}
	}
	return bad()
}

func asNumber(v driver.Value) (float64, int64, bool, bool) { // float, int, isInt, ok
	switch x := v.(type) {
	case int64:
		return float64(x), x, true, true
	case float64:
		return x, 0, false, true
	case bool:
		if x {
			return 1, 1, true, true
		}
		return 0, 0, true, true
	}
	return 0, 0, false, false
}

func asBytes(v driver.Value) ([]byte, bool) {
	switch x := v.(type) {
	case string:
		return []byte(x), true
	case []byte:
		return x, true
	}
	return nil, false
}

// Compare compares two non-NULL values with MySQL's rules as documented in the package comment.
// ok=false when the pair is not comparable here.
func Compare(a, b driver.Value) (int, bool) {
	ta, aIsT := a.(time.Time)
	tb, bIsT := b.(time.Time)
	if aIsT || bIsT {
		if !aIsT {
			if s, ok := asBytes(a); ok {
				ta, aIsT = parseTime(string(s))
			}
		}
		if !bIsT {
			if s, ok := asBytes(b); ok {
				tb, bIsT = parseTime(string(s))
			}
		}
		if !aIsT || !bIsT {
			return 0, false
		}
		switch {
		case ta.Before(tb):
			return -1, true
		case ta.After(tb):
			return 1, true
		}
		return 0, true
	}
	fa, ia, aInt, aNum := asNumber(a)
	fb, ib, bInt, bNum := asNumber(b)
	sa, aStr := asBytes(a)
	sb, bStr := asBytes(b)
	switch {
	case aNum && bNum:
		if aInt && bInt {
			switch {
			case ia < ib:
				return -1, true
			case ia > ib:
				return 1, true
			}
			return 0, true
		}
	case aStr && bStr:
		return bytes.Compare(sa, sb), true
	case aNum && bStr:
		fb = numPrefix(string(sb))
	case aStr && bNum:
		fa = numPrefix(string(sa))
	default:
		return 0, false
	}
	switch {
	case fa < fb:
		return -1, true
	case fa > fb:
		return 1, true
	}
	return 0, true
}

func cmpTri(op string, a, b driver.Value) Tri {
	if a == nil || b == nil {
		return Unknown
	}
	c, ok := Compare(a, b)
	if !ok {
		return False
	}
	var r bool
	switch op {
	case "=":
		r = c == 0
	case "<>":
		r = c != 0
	case "<":
		r = c < 0
	case "<=":
		r = c <= 0
	case ">":
		r = c > 0
	case ">=":
		r = c >= 0
	}
	if r {
		return True
	}
	return False
}

// EvalCond evaluates a condition on a row with three-valued logic.
func EvalCond(t *Table, c *Cond, row []driver.Value, args []driver.Value) (Tri, error) {
	if c == nil {
		return True, nil
	}
	val := func(o Operand) (driver.Value, error) {
		if o.IsArg {
			if o.Arg >= len(args) {
				return nil, fmt.Errorf("fakesql: statement has more placeholders than arguments")
			}
			return args[o.Arg], nil
		}
		return o.Lit, nil
	}
	switch c.Op {
	case "or", "and":
		acc := False
		if c.Op == "and" {
			acc = True
		}
		for _, k := range c.Kids {
			v, err := EvalCond(t, k, row, args)
			if err != nil {
				return Unknown, err
			}
			if c.Op == "and" {
				acc = triAnd(acc, v)
			} else {
				acc = triOr(acc, v)
			}
		}
		return acc, nil
	case "not":
		v, err := EvalCond(t, c.Kids[0], row, args)
		return triNot(v), err
	}
	ci := t.colIndex(c.Col)
	if ci < 0 {
		return Unknown, fmt.Errorf("Error 1054: Unknown column '%s' in 'where clause'", c.Col)
	}
	cell := row[ci]
	switch c.Op {
	case "cmp":
		v, err := val(c.Vals[0])
		if err != nil {
			return Unknown, err
		}
		return cmpTri(c.Cmp, cell, v), nil
	case "is", "isnot":
		v, err := val(c.Vals[0])
		if err != nil {
			return Unknown, err
		}
		var r Tri
		switch x := v.(type) {
		case nil:
			r = False
			if cell == nil {
				r = True
			}
		case bool: // IS TRUE / IS FALSE
			if cell == nil {
				r = False
			} else {
				f, _, _, ok := asNumber(cell)
				if !ok {
					if s, isS := asBytes(cell); isS {
						f = numPrefix(string(s))
					}
				}
				r = False
				if (f != 0) == x {
					r = True
				}
			}
		default:
			// MySQL rejects `c IS 5`; sqlgen only produces IS with a NULL argument.
			return Unknown, fmt.Errorf("Error 1064: IS requires NULL, TRUE or FALSE (got %T)", v)
		}
		if c.Op == "isnot" {
			r = triNot(r)
		}
		return r, nil
	case "in", "notin":
		acc := False
		for _, o := range c.Vals {
			v, err := val(o)
			if err != nil {
				return Unknown, err
			}
			acc = triOr(acc, cmpTri("=", cell, v))
		}
		if c.Op == "notin" {
			acc = triNot(acc)
		}
		return acc, nil
	}
	return Unknown, fmt.Errorf("fakesql: unknown condition %q", c.Op)
}

// ---- execution ----

// Change is one row change of a statement (database column order, canonical values).
type Change struct {
	Table  string
	Before []driver.Value
	After  []driver.Value
}

type execResult struct {
	lastID   int64
	affected int64
	changes  []Change
}

func (r execResult) LastInsertId() (int64, error) { return r.lastID, nil }
func (r execResult) RowsAffected() (int64, error) { return r.affected, nil }

type resultSet struct {
	cols  []string
	types []ColType
	rows  [][]driver.Value
}

type database struct {
	tables map[string]*Table
}

func (d *database) clone() *database {
	c := &database{tables: map[string]*Table{}}
	for k, t := range d.tables {
		c.tables[k] = t.clone()
	}
	return c
}

func (d *database) table(name string) (*Table, error) {
	t, ok := d.tables[strings.ToLower(name)]
	if !ok {
		return nil, fmt.Errorf("Error 1146: Table '%s' doesn't exist", name)
	}
	return t, nil
}

func (d *database) query(st *Stmt, args []driver.Value) (*resultSet, error) {
	switch st.Kind {
	case Explain:
		// id, select_type, table, type, possible_keys, key, key_len, ref, rows, Extra
		return &resultSet{
			cols:  []string{"id", "select_type", "table", "type", "possible_keys", "key", "key_len", "ref", "rows", "Extra"},
			types: []ColType{Int, Text, Text, Text, Text, Text, Text, Text, Int, Text},
			rows:  [][]driver.Value{{int64(1), "SIMPLE", st.Table, "ref", "PRIMARY", "PRIMARY", "8", "const", int64(1), nil}},
		}, nil
	case InfoSchema:
		// SELECT column_name FROM information_schema.columns WHERE table_schema = ? AND table_name = ?
		name := ""
		for _, conj := range Disjuncts(st.Where) {
			for _, a := range conj {
				if strings.EqualFold(a.Col, "table_name") && len(a.Vals) == 1 {
					var v interface{} = a.Vals[0].Lit
					if a.Vals[0].IsArg && a.Vals[0].Arg < len(args) {
						v = args[a.Vals[0].Arg]
					}
					if b, ok := asBytes(v); ok {
						name = string(b)
					}
				}
			}
		}
		rs := &resultSet{cols: []string{"column_name"}, types: []ColType{Text}}
		if t, ok := d.tables[strings.ToLower(name)]; ok {
			for _, c := range t.Columns {
				rs.rows = append(rs.rows, []driver.Value{c.Name})
			}
		}
		return rs, nil
	case Select, Count:
	default:
		return nil, fmt.Errorf("fakesql: %s is not a query", st.Kind)
	}
	t, err := d.table(st.Table)
	if err != nil {
		return nil, err
	}
	var idx []int
	if st.Kind == Select {
		if st.Cols == nil {
			for i := range t.Columns {
				idx = append(idx, i)
			}
		}
		for _, c := range st.Cols {
			i := t.colIndex(c)
			if i < 0 {
				return nil, fmt.Errorf("Error 1054: Unknown column '%s' in 'field list'", c)
			}
			idx = append(idx, i)
		}
	}
	var sel [][]driver.Value
	for _, r := range t.Rows {
		v, err := EvalCond(t, st.Where, r, args)
		if err != nil {
			return nil, err
		}
		if v == True {
			sel = append(sel, r)
		}
	}
	if st.Kind == Count {
		return &resultSet{cols: []string{"COUNT(*)"}, types: []ColType{Int}, rows: [][]driver.Value{{int64(len(sel))}}}, nil
	}
	if len(st.OrderBy) > 0 {
		var oi []int
		for _, o := range st.OrderBy {
			i := t.colIndex(o.Col)
			if i < 0 {
				return nil, fmt.Errorf("Error 1054: Unknown column '%s' in 'order clause'", o.Col)
			}
			oi = append(oi, i)
		}
		sort.SliceStable(sel, func(a, b int) bool {
			for k, i := range oi {
				x, y := sel[a][i], sel[b][i]
				c := 0
				switch {
				case x == nil && y == nil:
				case x == nil:
					c = -1 // NULLs first in ASC
				case y == nil:
					c = 1
				default:
					c, _ = Compare(x, y)
				}
				if st.OrderBy[k].Desc {
					c = -c
				}
				if c != 0 {
					return c < 0
				}
			}
			return false
		})
	}
	if st.Limit > 0 && len(sel) > st.Limit {
		sel = sel[:st.Limit]
	}
	rs := &resultSet{}
	for _, i := range idx {
		rs.cols = append(rs.cols, t.Columns[i].Name)
		rs.types = append(rs.types, t.Columns[i].Type)
	}
	for _, r := range sel {
		row := make([]driver.Value, len(idx))
		for k, i := range idx {
			row[k] = r[i]
		}
		rs.rows = append(rs.rows, row)
	}
	return rs, nil
}

func (t *Table) pkEqual(a, b []driver.Value) bool {
	any := false
	for i, c := range t.Columns {
		if !c.Primary {
			continue
		}
		any = true
		if a[i] == nil || b[i] == nil {
			return false
		}
		if c, ok := Compare(a[i], b[i]); !ok || c != 0 {
			return false
		}
	}
	return any
}

func (d *database) exec(st *Stmt, args []driver.Value) (execResult, error) {
	var res execResult
	val := func(o Operand) (driver.Value, error) {
		if o.IsArg {
			if o.Arg >= len(args) {
				return nil, fmt.Errorf("fakesql: statement has more placeholders than arguments")
			}
			return args[o.Arg], nil
		}
		return o.Lit, nil
	}
	t, err := d.table(st.Table)
	if err != nil {
		return res, err
	}
	switch st.Kind {
	case InsertStmt, Upsert:
		cidx := make([]int, len(st.Cols))
		for k, c := range st.Cols {
			cidx[k] = t.colIndex(c)
			if cidx[k] < 0 {
				return res, fmt.Errorf("Error 1054: Unknown column '%s' in 'field list'", c)
			}
		}
		rows := st.Rows
		if len(st.Cols) == 0 {
			rows = [][]Operand{{}}
		}
		// work on a copy so that a failing multi-row statement changes nothing
		work := t.clone()
		for _, tuple := range rows {
			row := make([]driver.Value, len(t.Columns))
			given := make([]bool, len(t.Columns))
			for k, o := range tuple {
				v, err := val(o)
				if err != nil {
					return res, err
				}
				cv, err := Coerce(t.Columns[cidx[k]].Type, v)
				if err != nil {
					return res, fmt.Errorf("%v for column '%s'", err, t.Columns[cidx[k]].Name)
				}
				row[cidx[k]] = cv
				given[cidx[k]] = true
			}
			for i, c := range t.Columns {
				if c.AutoIncrement {
					if n, ok := row[i].(int64); row[i] == nil || (ok && n == 0) {
						work.nextID++
						row[i] = work.nextID
						res.lastID = work.nextID
					} else if ok && n > work.nextID {
						work.nextID = n
					}
					continue
				}
				if row[i] == nil && !c.Nullable {
					if given[i] {
						return res, fmt.Errorf("Error 1048: Column '%s' cannot be null", c.Name)
					}
					return res, fmt.Errorf("Error 1364: Field '%s' doesn't have a default value", c.Name)
				}
			}
			dup := -1
			for j, r := range work.Rows {
				if work.pkEqual(r, row) {
					dup = j
					break
				}
			}
			switch {
			case dup < 0:
				work.Rows = append(work.Rows, row)
				res.affected++
				res.changes = append(res.changes, Change{t.Name, nil, append([]driver.Value{}, row...)})
			case st.Kind == Upsert:
				before := append([]driver.Value{}, work.Rows[dup]...)
				after := append([]driver.Value{}, before...)
				for _, c := range st.OnDup {
					i := t.colIndex(c)
					if i < 0 {
						return res, fmt.Errorf("Error 1054: Unknown column '%s' in 'field list'", c)
					}
					after[i] = row[i]
				}
				if !rowsEqual(before, after) {
					work.Rows[dup] = after
					res.affected += 2
					res.changes = append(res.changes, Change{t.Name, before, append([]driver.Value{}, after...)})
				}
			default:
				return res, fmt.Errorf("Error 1062: Duplicate entry for key 'PRIMARY'")
			}
		}
		t.Rows, t.nextID = work.Rows, work.nextID
		return res, nil
	case Update:
		sidx := make([]int, len(st.Set))
		svals := make([]driver.Value, len(st.Set))
		for k, c := range st.Set {
			sidx[k] = t.colIndex(c)
			if sidx[k] < 0 {
				return res, fmt.Errorf("Error 1054: Unknown column '%s' in 'field list'", c)
			}
			v, err := val(st.SetVals[k])
			if err != nil {
				return res, err
			}
			cv, err := Coerce(t.Columns[sidx[k]].Type, v)
			if err != nil {
				return res, fmt.Errorf("%v for column '%s'", err, c)
			}
			if cv == nil && !t.Columns[sidx[k]].Nullable {
				return res, fmt.Errorf("Error 1048: Column '%s' cannot be null", c)
			}
			svals[k] = cv
		}
		if len(st.Set) == 0 {
			return res, fmt.Errorf("Error 1064: UPDATE without SET")
		}
		for j, r := range t.Rows {
			v, err := EvalCond(t, st.Where, r, args)
			if err != nil {
				return res, err
			}
			if v != True {
				continue
			}
			before := append([]driver.Value{}, r...)
			after := append([]driver.Value{}, r...)
			for k, i := range sidx {
				after[i] = svals[k]
			}
			if !rowsEqual(before, after) {
				t.Rows[j] = after
				res.affected++
				res.changes = append(res.changes, Change{t.Name, before, append([]driver.Value{}, after...)})
			}
		}
		return res, nil
	case Delete:
		var keep [][]driver.Value
		for _, r := range t.Rows {
			v, err := EvalCond(t, st.Where, r, args)
			if err != nil {
				return res, err
			}
			if v == True {
				res.affected++
				res.changes = append(res.changes, Change{t.Name, append([]driver.Value{}, r...), nil})
			} else {
				keep = append(keep, r)
			}
		}
		t.Rows = keep
		return res, nil
	}
	return res, fmt.Errorf("fakesql: %s cannot be executed with Exec", st.Kind)
}

func rowsEqual(a, b []driver.Value) bool {
	for i := range a {
		if (a[i] == nil) != (b[i] == nil) {
			return false
		}
		if a[i] == nil {
			continue
		}
		if ba, ok := a[i].([]byte); ok {
			bb, ok2 := b[i].([]byte)
			if !ok2 || !bytes.Equal(ba, bb) {
				return false
			}
			continue
		}
		if ta, ok := a[i].(time.Time); ok {
			tb, ok2 := b[i].(time.Time)
			if !ok2 || !ta.Equal(tb) {
				return false
			}
			continue
		}
		if a[i] != b[i] {
			return false
		}
	}
	return true
}
