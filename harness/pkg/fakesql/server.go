package fakesql

import (
	"context"
	"database/sql"
	"database/sql/driver"
	"errors"
	"fmt"
	"io"
	"strconv"
	"strings"
	"sync"
	"time"
)

// Repr selects how result rows are represented (see the package comment).
type Repr int

const (
	ReprBinary Repr = iota // int64 / float64 / []byte / time.Time, as go-sql-driver's prepared statements
	ReprText               // every non-NULL value as []byte text, as go-sql-driver's text protocol
	ReprString             // like ReprBinary, but text columns as string
)

// Entry is one line of the server log.
type Entry struct {
	Kind string        // "query", "exec", "begin", "commit", "rollback"
	SQL  string        // statement text exactly as received ("" for begin/commit/rollback)
	Args []interface{} // arguments exactly as database/sql handed them to the driver
	InTx bool          // issued on a connection that has an open transaction
	Conn int           // connection number (1-based, in order of creation)
	Err  string        // error returned to the caller, "" if none
}

// Server is one fake MySQL server.
type Server struct {
	mu       sync.Mutex
	name     string
	data     *database
	log      []Entry
	conns    int
	onCommit func(table string, before, after []driver.Value)
	txLock   sync.Mutex

	// Repr selects the row representation.  Set before use.
	Repr Repr
	// SerialTx makes Begin wait until no other transaction is open.
	SerialTx bool
	// FailNext, when set, is called with every statement before it runs; a non-nil error is returned to
	// the caller instead of running it (fault injection).  The statement is still logged.
	FailNext func(kind, sql string) error
}

var (
	regMu   sync.Mutex
	servers = map[string]*Server{}
	counter int
)

func init() { sql.Register("fakesql", drv{}) }

// NewServer makes an empty server with a unique name.
func NewServer() *Server {
	regMu.Lock()
	defer regMu.Unlock()
	counter++
	s := &Server{name: "fakesql-" + strconv.Itoa(counter), data: &database{tables: map[string]*Table{}}}
	servers[s.name] = s
	return s
}

// Name is the DSN under which sql.Open("fakesql", name) reaches this server.
func (s *Server) Name() string { return s.name }

// Close forgets the server (its name can no longer be opened).
func (s *Server) Close() {
	regMu.Lock()
	delete(servers, s.name)
	regMu.Unlock()
}

// DB returns a *sql.DB connected to the server.
func (s *Server) DB() *sql.DB { return sql.OpenDB(connector{s}) }

// CreateTable adds (or replaces) a table.
func (s *Server) CreateTable(name string, cols []Column) {
	s.mu.Lock()
	defer s.mu.Unlock()
	s.data.tables[strings.ToLower(name)] = &Table{Name: name, Columns: append([]Column{}, cols...)}
}

// Insert loads a row directly (values in column order, coerced to the column types); not logged, no
// commit hook.  It panics on a value that does not fit: this is harness set-up code.
func (s *Server) Insert(table string, row []driver.Value) {
	s.mu.Lock()
	defer s.mu.Unlock()
	t, err := s.data.table(table)
	if err != nil {
		panic(err)
	}
	if len(row) != len(t.Columns) {
		panic(fmt.Sprintf("fakesql.Insert: %d values for %d columns", len(row), len(t.Columns)))
	}
	r := make([]driver.Value, len(row))
	for i, v := range row {
		cv, err := Coerce(t.Columns[i].Type, v)
		if err != nil {
			panic(err)
		}
		r[i] = cv
		if n, ok := cv.(int64); ok && t.Columns[i].AutoIncrement && n > t.nextID {
			t.nextID = n
		}
	}
	t.Rows = append(t.Rows, r)
}

// Rows returns a copy of the committed rows of a table (canonical values, column order).
func (s *Server) Rows(table string) [][]driver.Value {
	s.mu.Lock()
	defer s.mu.Unlock()
	t, err := s.data.table(table)
	if err != nil {
		return nil
	}
	return t.clone().Rows
}

// Columns returns the columns of a table in database order.
func (s *Server) Columns(table string) []Column {
	s.mu.Lock()
	defer s.mu.Unlock()
	t, err := s.data.table(table)
	if err != nil {
		return nil
	}
	return append([]Column{}, t.Columns...)
}

// Log returns a copy of the log.
func (s *Server) Log() []Entry {
	s.mu.Lock()
	defer s.mu.Unlock()
	return append([]Entry{}, s.log...)
}

// ResetLog empties the log.
func (s *Server) ResetLog() {
	s.mu.Lock()
	s.log = nil
	s.mu.Unlock()
}

// Statements returns the "query" and "exec" entries of the log.
func (s *Server) Statements() []Entry {
	var out []Entry
	for _, e := range s.Log() {
		if e.Kind == "query" || e.Kind == "exec" {
			out = append(out, e)
		}
	}
	return out
}

// OnCommit installs the commit hook (see the package comment).  nil removes it.
func (s *Server) OnCommit(f func(table string, before, after []driver.Value)) {
	s.mu.Lock()
	s.onCommit = f
	s.mu.Unlock()
}

// ---- driver plumbing ----

type drv struct{}

func (drv) Open(dsn string) (driver.Conn, error) {
	regMu.Lock()
	s, ok := servers[dsn]
	regMu.Unlock()
	if !ok {
		return nil, fmt.Errorf("fakesql: no server named %q", dsn)
	}
	return s.newConn(), nil
}

type connector struct{ s *Server }

func (c connector) Connect(context.Context) (driver.Conn, error) { return c.s.newConn(), nil }
func (c connector) Driver() driver.Driver                        { return drv{} }

func (s *Server) newConn() *conn {
	s.mu.Lock()
	defer s.mu.Unlock()
	s.conns++
	return &conn{s: s, id: s.conns}
}

type conn struct {
	s       *Server
	id      int
	tx      *database // private copy while a transaction is open
	pending []Change
	locked  bool
}

var _ driver.QueryerContext = (*conn)(nil)
var _ driver.ExecerContext = (*conn)(nil)
var _ driver.ConnBeginTx = (*conn)(nil)

func (c *conn) Prepare(q string) (driver.Stmt, error) {
	st, err := Parse(q)
	if err != nil {
		return nil, err
	}
	return &stmt{c: c, sql: q, n: st.NumArgs}, nil
}
func (c *conn) Close() error { return nil }
func (c *conn) Begin() (driver.Tx, error) {
	return c.BeginTx(context.Background(), driver.TxOptions{})
}

func (c *conn) BeginTx(ctx context.Context, _ driver.TxOptions) (driver.Tx, error) {
	if c.tx != nil {
		return nil, errors.New("fakesql: transaction already open on this connection")
	}
	if c.s.SerialTx {
		c.s.txLock.Lock()
		c.locked = true
	}
	c.s.mu.Lock()
	c.tx = c.s.data.clone()
	c.pending = nil
	c.s.log = append(c.s.log, Entry{Kind: "begin", InTx: true, Conn: c.id})
	c.s.mu.Unlock()
	return &tx{c}, nil
}

type tx struct{ c *conn }

func (t *tx) finish(commit bool) error {
	c := t.c
	if c.tx == nil {
		return errors.New("fakesql: no open transaction")
	}
	c.s.mu.Lock()
	var changes []Change
	if commit {
		c.s.data = c.tx
		changes = c.pending
		c.s.log = append(c.s.log, Entry{Kind: "commit", InTx: true, Conn: c.id})
	} else {
		c.s.log = append(c.s.log, Entry{Kind: "rollback", InTx: true, Conn: c.id})
	}
	hook := c.s.onCommit
	c.tx, c.pending = nil, nil
	c.s.mu.Unlock()
	if c.locked {
		c.locked = false
		c.s.txLock.Unlock()
	}
	if hook != nil {
		for _, ch := range changes {
			hook(ch.Table, ch.Before, ch.After)
		}
	}
	return nil
}
func (t *tx) Commit() error   { return t.finish(true) }
func (t *tx) Rollback() error { return t.finish(false) }

func namedToValues(nv []driver.NamedValue) ([]driver.Value, []interface{}, error) {
	vals := make([]driver.Value, len(nv))
	raw := make([]interface{}, len(nv))
	for i, a := range nv {
		raw[i] = a.Value
		v, err := normalizeArg(a.Value)
		if err != nil {
			return nil, raw, err
		}
		vals[i] = v
	}
	return vals, raw, nil
}

func (c *conn) logEntry(kind, q string, raw []interface{}, err error) {
	e := Entry{Kind: kind, SQL: q, Args: copyArgs(raw), InTx: c.tx != nil, Conn: c.id}
	if err != nil {
		e.Err = err.Error()
	}
	c.s.log = append(c.s.log, e)
}

func copyArgs(raw []interface{}) []interface{} {
	out := make([]interface{}, len(raw))
	for i, v := range raw {
		if b, ok := v.([]byte); ok {
			out[i] = append([]byte{}, b...)
		} else {
			out[i] = v
		}
	}
	return out
}

func (c *conn) QueryContext(ctx context.Context, q string, nv []driver.NamedValue) (driver.Rows, error) {
	vals, raw, err := namedToValues(nv)
	c.s.mu.Lock()
	defer c.s.mu.Unlock()
	var rs *resultSet
	if err == nil && c.s.FailNext != nil {
		err = c.s.FailNext("query", q)
	}
	if err == nil {
		var st *Stmt
		st, err = Parse(q)
		if err == nil && st.NumArgs != len(vals) {
			err = fmt.Errorf("fakesql: statement has %d placeholders but %d arguments", st.NumArgs, len(vals))
		}
		if err == nil {
			d := c.s.data
			if c.tx != nil {
				d = c.tx
			}
			rs, err = d.query(st, vals)
		}
	}
	c.logEntry("query", q, raw, err)
	if err != nil {
		return nil, err
	}
	return &rows{rs: rs, repr: c.s.Repr}, nil
}

func (c *conn) ExecContext(ctx context.Context, q string, nv []driver.NamedValue) (driver.Result, error) {
	vals, raw, err := namedToValues(nv)
	c.s.mu.Lock()
	var res execResult
	if err == nil && c.s.FailNext != nil {
		err = c.s.FailNext("exec", q)
	}
	if err == nil {
		var st *Stmt
		st, err = Parse(q)
		if err == nil && st.NumArgs != len(vals) {
			err = fmt.Errorf("fakesql: statement has %d placeholders but %d arguments", st.NumArgs, len(vals))
		}
		if err == nil {
			d := c.s.data
			if c.tx != nil {
				d = c.tx
			}
			res, err = d.exec(st, vals)
		}
	}
	c.logEntry("exec", q, raw, err)
	var hook func(string, []driver.Value, []driver.Value)
	var changes []Change
	if err == nil {
		if c.tx != nil {
			c.pending = append(c.pending, res.changes...)
		} else {
			hook, changes = c.s.onCommit, res.changes
		}
	}
	c.s.mu.Unlock()
	if err != nil {
		return nil, err
	}
	if hook != nil {
		for _, ch := range changes {
			hook(ch.Table, ch.Before, ch.After)
		}
	}
	return res, nil
}

// stmt supports the Prepare path (database/sql uses it only if QueryerContext/ExecerContext return
// driver.ErrSkip, which they never do; kept so that explicit db.Prepare works).
type stmt struct {
	c   *conn
	sql string
	n   int
}

func (s *stmt) Close() error  { return nil }
func (s *stmt) NumInput() int { return s.n }
func (s *stmt) Exec(args []driver.Value) (driver.Result, error) {
	return s.c.ExecContext(context.Background(), s.sql, toNamed(args))
}
func (s *stmt) Query(args []driver.Value) (driver.Rows, error) {
	return s.c.QueryContext(context.Background(), s.sql, toNamed(args))
}
func toNamed(args []driver.Value) []driver.NamedValue {
	nv := make([]driver.NamedValue, len(args))
	for i, a := range args {
		nv[i] = driver.NamedValue{Ordinal: i + 1, Value: a}
	}
	return nv
}

type rows struct {
	rs   *resultSet
	repr Repr
	pos  int
}

func (r *rows) Columns() []string { return r.rs.cols }
func (r *rows) Close() error      { return nil }
func (r *rows) Next(dest []driver.Value) error {
	if r.pos >= len(r.rs.rows) {
		return io.EOF
	}
	row := r.rs.rows[r.pos]
	r.pos++
	for i, v := range row {
		dest[i] = Represent(r.repr, r.rs.types[i], v)
	}
	return nil
}

// Represent converts a canonical stored value to the wire representation repr for a column of type t.
func Represent(repr Repr, t ColType, v driver.Value) driver.Value {
	if v == nil {
		return nil
	}
	if repr == ReprText {
		switch x := v.(type) {
		case int64:
			return []byte(strconv.FormatInt(x, 10))
		case float64:
			return []byte(strconv.FormatFloat(x, 'g', -1, 64))
		case string:
			return []byte(x)
		case []byte:
			return append([]byte{}, x...)
		case time.Time:
			return []byte(x.UTC().Format("2006-01-02 15:04:05.999999999"))
		case bool:
			if x {
				return []byte("1")
			}
			return []byte("0")
		}
		return v
	}
	switch x := v.(type) {
	case string:
		if repr == ReprString {
			return x
		}
		return []byte(x)
	case []byte:
		return append([]byte{}, x...)
	}
	return v
}
