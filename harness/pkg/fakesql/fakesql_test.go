package fakesql

import (
	"context"
	"database/sql/driver"
	"fmt"
	"reflect"
	"testing"
)

func newUsers() *Server {
	s := NewServer()
	s.CreateTable("users", []Column{
		{Name: "id", Type: Int, Primary: true, AutoIncrement: true},
		{Name: "name", Type: Text},
		{Name: "nick", Type: Text, Nullable: true},
		{Name: "age", Type: Int, Nullable: true},
	})
	s.Insert("users", []driver.Value{int64(1), "bob", nil, int64(30)})
	s.Insert("users", []driver.Value{int64(2), "alice", "al", nil})
	s.Insert("users", []driver.Value{int64(3), "carol", "al", int64(30)})
	return s
}

func ids(t *testing.T, s *Server, q string, args ...interface{}) []int64 {
	t.Helper()
	rows, err := s.DB().Query(q, args...)
	if err != nil {
		t.Fatalf("%s: %v", q, err)
	}
	defer rows.Close()
	var out []int64
	for rows.Next() {
		var id int64
		if err := rows.Scan(&id); err != nil {
			t.Fatal(err)
		}
		out = append(out, id)
	}
	return out
}

func TestNullLogic(t *testing.T) {
	s := newUsers()
	cases := []struct {
		q    string
		args []interface{}
		want []int64
	}{
		{"SELECT id FROM users WHERE nick = ?", []interface{}{nil}, nil},
		{"SELECT id FROM users WHERE nick IN (?)", []interface{}{nil}, nil},
		{"SELECT id FROM users WHERE nick IS ?", []interface{}{nil}, []int64{1}},
		{"SELECT id FROM users WHERE nick IS NOT NULL", nil, []int64{2, 3}},
		{"SELECT id FROM users WHERE NOT (nick = 'al')", nil, nil},
		{"SELECT id FROM users WHERE nick IN (?, ?) OR id IN (?)", []interface{}{nil, "al", 1}, []int64{1, 2, 3}},
		{"SELECT id FROM users WHERE (nick=? AND age=?) OR (nick=? AND age=?)", []interface{}{"al", 30, "zz", 1}, []int64{3}},
		{"SELECT id FROM users WHERE age NOT IN (?, ?)", []interface{}{5, nil}, nil},
		{"SELECT id FROM users WHERE age = '30'", nil, []int64{1, 3}},
		{"SELECT id FROM users WHERE name = ? ORDER BY id DESC LIMIT 1", []interface{}{[]byte("bob")}, []int64{1}},
		{"SELECT id FROM users ORDER BY name", nil, []int64{2, 1, 3}},
		{"SELECT id FROM users ORDER BY age DESC, id DESC LIMIT 2", nil, []int64{3, 1}},
	}
	for _, c := range cases {
		got := ids(t, s, c.q, c.args...)
		if !reflect.DeepEqual(got, c.want) {
			t.Errorf("%s %v: got %v want %v", c.q, c.args, got, c.want)
		}
	}
	var n int64
	if err := s.DB().QueryRow("SELECT COUNT(*) FROM users WHERE nick IS ?", nil).Scan(&n); err != nil || n != 1 {
		t.Errorf("count: %v %v", n, err)
	}
}

func TestWritesTxHook(t *testing.T) {
	s := newUsers()
	var events []string
	s.OnCommit(func(table string, before, after []driver.Value) {
		events = append(events, fmt.Sprint(table, before, after))
	})
	db := s.DB()
	res, err := db.Exec("INSERT INTO users (name, nick, age) VALUES (?, ?, ?), (?, ?, ?)", "d", nil, 1, "e", "x", nil)
	if err != nil {
		t.Fatal(err)
	}
	if id, _ := res.LastInsertId(); id != 5 {
		t.Errorf("last id %d", id)
	}
	if len(events) != 2 {
		t.Errorf("events %v", events)
	}
	tx, err := db.BeginTx(context.Background(), nil)
	if err != nil {
		t.Fatal(err)
	}
	if _, err := tx.Exec("UPDATE users SET name = ?, nick = ? WHERE id = ?", "bobby", nil, 1); err != nil {
		t.Fatal(err)
	}
	if _, err := tx.Exec("DELETE FROM users WHERE id = ?", 2); err != nil {
		t.Fatal(err)
	}
	if got := ids(t, s, "SELECT id FROM users WHERE name = 'bobby'"); got != nil {
		t.Errorf("uncommitted update visible: %v", got)
	}
	if len(events) != 2 {
		t.Errorf("hook before commit: %v", events)
	}
	tx.Commit()
	if got := ids(t, s, "SELECT id FROM users WHERE name = 'bobby'"); !reflect.DeepEqual(got, []int64{1}) {
		t.Errorf("after commit: %v", got)
	}
	if len(events) != 4 {
		t.Errorf("events %v", events)
	}
	tx, _ = db.Begin()
	tx.Exec("DELETE FROM users WHERE id = ?", 3)
	tx.Rollback()
	if got := ids(t, s, "SELECT id FROM users WHERE id = 3"); !reflect.DeepEqual(got, []int64{3}) {
		t.Errorf("after rollback: %v", got)
	}
	if _, err := db.Exec("INSERT INTO users (id, name) VALUES (?, ?)", 3, "dup"); err == nil {
		t.Errorf("duplicate insert accepted")
	}
	if _, err := db.Exec("INSERT INTO users (id, name, nick, age) VALUES (?, ?, ?, ?) ON DUPLICATE KEY UPDATE id=VALUES(id), name=VALUES(name), nick=VALUES(nick), age=VALUES(age)", 3, "c2", nil, 7); err != nil {
		t.Fatal(err)
	}
	if got := ids(t, s, "SELECT id FROM users WHERE name = 'c2' AND nick IS NULL AND age = 7"); !reflect.DeepEqual(got, []int64{3}) {
		t.Errorf("upsert: %v", got)
	}
	kinds := ""
	for _, e := range s.Log() {
		kinds += e.Kind[:1]
	}
	if kinds != "ebeeqcqberqeeq" {
		t.Errorf("log kinds %s", kinds)
	}
	// information_schema
	rows, err := db.Query("\n\t\tSELECT column_name\n\t\tFROM information_schema.columns\n\t\tWHERE table_schema = ? AND table_name = ?\n\t\tORDER BY ordinal_position", "db", "users")
	if err != nil {
		t.Fatal(err)
	}
	var cols []string
	for rows.Next() {
		var c string
		rows.Scan(&c)
		cols = append(cols, c)
	}
	if !reflect.DeepEqual(cols, []string{"id", "name", "nick", "age"}) {
		t.Errorf("columns %v", cols)
	}
}

func TestDisjuncts(t *testing.T) {
	st, err := Parse("SELECT a, b FROM t WHERE (a = ? AND b IS ?) AND (c IN (?, ?) OR (d=? AND NOT e = 5))")
	if err != nil {
		t.Fatal(err)
	}
	d := Disjuncts(st.Where)
	if len(d) != 2 || len(d[0]) != 3 || len(d[1]) != 4 || !d[1][3].Neg || st.NumArgs != 5 {
		t.Errorf("%+v", d)
	}
	if len(Disjuncts(nil)) != 1 {
		t.Error("nil")
	}
}
