package fakesql_test

import (
	"context"
	"database/sql/driver"
	"sync"
	"testing"

	"github.com/samsarahq/thunder/batch"
	"github.com/samsarahq/thunder/sqlgen"
	"verifharness/pkg/fakesql"
)

type User struct {
	Id   int64 `sql:",primary"`
	Name string
	Nick *string
	Age  int32
}

func setup(repr fakesql.Repr) (*fakesql.Server, *sqlgen.DB) {
	s := fakesql.NewServer()
	s.Repr = repr
	s.CreateTable("users", []fakesql.Column{
		{Name: "id", Type: fakesql.Int, Primary: true, AutoIncrement: true},
		{Name: "name", Type: fakesql.Text},
		{Name: "nick", Type: fakesql.Text, Nullable: true},
		{Name: "age", Type: fakesql.Int},
	})
	s.Insert("users", []driver.Value{int64(10), "bob", nil, int64(30)})
	s.Insert("users", []driver.Value{int64(20), "alice", "al", int64(31)})
	schema := sqlgen.NewSchema()
	schema.MustRegisterType("users", sqlgen.AutoIncrement, User{})
	return s, sqlgen.NewDB(s.DB(), schema)
}

// sqlgen works end to end on the fake, in every row representation.
func TestSqlgenRoundTrip(t *testing.T) {
	for _, repr := range []fakesql.Repr{fakesql.ReprBinary, fakesql.ReprText, fakesql.ReprString} {
		s, db := setup(repr)
		ctx := context.Background()
		var us []*User
		if err := db.Query(ctx, &us, sqlgen.Filter{"nick": nil}, nil); err != nil || len(us) != 1 || us[0].Id != 10 || us[0].Nick != nil {
			t.Fatalf("repr %d: %v %v", repr, us, err)
		}
		nick := "cc"
		if _, err := db.InsertRow(ctx, &User{Name: "carol", Nick: &nick, Age: 5}); err != nil {
			t.Fatal(err)
		}
		var u *User
		if err := db.QueryRow(ctx, &u, sqlgen.Filter{"name": "carol"}, nil); err != nil || u.Id != 21 || *u.Nick != "cc" || u.Age != 5 {
			t.Fatalf("repr %d: %v %v", repr, u, err)
		}
		u.Age = 6
		if err := db.UpdateRow(ctx, u); err != nil {
			t.Fatal(err)
		}
		if n, err := db.Count(ctx, &User{}, sqlgen.Filter{"age": 6}); err != nil || n != 1 {
			t.Fatalf("count %d %v", n, err)
		}
		if err := db.DeleteRow(ctx, u); err != nil {
			t.Fatal(err)
		}
		if len(s.Rows("users")) != 2 {
			t.Fatalf("rows %v", s.Rows("users"))
		}
		st := s.Statements()
		if st[0].SQL != "SELECT id, name, nick, age FROM users WHERE nick IS ?" || st[0].Args[0] != nil {
			t.Errorf("%q %v", st[0].SQL, st[0].Args)
		}
	}
}

// Concurrent callers under batch.WithBatching are combined into one statement.
func TestSqlgenBatching(t *testing.T) {
	s, db := setup(fakesql.ReprBinary)
	ctx := batch.WithBatching(context.Background())
	filters := []sqlgen.Filter{{"id": int64(10)}, {"id": int64(20)}, {"name": "bob", "age": int32(30)}}
	got := make([]int, len(filters))
	var wg sync.WaitGroup
	for i := range filters {
		wg.Add(1)
		go func(i int) {
			defer wg.Done()
			var us []*User
			if err := db.Query(ctx, &us, filters[i], nil); err != nil {
				t.Error(err)
			}
			got[i] = len(us)
		}(i)
	}
	wg.Wait()
	if got[0] != 1 || got[1] != 1 || got[2] != 1 {
		t.Errorf("rows per caller %v", got)
	}
	if n := len(s.Statements()); n < 1 || n > 3 {
		t.Errorf("%d statements", n)
	}
}
