// Package fakesql is an in-memory stand-in for MySQL behind database/sql, made for the thunder
// verification harnesses (sqlgen: C10, C12; row codec / livesql: C13, C07).  No network, no cgo,
// deterministic.
//
// # What it does
//
//  1. Records every statement text and argument list it receives, and every Begin / Commit /
//     Rollback (Server.Log, Server.ResetLog).
//  2. Parses the fixed statement grammar that sqlgen emits (see "Grammar") and executes it on
//     in-memory tables with MySQL's three-valued NULL logic: `x = NULL`, `x <> NULL`, `x IN (NULL)`
//     are UNKNOWN (never select a row); `x IS NULL` / `x IS ?` with a NULL argument is TRUE for NULL.
//     AND / OR / NOT follow Kleene logic; WHERE keeps a row only when the condition is TRUE.
//  3. Hands rows back the way go-sql-driver/mysql would, selectable with Server.Repr:
//     ReprBinary (default; prepared-statement protocol: integer columns int64, FLOAT/DOUBLE float64,
//     TEXT/VARCHAR/BLOB []byte, BOOL columns int64 0/1, DATETIME time.Time), ReprText (text protocol:
//     every non-NULL value is a []byte holding its decimal / text rendering), ReprString (as binary but
//     text columns are Go strings).  NULL is always nil.
//  4. Answers the livesql column query
//     `SELECT column_name FROM information_schema.columns WHERE table_schema = ? AND table_name = ?
//     ORDER BY ordinal_position` (two arguments: schema, table) with the column names of the table in
//     *database* order (Table.Columns order, which may differ from the Go struct order on purpose).
//  5. Supports transactions: statements inside a transaction work on a private copy of the data which
//     replaces the shared data at Commit and is dropped at Rollback (one writer at a time is assumed;
//     concurrent transactions are serialised by a lock held from Begin to Commit/Rollback only if
//     Server.SerialTx is set).  Begin, Commit and Rollback are recorded in the log.
//  6. Commit hook: Server.OnCommit(func(table string, before, after []driver.Value)) is called once per
//     changed row when the change becomes visible (at Commit for transactions, immediately for
//     auto-commit statements), in statement order: insert = (nil, after), delete = (before, nil),
//     update = (before, after).  Row images are in database column order and use the canonical
//     storage representation (see "Values").  The hook runs without the server lock held, after the
//     data has been published, so it may query the server.
//
// # Use
//
//	srv := fakesql.NewServer()
//	srv.CreateTable("users", []fakesql.Column{
//		{Name: "id", Type: fakesql.Int, Primary: true, AutoIncrement: true},
//		{Name: "name", Type: fakesql.Text},
//		{Name: "nick", Type: fakesql.Text, Nullable: true},
//	})
//	srv.Insert("users", []driver.Value{int64(1), "bob", nil})   // direct load, not logged
//	db := srv.DB()                                             // *sql.DB (sql.OpenDB, no DSN)
//	sdb := sqlgen.NewDB(db, schema)
//	...
//	for _, e := range srv.Log() { fmt.Println(e.Kind, e.SQL, e.Args) }
//
// A Server can also be reached with sql.Open("fakesql", srv.Name()) (the driver is registered under
// the name "fakesql"; the DSN is the server's name).
//
// # Values
//
// Stored values (and commit-hook images, Table.Rows) are canonical: nil (NULL), int64, float64, bool
// is stored as int64 0/1, string for text columns, []byte for blob columns, time.Time (UTC) for
// datetime columns.  Arguments are coerced to the column type on INSERT/UPDATE (int64/bool/float64/
// numeric strings to ints and floats, string <-> []byte, RFC3339 or "2006-01-02 15:04:05" strings to
// time).  A value that cannot be coerced is an error (MySQL strict mode).
//
// Comparison in WHERE (`=`, `<>`, `<`, ... , IN): NULL on either side gives UNKNOWN.  Two numbers
// (int64 / float64 / bool) compare numerically.  Two strings / byte strings compare **bytewise**
// (binary collation: no case folding, no pad-space).  A number against a string compares numerically
// after converting the string's longest numeric prefix (MySQL's rule; "abc" counts as 0).  Times compare
// by instant; a string against a time is parsed first.
//
// # Grammar (case-insensitive keywords; identifiers may be back-quoted)
//
//	SELECT cols|COUNT(*) FROM t [FORCE INDEX(..)|USE INDEX(..)] [WHERE cond] [ORDER BY c [ASC|DESC],..] [LIMIT n] [FOR UPDATE]
//	INSERT INTO t (c,..) VALUES (v,..)[,(v,..)..] [ON DUPLICATE KEY UPDATE c=VALUES(c),..]
//	UPDATE t SET c = v,.. [WHERE cond]
//	DELETE FROM t [WHERE cond]
//	EXPLAIN SELECT ...                      (answers one row with key = "PRIMARY")
//	cond  := cond OR cond | cond AND cond | NOT cond | ( cond ) | c op v | c IS [NOT] v | c [NOT] IN (v,..)
//	op    := = | <> | != | < | <= | > | >=        v := ? | NULL | number | 'string' | TRUE | FALSE
//
// Parse gives the AST (Stmt); the harness oracles use it on recorded statements, e.g.
// Disjuncts(cond) turns a condition into disjunctive normal form so that "every disjunct constrains
// column c to value v" can be decided.
//
// Unique keys: the primary key (all Primary columns together).  INSERT of a duplicate key is an error
// (`Error 1062`), with ON DUPLICATE KEY UPDATE the listed columns of the existing row are overwritten.
// AUTO_INCREMENT: a NULL / absent / 0 value for the column takes max+1; LastInsertId reports it.
package fakesql
