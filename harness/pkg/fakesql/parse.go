package fakesql

import (
	"fmt"
	"strconv"
	"strings"
)

// ---- AST ----

// StmtKind names the statement forms of the grammar.
type StmtKind string

const (
	Select     StmtKind = "SELECT"
	Count      StmtKind = "COUNT"
	InsertStmt StmtKind = "INSERT"
	Upsert     StmtKind = "UPSERT" // INSERT ... ON DUPLICATE KEY UPDATE
	Update     StmtKind = "UPDATE"
	Delete     StmtKind = "DELETE"
	Explain    StmtKind = "EXPLAIN"
	InfoSchema StmtKind = "INFOSCHEMA" // the information_schema.columns query
)

// Operand is a value position in a statement: a placeholder (Arg = its 0-based position among the
// statement's '?'), or a literal.
type Operand struct {
	IsArg bool
	Arg   int
	Lit   interface{} // nil (NULL), int64, float64, string, bool
}

// Cond is a WHERE condition.
type Cond struct {
	Op    string  // "or", "and", "not", "cmp", "is", "isnot", "in", "notin"
	Kids  []*Cond // or / and / not
	Col   string  // cmp / is / in
	Cmp   string  // "=", "<>", "<", "<=", ">", ">="
	Vals  []Operand
	Paren bool // was written inside parentheses (kept for printing only)
}

// OrderTerm is one ORDER BY term.
type OrderTerm struct {
	Col  string
	Desc bool
}

// Stmt is a parsed statement.
type Stmt struct {
	Kind      StmtKind
	Table     string
	Cols      []string    // SELECT list / INSERT column list
	Rows      [][]Operand // INSERT value tuples
	OnDup     []string    // columns of ON DUPLICATE KEY UPDATE c=VALUES(c)
	Set       []string    // UPDATE SET columns
	SetVals   []Operand
	Where     *Cond
	OrderBy   []OrderTerm
	Limit     int // 0 = none
	ForUpdate bool
	Index     string // "FORCE" / "USE" / ""
	IndexCols []string
	NumArgs   int
	Inner     *Stmt // EXPLAIN
}

// ---- lexer ----

type token struct {
	kind string // "id", "num", "str", "sym", "eof"
	text string
}

func lex(s string) ([]token, error) {
	var out []token
	i := 0
	for i < len(s) {
		c := s[i]
		switch {
		case c == ' ' || c == '\t' || c == '\n' || c == '\r':
			i++
		case c == '`':
			j := strings.IndexByte(s[i+1:], '`')
			if j < 0 {
				return nil, fmt.Errorf("unterminated quoted identifier")
			}
			out = append(out, token{"id", s[i+1 : i+1+j]})
			i += j + 2
		case c == '\'':
			var b strings.Builder
			j := i + 1
			for {
				if j >= len(s) {
					return nil, fmt.Errorf("unterminated string literal")
				}
				if s[j] == '\\' && j+1 < len(s) {
					b.WriteByte(s[j+1])
					j += 2
					continue
				}
				if s[j] == '\'' {
					if j+1 < len(s) && s[j+1] == '\'' {
						b.WriteByte('\'')
						j += 2
						continue
					}
					break
				}
				b.WriteByte(s[j])
				j++
			}
			out = append(out, token{"str", b.String()})
			i = j + 1
		case c >= '0' && c <= '9' || (c == '-' && i+1 < len(s) && s[i+1] >= '0' && s[i+1] <= '9'):
			j := i + 1
			for j < len(s) && (s[j] >= '0' && s[j] <= '9' || s[j] == '.' || s[j] == 'e' || s[j] == 'E') {
				j++
			}
			out = append(out, token{"num", s[i:j]})
			i = j
		case c == '_' || c >= 'a' && c <= 'z' || c >= 'A' && c <= 'Z':
			j := i + 1
			for j < len(s) && (s[j] == '_' || s[j] == '.' || s[j] >= 'a' && s[j] <= 'z' || s[j] >= 'A' && s[j] <= 'Z' || s[j] >= '0' && s[j] <= '9') {
				j++
			}
			out = append(out, token{"id", s[i:j]})
			i = j
		case c == '<' || c == '>' || c == '!':
			if i+1 < len(s) && (s[i+1] == '=' || (c == '<' && s[i+1] == '>')) {
				out = append(out, token{"sym", s[i : i+2]})
				i += 2
			} else {
				out = append(out, token{"sym", string(c)})
				i++
			}
		case strings.IndexByte("(),=?*;", c) >= 0:
			out = append(out, token{"sym", string(c)})
			i++
		default:
			return nil, fmt.Errorf("unexpected character %q at %d", c, i)
		}
	}
	out = append(out, token{"eof", ""})
	return out, nil
}

// ---- parser ----

type parser struct {
	toks []token
	pos  int
	args int
}

func (p *parser) peek() token { return p.toks[p.pos] }
func (p *parser) next() token { t := p.toks[p.pos]; p.pos++; return t }
func (p *parser) isKw(kw string) bool {
	t := p.peek()
	return t.kind == "id" && strings.EqualFold(t.text, kw)
}
func (p *parser) acceptKw(kw string) bool {
	if p.isKw(kw) {
		p.pos++
		return true
	}
	return false
}
func (p *parser) expectKw(kw string) error {
	if !p.acceptKw(kw) {
		return fmt.Errorf("expected %s, got %q", kw, p.peek().text)
	}
	return nil
}
func (p *parser) isSym(s string) bool { t := p.peek(); return t.kind == "sym" && t.text == s }
func (p *parser) acceptSym(s string) bool {
	if p.isSym(s) {
		p.pos++
		return true
	}
	return false
}
func (p *parser) expectSym(s string) error {
	if !p.acceptSym(s) {
		return fmt.Errorf("expected %q, got %q", s, p.peek().text)
	}
	return nil
}
func (p *parser) ident() (string, error) {
	t := p.next()
	if t.kind != "id" {
		return "", fmt.Errorf("expected identifier, got %q", t.text)
	}
	return t.text, nil
}

// Parse parses one statement of the grammar in the package comment.
func Parse(sql string) (*Stmt, error) {
	toks, err := lex(sql)
	if err != nil {
		return nil, fmt.Errorf("fakesql: %v in %q", err, sql)
	}
	p := &parser{toks: toks}
	st, err := p.stmt()
	if err == nil {
		p.acceptSym(";")
		if p.peek().kind != "eof" {
			err = fmt.Errorf("trailing input at %q", p.peek().text)
		}
	}
	if err != nil {
		return nil, fmt.Errorf("fakesql: %v in %q", err, sql)
	}
	st.NumArgs = p.args
	return st, nil
}

func (p *parser) stmt() (*Stmt, error) {
	switch {
	case p.acceptKw("EXPLAIN"):
		in, err := p.stmt()
		if err != nil {
			return nil, err
		}
		return &Stmt{Kind: Explain, Table: in.Table, Inner: in}, nil
	case p.acceptKw("SELECT"):
		return p.selectStmt()
	case p.acceptKw("INSERT"):
		return p.insertStmt()
	case p.acceptKw("UPDATE"):
		return p.updateStmt()
	case p.acceptKw("DELETE"):
		return p.deleteStmt()
	}
	return nil, fmt.Errorf("unsupported statement starting with %q", p.peek().text)
}

func (p *parser) identList() ([]string, error) {
	var out []string
	for {
		id, err := p.ident()
		if err != nil {
			return nil, err
		}
		out = append(out, id)
		if !p.acceptSym(",") {
			return out, nil
		}
	}
}

func (p *parser) selectStmt() (*Stmt, error) {
	st := &Stmt{Kind: Select}
	if p.isKw("COUNT") {
		p.next()
		if err := p.expectSym("("); err != nil {
			return nil, err
		}
		if err := p.expectSym("*"); err != nil {
			return nil, err
		}
		if err := p.expectSym(")"); err != nil {
			return nil, err
		}
		st.Kind = Count
	} else if p.acceptSym("*") {
		st.Cols = nil
	} else {
		cols, err := p.identList()
		if err != nil {
			return nil, err
		}
		st.Cols = cols
	}
	if err := p.expectKw("FROM"); err != nil {
		return nil, err
	}
	t, err := p.ident()
	if err != nil {
		return nil, err
	}
	st.Table = t
	if strings.EqualFold(t, "information_schema.columns") {
		st.Kind = InfoSchema
	}
	if p.isKw("FORCE") || p.isKw("USE") {
		st.Index = strings.ToUpper(p.next().text)
		if err := p.expectKw("INDEX"); err != nil {
			return nil, err
		}
		if err := p.expectSym("("); err != nil {
			return nil, err
		}
		if !p.isSym(")") {
			ic, err := p.identList()
			if err != nil {
				return nil, err
			}
			st.IndexCols = ic
		}
		if err := p.expectSym(")"); err != nil {
			return nil, err
		}
	}
	if p.acceptKw("WHERE") {
		c, err := p.orExpr()
		if err != nil {
			return nil, err
		}
		st.Where = c
	}
	if p.acceptKw("ORDER") {
		if err := p.expectKw("BY"); err != nil {
			return nil, err
		}
		for {
			c, err := p.ident()
			if err != nil {
				return nil, err
			}
			ot := OrderTerm{Col: c}
			if p.acceptKw("DESC") {
				ot.Desc = true
			} else {
				p.acceptKw("ASC")
			}
			st.OrderBy = append(st.OrderBy, ot)
			if !p.acceptSym(",") {
				break
			}
		}
	}
	if p.acceptKw("LIMIT") {
		t := p.next()
		n, err := strconv.Atoi(t.text)
		if t.kind != "num" || err != nil {
			return nil, fmt.Errorf("bad LIMIT %q", t.text)
		}
		st.Limit = n
	}
	if p.acceptKw("FOR") {
		if err := p.expectKw("UPDATE"); err != nil {
			return nil, err
		}
		st.ForUpdate = true
	}
	return st, nil
}

func (p *parser) operand() (Operand, error) {
	t := p.next()
	switch {
	case t.kind == "sym" && t.text == "?":
		p.args++
		return Operand{IsArg: true, Arg: p.args - 1}, nil
	case t.kind == "num":
		if n, err := strconv.ParseInt(t.text, 10, 64); err == nil {
			return Operand{Lit: n}, nil
		}
		f, err := strconv.ParseFloat(t.text, 64)
		if err != nil {
			return Operand{}, fmt.Errorf("bad number %q", t.text)
		}
		return Operand{Lit: f}, nil
	case t.kind == "str":
		return Operand{Lit: t.text}, nil
	case t.kind == "id" && strings.EqualFold(t.text, "NULL"):
		return Operand{Lit: nil}, nil
	case t.kind == "id" && strings.EqualFold(t.text, "TRUE"):
		return Operand{Lit: true}, nil
	case t.kind == "id" && strings.EqualFold(t.text, "FALSE"):
		return Operand{Lit: false}, nil
	}
	return Operand{}, fmt.Errorf("expected a value, got %q", t.text)
}

func (p *parser) orExpr() (*Cond, error) {
	l, err := p.andExpr()
	if err != nil {
		return nil, err
	}
	kids := []*Cond{l}
	for p.acceptKw("OR") {
		r, err := p.andExpr()
		if err != nil {
			return nil, err
		}
		kids = append(kids, r)
	}
	if len(kids) == 1 {
		return l, nil
	}
	return &Cond{Op: "or", Kids: kids}, nil
}

func (p *parser) andExpr() (*Cond, error) {
	l, err := p.notExpr()
	if err != nil {
		return nil, err
	}
	kids := []*Cond{l}
	for p.acceptKw("AND") {
		r, err := p.notExpr()
		if err != nil {
			return nil, err
		}
		kids = append(kids, r)
	}
	if len(kids) == 1 {
		return l, nil
	}
	return &Cond{Op: "and", Kids: kids}, nil
}

func (p *parser) notExpr() (*Cond, error) {
	if p.acceptKw("NOT") {
		k, err := p.notExpr()
		if err != nil {
			return nil, err
		}
		return &Cond{Op: "not", Kids: []*Cond{k}}, nil
	}
	return p.primary()
}

func (p *parser) primary() (*Cond, error) {
	if p.acceptSym("(") {
		c, err := p.orExpr()
		if err != nil {
			return nil, err
		}
		if err := p.expectSym(")"); err != nil {
			return nil, err
		}
		cc := *c
		cc.Paren = true
		return &cc, nil
	}
	col, err := p.ident()
	if err != nil {
		return nil, err
	}
	switch {
	case p.acceptKw("IS"):
		op := "is"
		if p.acceptKw("NOT") {
			op = "isnot"
		}
		v, err := p.operand()
		if err != nil {
			return nil, err
		}
		return &Cond{Op: op, Col: col, Vals: []Operand{v}}, nil
	case p.isKw("NOT") || p.isKw("IN"):
		op := "in"
		if p.acceptKw("NOT") {
			op = "notin"
		}
		if err := p.expectKw("IN"); err != nil {
			return nil, err
		}
		if err := p.expectSym("("); err != nil {
			return nil, err
		}
		var vals []Operand
		for {
			v, err := p.operand()
			if err != nil {
				return nil, err
			}
			vals = append(vals, v)
			if !p.acceptSym(",") {
				break
			}
		}
		if err := p.expectSym(")"); err != nil {
			return nil, err
		}
		return &Cond{Op: op, Col: col, Vals: vals}, nil
	}
	t := p.next()
	if t.kind != "sym" {
		return nil, fmt.Errorf("expected comparison operator after %s, got %q", col, t.text)
	}
	cmp := t.text
	switch cmp {
	case "=", "<", "<=", ">", ">=", "<>":
	case "!=":
		cmp = "<>"
	default:
		return nil, fmt.Errorf("unknown operator %q", cmp)
	}
	v, err := p.operand()
	if err != nil {
		return nil, err
	}
	return &Cond{Op: "cmp", Col: col, Cmp: cmp, Vals: []Operand{v}}, nil
}

func (p *parser) insertStmt() (*Stmt, error) {
	st := &Stmt{Kind: InsertStmt}
	if err := p.expectKw("INTO"); err != nil {
		return nil, err
	}
	t, err := p.ident()
	if err != nil {
		return nil, err
	}
	st.Table = t
	if p.acceptSym("(") {
		cols, err := p.identList()
		if err != nil {
			return nil, err
		}
		st.Cols = cols
		if err := p.expectSym(")"); err != nil {
			return nil, err
		}
		if err := p.expectKw("VALUES"); err != nil {
			return nil, err
		}
		for {
			if err := p.expectSym("("); err != nil {
				return nil, err
			}
			var row []Operand
			for {
				v, err := p.operand()
				if err != nil {
					return nil, err
				}
				row = append(row, v)
				if !p.acceptSym(",") {
					break
				}
			}
			if err := p.expectSym(")"); err != nil {
				return nil, err
			}
			if len(row) != len(cols) {
				return nil, fmt.Errorf("column count %d does not match value count %d", len(cols), len(row))
			}
			st.Rows = append(st.Rows, row)
			if !p.acceptSym(",") {
				break
			}
		}
	}
	if p.acceptKw("ON") {
		for _, kw := range []string{"DUPLICATE", "KEY", "UPDATE"} {
			if err := p.expectKw(kw); err != nil {
				return nil, err
			}
		}
		st.Kind = Upsert
		for {
			c, err := p.ident()
			if err != nil {
				return nil, err
			}
			if err := p.expectSym("="); err != nil {
				return nil, err
			}
			if err := p.expectKw("VALUES"); err != nil {
				return nil, err
			}
			if err := p.expectSym("("); err != nil {
				return nil, err
			}
			c2, err := p.ident()
			if err != nil {
				return nil, err
			}
			if err := p.expectSym(")"); err != nil {
				return nil, err
			}
			if c2 != c {
				return nil, fmt.Errorf("ON DUPLICATE KEY UPDATE %s=VALUES(%s): only c=VALUES(c) is supported", c, c2)
			}
			st.OnDup = append(st.OnDup, c)
			if !p.acceptSym(",") {
				break
			}
		}
	}
	return st, nil
}

func (p *parser) updateStmt() (*Stmt, error) {
	st := &Stmt{Kind: Update}
	t, err := p.ident()
	if err != nil {
		return nil, err
	}
	st.Table = t
	if p.acceptKw("SET") {
		for {
			c, err := p.ident()
			if err != nil {
				return nil, err
			}
			if err := p.expectSym("="); err != nil {
				return nil, err
			}
			v, err := p.operand()
			if err != nil {
				return nil, err
			}
			st.Set = append(st.Set, c)
			st.SetVals = append(st.SetVals, v)
			if !p.acceptSym(",") {
				break
			}
		}
	}
	if p.acceptKw("WHERE") {
		c, err := p.orExpr()
		if err != nil {
			return nil, err
		}
		st.Where = c
	}
	return st, nil
}

func (p *parser) deleteStmt() (*Stmt, error) {
	st := &Stmt{Kind: Delete}
	if err := p.expectKw("FROM"); err != nil {
		return nil, err
	}
	t, err := p.ident()
	if err != nil {
		return nil, err
	}
	st.Table = t
	if p.acceptKw("WHERE") {
		c, err := p.orExpr()
		if err != nil {
			return nil, err
		}
		st.Where = c
	}
	return st, nil
}

// ---- helpers for oracles ----

// Atom is one atomic constraint of a disjunct: column, operator ("=", "is", "in", "<", ...), operands.
type Atom struct {
	Col  string
	Op   string
	Vals []Operand
	Neg  bool // under an odd number of NOTs
}

// Disjuncts returns the condition in disjunctive normal form: a list of conjunctions of atoms.  A nil
// condition (no WHERE) gives one empty conjunction (the statement is unconstrained).  NOT is pushed to
// the atoms (Atom.Neg) by De Morgan.  The size is exponential in the worst case; sqlgen's statements
// are small.
func Disjuncts(c *Cond) [][]Atom {
	if c == nil {
		return [][]Atom{{}}
	}
	return dnf(c, false)
}

func dnf(c *Cond, neg bool) [][]Atom {
	switch c.Op {
	case "not":
		return dnf(c.Kids[0], !neg)
	case "or", "and":
		isOr := (c.Op == "or") != neg
		if isOr {
			var out [][]Atom
			for _, k := range c.Kids {
				out = append(out, dnf(k, neg)...)
			}
			return out
		}
		out := [][]Atom{{}}
		for _, k := range c.Kids {
			kd := dnf(k, neg)
			var nw [][]Atom
			for _, a := range out {
				for _, b := range kd {
					conj := append(append([]Atom{}, a...), b...)
					nw = append(nw, conj)
				}
			}
			out = nw
		}
		return out
	}
	op := c.Op
	if op == "cmp" {
		op = c.Cmp
	}
	return [][]Atom{{{Col: c.Col, Op: op, Vals: c.Vals, Neg: neg}}}
}

// Resolve returns the value of an operand given the statement's arguments.
func (o Operand) Resolve(args []interface{}) interface{} {
	if o.IsArg {
		if o.Arg < len(args) {
			return args[o.Arg]
		}
		return nil
	}
	return o.Lit
}
