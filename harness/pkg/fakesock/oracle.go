package fakesock

import (
	"bytes"
	"encoding/json"
	"fmt"
	"io/ioutil"
	"os/exec"
	"path/filepath"
	"reflect"
	"sort"
	"strings"
	"sync"
	"time"

	"github.com/samsarahq/thunder/graphql"
	"github.com/samsarahq/thunder/merge"
)

// Finding is one oracle failure on one case.
type Finding struct {
	Sig    string
	Detail string
}

func js(v interface{}) string {
	b, _ := json.Marshal(v)
	return string(b)
}

// updatesOf returns, per generation, the update messages it wrote (in order).
func updatesOf(res *Result) map[int][]interface{} {
	v := analyze(res.Events)
	out := map[int][]interface{}{}
	for _, e := range res.Events {
		if e.Kind != "write" || e.Run < 0 {
			continue
		}
		r := v.runs[e.Run]
		if r == nil || r.Gen < 0 {
			continue
		}
		if t, _ := e.Env["type"].(string); t == "update" {
			out[r.Gen] = append(out[r.Gen], e.Env["message"])
		}
	}
	return out
}

// OracleC17 evaluates the lifecycle property on the events of one case.
func OracleC17(res *Result) []Finding {
	var fs []Finding
	add := func(sig, f string, a ...interface{}) { fs = append(fs, Finding{sig, fmt.Sprintf(f, a...)}) }
	v := analyze(res.Events)
	max := res.Case.Max
	if max <= 0 {
		max = 3
	}
	open := map[string]bool{}
	inMap := map[string]int{}
	cutIdx := len(res.Events)
	for i, e := range res.Events {
		switch e.Kind {
		case "cut":
			cutIdx = i
		case "panic":
			add("c17-serve-panic", "ServeJSONSocket panicked: %s", e.ID)
		case "log":
			if e.Sub {
				if open[e.ID] {
					add("c17-subscribe-while-open", "event %d: Subscribe %s while a Subscribe %s is not yet matched", i, e.ID, e.ID)
				}
				open[e.ID] = true
			} else {
				if !open[e.ID] {
					add("c17-unsubscribe-without-subscribe", "event %d: Unsubscribe %s with no unmatched Subscribe %s before it", i, e.ID, e.ID)
				}
				open[e.ID] = false
				delete(inMap, e.ID)
			}
		case "hook":
			switch e.Point {
			case "conn.handleSubscribe.accept", "conn.handleMutate.accept":
				if g, ok := inMap[e.ID]; ok {
					add("c17-duplicate-id-accepted", "event %d: id %s accepted (generation %d) while generation %d with the same id is still in the map", i, e.ID, e.Gen, g)
				}
				if e.Point == "conn.handleSubscribe.accept" && len(inMap)+1 > max {
					add("c17-limit-exceeded", "event %d: subscription %s accepted with %d entries in the map, limit %d", i, e.ID, len(inMap), max)
				}
				inMap[e.ID] = e.Gen
			case "conn.closeSubscriptions.done":
				inMap = map[string]int{}
			}
		}
	}
	if v.closeAllIdx >= 0 {
		for id, o := range open {
			if o {
				add("c17-unsubscribe-missing", "connection closed, Subscribe %s was never followed by Unsubscribe %s", id, id)
			}
		}
	} else {
		add("c17-serve-did-not-close", "closeSubscriptions never finished")
	}
	// a subscription ends by unsubscribe, by its own failure, or when the connection closes - not by
	// the close another subscription asked for
	for _, ct := range closeTasks(res.Events) {
		if ct.Stale {
			add("c17-ended-by-stale-close", "event %d: an asynchronous closeSubscription(%s) spawned by generation %d stopped generation %d, which had not asked for it",
				ct.DoneIdx, ct.ID, ct.TaskGen, ct.ClosedGen)
		}
	}
	// an unsubscribe message ends the subscription that holds its id: by the time the reader asks for the next
	// message, that subscription has ended
	{
		cur := map[string]int{}
		pending := map[int]int{} // generation -> index of the event at which its unsubscribe was read
		curMsg := -1
		for i, e := range res.Events {
			switch e.Kind {
			case "read":
				curMsg = e.Msg
				if curMsg >= 0 && curMsg < len(res.Fed) && res.Fed[curMsg].Op == "unsubscribe" {
					if g, ok := cur[res.Fed[curMsg].ID]; ok {
						pending[g] = i
					}
				}
			case "readwait", "readerr":
				for g, at := range pending {
					if g >= 0 && g < len(v.gens) && (v.gens[g].EndIdx < 0 || v.gens[g].EndIdx > i) {
						add("c17-unsubscribe-ignored", "event %d: the unsubscribe for %q (read at event %d) has been processed, generation %d is still subscribed", i, v.gens[g].ID, at, g)
					}
					delete(pending, g)
				}
			case "log":
				if !e.Sub {
					delete(cur, e.ID)
				}
			case "hook":
				switch e.Point {
				case "conn.handleSubscribe.accept", "conn.handleMutate.accept":
					cur[e.ID] = e.Gen
				case "conn.closeSubscriptions.done":
					cur = map[string]int{}
				}
			}
		}
	}
	// its reactive resources are released: every resource registered by a computation of a subscription
	// that has ended (all of them once the connection closed) has had exactly one Cleanup call
	for resN, n := range v.cleanups {
		if n > 1 {
			add("c17-resource-released-twice", "resource %d (generation %d) had %d Cleanup calls", resN, v.registered[resN], n)
		}
	}
	missing := map[int][]int{}
	for resN, gen := range v.registered {
		if v.cleanups[resN] == 0 && gen >= 0 && gen < len(v.gens) && v.gens[gen].EndIdx >= 0 {
			missing[gen] = append(missing[gen], resN)
		}
	}
	for gen, rs := range missing {
		sort.Ints(rs)
		add("c17-resource-not-released", "%s (generation %d) has ended, %d of the resources its computations registered never had their Cleanup call: %v",
			v.gens[gen].ID, gen, len(rs), rs)
	}
	// nothing runs, nothing is written after the end
	for i, e := range res.Events {
		var r *runInfo
		switch e.Kind {
		case "mwstart":
			r = v.runs[e.Run]
		case "write":
			if e.Run >= 0 {
				r = v.runs[e.Run]
			}
		}
		if r == nil || r.Gen < 0 || r.Gen >= len(v.gens) {
			continue
		}
		g := v.gens[r.Gen]
		if g.EndIdx < 0 || i < g.EndIdx {
			continue
		}
		what := "a computation started"
		sig := "c17-run-after-"
		if e.Kind == "write" {
			what = "envelope " + js(e.Env) + " was written"
			sig = "c17-write-after-"
		}
		if g.EndIdx == v.closeAllIdx {
			add(sig+"close", "event %d: %s for %s (generation %d) after closeSubscriptions returned at event %d", i, what, g.ID, g.Gen, g.EndIdx)
		} else {
			add(sig+"end", "event %d: %s for %s (generation %d) after it ended at event %d", i, what, g.ID, g.Gen, g.EndIdx)
		}
	}
	_ = cutIdx
	// the same at the rerunner itself (hooks in reactive/rerunner.go): Stop's critical section runs exactly once for
	// every rerunner the connection created, and after it the rerunner takes its lock only to find stop set - it
	// does not publish, fail or retry any more
	{
		stops := map[int]int{}
		for i, e := range res.Events {
			if e.Kind != "rx" || e.Gen < 0 {
				continue
			}
			switch e.Point {
			case "mark":
				stops[e.Gen]++
				if stops[e.Gen] == 2 {
					add("c17-rerunner-stopped-twice", "event %d: Stop ran a second time on the rerunner of generation %d", i, e.Gen)
				}
			case "publish", "failed", "retry":
				if stops[e.Gen] > 0 {
					add("c17-rerunner-active-after-stop", "event %d: the rerunner of generation %d reported %s after its Stop", i, e.Gen, e.Point)
				}
			case "locked":
				if stops[e.Gen] > 0 && !e.Flag {
					add("c17-rerunner-active-after-stop", "event %d: a run of the rerunner of generation %d took the lock after Stop and did not see stop", i, e.Gen)
				}
			}
		}
		if v.served && v.closeAllIdx >= 0 {
			for _, g := range v.gens {
				if stops[g.Gen] == 0 {
					add("c17-rerunner-not-stopped", "the connection closed, Stop never ran on the rerunner of %s (generation %d)", g.ID, g.Gen)
				}
			}
		}
	}
	fs = append(fs, metadataFindings(res, v, "c17")...)
	// rate limiting: a re-run of a subscription starts no earlier than MinRerunInterval after the previous computation
	// returned (twice that after a retry) - unless a mutation asked for an immediate re-run (cases with mutations are
	// not judged)
	if res.Case.IntervalMs > 0 {
		mutated := false
		for _, o := range res.Case.Ops {
			if o.Op == "mutate" {
				mutated = true
			}
		}
		iv := time.Duration(res.Case.IntervalMs) * time.Millisecond
		last := map[int]*runInfo{}
		for _, n := range v.runOrder {
			r := v.runs[n]
			if r.Gen < 0 || r.Gen >= len(v.gens) || v.gens[r.Gen].IsMut {
				continue
			}
			if prev := last[r.Gen]; prev != nil && prev.Ended && !mutated {
				want := iv
				if prev.End.Err != "" && !prev.End.Cancel && !prev.End.Initial {
					want = 2 * iv
				}
				gap := res.Events[r.StartIdx].T.Sub(res.Events[prev.EndIdx].T)
				if gap < want-time.Millisecond {
					add("c17-rerun-before-min-interval", "generation %d: computation %d started %v after computation %d returned; the connection's MinRerunInterval is %v (%v required here)",
						r.Gen, r.N, gap, prev.N, iv, want)
				}
			}
			last[r.Gen] = r
		}
	}
	for _, p := range res.Problems {
		add(p.Sig, "%s", p.Detail)
	}
	return fs
}

// metadataFindings: every envelope a computation writes carries the metadata its middlewares produced (the harness's
// observer puts the run and the generation there), the reader's own replies carry none.
func metadataFindings(res *Result, v *view, prefix string) []Finding {
	var fs []Finding
	for i, e := range res.Events {
		if e.Kind != "write" {
			continue
		}
		_, has := e.Env["metadata"]
		if e.Run < 0 {
			if has {
				fs = append(fs, Finding{prefix + "-envelope-metadata-wrong", fmt.Sprintf("event %d: the reader's reply %s carries metadata", i, js(e.Env))})
			}
			continue
		}
		r := v.runs[e.Run]
		if r == nil {
			continue
		}
		n, ok := metaInt(e.Env, "vrun")
		g, ok2 := metaInt(e.Env, "vgen")
		if !ok || !ok2 || n != e.Run || g != r.Gen {
			fs = append(fs, Finding{prefix + "-envelope-metadata-wrong", fmt.Sprintf("event %d: envelope %s was written by computation %d of generation %d: its metadata should say so", i, js(e.Env), e.Run, r.Gen)})
		}
	}
	return fs
}

// OracleC02 evaluates the convergence property (Go client inline; the merge.ts client is folded by
// FoldJS and checked by CheckJS).
func OracleC02(res *Result) []Finding {
	var fs []Finding
	add := func(sig, f string, a ...interface{}) { fs = append(fs, Finding{sig, fmt.Sprintf(f, a...)}) }
	v := analyze(res.Events)
	// first message full; ids do not mix
	seen := map[int]bool{}
	for i, e := range res.Events {
		if e.Kind != "write" || e.Run < 0 {
			continue
		}
		r := v.runs[e.Run]
		if r == nil {
			continue
		}
		id, _ := e.Env["id"].(string)
		if id != r.ID || (r.Gen >= 0 && r.Gen < len(v.gens) && v.gens[r.Gen].ID != id) {
			add("c02-id-mixed", "event %d: computation of %s wrote an envelope with id %q", i, r.ID, id)
		}
		if t, _ := e.Env["type"].(string); t == "update" && !seen[r.Gen] {
			seen[r.Gen] = true
			if a, ok := e.Env["message"].([]interface{}); !ok || len(a) != 1 {
				add("c02-first-message-not-full", "event %d: first update of %s (generation %d) is %s", i, r.ID, r.Gen, js(e.Env["message"]))
			}
		}
	}
	// every computation executes its own query: the result of a subscription's run has exactly the top-level
	// keys of the query it was created for (a mutation's: of its mutation), a mutation resolver runs only inside
	// the computation of its own mutation, and at most once per accepted mutate
	mutRuns := map[int]int{}
	for i, e := range res.Events {
		switch e.Kind {
		case "mutexec":
			if e.Gen < 0 || e.Gen >= len(v.gens) {
				break
			}
			g := v.gens[e.Gen]
			if !g.IsMut {
				add("c02-mutation-executed-by-subscription", "event %d: mutation resolver %s ran inside a computation of subscription %s (generation %d)", i, e.Field, g.ID, g.Gen)
				break
			}
			mutRuns[e.Gen]++
			if mutRuns[e.Gen] == 2 {
				add("c02-mutation-ran-twice", "event %d: the mutation of generation %d (%s) executed %s a second time", i, g.Gen, g.ID, e.Field)
			}
			if g.Msg >= 0 && g.Msg < len(res.Fed) {
				if want := queryKeys(MutQueries[res.Fed[g.Msg].Q%len(MutQueries)], true); len(want) == 1 && want[0] != e.Field {
					add("c02-mutation-ran-foreign-query", "event %d: mutation %s (generation %d) executed %s, its query asks for %s", i, g.ID, g.Gen, e.Field, want[0])
				}
			}
		case "arg":
			// a resolver was called with an argument: it must be the value of the subscription's own variable
			if e.Gen < 0 || e.Gen >= len(v.gens) {
				break
			}
			g := v.gens[e.Gen]
			if g.IsMut || g.Msg < 0 || g.Msg >= len(res.Fed) {
				break
			}
			op := res.Fed[g.Msg]
			if name := QueryVar(op.Q); name != "" {
				if want, ok := op.Vars[name].(float64); ok && int(want) != e.Ver {
					add("c02-run-with-foreign-variables", "event %d: a computation of %s (generation %d, variables %s) called %s with %d", i, g.ID, g.Gen, js(op.Vars), e.Field, e.Ver)
				}
			}
		case "mwend":
			if e.Err != "" || e.Gen < 0 || e.Gen >= len(v.gens) {
				break
			}
			g := v.gens[e.Gen]
			if g.Msg < 0 || g.Msg >= len(res.Fed) {
				break
			}
			var want []string
			if g.IsMut {
				want = queryKeys(MutQueries[res.Fed[g.Msg].Q%len(MutQueries)], true)
			} else {
				want = queryKeys(SubQueries[res.Fed[g.Msg].Q%len(SubQueries)], false)
			}
			got := e.Keys
			if want != nil && !reflect.DeepEqual(got, want) {
				add("c02-result-of-foreign-query", "event %d: a computation of %s (generation %d) produced a result with fields %v, its query selects %v", i, g.ID, g.Gen, got, want)
			}
		}
	}
	// nothing after the unsubscribe was processed
	for k, o := range res.Fed {
		if o.Op != "unsubscribe" {
			continue
		}
		processed := -1
		for i, e := range res.Events {
			if e.Kind == "read" && e.Msg == k {
				for j := i + 1; j < len(res.Events); j++ {
					if res.Events[j].Kind == "readwait" || res.Events[j].Kind == "readerr" {
						processed = j
						break
					}
				}
				break
			}
		}
		if processed < 0 {
			continue
		}
		for j := processed + 1; j < len(res.Events); j++ {
			e := res.Events[j]
			if e.Kind == "hook" && (e.Point == "conn.handleSubscribe.accept" || e.Point == "conn.handleMutate.accept") && e.ID == o.ID {
				break
			}
			if e.Kind == "write" {
				id, _ := e.Env["id"].(string)
				if t, _ := e.Env["type"].(string); id == o.ID && t == "update" {
					add("c02-update-after-unsubscribe", "event %d: update for %s after its unsubscribe was processed at event %d", j, id, processed)
				}
			}
		}
	}
	// convergence (Go client)
	ups := updatesOf(res)
	for _, s := range res.Snaps {
		if s.Updates < 0 {
			add("c02-subscription-dropped-silently", "after op %d the client still believes generation %d is subscribed, the server ended it without telling", s.At, s.Gen)
			continue
		}
		var st interface{}
		var err error
		bad := false
		for i := 0; i < s.Updates && i < len(ups[s.Gen]); i++ {
			st, err = safeMerge(st, ups[s.Gen][i])
			if err != nil {
				add("c02-go-client-merge-error", "generation %d, update %d: %v", s.Gen, i, err)
				bad = true
				break
			}
		}
		if bad {
			continue
		}
		got := roundTrip(st)
		if !reflect.DeepEqual(got, s.Want) {
			add("c02-go-client-diverged", "after op %d generation %d: client holds %s, fresh Execute gives %s", s.At, s.Gen, js(got), js(s.Want))
		}
	}
	fs = append(fs, metadataFindings(res, v, "c02")...)
	for _, p := range res.Problems {
		add(p.Sig, "%s", p.Detail)
	}
	return fs
}

var (
	qkMu sync.Mutex
	qk   = map[string][]string{}
)

// queryKeys returns the sorted top-level response keys of a query text (nil if it does not parse).
func queryKeys(text string, mutation bool) []string {
	qkMu.Lock()
	defer qkMu.Unlock()
	key := text
	if mutation {
		key = "M|" + text
	}
	if ks, ok := qk[key]; ok {
		return ks
	}
	var ks []string
	if q, err := graphql.Parse(text, map[string]interface{}{"n": float64(0), "id": float64(0)}); err == nil && q.SelectionSet != nil {
		if sels, err := graphql.Flatten(q.SelectionSet); err == nil {
			for _, sel := range sels {
				ks = append(ks, sel.Alias)
			}
			sort.Strings(ks)
		}
	}
	qk[key] = ks
	return ks
}

func safeMerge(a, b interface{}) (r interface{}, err error) {
	defer func() {
		if e := recover(); e != nil {
			err = fmt.Errorf("panic: %v", e)
		}
	}()
	return merge.Merge(a, b)
}

// ---- the repository's merge.ts client, folded by node in one batch ----

const foldJS = `
const fs = require("fs");
const repo = process.argv[2];
let src = fs.readFileSync(repo + "/client/src/merge.ts", "utf8");
src = src.replace(/export\s+function/g, "function").replace(/:\s*any/g, "");
const merge = new Function(src + "\nreturn merge;")();
const out = [];
for (const line of fs.readFileSync(0, "utf8").split("\n")) {
  if (!line.trim()) continue;
  try {
    const deltas = JSON.parse(line);
    let st = undefined;
    const states = [];
    for (const d of deltas) { st = merge(st, d); states.push(st === undefined ? null : st); }
    out.push(JSON.stringify({ ok: states }));
  } catch (e) { out.push(JSON.stringify({ err: String(e) })); }
}
process.stdout.write(out.join("\n") + "\n");
`

// FoldJS folds every stream of deltas with client/src/merge.ts; result[i] = the states after each delta.
func FoldJS(outDir, repo string, streams [][]interface{}) ([][]interface{}, []string, error) {
	script := filepath.Join(outDir, "fold_merge.js")
	if err := ioutil.WriteFile(script, []byte(foldJS), 0o644); err != nil {
		return nil, nil, err
	}
	var in bytes.Buffer
	for _, s := range streams {
		if s == nil {
			s = []interface{}{}
		}
		in.WriteString(js(s) + "\n")
	}
	cmd := exec.Command("node", script, repo)
	cmd.Stdin = &in
	outb, err := cmd.Output()
	if err != nil {
		return nil, nil, err
	}
	lines := strings.Split(strings.TrimSpace(string(outb)), "\n")
	res := make([][]interface{}, len(streams))
	errs := make([]string, len(streams))
	for i := range streams {
		if i >= len(lines) {
			errs[i] = "no output"
			continue
		}
		var r struct {
			Ok  []interface{} `json:"ok"`
			Err string        `json:"err"`
		}
		json.Unmarshal([]byte(lines[i]), &r)
		res[i], errs[i] = r.Ok, r.Err
	}
	return res, errs, nil
}
