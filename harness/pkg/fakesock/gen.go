package fakesock

import (
	"fmt"
	"os"
	"verifharness/pkg/vh"
)

var itemNames = []string{"ann", "bob", "cy", "", "é"}
var strVals = []string{"", "x", "y", "-1", "$", "long string"}

func genItems(r *vh.Rng, cur []Item) []Item {
	out := append([]Item{}, cur...)
	if len(out) > 0 && r.Chance(15) {
		return []Item{} // the list becomes empty
	}
	for ops := 1 + r.Intn(3); ops > 0; ops-- {
		switch r.Intn(8) {
		case 0, 1: // insert
			it := Item{Id: int64(r.Intn(6)), Name: r.Pick(itemNames), N: int64(r.Intn(4) - 1)}
			i := r.Intn(len(out) + 1)
			out = append(out[:i], append([]Item{it}, out[i:]...)...)
		case 2: // delete
			if len(out) > 0 {
				i := r.Intn(len(out))
				out = append(out[:i], out[i+1:]...)
			}
		case 3: // swap
			if len(out) > 1 {
				i, j := r.Intn(len(out)), r.Intn(len(out))
				out[i], out[j] = out[j], out[i]
			}
		case 4: // change a field
			if len(out) > 0 {
				i := r.Intn(len(out))
				if r.Bool() {
					out[i].Name = r.Pick(itemNames)
				} else {
					out[i].N = int64(r.Intn(4) - 1)
				}
			}
		case 5: // change a key
			if len(out) > 0 {
				out[r.Intn(len(out))].Id = int64(r.Intn(6))
			}
		case 6: // rotate / reverse
			if len(out) > 1 {
				if r.Bool() {
					k := r.Intn(len(out))
					out = append(append([]Item{}, out[k:]...), out[:k]...)
				} else {
					for i, j := 0, len(out)-1; i < j; i, j = i+1, j-1 {
						out[i], out[j] = out[j], out[i]
					}
				}
			}
		default: // duplicate
			if len(out) > 0 && len(out) < 7 {
				out = append(out, out[r.Intn(len(out))])
			}
		}
	}
	return out
}

// genVars draws the variables of a subscribe (nil for a query without variables).
func genVars(r *vh.Rng, q int) map[string]interface{} {
	switch QueryVar(q) {
	case "n":
		return map[string]interface{}{"n": float64(r.Intn(4))}
	case "id":
		return map[string]interface{}{"id": float64(r.Intn(6))}
	}
	return nil
}

// genBytes: empty (often: the interesting value) or a few bytes; never nil.
func genBytes(r *vh.Rng) []byte {
	if r.Chance(50) {
		return []byte{}
	}
	return []byte(r.Pick([]string{"a", "ab", "\x00", "xyz"}))
}

func genSync(r *vh.Rng) string {
	switch k := r.Intn(100); {
	case k < 55:
		return "settle"
	case k < 75:
		return "handled"
	default:
		return "none"
	}
}

// GenCase draws one case. flavor "C02" favours data changes under long-lived subscriptions,
// "C17" favours lifecycle traffic (colliding ids, mutations, failures, closes).
func GenCase(r *vh.Rng, flavor string) Case {
	c := Case{Max: 1 + r.Intn(3), Origin: "generated"}
	if r.Chance(60) {
		c.Max = 3
	}
	if r.Chance(8) {
		// the socket starts refusing writes at some point: plain error (writeOrClose closes the socket) or
		// a close error (the peer went away)
		c.FailWrite = 1 + r.Intn(6)
		if r.Chance(35) {
			c.FailMode = "close"
		}
	}
	if r.Chance(30) {
		c.DelayMs = []int{8, 15}[r.Intn(2)] // reactive.WriteThenReadDelay: re-runs wait, holding the rerunner's lock
	}
	// application middlewares registered with conn.Use, behind the harness's observer
	c.Middlewares = r.Intn(8)
	if c.Middlewares > 0 {
		c.MwHold = r.Intn(c.Middlewares)
	}
	n := 5 + r.Intn(18)
	if r.Chance(30) {
		c.Ops = append(c.Ops, Op{Op: "tickarm", N: 1 + r.Intn(3)})
	}
	live := map[string]bool{}
	var items []Item
	var lastObj *Inner
	liveIDs := func() []string {
		var l []string
		for _, id := range IDPool {
			if live[id] {
				l = append(l, id)
			}
		}
		return l
	}
	wData, wLife := 30, 55
	if flavor == "C02" {
		wData, wLife = 50, 38
	}
	// most cases start with a subscription
	if r.Chance(80) {
		id := IDPool[r.Intn(3)]
		c.Ops = append(c.Ops, Op{Op: "subscribe", ID: id, Q: r.Intn(FirstBadSubQuery), Sync: genSync(r)})
		live[id] = true
	}
	fieldQuery := map[string]int{"a": 0, "s": 1, "items": 2, "obj": 14, "flag": 7, "tick": 8, "f": 10}
	stale, blocked, slowmw, samevars, lostrace := -1, -1, -1, -1, -1
	if r.Chance(12) {
		lostrace = r.Intn(n)
	}
	if (flavor == "C02" && r.Chance(30)) || r.Chance(8) {
		samevars = r.Intn(n)
	}
	if r.Chance(15) {
		slowmw = r.Intn(n)
	}
	if r.Chance(15) {
		stale = r.Intn(n)
	}
	if r.Chance(12) || os.Getenv("FAKESOCK_FAMILY") == "blocked" { // the variable is a debugging aid: every case gets the family
		blocked = r.Intn(n)
	}
	for i := 0; i < n; i++ {
		if i == stale {
			// witness family of F14 (derived from the model's refutation): an asynchronous close is held
			// before it takes conn.mu while the client unsubscribes the id and uses it again
			id := IDPool[r.Intn(len(IDPool))]
			if r.Bool() {
				f := Fields[r.Intn(len(Fields))]
				c.Ops = append(c.Ops, Op{Op: "unsubscribe", ID: id, Sync: "settle"},
					Op{Op: "fail", Field: f, N: 1, Mode: r.Pick([]string{"plain", "safe", "panic"}), Sync: "none"},
					Op{Op: "pause", ID: id},
					Op{Op: "subscribe", ID: id, Q: fieldQuery[f], Sync: "none"})
			} else {
				c.Ops = append(c.Ops, Op{Op: "unsubscribe", ID: id, Sync: "settle"},
					Op{Op: "pause", ID: id},
					Op{Op: "mutate", ID: id, Q: r.Intn(len(MutQueries)), Sync: "none"})
			}
			c.Ops = append(c.Ops, Op{Op: "awaitpause", ID: id}, Op{Op: "unsubscribe", ID: id, Sync: "handled"})
			if r.Chance(70) {
				c.Ops = append(c.Ops, Op{Op: "subscribe", ID: id, Q: r.Intn(FirstBadSubQuery), Sync: "handled"})
				live[id] = true
			} else {
				c.Ops = append(c.Ops, Op{Op: "mutate", ID: id, Q: r.Intn(FirstBadMutQuery), Sync: "handled"})
			}
			c.Ops = append(c.Ops, Op{Op: "release", ID: id, Sync: "settle"})
		}
		if i == lostrace {
			// a re-run has finished waiting (context still live) and has not yet taken the rerunner's lock when
			// the subscription is stopped: by unsubscribe, by a mutation-free close, or by the socket closing
			id := IDPool[r.Intn(3)]
			f := Fields[r.Intn(5)]
			c.Ops = append(c.Ops, Op{Op: "unsubscribe", ID: id, Sync: "settle"},
				Op{Op: "subscribe", ID: id, Q: fieldQuery[f], Sync: "settle"},
				Op{Op: "proceedhold", N: 1},
				Op{Op: "set", Field: f, Int: int64(r.Intn(5)), Str: r.Pick(strVals), Sync: "none"},
				Op{Op: "awaitblock"})
			if r.Chance(80) {
				c.Ops = append(c.Ops, Op{Op: "unsubscribe", ID: id, Sync: "handled"})
				if r.Bool() {
					c.Ops = append(c.Ops, Op{Op: "echo", ID: IDPool[r.Intn(len(IDPool))], Sync: "handled"})
				}
				c.Ops = append(c.Ops, Op{Op: "proceedrelease", Sync: "settle"})
			} else {
				c.Ops = append(c.Ops, Op{Op: "close"}, Op{Op: "proceedrelease", Sync: "none"})
			}
		}
		if i == samevars {
			// several subscriptions of one connection share a query text and differ in their variables; one is
			// unsubscribed and subscribed again (same id or another) with new variables
			q := 12 + r.Intn(2)
			ids := []string{IDPool[r.Intn(3)], IDPool[r.Intn(len(IDPool))]}
			for _, id := range ids {
				c.Ops = append(c.Ops, Op{Op: "unsubscribe", ID: id, Sync: "handled"},
					Op{Op: "subscribe", ID: id, Q: q, Vars: genVars(r, q), Sync: genSync(r)})
				live[id] = true
			}
			if r.Chance(60) {
				re := ids[r.Intn(2)]
				nid := re
				if r.Bool() {
					nid = IDPool[r.Intn(len(IDPool))]
				}
				c.Ops = append(c.Ops, Op{Op: "unsubscribe", ID: re, Sync: genSync(r)},
					Op{Op: "subscribe", ID: nid, Q: q, Vars: genVars(r, q), Sync: "settle"})
				live[nid] = true
			}
			c.Ops = append(c.Ops, Op{Op: "set", Field: "a", Int: int64(r.Intn(5)), Sync: "settle"})
			items = genItems(r, items)
			c.Ops = append(c.Ops, Op{Op: "set", Field: "items", Items: append([]Item{}, items...), Sync: "settle"})
		}
		if i == slowmw && c.Middlewares > 0 {
			// a computation is held inside an application middleware while other requests with different
			// queries (a mutation, another subscription) are set up and run on the same connection
			id := IDPool[r.Intn(3)]
			f := Fields[r.Intn(len(Fields))]
			c.Ops = append(c.Ops, Op{Op: "unsubscribe", ID: id, Sync: "settle"},
				Op{Op: "subscribe", ID: id, Q: fieldQuery[f], Sync: "settle"},
				Op{Op: "mwhold", N: 1},
				Op{Op: "set", Field: f, Int: int64(r.Intn(5)), Str: r.Pick(strVals), Sync: "none"},
				Op{Op: "awaitblock"})
			live[id] = true
			for k := 1 + r.Intn(2); k > 0; k-- {
				if r.Chance(65) {
					c.Ops = append(c.Ops, Op{Op: "mutate", ID: IDPool[3+r.Intn(2)], Q: r.Intn(FirstBadMutQuery), Sync: "handled"}, Op{Op: "awaitrun"})
				} else {
					c.Ops = append(c.Ops, Op{Op: "subscribe", ID: IDPool[r.Intn(len(IDPool))], Q: r.Intn(FirstBadSubQuery), Sync: "handled"}, Op{Op: "awaitrun"})
				}
			}
			c.Ops = append(c.Ops, Op{Op: "mwrelease", Sync: "settle"})
		}
		if i == blocked {
			// an in-flight computation (resolver held until its context is cancelled) meets an unsubscribe,
			// a mutation with the same id, a context cancellation or the socket closing
			id := IDPool[r.Intn(3)]
			f := Fields[r.Intn(len(Fields))]
			mode := r.Pick([]string{"block", "hold"}) // the resolver gives up on cancellation / ignores it and returns its value
			c.Ops = append(c.Ops, Op{Op: "unsubscribe", ID: id, Sync: "settle"})
			if r.Bool() {
				c.Ops = append(c.Ops, Op{Op: "subscribe", ID: id, Q: fieldQuery[f], Sync: "settle"},
					Op{Op: "fail", Field: f, N: 1, Mode: mode, Sync: "none"})
			} else {
				c.Ops = append(c.Ops, Op{Op: "fail", Field: f, N: 1, Mode: mode, Sync: "none"},
					Op{Op: "subscribe", ID: id, Q: fieldQuery[f], Sync: "none"})
			}
			live[id] = true
			c.Ops = append(c.Ops, Op{Op: "awaitblock"})
			switch j := r.Intn(10); {
			case j < 5:
				c.Ops = append(c.Ops, Op{Op: "unsubscribe", ID: id, Sync: r.Pick([]string{"handled", "settle", "none"})})
				delete(live, id)
				if r.Bool() {
					c.Ops = append(c.Ops, Op{Op: "echo", ID: IDPool[r.Intn(len(IDPool))], Sync: "handled"})
				}
				if r.Bool() {
					c.Ops = append(c.Ops, Op{Op: "set", Field: "a", Int: int64(2 + r.Intn(3)), Sync: "none"},
						Op{Op: "subscribe", ID: id, Q: fieldQuery[f], Sync: "settle"})
					live[id] = true
				}
			case j < 7:
				c.Ops = append(c.Ops, Op{Op: "mutate", ID: id, Q: r.Intn(FirstBadMutQuery), Sync: "none"},
					Op{Op: "unsubscribe", ID: id, Sync: "settle"})
				delete(live, id)
			case j < 9:
				c.Ops = append(c.Ops, Op{Op: "cancel", Sync: "settle"})
			default:
				c.Ops = append(c.Ops, Op{Op: "close"})
			}
		}
		k := r.Intn(100)
		switch {
		case k < wData: // data change
			f := Fields[r.Intn(len(Fields))]
			o := Op{Op: "set", Field: f, Perm: r.Chance(15), Sync: genSync(r)}
			switch f {
			case "a":
				o.Int = int64(r.Intn(5) - 1)
			case "s":
				o.Str = r.Pick(strVals)
			case "flag":
				o.Int = int64(r.Intn(2))
			case "obj":
				if lastObj != nil && r.Chance(40) {
					// the same object with one bytes field changed: empty <-> null <-> a few bytes
					cp := *lastObj
					if r.Bool() {
						cp.B = genBytes(r)
					} else if cp.P != nil && r.Chance(60) {
						cp.P = nil
					} else {
						b := genBytes(r)
						cp.P = &b
					}
					o.Obj = &cp
				} else if r.Chance(65) {
					o.Obj = &Inner{X: int64(r.Intn(3)), Y: r.Pick(strVals), B: genBytes(r)}
					if r.Chance(60) {
						b := genBytes(r)
						o.Obj.P = &b
					}
				}
				lastObj = o.Obj
			case "items":
				items = genItems(r, items)
				o.Items = append([]Item{}, items...)
			case "f":
				o.Int = int64(r.Intn(5) - 1)
				if r.Chance(30) {
					o.Str = r.Pick([]string{"nan", "inf", "-inf"}) // not encodable as JSON
				}
			}
			c.Ops = append(c.Ops, o)
			if c.DelayMs > 0 && o.Sync != "settle" && r.Chance(35) {
				// a stop right after an invalidation: the re-run is inside its write-then-read delay
				if l := liveIDs(); len(l) > 0 && r.Chance(85) {
					id := l[r.Intn(len(l))]
					delete(live, id)
					c.Ops = append(c.Ops, Op{Op: "unsubscribe", ID: id, Sync: genSync(r)})
				} else if r.Chance(30) {
					c.Ops = append(c.Ops, Op{Op: "close"})
				}
			}
		case k < wData+wLife: // lifecycle
			switch j := r.Intn(100); {
			case j < 42: // subscribe
				var id string
				if l := liveIDs(); len(l) > 0 && r.Chance(30) {
					id = l[r.Intn(len(l))]
				} else {
					id = IDPool[r.Intn(len(IDPool))]
				}
				q := r.Intn(FirstBadSubQuery)
				if r.Chance(12) {
					q = FirstBadSubQuery + r.Intn(FirstCacheSubQuery-FirstBadSubQuery)
				}
				c.Ops = append(c.Ops, Op{Op: "subscribe", ID: id, Q: q, Sync: genSync(r)})
				if q < FirstBadSubQuery {
					live[id] = true
				}
			case j < 64: // unsubscribe
				var id string
				if l := liveIDs(); len(l) > 0 && r.Chance(80) {
					id = l[r.Intn(len(l))]
				} else {
					id = IDPool[r.Intn(len(IDPool))]
				}
				delete(live, id)
				c.Ops = append(c.Ops, Op{Op: "unsubscribe", ID: id, Sync: genSync(r)})
			case j < 84: // mutate
				var id string
				if l := liveIDs(); len(l) > 0 && r.Chance(30) {
					id = l[r.Intn(len(l))]
				} else {
					id = IDPool[3+r.Intn(2)]
				}
				q := r.Intn(FirstBadMutQuery)
				if r.Chance(12) {
					q = FirstBadMutQuery + r.Intn(len(MutQueries)-FirstBadMutQuery)
				}
				c.Ops = append(c.Ops, Op{Op: "mutate", ID: id, Q: q, Sync: genSync(r)})
			case j < 88:
				c.Ops = append(c.Ops, Op{Op: "echo", ID: IDPool[r.Intn(len(IDPool))], Sync: genSync(r)})
			case j < 91:
				m := "ok"
				if r.Bool() {
					m = "bad"
				}
				c.Ops = append(c.Ops, Op{Op: "url", ID: IDPool[r.Intn(len(IDPool))], Mode: m, Sync: genSync(r)})
			case j < 94:
				c.Ops = append(c.Ops, Op{Op: "unknown", ID: IDPool[r.Intn(len(IDPool))], Sync: genSync(r)})
			case j < 97:
				m := "sub"
				if r.Bool() {
					m = "mut"
				}
				c.Ops = append(c.Ops, Op{Op: "badmsg", ID: IDPool[r.Intn(len(IDPool))], Mode: m, Sync: genSync(r)})
			case j < 98:
				c.Ops = append(c.Ops, Op{Op: "cancel", Sync: genSync(r)})
			case j < 99:
				c.Ops = append(c.Ops, Op{Op: "malformed"})
			default:
				c.Ops = append(c.Ops, Op{Op: "close"})
			}
		default: // resolver failure
			c.Ops = append(c.Ops, Op{Op: "fail", Field: Fields[r.Intn(len(Fields))], N: 1 + r.Intn(3),
				Mode: r.Pick([]string{"plain", "safe", "panic", "cancelown"}), Sync: genSync(r)})
		}
	}
	for k := range c.Ops {
		if o := &c.Ops[k]; o.Op == "subscribe" && o.Vars == nil {
			o.Vars = genVars(r, o.Q)
		}
	}
	// connection options, drawn last so that the ops of a seed stay what they were
	if r.Chance(30) {
		c.Spawn = true
	}
	if r.Chance(12) {
		c.IntervalMs = 20 + 10*r.Intn(2)
	}
	return c
}

func isMessage(o Op) bool {
	switch o.Op {
	case "subscribe", "unsubscribe", "mutate", "echo", "url", "unknown", "badmsg":
		return true
	}
	return false
}

func insertOps(ops []Op, i int, ins ...Op) []Op {
	if i < 0 {
		i = 0
	}
	if i > len(ops) {
		i = len(ops)
	}
	out := append([]Op{}, ops[:i]...)
	out = append(out, ins...)
	return append(out, ops[i:]...)
}

// Variant derives a neighbour of a case on which model and implementation disagreed: one message moved,
// duplicated or removed, an id changed to collide, a close / cancellation / invalidation / failure inserted at
// a neighbouring position, the in-flight-run or the held-asynchronous-close family wrapped around a step, a
// synchronisation point dropped, the socket made to refuse writes.
func Variant(r *vh.Rng, seed Case) Case {
	c := seed
	c.Ops = append([]Op{}, seed.Ops...)
	c.Origin = "search"
	for k := 1 + r.Intn(3); k > 0; k-- {
		if len(c.Ops) == 0 {
			c.Ops = GenCase(r, "C17").Ops
			continue
		}
		i := r.Intn(len(c.Ops))
		switch r.Intn(11) {
		case 0: // move a step to a neighbouring position
			j := i + 1 + r.Intn(2)
			if r.Bool() {
				j = i - 1 - r.Intn(2)
			}
			if j >= 0 && j < len(c.Ops) {
				c.Ops[i], c.Ops[j] = c.Ops[j], c.Ops[i]
			}
		case 1: // duplicate a step
			c.Ops = insertOps(c.Ops, i+r.Intn(3), c.Ops[i])
		case 2: // remove a step
			c.Ops = append(c.Ops[:i:i], c.Ops[i+1:]...)
		case 3: // make an id collide
			var ids []string
			for _, o := range c.Ops {
				if o.ID != "" {
					ids = append(ids, o.ID)
				}
			}
			if len(ids) > 0 && c.Ops[i].ID != "" {
				c.Ops[i].ID = ids[r.Intn(len(ids))]
			}
		case 4: // the connection ends at a neighbouring position
			c.Ops = insertOps(c.Ops, i+r.Intn(2), Op{Op: r.Pick([]string{"close", "cancel", "malformed", "close"}), Sync: genSync(r)})
		case 5: // an invalidation or a resolver failure at a neighbouring position
			f := Fields[r.Intn(len(Fields))]
			if r.Bool() {
				c.Ops = insertOps(c.Ops, i+r.Intn(2), Op{Op: "set", Field: f, Int: int64(r.Intn(5)), Str: r.Pick(strVals), Perm: r.Chance(30), Sync: genSync(r)})
			} else {
				c.Ops = insertOps(c.Ops, i+r.Intn(2), Op{Op: "fail", Field: f, N: 1 + r.Intn(2), Mode: r.Pick([]string{"plain", "safe", "panic"}), Sync: genSync(r)})
			}
		case 6: // a computation is in flight when the step happens
			f := Fields[r.Intn(len(Fields))]
			c.Ops = insertOps(c.Ops, i, Op{Op: "fail", Field: f, N: 1, Mode: r.Pick([]string{"block", "hold"}), Sync: "none"}, Op{Op: "awaitblock"})
		case 7: // the asynchronous close of the step's id is held while the next steps happen
			if id := c.Ops[i].ID; id != "" {
				c.Ops = insertOps(c.Ops, i+1, Op{Op: "awaitpause", ID: id})
				c.Ops = insertOps(c.Ops, i, Op{Op: "pause", ID: id})
				c.Ops = insertOps(c.Ops, i+4+r.Intn(3), Op{Op: "release", ID: id, Sync: "settle"})
			}
		case 8: // drop or add a synchronisation point
			c.Ops[i].Sync = genSync(r)
		case 9: // the socket refuses writes from the k-th on
			c.FailWrite = r.Intn(7)
			c.FailMode = r.Pick([]string{"error", "close"})
		default: // another query / unsubscribe of the same id right after
			if isMessage(c.Ops[i]) {
				c.Ops = insertOps(c.Ops, i+1, Op{Op: r.Pick([]string{"unsubscribe", "subscribe", "mutate"}), ID: c.Ops[i].ID, Q: r.Intn(FirstBadMutQuery), Sync: genSync(r)})
			}
		}
	}
	for k := range c.Ops {
		if o := &c.Ops[k]; o.Op == "subscribe" && o.Vars == nil {
			o.Vars = genVars(r, o.Q)
		}
	}
	return c
}

// GenCacheCase: histories around memoised sub-results - a subscription whose query selects the Expensive field
// `detail` of stable node objects (directly, through named fragments spread in several places, under several
// aliases), while nodes leave the keyed list and come back, their details change while they are listed and while
// they are not, and other fields change.
func GenCacheCase(r *vh.Rng, flavor string) Case {
	c := Case{Max: 3, Origin: "generated-cache"}
	if r.Chance(25) {
		c.DelayMs = []int{8, 15}[r.Intn(2)]
	}
	c.Middlewares = r.Intn(3)
	ids := []int64{1, 2, 3}
	mk := func(present []int64) []Item {
		var out []Item
		for _, id := range present {
			out = append(out, Item{Id: id, Name: fmt.Sprintf("n%d", id), N: id})
		}
		return out
	}
	present := []int64{1, 2}
	if r.Chance(50) {
		present = []int64{2, 1, 3}
	}
	c.Ops = append(c.Ops, Op{Op: "set", Field: "items", Items: mk(present)})
	q := FirstCacheSubQuery + r.Intn(FirstClockSubQuery-FirstCacheSubQuery)
	sid := IDPool[r.Intn(3)]
	c.Ops = append(c.Ops, Op{Op: "subscribe", ID: sid, Q: q, Sync: "settle"})
	val := int64(100)
	setDetail := func(id int64) {
		val++
		c.Ops = append(c.Ops, Op{Op: "set", Field: DetailField(id), Int: val, Sync: "settle"})
	}
	remove := func(id int64) bool {
		for i, x := range present {
			if x == id {
				present = append(append([]int64{}, present[:i]...), present[i+1:]...)
				return true
			}
		}
		return false
	}
	if r.Chance(60) {
		// a node leaves the list, its detail changes meanwhile, it comes back
		x := present[r.Intn(len(present))]
		remove(x)
		c.Ops = append(c.Ops, Op{Op: "set", Field: "items", Items: mk(present), Sync: "settle"})
		setDetail(x)
		if r.Chance(50) {
			present = append(present, x)
		} else {
			present = append([]int64{x}, present...)
		}
		c.Ops = append(c.Ops, Op{Op: "set", Field: "items", Items: mk(present), Sync: "settle"})
	}
	n := 3 + r.Intn(6)
	for i := 0; i < n; i++ {
		switch j := r.Intn(100); {
		case j < 35:
			setDetail(ids[r.Intn(len(ids))])
		case j < 55:
			// leave or join
			x := ids[r.Intn(len(ids))]
			if !remove(x) {
				present = append(present, x)
			}
			c.Ops = append(c.Ops, Op{Op: "set", Field: "items", Items: mk(present), Sync: "settle"})
		case j < 65 && len(present) > 1:
			// reorder
			present[0], present[len(present)-1] = present[len(present)-1], present[0]
			c.Ops = append(c.Ops, Op{Op: "set", Field: "items", Items: mk(present), Sync: "settle"})
		case j < 80:
			c.Ops = append(c.Ops, Op{Op: "set", Field: "a", Int: int64(r.Intn(50)), Sync: "settle"})
		case j < 88:
			c.Ops = append(c.Ops, Op{Op: "set", Field: "s", Str: r.Pick([]string{"p", "q", "r"}), Sync: "settle"})
		case j < 94:
			// a second subscription on the same data
			c.Ops = append(c.Ops, Op{Op: "subscribe", ID: IDPool[3+r.Intn(len(IDPool)-3)], Q: FirstCacheSubQuery + r.Intn(FirstClockSubQuery-FirstCacheSubQuery), Sync: "settle"})
		default:
			c.Ops = append(c.Ops, Op{Op: "unsubscribe", ID: sid, Sync: "settle"}, Op{Op: "subscribe", ID: sid, Q: q, Sync: "settle"})
		}
	}
	if r.Chance(30) {
		c.Spawn = true
	}
	return c
}

// GenBytesCase: a long-lived subscription on the object with the two bytes fields while one of them at a time moves
// between empty, null (the pointer field) and a few bytes.
func GenBytesCase(r *vh.Rng) Case {
	c := Case{Max: 3, Origin: "generated-bytes"}
	cur := &Inner{X: int64(r.Intn(3)), Y: r.Pick([]string{"u", "v"}), B: genBytes(r)}
	if r.Chance(70) {
		b := genBytes(r)
		cur.P = &b
	}
	snap := func() *Inner {
		cp := *cur
		cp.B = append([]byte{}, cur.B...)
		if cur.P != nil {
			b := append([]byte{}, (*cur.P)...)
			cp.P = &b
		}
		return &cp
	}
	c.Ops = append(c.Ops, Op{Op: "set", Field: "obj", Obj: snap()})
	c.Ops = append(c.Ops, Op{Op: "subscribe", ID: IDPool[r.Intn(3)], Q: 14, Sync: "settle"})
	n := 5 + r.Intn(5)
	for i := 0; i < n; i++ {
		switch j := r.Intn(100); {
		case j < 30:
			cur.B = genBytes(r)
		case j < 60:
			if cur.P != nil {
				cur.P = nil
			} else {
				b := genBytes(r)
				cur.P = &b
			}
		case j < 85:
			b := genBytes(r)
			cur.P = &b
		case j < 93:
			cur.X++
		default:
			c.Ops = append(c.Ops, Op{Op: "set", Field: "obj", Obj: nil, Sync: "settle"})
		}
		c.Ops = append(c.Ops, Op{Op: "set", Field: "obj", Obj: snap(), Sync: "settle"})
	}
	return c
}

// GenBurstCase: several subscriptions depend on one field; the field changes, and changes again while the re-runs the
// first change caused are still going on (after the first of them has completed: with the default handler the
// invalidating goroutine runs the re-runs one after the other), then everything settles.
func GenBurstCase(r *vh.Rng) Case {
	c := Case{Max: 3, Origin: "generated-burst"}
	c.DelayMs = []int{8, 15}[r.Intn(2)]
	if r.Chance(25) {
		c.Spawn = true
	}
	field := r.Pick([]string{"a", "s"})
	qs := []int{0, 1, 4, 6, 9}
	if field == "s" {
		qs = []int{1, 5, 6, 11}
	}
	k := 2 + r.Intn(2)
	for i := 0; i < k; i++ {
		c.Ops = append(c.Ops, Op{Op: "subscribe", ID: IDPool[i], Q: qs[r.Intn(len(qs))], Sync: "settle"})
	}
	val := int64(10)
	rounds := 1 + r.Intn(3)
	for j := 0; j < rounds; j++ {
		set := func(sync string) {
			val++
			o := Op{Op: "set", Field: field, Sync: sync}
			if field == "a" {
				o.Int = val
			} else {
				o.Str = fmt.Sprintf("t%d", val)
			}
			c.Ops = append(c.Ops, o)
		}
		set("none")
		// wait until some (not all) of the k re-runs this change causes have completed, then change the field again
		c.Ops = append(c.Ops, Op{Op: "awaitruns", N: 1 + r.Intn(k-1)})
		set("settle")
	}
	return c
}

// GenDeadlineCase: a subscription on the time-dependent field `phase` ("active" until a deadline, "expired" from it
// on; the resolver registers the deadline with reactive.InvalidateAt after some work of its own) while deadlines are
// set that lie far enough ahead, a few milliseconds ahead (closer than the resolver's own work takes), or in the past.
func GenDeadlineCase(r *vh.Rng) Case {
	c := Case{Max: 3, Origin: "generated-deadline"}
	if r.Chance(30) {
		c.Spawn = true
	}
	q := FirstClockSubQuery + r.Intn(2)
	sid := IDPool[r.Intn(3)]
	c.Ops = append(c.Ops, Op{Op: "subscribe", ID: sid, Q: q, Sync: "settle"})
	n := 2 + r.Intn(4)
	for i := 0; i < n; i++ {
		switch j := r.Intn(100); {
		case j < 75:
			ahead := []int{-5, 0, 2, 4, 8, 25, 40}[r.Intn(7)]
			slow := []int{0, 0, 6, 12, 30}[r.Intn(5)]
			c.Ops = append(c.Ops, Op{Op: "deadline", Int: int64(ahead), N: slow, Sync: "settle"})
		case j < 90:
			c.Ops = append(c.Ops, Op{Op: "set", Field: "a", Int: int64(r.Intn(9)), Sync: "settle"})
		default:
			c.Ops = append(c.Ops, Op{Op: "unsubscribe", ID: sid, Sync: "settle"}, Op{Op: "subscribe", ID: sid, Q: q, Sync: "settle"})
		}
	}
	return c
}
