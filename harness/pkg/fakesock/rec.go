package fakesock

import (
	"bytes"
	"context"
	"encoding/json"
	"errors"
	"fmt"
	"reflect"
	"runtime"
	"sort"
	"strconv"
	"strings"
	"sync"
	"time"

	"github.com/gorilla/websocket"
	"github.com/samsarahq/thunder/graphql"
	"github.com/samsarahq/thunder/reactive"
	"github.com/samsarahq/thunder/verifhook"
)

// goid of the calling goroutine (used only to tell the reader goroutine from the others and to
// attach a write to the computation that made it; never compared across runs).
func goid() int64 {
	var buf [64]byte
	n := runtime.Stack(buf[:], false)
	f := bytes.Fields(buf[:n])
	if len(f) < 2 {
		return -1
	}
	id, _ := strconv.ParseInt(string(f[1]), 10, 64)
	return id
}

// Event is one observation, in real order (all appended under Recorder.mu).
type Event struct {
	Kind   string // read | readwait | readerr | write | log | hook | mwstart | mwend | exec | cancel | touch | served | cut
	G      int64
	Reader bool
	// read
	Msg int // index of the fed message
	// write
	Env map[string]interface{}
	Run int // run the write belongs to (-1: reader); for mwstart/mwend/exec the run number
	// log
	Sub bool
	ID  string
	Gen int
	// hook
	Point string
	// mwend
	Initial  bool
	Previous interface{}
	Current  interface{}
	Err      string // "" ok; else sanitized message
	Cancel   bool
	CauseCancel bool // mwend: the cause of the error is context.Canceled (whatever the state of the computation's context)
	IsMut    bool
	// exec / touch
	Field string
	Ver   int
	Late  bool
	T time.Time // when the event was recorded
	// rx: observation points of a rerunner in reactive/rerunner.go (Point: publish | failed | retry | stop | locked)
	Flag bool
	// register / cleanup
	Res int
	// mwend: top-level keys of the result (taken from the value itself: it may not be encodable)
	Keys []string
}

type Recorder struct {
	mu      sync.Mutex
	events  []Event
	changed chan struct{}
	cut     bool

	readerG  int64
	tagGen   map[uintptr]int // tags map pointer -> generation (order of accept)
	nextGen  int
	genID    []string
	genMut   []bool
	nextRun  int
	gRun     map[int64]int // goroutine -> run whose tail may still write
	runGen   map[int]int
	pausedAt map[string]chan struct{} // scripted pauses: point+"|"+id -> release channel
	pauseHit map[string]chan struct{}
	pauseMu  sync.Mutex

	proceedArmed int
	proceedRel   chan struct{}

	// invalidations on their way through the dependency graph of this case (guarded by regMu): a node that was handed
	// to invalidate() / strobe() has a snapshot of dependants, each of which is going to be invalidated in turn
	pend     map[uintptr]int  // node -> invalidate() calls announced (it is in a snapshot) and not yet begun
	pendAll  int              // sum of pend
	marked   map[uintptr]bool // nodes that have been invalidated
	pubNode  map[int]uintptr  // generation -> node of the computation its rerunner published last
}

func NewRecorder() *Recorder {
	return &Recorder{changed: make(chan struct{}), tagGen: map[uintptr]int{}, gRun: map[int64]int{}, runGen: map[int]int{},
		pausedAt: map[string]chan struct{}{}, pauseHit: map[string]chan struct{}{}, readerG: -1,
		pend: map[uintptr]int{}, marked: map[uintptr]bool{}, pubNode: map[int]uintptr{}}
}

func (r *Recorder) addLocked(e Event) {
	e.G = goid()
	e.Reader = e.G == r.readerG
	e.Late = r.cut
	e.T = time.Now()
	r.events = append(r.events, e)
	close(r.changed)
	r.changed = make(chan struct{})
}

func (r *Recorder) add(e Event) {
	r.mu.Lock()
	r.addLocked(e)
	r.mu.Unlock()
}

// Snapshot returns the events so far and a channel closed at the next event.
func (r *Recorder) Snapshot() ([]Event, chan struct{}) {
	r.mu.Lock()
	defer r.mu.Unlock()
	return r.events[:len(r.events):len(r.events)], r.changed
}

func (r *Recorder) Cut() {
	r.mu.Lock()
	r.addLocked(Event{Kind: "cut"})
	r.cut = true
	r.mu.Unlock()
}

func (r *Recorder) exec(tok *RunTok, field string, ver int) {
	r.add(Event{Kind: "exec", Run: tok.N, Gen: tok.Gen, Field: field, Ver: ver})
}

// ---- registry: connection -> recorder (the hook handler is process-wide) ----

var (
	regMu sync.Mutex
	reg   = map[interface{}]*Recorder{}
)

func register(c interface{}, r *Recorder) {
	regMu.Lock()
	reg[c] = r
	regMu.Unlock()
}
func unregister(c interface{}) {
	regMu.Lock()
	r := reg[c]
	delete(reg, c)
	for k, v := range rerunners {
		if v == r {
			delete(rerunners, k)
		}
	}
	for k, v := range accepting {
		if v == r {
			delete(accepting, k)
		}
	}
	for k, v := range rerunnerGen {
		if v.rec == r {
			delete(rerunnerGen, k)
		}
	}
	for k, v := range nodeOwner {
		if v == r {
			delete(nodeOwner, k)
		}
	}
	regMu.Unlock()
}

// ---- invalidations in progress (hooks in reactive/graph.go) ----

var nodeOwner = map[uintptr]*Recorder{} // node of the dependency graph -> case (guarded by regMu)

// ownNode tells that a resource belongs to a case; dependants inherit the owner when an invalidation reaches them.
func ownNode(res *reactive.Resource, r *Recorder) {
	regMu.Lock()
	nodeOwner[reflect.ValueOf(res).Pointer()] = r // the node is the first field of the Resource
	regMu.Unlock()
}

func nodePtr(x interface{}) uintptr {
	v := reflect.ValueOf(x)
	if v.Kind() != reflect.Ptr {
		return 0
	}
	return v.Pointer()
}

// announce: every node of the snapshot [out] is going to get an invalidate() call.
func announce(r *Recorder, out interface{}) {
	v := reflect.ValueOf(out)
	if v.Kind() != reflect.Slice {
		return
	}
	for i := 0; i < v.Len(); i++ {
		p := v.Index(i).Pointer()
		nodeOwner[p] = r
		r.pend[p]++
		r.pendAll++
	}
}

func begun(r *Recorder, n uintptr) {
	if r.pend[n] > 0 {
		r.pend[n]--
		r.pendAll--
		if r.pend[n] == 0 {
			delete(r.pend, n)
		}
	}
}

// graphHook follows strobe / invalidate through the graph. Returns the recorder to wake when nothing is pending any more.
func graphHook(point string, args []interface{}) {
	n := nodePtr(args[0])
	regMu.Lock()
	r := nodeOwner[n]
	if r == nil {
		regMu.Unlock()
		return
	}
	switch point {
	case "reactive.strobe.snapshot":
		if len(args) > 1 {
			announce(r, args[1])
		}
	case "reactive.invalidate.mark":
		begun(r, n)
		r.marked[n] = true
		if len(args) > 1 {
			announce(r, args[1])
		}
	case "reactive.invalidate.noop":
		begun(r, n)
	}
	idle := r.pendAll == 0
	regMu.Unlock()
	if idle {
		r.add(Event{Kind: "inv-done"})
	}
}

// InvalidationsPending: an invalidation is still on its way through the graph of this case, or the computation a
// live generation of gens published last has been invalidated (its re-run is due).
func (r *Recorder) InvalidationsPending(gens []int) (bool, string) {
	regMu.Lock()
	defer regMu.Unlock()
	if r.pendAll > 0 {
		return true, fmt.Sprintf("%d invalidate() calls are announced and have not begun", r.pendAll)
	}
	for _, g := range gens {
		if p, ok := r.pubNode[g]; ok && r.marked[p] {
			return true, fmt.Sprintf("the computation generation %d published last is invalidated: a re-run is due", g)
		}
	}
	return false, ""
}

func init() {
	verifhook.Set(func(point string, args ...interface{}) {
		if len(args) == 0 {
			return
		}
		switch point {
		case "reactive.rerunner.new":
			// called inside reactive.NewRerunner, i.e. on the goroutine that has just passed the accept point of
			// handleSubscribe / handleMutate of some connection: the rerunner belongs to that connection's case
			regMu.Lock()
			r := accepting[goid()]
			if r != nil {
				rerunners[args[0]] = r
			}
			regMu.Unlock()
			if r != nil {
				// handleSubscribe / handleMutate hold conn.mu from the accept point to here: the rerunner is the one of
				// the generation accepted last on this connection
				r.mu.Lock()
				g := r.nextGen - 1
				r.mu.Unlock()
				regMu.Lock()
				rerunnerGen[args[0]] = genOf{r, g}
				regMu.Unlock()
			}
			return
		case "reactive.strobe.snapshot", "reactive.invalidate.mark", "reactive.invalidate.noop":
			graphHook(point, args)
			return
		case "reactive.run.publish", "reactive.run.failed", "reactive.run.retry", "reactive.stop.mark", "reactive.run.locked":
			// the interface of a rerunner, as the reactive package itself reports it (Server/Iface.v)
			regMu.Lock()
			g, ok := rerunnerGen[args[0]]
			regMu.Unlock()
			if ok && point == "reactive.run.publish" && len(args) > 2 {
				if p := nodePtr(args[2]); p != 0 {
					regMu.Lock()
					nodeOwner[p] = g.rec
					g.rec.pubNode[g.gen] = p
					regMu.Unlock()
				}
			}
			if ok {
				flag := false
				if len(args) > 1 {
					flag, _ = args[1].(bool)
				}
				g.rec.add(Event{Kind: "rx", Point: strings.TrimPrefix(strings.TrimPrefix(point, "reactive.run."), "reactive.stop."), Gen: g.gen, Flag: flag})
			}
			return
		case "reactive.run.proceed":
			// a re-run has finished waiting and is about to take the rerunner's lock
			regMu.Lock()
			r := rerunners[args[0]]
			regMu.Unlock()
			if r != nil {
				r.proceed()
			}
			return
		}
		if !strings.HasPrefix(point, "conn.") {
			return // observation points of other properties
		}
		regMu.Lock()
		r := reg[args[0]]
		if r != nil && (point == "conn.handleSubscribe.accept" || point == "conn.handleMutate.accept") {
			accepting[goid()] = r
		}
		regMu.Unlock()
		if r == nil {
			return
		}
		r.hook(point, args[1:])
	})
}

type genOf struct {
	rec *Recorder
	gen int
}

var (
	accepting   = map[int64]*Recorder{}       // goroutine -> case whose connection is accepting a subscription on it
	rerunners   = map[interface{}]*Recorder{} // *reactive.Rerunner -> case
	rerunnerGen = map[interface{}]genOf{}     // *reactive.Rerunner -> generation (rerunner number of Server/Model.v)
)

// ArmProceed makes the next n re-runs of this case wait at reactive.run.proceed (after the context check,
// before the rerunner's lock) until ReleaseProceed, at most 600 ms.
func (r *Recorder) ArmProceed(n int) {
	r.pauseMu.Lock()
	r.proceedArmed = n
	r.proceedRel = make(chan struct{})
	r.pauseMu.Unlock()
}

func (r *Recorder) ReleaseProceed() {
	r.pauseMu.Lock()
	if r.proceedRel != nil {
		close(r.proceedRel)
		r.proceedRel = nil
	}
	r.proceedArmed = 0
	r.pauseMu.Unlock()
}

func (r *Recorder) proceed() {
	r.pauseMu.Lock()
	var rel chan struct{}
	if r.proceedArmed > 0 {
		r.proceedArmed--
		rel = r.proceedRel
	}
	r.pauseMu.Unlock()
	if rel == nil {
		return
	}
	r.add(Event{Kind: "blocked", Field: "run.proceed"})
	select {
	case <-rel:
	case <-time.After(600 * time.Millisecond):
	}
}

func (r *Recorder) hook(point string, args []interface{}) {
	id := ""
	if len(args) > 0 {
		id, _ = args[0].(string)
	}
	gen := -1
	r.mu.Lock()
	if len(args) > 1 {
		if tags, ok := args[1].(map[string]string); ok {
			p := reflect.ValueOf(tags).Pointer()
			if point == "conn.handleSubscribe.accept" || point == "conn.handleMutate.accept" {
				r.tagGen[p] = r.nextGen
				r.nextGen++
				r.genID = append(r.genID, id)
				r.genMut = append(r.genMut, point == "conn.handleMutate.accept")
			}
			if g, ok := r.tagGen[p]; ok {
				gen = g
			}
		}
	}
	r.addLocked(Event{Kind: "hook", Point: point, ID: id, Gen: gen})
	isReader := goid() == r.readerG
	r.mu.Unlock()
	// scripted pause (asynchronous closes only)
	if point == "conn.closeSubscription.enter" && !isReader {
		key := point + "|" + id
		r.pauseMu.Lock()
		rel := r.pausedAt[key]
		hit := r.pauseHit[key]
		if rel != nil {
			delete(r.pausedAt, key)
			delete(r.pauseHit, key)
		}
		r.pauseMu.Unlock()
		if rel != nil {
			close(hit)
			select {
			case <-rel:
			case <-time.After(20 * time.Second):
			}
		}
	}
}

// PauseAsyncClose makes the next asynchronous closeSubscription(id) wait before taking conn.mu.
// hit is closed when it got there; closing release lets it continue.
func (r *Recorder) PauseAsyncClose(id string) (hit chan struct{}, release chan struct{}) {
	hit, release = make(chan struct{}), make(chan struct{})
	key := "conn.closeSubscription.enter|" + id
	r.pauseMu.Lock()
	r.pausedAt[key] = release
	r.pauseHit[key] = hit
	r.pauseMu.Unlock()
	return
}

// ---- fake socket ----

type Sock struct {
	rec    *Recorder
	in     chan []byte
	closed chan struct{}
	once   sync.Once
	fed    int

	// the FailWrite-th WriteJSON and all later ones fail (0: never); FailMode "close": with a
	// websocket.CloseError (the peer is gone; writeOrClose leaves the socket alone), else with a plain
	// error (writeOrClose closes the socket)
	FailWrite int
	FailMode  string
	writes    int
}

func NewSock(rec *Recorder) *Sock {
	return &Sock{rec: rec, in: make(chan []byte, 256), closed: make(chan struct{})}
}

func (s *Sock) Feed(raw []byte) { s.in <- raw }

func (s *Sock) ReadJSON(v interface{}) error {
	s.rec.mu.Lock()
	s.rec.readerG = goid()
	s.rec.addLocked(Event{Kind: "readwait"})
	s.rec.mu.Unlock()
	select {
	case <-s.closed: // a closed socket delivers nothing, whatever is queued
		s.rec.add(Event{Kind: "readerr", ID: "close"})
		return &websocket.CloseError{Code: websocket.CloseNormalClosure}
	default:
	}
	select {
	case raw := <-s.in:
		return s.deliver(raw, v)
	default:
	}
	select {
	case raw := <-s.in:
		return s.deliver(raw, v)
	case <-s.closed:
		s.rec.add(Event{Kind: "readerr", ID: "close"})
		return &websocket.CloseError{Code: websocket.CloseNormalClosure}
	}
}

func (s *Sock) deliver(raw []byte, v interface{}) error {
	if err := json.Unmarshal(raw, v); err != nil {
		s.rec.add(Event{Kind: "readerr", ID: "malformed"})
		return err
	}
	s.rec.mu.Lock()
	s.rec.addLocked(Event{Kind: "read", Msg: s.fed})
	s.fed++
	s.rec.mu.Unlock()
	return nil
}

// WriteJSON does what gorilla's does: encode, then write. An encoding error (a NaN, a channel ...) is
// returned to the caller and nothing is written; a closed socket refuses the write.
func (s *Sock) WriteJSON(v interface{}) error {
	b, encErr := json.Marshal(v)
	var env map[string]interface{}
	if encErr == nil {
		json.Unmarshal(b, &env)
	} else {
		env = map[string]interface{}{"marshal_error": encErr.Error()}
	}
	g := goid()
	s.rec.mu.Lock()
	run := -1
	if n, ok := s.rec.gRun[g]; ok && g != s.rec.readerG {
		run = n
		delete(s.rec.gRun, g)
	}
	s.writes++
	isClosed := false
	select {
	case <-s.closed:
		isClosed = true
	default:
	}
	switch {
	case encErr != nil:
		s.rec.addLocked(Event{Kind: "writefail", Env: env, Run: run, ID: "encode"})
		s.rec.mu.Unlock()
		return encErr
	case isClosed:
		s.rec.addLocked(Event{Kind: "writefail", Env: env, Run: run, ID: "closed"})
		s.rec.mu.Unlock()
		return errors.New("write: use of closed connection")
	case s.FailWrite > 0 && s.writes >= s.FailWrite:
		s.rec.addLocked(Event{Kind: "writefail", Env: env, Run: run, ID: s.FailMode})
		s.rec.mu.Unlock()
		if s.FailMode == "close" {
			s.Close() // the peer has gone away: reads fail from now on
			return &websocket.CloseError{Code: websocket.CloseGoingAway}
		}
		return errors.New("write: broken pipe")
	}
	s.rec.addLocked(Event{Kind: "write", Env: env, Run: run})
	s.rec.mu.Unlock()
	return nil
}

func (s *Sock) Close() error {
	s.once.Do(func() {
		close(s.closed)
		s.rec.add(Event{Kind: "sockclose"})
	})
	return nil
}

// ---- loggers, context, middleware ----

type subLogger struct{ rec *Recorder }

func (l subLogger) Subscribe(ctx context.Context, id string, tags map[string]string) {
	r := l.rec
	r.mu.Lock()
	gen := -1
	if g, ok := r.tagGen[reflect.ValueOf(tags).Pointer()]; ok {
		gen = g
	}
	r.addLocked(Event{Kind: "log", Sub: true, ID: id, Gen: gen})
	r.mu.Unlock()
}
func (l subLogger) Unsubscribe(ctx context.Context, id string) {
	l.rec.add(Event{Kind: "log", Sub: false, ID: id, Gen: -1})
}

type execLogger struct{ rec *Recorder }

func (l execLogger) StartExecution(ctx context.Context, tags map[string]string, initial bool) {
	tok, _ := ctx.Value(runKey{}).(*RunTok)
	if tok == nil {
		return
	}
	r := l.rec
	r.mu.Lock()
	if g, ok := r.tagGen[reflect.ValueOf(tags).Pointer()]; ok {
		tok.Gen = g
		r.runGen[tok.N] = g
	}
	r.addLocked(Event{Kind: "mwstart", Run: tok.N, Gen: tok.Gen, ID: tags["id"], Initial: initial})
	r.mu.Unlock()
}
func (l execLogger) FinishExecution(ctx context.Context, tags map[string]string, delay time.Duration) {
}
func (l execLogger) Error(ctx context.Context, err error, tags map[string]string) {}

func (r *Recorder) makeCtx(w *World) graphql.MakeCtxFunc {
	return func(ctx context.Context) context.Context {
		r.mu.Lock()
		n := r.nextRun
		r.nextRun++
		r.mu.Unlock()
		ctx = context.WithValue(ctx, worldKey{}, w)
		return context.WithValue(ctx, runKey{}, &RunTok{N: n, Gen: -1, Deps: map[string]int{}})
	}
}

func roundTrip(v interface{}) interface{} {
	b, err := json.Marshal(v)
	if err != nil {
		return map[string]interface{}{"marshal_error": err.Error()}
	}
	var out interface{}
	json.Unmarshal(b, &out)
	return out
}

// middleware observes what every computation was given and what it produced.
func (r *Recorder) middleware(input *graphql.ComputationInput, next graphql.MiddlewareNextFunc) *graphql.ComputationOutput {
	out := next(input)
	tok, _ := input.Ctx.Value(runKey{}).(*RunTok)
	if tok == nil {
		return out
	}
	e := Event{Kind: "mwend", Run: tok.N, Gen: tok.Gen, ID: input.Id, Initial: input.IsInitialComputation,
		IsMut: input.ParsedQuery != nil && input.ParsedQuery.Kind == "mutation"}
	if out.Error != nil {
		e.Err = graphql.SanitizeError(out.Error)
		// the silent path of server.go: the cause is context.Canceled and the computation's own context is cancelled
		// (the connection looks at the context a moment later than this observer: if the context is alive here, which
		// path the connection took is read off what it did next, see analyze)
		e.CauseCancel = graphql.ErrorCause(out.Error) == context.Canceled
		e.Cancel = e.CauseCancel && input.Ctx.Err() != nil
	} else {
		e.Current = roundTrip(out.Current)
		if m, ok := out.Current.(map[string]interface{}); ok {
			for k := range m {
				e.Keys = append(e.Keys, k)
			}
			sort.Strings(e.Keys)
		}
	}
	e.Previous = roundTrip(input.Previous)
	if out.Metadata != nil {
		// travels to the client in the envelope's metadata (server.go: Metadata: output.Metadata)
		out.Metadata["vrun"] = tok.N
		out.Metadata["vgen"] = tok.Gen
	}
	r.mu.Lock()
	r.gRun[goid()] = tok.N
	r.addLocked(e)
	r.mu.Unlock()
	return out
}
