package fakesock

import (
	"fmt"
	"strings"

	"verifharness/pkg/vh"
)

// Trace is the observed history of one case in the vocabulary of Server/Model.v.
type Trace struct {
	Labels   []string // Coq terms (label, option json)
	Toks     []string // query token per label (Server/Queries.v)
	Inits    []string // per label: for a run completion, `initial` as StartExecution and the middlewares were told
	Names    []string // short names, for histograms and replay files
	Out      []string // mk_obs terms
	Log      []string // LgSub / LgUnsub terms
	Streams  map[int][]interface{}
	Released []string // resources whose Cleanup ran, once per call
	Rx       map[int][]string // generation -> what reactive/rerunner.go reported for its rerunner (Server/Iface.v terms)
	Gens     int              // generations accepted
}

func coqStr(s string) string { return vh.CoqString(s) }

func qresTerm(o Op) string {
	if o.Op == "badmsg" {
		return "QBadMsg"
	}
	var text string
	if o.Op == "mutate" {
		text = MutQueries[o.Q%len(MutQueries)]
	} else {
		text = SubQueries[o.Q%len(SubQueries)]
	}
	ok, msg := QueryVerdict(text, o.Op == "mutate", o.Vars)
	if ok {
		return "QOk"
	}
	return "(QBadQuery " + coqStr(msg) + ")"
}

func msgLabel(o Op) (term, name string) {
	id := IDIndex(o.ID)
	switch o.Op {
	case "subscribe":
		return fmt.Sprintf("LSubscribe %d %s", id, qresTerm(o)), "subscribe"
	case "mutate":
		return fmt.Sprintf("LMutate %d %s", id, qresTerm(o)), "mutate"
	case "badmsg":
		if o.Mode == "mut" {
			return fmt.Sprintf("LMutate %d QBadMsg", id), "mutate-badmsg"
		}
		return fmt.Sprintf("LSubscribe %d QBadMsg", id), "subscribe-badmsg"
	case "unsubscribe":
		return fmt.Sprintf("LUnsubscribe %d", id), "unsubscribe"
	case "echo":
		return fmt.Sprintf("LEcho %d", id), "echo"
	case "url":
		return fmt.Sprintf("LUrl %d %s", id, vh.CoqBool(o.Mode != "bad")), "url"
	case "unknown":
		return fmt.Sprintf("LUnknown %d", id), "unknown"
	}
	return "LCtxCancel", "?"
}

// closeTask describes one asynchronous closeSubscription that ran to its end.
type closeTask struct {
	DoneIdx   int
	ID        string
	TaskGen   int  // generation whose computation spawned it (-1 unknown)
	ClosedGen int  // generation it stopped and logged Unsubscribe for (-1: it found nothing to close)
	Stale     bool // it closed a generation although no pending close had been spawned by that generation
}

// closeTasks matches every finished asynchronous close with one of the pending spawns of the same id.
// The goroutine itself only knows the id; the spawn is chosen so that the history is explained if it can
// be: a close that stopped generation g is matched with a spawn by g when there is one.
func closeTasks(evs []Event) []closeTask {
	type task struct {
		id  string
		gen int
	}
	var pending []task
	cur := map[string]int{}
	locked := map[int64]bool{}
	closed := map[int64]int{}
	var out []closeTask
	for i, e := range evs {
		switch e.Kind {
		case "log":
			if !e.Sub {
				if locked[e.G] {
					if g, ok := cur[e.ID]; ok {
						closed[e.G] = g
					}
				}
				delete(cur, e.ID)
			}
		case "hook":
			switch e.Point {
			case "conn.handleSubscribe.accept", "conn.handleMutate.accept":
				cur[e.ID] = e.Gen
			case "conn.closeSubscriptions.done":
				cur = map[string]int{}
			case "conn.spawnClose":
				pending = append(pending, task{e.ID, e.Gen})
			case "conn.closeSubscription.locked":
				if !e.Reader {
					locked[e.G] = true
					closed[e.G] = -1
				}
			case "conn.closeSubscription.done":
				if e.Reader {
					break
				}
				ct := closeTask{DoneIdx: i, ID: e.ID, TaskGen: -1, ClosedGen: -1}
				if locked[e.G] {
					ct.ClosedGen = closed[e.G]
				}
				delete(locked, e.G)
				pick := -1
				for k, tk := range pending {
					if tk.id != e.ID {
						continue
					}
					if ct.ClosedGen >= 0 && tk.gen == ct.ClosedGen {
						pick = k
						break
					}
					if ct.ClosedGen < 0 {
						if g, ok := cur[e.ID]; !ok || g != tk.gen {
							pick = k
							break
						}
					}
				}
				if pick < 0 {
					for k, tk := range pending {
						if tk.id == e.ID {
							pick = k
							break
						}
					}
					ct.Stale = ct.ClosedGen >= 0
				}
				if pick >= 0 {
					ct.TaskGen = pending[pick].gen
					pending = append(pending[:pick:pick], pending[pick+1:]...)
				}
				out = append(out, ct)
			}
		}
	}
	return out
}

// metaInt reads an integer out of the metadata of a written envelope.
func metaInt(env map[string]interface{}, key string) (int, bool) {
	m, _ := env["metadata"].(map[string]interface{})
	f, ok := m[key].(float64)
	return int(f), ok
}

var typeCode = map[string]int{"update": 0, "result": 1, "error": 2, "echo": 3}

// BuildTrace turns the event log into the label sequence and the observations the model must predict.
func BuildTrace(res *Result) *Trace {
	t := &Trace{Streams: map[int][]interface{}{}, Rx: map[int][]string{}}
	v := analyze(res.Events)
	t.Gens = len(v.gens)
	tokOf := map[string]int{}
	token := func(key string) int {
		if n, ok := tokOf[key]; ok {
			return n
		}
		tokOf[key] = len(tokOf) + 1
		return len(tokOf)
	}
	nextTok := 0 // token of the next label emitted
	nextInit := "None"
	emit := func(term, name string, prev string) {
		if prev == "" {
			prev = "None"
		}
		t.Labels = append(t.Labels, "("+term+", "+prev+")")
		t.Toks = append(t.Toks, fmt.Sprint(nextTok))
		nextTok = 0
		t.Inits = append(t.Inits, nextInit)
		nextInit = "None"
		t.Names = append(t.Names, name)
	}
	// the (query text, variables) a message asks for / a computation executed
	opKey := func(o Op) string {
		if o.Op == "mutate" {
			return "M|" + MutQueries[o.Q%len(MutQueries)]
		}
		return SubQueries[o.Q%len(SubQueries)] + "|" + js(o.Vars)
	}
	runArg := map[int]int{}
	for _, e := range res.Events {
		if e.Kind == "arg" {
			runArg[e.Run] = e.Ver
		}
	}
	runKeyOf := func(r *runInfo) string {
		if r.Gen < 0 || r.Gen >= len(v.gens) {
			return "?"
		}
		g := v.gens[r.Gen]
		if g.Msg < 0 || g.Msg >= len(res.Fed) {
			return "?"
		}
		o := res.Fed[g.Msg]
		if name := QueryVar(o.Q); name != "" && o.Op == "subscribe" {
			if a, ok := runArg[r.N]; ok {
				return SubQueries[o.Q%len(SubQueries)] + "|" + js(map[string]interface{}{name: float64(a)})
			}
		}
		return opKey(o)
	}
	var cur *Op
	done := true
	broken := false
	lastReadErr := ""
	cts := map[int]closeTask{}
	for _, ct := range closeTasks(res.Events) {
		cts[ct.DoneIdx] = ct
	}
	emitMsg := func() {
		if cur != nil && !done {
			term, name := msgLabel(*cur)
			if cur.Op == "subscribe" || cur.Op == "mutate" {
				nextTok = token(opKey(*cur))
			}
			emit(term, name, "")
			done = true
		}
	}
	emitRun := func(r *runInfo) {
		e := r.End
		var o string
		switch {
		case e.Err == "":
			o = "(OOk " + vh.CoqJSON(e.Current) + ")"
		case e.Cancel:
			o = "OCancelled"
		default:
			o = "(OErr " + coqStr(e.Err) + ")"
		}
		name := "run-ok"
		if e.Err != "" {
			name = "run-error"
			if e.Cancel {
				name = "run-cancelled"
			} else if !e.Initial && !e.IsMut {
				name = "run-retry"
			}
		} else if e.IsMut {
			name = "run-mutation"
		} else if !r.Written {
			name = "run-nochange"
		}
		gen := r.Gen
		if gen < 0 {
			gen = 999
		}
		nextTok = token(runKeyOf(r))
		nextInit = fmt.Sprintf("(Some (%s, %s))", vh.CoqBool(r.StartInitial), vh.CoqBool(e.Initial))
		emit(fmt.Sprintf("LRun %d %s", gen, o), name, "(Some "+vh.CoqJSON(e.Previous)+")")
	}
	for evIdx, e := range res.Events {
		switch e.Kind {
		case "read":
			emitMsg()
			if e.Msg >= 0 && e.Msg < len(res.Fed) {
				o := res.Fed[e.Msg]
				cur, done = &o, false
			}
		case "readwait":
			emitMsg()
		case "readerr":
			emitMsg()
			lastReadErr = e.ID
		case "cancel":
			emit("LCtxCancel", "ctx-cancel", "")
		case "hook":
			switch e.Point {
			case "conn.handleSubscribe.locked", "conn.handleMutate.locked":
				if e.Reader {
					emitMsg()
				}
			case "conn.closeSubscription.done":
				if e.Reader {
					emitMsg()
				} else {
					gen := cts[evIdx].TaskGen
					if gen < 0 {
						gen = 999
					}
					emit(fmt.Sprintf("LCloseTask %d %d", IDIndex(e.ID), gen), "close-task", "")
				}
			case "conn.closeSubscriptions.done":
				if lastReadErr == "malformed" {
					emit("LMalformed", "malformed", "")
				} else {
					emit("LSocketClose", "socket-close", "")
				}
			}
		case "mwend":
			if r := v.runs[e.Run]; r != nil && !r.Written {
				emitRun(r)
			}
		case "register":
			gen := e.Gen
			if gen < 0 {
				gen = 999
			}
			emit(fmt.Sprintf("LRegister %d %d", gen, e.Res), "register", "")
		case "cleanup":
			t.Released = append(t.Released, fmt.Sprint(e.Res))
		case "rx":
			if e.Gen < 0 {
				break
			}
			switch e.Point {
			case "publish":
				t.Rx[e.Gen] = append(t.Rx[e.Gen], "XPub "+vh.CoqBool(e.Flag))
			case "failed":
				t.Rx[e.Gen] = append(t.Rx[e.Gen], "XFail")
			case "retry":
				t.Rx[e.Gen] = append(t.Rx[e.Gen], "XRetry")
			case "mark":
				t.Rx[e.Gen] = append(t.Rx[e.Gen], "XStop "+vh.CoqBool(e.Flag))
			}
		case "writefail":
			// the socket refuses the envelope: same label as a write, the model (after LBreak) loses it too
			if !broken {
				broken = true
				emit("LBreak", "write-fails", "")
			}
			if e.Run >= 0 {
				if r := v.runs[e.Run]; r != nil {
					emitRun(r)
				}
			} else {
				emitMsg()
				if typ, _ := e.Env["type"].(string); typ != "echo" {
					emit("LFlush", "reply", "")
				}
			}
		case "write":
			id, _ := e.Env["id"].(string)
			typ, _ := e.Env["type"].(string)
			src := "None"
			if e.Run >= 0 {
				if r := v.runs[e.Run]; r != nil {
					emitRun(r)
					if r.Gen >= 0 {
						// the rerunner an envelope comes from is read off the envelope: the metadata the computation's
						// middlewares attached (outEnvelope.Metadata = output.Metadata)
						if g, ok := metaInt(e.Env, "vgen"); ok && g >= 0 {
							src = fmt.Sprintf("(Some %d)", g)
						}
						if typ == "update" {
							t.Streams[r.Gen] = append(t.Streams[r.Gen], e.Env["message"])
						}
					}
				}
			} else {
				emitMsg()
				if typ != "echo" {
					emit("LFlush", "reply", "")
				}
			}
			code, ok := typeCode[typ]
			if !ok {
				code = 9
			}
			t.Out = append(t.Out, fmt.Sprintf("mk_obs %d %d %s %s", IDIndex(id), code, vh.CoqJSON(e.Env["message"]), src))
		case "log":
			if e.Sub {
				t.Log = append(t.Log, fmt.Sprintf("LgSub %d", IDIndex(e.ID)))
			} else {
				t.Log = append(t.Log, fmt.Sprintf("LgUnsub %d", IDIndex(e.ID)))
			}
		}
	}
	return t
}

// CaseTerm prints the Coq case. clients: generation -> final state of the merge.ts client (nil = skip).
func (t *Trace) CaseTerm(max int, clients map[int]interface{}, gens []int) string {
	var cl []string
	for _, g := range gens {
		if st, ok := clients[g]; ok {
			cl = append(cl, fmt.Sprintf("(%d, %s)", g, vh.CoqJSON(st)))
		}
	}
	ids := []string{}
	for i := range IDPool {
		ids = append(ids, fmt.Sprint(i))
	}
	ids = append(ids, "99")
	var rx []string
	for g := 0; g < t.Gens; g++ {
		rx = append(rx, fmt.Sprintf("(%d, %s)", g, vh.CoqList(t.Rx[g])))
	}
	return fmt.Sprintf("mk_case (repaired %d)\n  %s\n  %s\n  %s\n  %s\n  %s\n  %s\n  %s\n  []\n  %s\n  %s",
		max, vh.CoqList(t.Labels), vh.CoqList(t.Inits), vh.CoqList(t.Toks), vh.CoqList(t.Out), vh.CoqList(t.Log), vh.CoqList(ids), vh.CoqList(cl), vh.CoqList(t.Released), vh.CoqList(rx))
}

func (t *Trace) Summary() string { return strings.Join(t.Names, " ") }
