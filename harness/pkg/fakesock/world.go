// Package fakesock is the shared harness of C17 (connection lifecycle) and C02 (live convergence):
// a fake graphql.JSONSocket, a schema whose resolvers read harness-controlled reactive data, a driver
// that plays a case (messages + data changes + failures + cancellation + socket close) against
// graphql.CreateConnection / ServeJSONSocket, the oracles of both properties evaluated on what the
// implementation did, and the printer of the observed history as a Coq term for Server/Model.v.
package fakesock

import (
	"context"
	"errors"
	"fmt"
	"strings"
	"sync"
	"time"

	"github.com/samsarahq/thunder/graphql"
	"github.com/samsarahq/thunder/graphql/schemabuilder"
	"github.com/samsarahq/thunder/reactive"
)

// ---- data the resolvers read ----

type Item struct {
	Id   int64 `graphql:",key"`
	Name string
	N    int64
}

// Node is the stable handle of an item (one pointer per id for the whole case): the source object of an Expensive
// field has to be the same object from run to run for the executor's reactive cache to find its entry again.
type Node struct {
	Id int64 `graphql:",key"`
}

// Detail is what the Expensive field `detail` of a Node resolves to; every node's detail has a reactive resource of
// its own ("detail:<id>").
type Detail struct {
	D int64
	E string
}

type Inner struct {
	X int64
	Y string
	B []byte  // never nil (empty or not): diff.Diff treats nil and empty alike, JSON does not
	P *[]byte // nil, empty or not
}

// Fields of the query root. Every field has its own reactive resource, version and failure budget.
var Fields = []string{"a", "s", "flag", "obj", "items", "tick", "f"}

type failSpec struct {
	N    int    // number of executions that still fail
	Mode string // plain | safe | panic
}

// World is the server-side data of one case.
type World struct {
	mu    sync.Mutex
	A     int64
	S     string
	Flag  bool
	Obj   *Inner
	Items []Item
	Deadline time.Time // the moment the time-dependent field `phase` flips from "active" to "expired" (zero: no deadline)
	SlowMs   int       // work the phase resolver does between reading the clock and registering the deadline
	Details map[int64]Detail
	nodes   map[int64]*Node
	Tick  int64
	F     float64 // integral, or NaN / +-Inf (which encoding/json refuses)
	ver   map[string]int
	res   map[string]*reactive.Resource
	fail  map[string]*failSpec
	rec   *Recorder

	mwArmed   int           // number of runs the holding middleware will still hold
	mwRelease chan struct{} // closed by the script to let held runs continue

	tickBudget  int // number of short (3 ms) timers the tick resolver may still arm
	shortTimers int // short timers armed and neither fired nor stopped
	nextRes     int
}

func NewWorld(rec *Recorder) *World {
	w := &World{ver: map[string]int{}, res: map[string]*reactive.Resource{}, fail: map[string]*failSpec{}, rec: rec}
	w.S = "x"
	w.Details = map[int64]Detail{}
	w.nodes = map[int64]*Node{}
	return w
}

// node returns the stable handle of an item (w.mu held).
func (w *World) node(id int64) *Node {
	n := w.nodes[id]
	if n == nil {
		n = &Node{Id: id}
		w.nodes[id] = n
	}
	return n
}

func (w *World) detail(id int64) Detail {
	if d, ok := w.Details[id]; ok {
		return d
	}
	return Detail{D: 10 * id, E: fmt.Sprintf("e%d", id)}
}

// DetailField names the reactive resource / version counter of a node's detail.
func DetailField(id int64) string { return fmt.Sprintf("detail:%d", id) }

// readCached is read for a resolver whose result the executor memoises (reactive.Cache): dependency first, then the
// version stamp; no resource of the computation's own (a cached sub-computation outlives the run that made it).
func (w *World) readCached(ctx context.Context, field string) {
	reactive.AddDependency(ctx, w.currentRes(field), nil)
	if tok, _ := ctx.Value(runKey{}).(*RunTok); tok != nil {
		w.mu.Lock()
		v := w.ver[field]
		w.mu.Unlock()
		w.rec.exec(tok, field, v)
	}
}

// fieldRes returns the live resource of a field (w.mu held). A reactive.Resource is released - and
// invalidated for good - when its last dependant goes away; handing a released one to a later
// computation would invalidate that computation at once, again and again. So a released field resource is
// dropped (its own Cleanup does that) and the next reader gets a fresh one.
func (w *World) fieldRes(field string) *reactive.Resource {
	if r := w.res[field]; r != nil {
		return r
	}
	r := reactive.NewResource()
	ownNode(r, w.rec)
	r.Cleanup(func() {
		w.mu.Lock()
		if w.res[field] == r {
			delete(w.res, field)
		}
		w.mu.Unlock()
	})
	w.res[field] = r
	return r
}

type worldKey struct{}
type runKey struct{}

// RunTok identifies one computation of one rerunner (installed by MakeCtx).
type RunTok struct {
	N    int
	Gen  int // rerunner generation, set by StartExecution; -1 unknown
	Deps map[string]int
}

func worldOf(ctx context.Context) *World {
	w, _ := ctx.Value(worldKey{}).(*World)
	return w
}

// read is called by every resolver: dependency first, then the value (the order the property presupposes).
func (w *World) read(ctx context.Context, field string) error {
	reactive.AddDependency(ctx, w.currentRes(field), nil)
	tok, _ := ctx.Value(runKey{}).(*RunTok)
	if tok != nil {
		w.register(ctx, tok, 0)
	}
	w.mu.Lock()
	v := w.ver[field]
	var fs failSpec
	if f := w.fail[field]; f != nil && f.N > 0 && tok != nil {
		f.N--
		fs = *f
		fs.N = 1
	}
	w.mu.Unlock()
	if tok != nil {
		w.rec.exec(tok, field, v)
	}
	if fs.N > 0 {
		switch fs.Mode {
		case "block":
			// an in-flight computation: holds until its context is cancelled (Stop, connection context)
			w.rec.add(Event{Kind: "blocked", Field: field})
			select {
			case <-ctx.Done():
				return ctx.Err()
			case <-time.After(600 * time.Millisecond):
				return errors.New("blocked resolver gave up in " + field)
			}
		case "hold":
			// an in-flight computation that ignores cancellation: it is held until its context is cancelled
			// (or 600 ms), then carries on and returns its value
			w.rec.add(Event{Kind: "blocked", Field: field})
			select {
			case <-ctx.Done():
			case <-time.After(600 * time.Millisecond):
			}
			return nil
		case "cancelown":
			// the error of a cancelled call of the resolver's own (a downstream request with a context of its own),
			// while the computation's context is alive: a failing resolver like any other
			return context.Canceled
		case "safe":
			return graphql.NewSafeError("safe failure in %s", field)
		case "panic":
			panic("resolver panic in " + field)
		default:
			return errors.New("plain failure in " + field)
		}
	}
	return nil
}

// register gives the computation a resource of its own with a Cleanup callback (what livesql and
// reactive.InvalidateAfter do); with d > 0 the resource is a timer that changes the tick and invalidates.
func (w *World) register(ctx context.Context, tok *RunTok, d time.Duration) {
	res := reactive.NewResource()
	ownNode(res, w.rec)
	w.mu.Lock()
	n := w.nextRes
	w.nextRes++
	short := d > 0 && d < time.Minute
	if short {
		w.shortTimers++
	}
	w.mu.Unlock()
	var timer *time.Timer
	done := false // guarded by w.mu: the short timer has been accounted for
	settle := func() {
		w.mu.Lock()
		if short && !done {
			done = true
			w.shortTimers--
		}
		w.mu.Unlock()
	}
	if d > 0 {
		timer = time.AfterFunc(d, func() {
			w.mu.Lock()
			w.Tick++
			w.mu.Unlock()
			w.rec.add(Event{Kind: "touch", Field: "tick"})
			w.Touch("tick", false)
			res.Invalidate()
			settle()
		})
	}
	w.rec.add(Event{Kind: "register", Run: tok.N, Gen: tok.Gen, Res: n})
	res.Cleanup(func() {
		if timer != nil && timer.Stop() {
			settle()
		}
		w.rec.add(Event{Kind: "cleanup", Res: n})
	})
	reactive.AddDependency(ctx, res, nil)
}

// ShortTimers is the number of 3 ms timers that are armed: data is about to change by itself.
func (w *World) ShortTimers() int {
	w.mu.Lock()
	defer w.mu.Unlock()
	return w.shortTimers
}

func (w *World) ArmTicks(n int) {
	w.mu.Lock()
	w.tickBudget = n
	w.mu.Unlock()
}

// Versions is a snapshot of all field versions.
func (w *World) Versions() map[string]int {
	w.mu.Lock()
	defer w.mu.Unlock()
	m := map[string]int{}
	for k, v := range w.ver {
		m[k] = v
	}
	m["phase@clock"] = w.phaseAt(time.Now())
	return m
}

func (w *World) currentRes(field string) *reactive.Resource {
	w.mu.Lock()
	defer w.mu.Unlock()
	return w.fieldRes(field)
}

// Touch bumps the version of a field and invalidates its dependants (strobe, or permanent
// invalidation followed by a fresh resource).
func (w *World) Touch(field string, permanent bool) {
	w.mu.Lock()
	w.ver[field]++
	r := w.res[field] // nil: nothing depends on the field at the moment
	if permanent {
		delete(w.res, field)
	}
	w.mu.Unlock()
	if r == nil {
		return
	}
	if permanent {
		r.Invalidate()
	} else {
		r.Strobe()
	}
}

// ItemsNow is a copy of the current items.
func (w *World) ItemsNow() []Item {
	w.mu.Lock()
	defer w.mu.Unlock()
	return append([]Item{}, w.Items...)
}

// PhaseNow: the version of the time-dependent field: 0 no deadline, 1 before it, 2 from it on.
func (w *World) PhaseNow() int {
	w.mu.Lock()
	defer w.mu.Unlock()
	return w.phaseAt(time.Now())
}

func (w *World) phaseAt(now time.Time) int {
	switch {
	case w.Deadline.IsZero():
		return 0
	case now.Before(w.Deadline):
		return 1
	}
	return 2
}

// DeadlinePending: the data is about to change by itself.
func (w *World) DeadlinePending() bool {
	return w.PhaseNow() == 1
}

func (w *World) Version(field string) int {
	if field == "phase@clock" {
		return w.PhaseNow()
	}
	w.mu.Lock()
	defer w.mu.Unlock()
	return w.ver[field]
}

func (w *World) SetFail(field string, n int, mode string) {
	w.mu.Lock()
	w.fail[field] = &failSpec{N: n, Mode: mode}
	w.mu.Unlock()
}

func (w *World) ClearFails() {
	w.mu.Lock()
	w.fail = map[string]*failSpec{}
	w.mu.Unlock()
}

// PendingFails reports whether some field still has a failure budget.
func (w *World) PendingFails() bool {
	w.mu.Lock()
	defer w.mu.Unlock()
	for _, f := range w.fail {
		if f.N > 0 {
			return true
		}
	}
	return false
}

// ---- schema (built once; resolvers find their World in the context) ----

var (
	schemaOnce sync.Once
	schema     *graphql.Schema
)

func Schema() *graphql.Schema {
	schemaOnce.Do(func() {
		sb := schemabuilder.NewSchema()
		q := sb.Query()
		q.FieldFunc("a", func(ctx context.Context) (int64, error) {
			w := worldOf(ctx)
			if err := w.read(ctx, "a"); err != nil {
				return 0, err
			}
			w.mu.Lock()
			defer w.mu.Unlock()
			return w.A, nil
		})
		q.FieldFunc("s", func(ctx context.Context) (string, error) {
			w := worldOf(ctx)
			if err := w.read(ctx, "s"); err != nil {
				return "", err
			}
			w.mu.Lock()
			defer w.mu.Unlock()
			return w.S, nil
		})
		q.FieldFunc("flag", func(ctx context.Context) (bool, error) {
			w := worldOf(ctx)
			if err := w.read(ctx, "flag"); err != nil {
				return false, err
			}
			w.mu.Lock()
			defer w.mu.Unlock()
			return w.Flag, nil
		})
		q.FieldFunc("obj", func(ctx context.Context) (*Inner, error) {
			w := worldOf(ctx)
			if err := w.read(ctx, "obj"); err != nil {
				return nil, err
			}
			w.mu.Lock()
			defer w.mu.Unlock()
			if w.Obj == nil {
				return nil, nil
			}
			c := *w.Obj
			return &c, nil
		})
		q.FieldFunc("items", func(ctx context.Context) ([]*Item, error) {
			w := worldOf(ctx)
			if err := w.read(ctx, "items"); err != nil {
				return nil, err
			}
			w.mu.Lock()
			defer w.mu.Unlock()
			out := make([]*Item, len(w.Items))
			for i := range w.Items {
				c := w.Items[i]
				out[i] = &c
			}
			return out, nil
		})
		q.FieldFunc("f", func(ctx context.Context) (float64, error) {
			w := worldOf(ctx)
			if err := w.read(ctx, "f"); err != nil {
				return 0, err
			}
			w.mu.Lock()
			defer w.mu.Unlock()
			return w.F, nil
		})
		// fields with arguments: what a subscription sees depends on its variables
		q.FieldFunc("plus", func(ctx context.Context, args struct{ N int64 }) (int64, error) {
			w := worldOf(ctx)
			if err := w.read(ctx, "a"); err != nil {
				return 0, err
			}
			argUsed(ctx, "plus", args.N)
			w.mu.Lock()
			defer w.mu.Unlock()
			return w.A + args.N, nil
		})
		q.FieldFunc("item", func(ctx context.Context, args struct{ Id int64 }) (*Item, error) {
			w := worldOf(ctx)
			if err := w.read(ctx, "items"); err != nil {
				return nil, err
			}
			argUsed(ctx, "item", args.Id)
			w.mu.Lock()
			defer w.mu.Unlock()
			for i := range w.Items {
				if w.Items[i].Id == args.Id {
					c := w.Items[i]
					return &c, nil
				}
			}
			return nil, nil
		})
		q.FieldFunc("tick", func(ctx context.Context) (int64, error) {
			w := worldOf(ctx)
			if err := w.read(ctx, "tick"); err != nil {
				return 0, err
			}
			if tok, _ := ctx.Value(runKey{}).(*RunTok); tok != nil {
				// an InvalidateAfter-style timer: a few short ones per case, otherwise one that never fires
				d := time.Hour
				w.mu.Lock()
				if w.tickBudget > 0 {
					w.tickBudget--
					d = 3 * time.Millisecond
				}
				w.mu.Unlock()
				w.register(ctx, tok, d)
			}
			w.mu.Lock()
			defer w.mu.Unlock()
			return w.Tick, nil
		})
		// stable handles with an Expensive field: the executor memoises `detail` per (node, selection) in the
		// rerunner's cache
		q.FieldFunc("nodes", func(ctx context.Context) ([]*Node, error) {
			w := worldOf(ctx)
			if err := w.read(ctx, "items"); err != nil {
				return nil, err
			}
			w.mu.Lock()
			defer w.mu.Unlock()
			out := make([]*Node, len(w.Items))
			for i := range w.Items {
				out[i] = w.node(w.Items[i].Id)
			}
			return out, nil
		})
		q.FieldFunc("node", func(ctx context.Context, args struct{ Id int64 }) (*Node, error) {
			w := worldOf(ctx)
			if err := w.read(ctx, "items"); err != nil {
				return nil, err
			}
			w.mu.Lock()
			defer w.mu.Unlock()
			for i := range w.Items {
				if w.Items[i].Id == args.Id {
					return w.node(args.Id), nil
				}
			}
			return nil, nil
		})
		// a time-dependent field: "active" until the deadline, "expired" from then on; the resolver reads the clock, may
		// do some work, and registers the deadline with reactive.InvalidateAt - which by then may lie in the past
		q.FieldFunc("phase", func(ctx context.Context) (string, error) {
			w := worldOf(ctx)
			if err := w.read(ctx, "phase"); err != nil {
				return "", err
			}
			now := time.Now()
			w.mu.Lock()
			ph, deadline, slow := w.phaseAt(now), w.Deadline, w.SlowMs
			w.mu.Unlock()
			tok, _ := ctx.Value(runKey{}).(*RunTok)
			if tok != nil {
				w.rec.exec(tok, "phase@clock", ph)
			}
			switch ph {
			case 0:
				return "idle", nil
			case 2:
				return "expired", nil
			}
			if tok != nil && slow > 0 {
				time.Sleep(time.Duration(slow) * time.Millisecond)
			}
			reactive.InvalidateAt(ctx, deadline)
			return "active", nil
		})
		nodeObj := sb.Object("Node", Node{})
		nodeObj.FieldFunc("detail", func(ctx context.Context, n *Node) *Detail {
			w := worldOf(ctx)
			w.readCached(ctx, DetailField(n.Id))
			w.mu.Lock()
			defer w.mu.Unlock()
			d := w.detail(n.Id)
			return &d
		}, schemabuilder.Expensive)
		sb.Object("Detail", Detail{})
		sb.Object("Item", Item{})
		sb.Object("Inner", Inner{})
		m := sb.Mutation()
		m.FieldFunc("setA", func(ctx context.Context, args struct{ Value int64 }) (int64, error) {
			mutExec(ctx, "setA")
			w := worldOf(ctx)
			w.mu.Lock()
			w.A = args.Value
			w.mu.Unlock()
			w.Touch("a", false)
			return args.Value, nil
		})
		m.FieldFunc("setS", func(ctx context.Context, args struct{ Value string }) (string, error) {
			mutExec(ctx, "setS")
			w := worldOf(ctx)
			w.mu.Lock()
			w.S = args.Value
			w.mu.Unlock()
			w.Touch("s", false)
			return args.Value, nil
		})
		m.FieldFunc("failSafe", func(ctx context.Context) (int64, error) {
			mutExec(ctx, "failSafe")
			return 0, graphql.NewSafeError("mutation refused")
		})
		m.FieldFunc("failPlain", func(ctx context.Context) (int64, error) {
			mutExec(ctx, "failPlain")
			return 0, fmt.Errorf("mutation broke")
		})
		schema = sb.MustBuild()
	})
	return schema
}

// argUsed records the argument value a resolver was called with, and in which computation.
func argUsed(ctx context.Context, field string, v int64) {
	if tok, _ := ctx.Value(runKey{}).(*RunTok); tok != nil {
		worldOf(ctx).rec.add(Event{Kind: "arg", Field: field, Run: tok.N, Gen: tok.Gen, Ver: int(v)})
	}
}

// mutExec records that a mutation resolver ran, and in which computation.
func mutExec(ctx context.Context, field string) {
	w := worldOf(ctx)
	if w == nil {
		return
	}
	e := Event{Kind: "mutexec", Field: field, Run: -1, Gen: -1}
	if tok, _ := ctx.Value(runKey{}).(*RunTok); tok != nil {
		e.Run, e.Gen = tok.N, tok.Gen
	}
	w.rec.add(e)
}

// UserMiddleware is the i-th middleware an application registered with conn.Use. The one at position
// holdAt holds a run (when armed by the script) until it is released, its context is cancelled, or 600 ms
// have passed - a slow middleware.
func (w *World) UserMiddleware(i, holdAt int) graphql.MiddlewareFunc {
	return func(input *graphql.ComputationInput, next graphql.MiddlewareNextFunc) *graphql.ComputationOutput {
		if i == holdAt {
			w.mu.Lock()
			var rel chan struct{}
			if w.mwArmed > 0 {
				w.mwArmed--
				rel = w.mwRelease
			}
			w.mu.Unlock()
			if rel != nil {
				w.rec.add(Event{Kind: "blocked", Field: "middleware"})
				select {
				case <-rel:
				case <-input.Ctx.Done():
				case <-time.After(600 * time.Millisecond):
				}
			}
		}
		return next(input)
	}
}

func (w *World) ArmMiddleware(n int) {
	w.mu.Lock()
	w.mwArmed = n
	w.mwRelease = make(chan struct{})
	w.mu.Unlock()
}

func (w *World) ReleaseMiddleware() {
	w.mu.Lock()
	if w.mwRelease != nil {
		close(w.mwRelease)
		w.mwRelease = nil
	}
	w.mwArmed = 0
	w.mu.Unlock()
}

// Queries the generator draws from (index = the case's "q").
var SubQueries = []string{
	`{ a }`,
	`{ a s }`,
	`{ items { id name n } }`,
	`{ items { name } obj { x y } }`,
	`{ obj { x } a }`,
	`{ s flag items { id n } }`,
	`query Q { first: a second: a s }`,
	`{ flag }`,
	`{ tick }`,
	`{ tick a }`,
	`{ f a }`,
	`{ f s items { id } }`,
	`query P($n: int64!) { plus(n: $n) s }`,
	`query I($id: int64!) { item(id: $id) { id name n } flag }`,
	`{ obj { b p x } }`,
	// rejected by Parse / PrepareQuery
	`{ nope }`,
	`{ a `,
	`{ a { x } }`,
	`{ items }`,
	// memoised sub-results (Expensive field on stable source objects); appended so that the indices above stay
	`{ nodes { id detail { d } } }`,
	`{ nodes { id detail { d e } } a }`,
	`query F { first: node(id: 1) { ...D } second: node(id: 1) { ...D detail { e } } } fragment D on Node { detail { d } }`,
	`query G { full: nodes { id ...D ...E } brief: nodes { id ...D } } fragment D on Node { detail { d } } fragment E on Node { detail { e } }`,
	`query H { one: node(id: 2) { ...E id } all: nodes { id ...E detail { d } } s } fragment E on Node { detail { e } }`,
	// a field whose value flips at a deadline (reactive.InvalidateAt)
	`{ phase }`,
	`{ phase a }`,
}

// FirstClockSubQuery: the queries from here on read the clock.
const FirstClockSubQuery = 24

// FirstCacheSubQuery: the queries from here on use the executor's reactive cache.
const FirstCacheSubQuery = 19

// CachedDetailIDs: the nodes whose `detail` a live subscription on query q depends on, given the current items.
func CachedDetailIDs(q int, items []Item) []int64 {
	q = q % len(SubQueries)
	if q < FirstCacheSubQuery {
		return nil
	}
	text := SubQueries[q]
	var ids []int64
	has := func(id int64) bool {
		for _, it := range items {
			if it.Id == id {
				return true
			}
		}
		return false
	}
	if strings.Contains(text, "nodes") {
		for _, it := range items {
			ids = append(ids, it.Id)
		}
	}
	for _, id := range []int64{1, 2} {
		if strings.Contains(text, fmt.Sprintf("node(id: %d)", id)) && has(id) {
			ids = append(ids, id)
		}
	}
	return ids
}

const FirstBadSubQuery = 15

// QueryVar names the variable of a query text of SubQueries ("" if it has none).
func QueryVar(q int) string {
	switch q % len(SubQueries) {
	case 12:
		return "n"
	case 13:
		return "id"
	}
	return ""
}

var MutQueries = []string{
	`mutation { setA(value: 7) }`,
	`mutation { setA(value: 11) }`,
	`mutation { setS(value: "m") }`,
	`mutation { failSafe }`,
	`mutation { failPlain }`,
	// rejected
	`mutation { nope }`,
	`mutation { setA }`,
}

const FirstBadMutQuery = 5

// Verdict of Parse + PrepareQuery on a query text, computed by the harness itself (independent of the
// connection): ok, or the sanitized message the client must be sent.
func QueryVerdict(text string, mutation bool, vars map[string]interface{}) (bool, string) {
	q, err := graphql.Parse(text, vars)
	if err != nil {
		return false, graphql.SanitizeError(err)
	}
	typ := Schema().Query
	if mutation {
		typ = Schema().Mutation
	}
	if err := graphql.PrepareQuery(context.Background(), typ, q.SelectionSet); err != nil {
		return false, graphql.SanitizeError(err)
	}
	return true, ""
}

// FreshExecute runs the query once, outside any rerunner, on the current data.
func FreshExecute(w *World, text string, vars map[string]interface{}) (res interface{}, err error) {
	defer func() {
		if p := recover(); p != nil {
			err = fmt.Errorf("panic: %v", p)
		}
	}()
	q, err := graphql.Parse(text, vars)
	if err != nil {
		return nil, err
	}
	if err := graphql.PrepareQuery(context.Background(), Schema().Query, q.SelectionSet); err != nil {
		return nil, err
	}
	ctx := context.WithValue(context.Background(), worldKey{}, w)
	e := graphql.NewExecutor(graphql.NewImmediateGoroutineScheduler())
	return e.Execute(ctx, Schema().Query, nil, q)
}
