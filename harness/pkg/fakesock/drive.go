package fakesock

import (
	"context"
	"encoding/json"
	"fmt"
	"math"
	"reflect"
	"runtime"
	"strings"
	"time"

	"github.com/samsarahq/thunder/diff"
	"github.com/samsarahq/thunder/graphql"
	"github.com/samsarahq/thunder/reactive"
)

// IDs a case may use (index = the id in the Coq model).
// The first five are ordinary; the rest are odd but legal: empty, very long, non-ASCII, equal to
// values of other envelope fields.
var IDPool = []string{"s1", "s2", "s3", "m1", "m2", "", strings.Repeat("long-id-", 40), "ünï-✓", "subscribe", "message"}

func IDIndex(id string) int {
	for i, s := range IDPool {
		if s == id {
			return i
		}
	}
	return 99
}

// Op is one step of a case.
type Op struct {
	Op    string                 `json:"op"` // subscribe unsubscribe mutate echo url unknown badmsg malformed set fail cancel close pause release
	ID    string                 `json:"id,omitempty"`
	Q     int                    `json:"q,omitempty"`
	Vars  map[string]interface{} `json:"vars,omitempty"` // subscribe: the variables of the query
	Field string                 `json:"field,omitempty"`
	Int   int64                  `json:"int,omitempty"`
	Str   string                 `json:"str,omitempty"`
	Obj   *Inner                 `json:"obj,omitempty"`
	Items []Item                 `json:"items,omitempty"`
	Perm  bool                   `json:"perm,omitempty"` // set: permanent Invalidate + fresh resource instead of Strobe
	N     int                    `json:"n,omitempty"`    // fail: number of failing executions
	Mode  string                 `json:"mode,omitempty"` // fail: plain safe panic ; badmsg: sub | mut ; url: ok | bad
	Sync  string                 `json:"sync,omitempty"` // settle | handled | none (default settle)
}

type Case struct {
	Max       int    `json:"max"`
	Ops       []Op   `json:"ops"`
	Origin    string `json:"origin,omitempty"`
	PostWait  int    `json:"post_wait_ms,omitempty"`
	FailWrite int    `json:"fail_write,omitempty"` // the k-th socket write and all later ones fail
	FailMode  string `json:"fail_mode,omitempty"`  // "error" (default) | "close" (websocket.CloseError)
	// application middlewares registered with conn.Use after the harness's own observer (0-7); the one at
	// position MwHold can be made to hold a run (ops mwhold / mwrelease)
	// reactive.WriteThenReadDelay while this case runs (milliseconds; the variable is global, cases are run in
	// groups of equal delay)
	DelayMs     int `json:"delay_ms,omitempty"`
	Middlewares int `json:"middlewares,omitempty"`
	MwHold      int `json:"mw_hold,omitempty"`
	// connection options: WithAlwaysSpawnGoroutineFunc(true) (the invalidation handler starts re-runs on goroutines of
	// their own instead of the invalidating one); WithMinRerunInterval (milliseconds; 0: one millisecond)
	Spawn      bool `json:"spawn,omitempty"`
	IntervalMs int  `json:"interval_ms,omitempty"`
}

// Snapshot of what the client of one subscription should hold at a quiescent point.
type Snap struct {
	Gen     int
	Updates int // number of update envelopes of that generation delivered so far
	Want    interface{}
	At      int // op index
}

type Result struct {
	IdleSettled bool // some quiescent point was taken because nothing happened for two seconds (see player.quiescent)
	Case     Case
	Events   []Event
	Snaps    []Snap
	Problems []Problem // harness-level problems (timeouts, panics)
	Fed      []Op      // messages in feed order
}

type Problem struct {
	Sig    string
	Detail string
}

func init() { reactive.WriteThenReadDelay = 0 } // set per group of cases by Main (Case.DelayMs)

func envelope(id, typ string, msg interface{}) []byte {
	m := map[string]interface{}{"id": id, "type": typ}
	if msg != nil {
		m["message"] = msg
	}
	b, _ := json.Marshal(m)
	return b
}

// ---- analysis of the event log (used for waiting and by the oracles) ----

type runInfo struct {
	N, Gen               int
	ID                   string
	Ended                bool
	End                  Event
	ExpectWrite, Written bool
	ExpectSpawn, Spawned bool
	WriteIdx, EndIdx     int
	Deps                 map[string]int
	StartInitial         bool // `initial` as StartExecution was told
	StartIdx             int
	// the computation of a subscription returned an error caused by context.Canceled while its context was still alive
	// when the observer looked: whether the connection then found the context cancelled (silent close) or not (an
	// ordinary failure) is decided by what it did: an error envelope / a retry, or a close without an envelope
	Ambig bool
}

type genInfo struct {
	Gen       int
	ID        string
	IsMut     bool
	Msg       int // index (feed order) of the message that created it
	AcceptIdx int
	EndIdx    int // index of the event that ended it on the server (-1 alive)
	Runs      int
	LastOK    *runInfo
	Dead      bool // wrote an error / result, or returned a cancelled error: will not run again
	Updates   int
	Latest    map[string]int // field -> version stamp of the latest resolver execution in any computation of this generation
}

type view struct {
	readerIdle  bool
	served      bool
	fedRead     int
	runs        map[int]*runInfo
	runOrder    []int
	gens        []*genInfo
	cur         map[string]int // id -> generation in the connection's map, as far as the log tells
	spawned     int
	asyncDone   int
	cancelled   bool
	closeAllIdx int
	curMsg      int
	broken      bool        // a socket write has failed: the client is gone
	writeFailed bool        // some socket write has failed
	registered  map[int]int // resource -> generation that registered it
	cleanups    map[int]int // resource -> number of Cleanup calls
	lastT       time.Time   // when the last event was recorded
}

func analyze(evs []Event) *view {
	v := &view{runs: map[int]*runInfo{}, cur: map[string]int{}, closeAllIdx: -1, curMsg: -1, registered: map[int]int{}, cleanups: map[int]int{}}
	if len(evs) > 0 {
		v.lastT = evs[len(evs)-1].T
	}
	for i, e := range evs {
		if e.Late && e.Kind != "cut" {
			// still analysed: the oracles look at late events separately
		}
		switch e.Kind {
		case "readwait":
			v.readerIdle = true
		case "read":
			v.readerIdle = false
			v.fedRead++
			v.curMsg = e.Msg
		case "readerr":
			v.readerIdle = false
		case "served":
			v.served = true
		case "cancel":
			v.cancelled = true
		case "hook":
			switch e.Point {
			case "conn.handleSubscribe.accept", "conn.handleMutate.accept":
				g := &genInfo{Gen: e.Gen, ID: e.ID, IsMut: e.Point == "conn.handleMutate.accept", Msg: v.curMsg, AcceptIdx: i, EndIdx: -1, Latest: map[string]int{}}
				v.gens = append(v.gens, g)
				v.cur[e.ID] = e.Gen
			case "conn.spawnClose":
				v.spawned++
				for _, n := range v.runOrder {
					// an undecided computation of this generation that has written nothing: the silent path
					if r := v.runs[n]; r.Gen == e.Gen && r.Ambig && !r.Written {
						r.Ambig = false
						r.End.Cancel = true
						r.ExpectSpawn = true
						if r.Gen >= 0 && r.Gen < len(v.gens) {
							v.gens[r.Gen].Dead = true
						}
					}
				}
				for _, n := range v.runOrder {
					r := v.runs[n]
					if r.Gen == e.Gen && r.Ended && r.ExpectSpawn && !r.Spawned {
						r.Spawned = true
						break
					}
				}
			case "conn.closeSubscription.done":
				if !e.Reader {
					v.asyncDone++
				}
			case "conn.closeSubscriptions.done":
				v.closeAllIdx = i
				for _, g := range v.gens {
					if g.EndIdx < 0 {
						g.EndIdx = i
					}
				}
				v.cur = map[string]int{}
			}
		case "log":
			if !e.Sub {
				if g, ok := v.cur[e.ID]; ok && g >= 0 && g < len(v.gens) {
					if v.gens[g].EndIdx < 0 {
						v.gens[g].EndIdx = i
					}
					delete(v.cur, e.ID)
				}
			}
		case "mwstart":
			v.runs[e.Run] = &runInfo{N: e.Run, Gen: e.Gen, ID: e.ID, Deps: map[string]int{}, WriteIdx: -1, EndIdx: -1, StartInitial: e.Initial, StartIdx: i}
			v.runOrder = append(v.runOrder, e.Run)
			if e.Gen >= 0 && e.Gen < len(v.gens) {
				v.gens[e.Gen].Runs++
			}
		case "exec":
			if r := v.runs[e.Run]; r != nil {
				// a field may be read several times in one computation (aliases): the oldest read counts
				if old, ok := r.Deps[e.Field]; !ok || e.Ver < old {
					r.Deps[e.Field] = e.Ver
				}
				if r.Gen >= 0 && r.Gen < len(v.gens) {
					v.gens[r.Gen].Latest[e.Field] = e.Ver
				}
			}
		case "mwend":
			r := v.runs[e.Run]
			if r == nil {
				break
			}
			r.Ended, r.End, r.EndIdx = true, e, i
			if e.IsMut {
				r.ExpectWrite, r.ExpectSpawn = true, true
			} else if e.Err == "" {
				r.ExpectWrite = e.Initial || diff.Diff(e.Previous, e.Current) != nil
			} else if e.CauseCancel && !e.Cancel {
				r.Ambig = true
			} else {
				r.ExpectWrite = !e.Cancel && e.Initial
				r.ExpectSpawn = e.Cancel || e.Initial
			}
			if r.Gen >= 0 && r.Gen < len(v.gens) {
				g := v.gens[r.Gen]
				if e.Err == "" && !e.IsMut {
					g.LastOK = r
				}
				if r.ExpectSpawn {
					g.Dead = true
				}
			}
		case "rx":
			if e.Point == "retry" {
				for _, n := range v.runOrder {
					if r := v.runs[n]; r.Gen == e.Gen && r.Ambig {
						v.decideFailure(r)
					}
				}
			}
		case "register":
			v.registered[e.Res] = e.Gen
		case "cleanup":
			v.cleanups[e.Res]++
		case "sockclose":
			v.broken = true // the client is gone (or is being disconnected): nothing more to converge to
		case "writefail":
			v.writeFailed = true
			if e.Run >= 0 {
				if r := v.runs[e.Run]; r != nil {
					r.Written, r.WriteIdx = true, i
					v.decideFailure(r)
				}
			}
		case "write":
			if e.Run >= 0 {
				if r := v.runs[e.Run]; r != nil {
					r.Written, r.WriteIdx = true, i
					v.decideFailure(r)
					if t, _ := e.Env["type"].(string); t == "update" && r.Gen >= 0 && r.Gen < len(v.gens) {
						v.gens[r.Gen].Updates++
					}
				}
			}
		}
	}
	return v
}

// decideFailure: an undecided computation (see runInfo.Ambig) wrote its error envelope, or the rerunner reported a
// retry: the connection took the ordinary failure path.
func (v *view) decideFailure(r *runInfo) {
	if !r.Ambig {
		return
	}
	r.Ambig = false
	r.End.Cancel = false
	r.ExpectWrite = r.End.Initial
	r.ExpectSpawn = r.End.Initial
	if r.ExpectSpawn && r.Gen >= 0 && r.Gen < len(v.gens) {
		v.gens[r.Gen].Dead = true
	}
}

func (v *view) runsInFlight() (bool, string) {
	for _, n := range v.runOrder {
		r := v.runs[n]
		if !r.Ended {
			return true, fmt.Sprintf("run %d of generation %d has not finished", r.N, r.Gen)
		}
		if r.Ambig {
			return true, fmt.Sprintf("run %d of generation %d failed with context.Canceled: the connection has not yet shown which path it took", r.N, r.Gen)
		}
		if r.ExpectWrite && !r.Written {
			return true, fmt.Sprintf("run %d of generation %d has not written", r.N, r.Gen)
		}
		if r.ExpectSpawn && !r.Spawned {
			return true, fmt.Sprintf("run %d of generation %d has not spawned its close", r.N, r.Gen)
		}
	}
	return false, ""
}

// stacks returns the goroutines that are inside thunder or the harness resolvers (diagnosis of a wait
// that timed out).
func stacks() string {
	buf := make([]byte, 1<<20)
	buf = buf[:runtime.Stack(buf, true)]
	var keep []string
	for _, g := range strings.Split(string(buf), "\n\n") {
		if strings.Contains(g, "thunder/reactive") || strings.Contains(g, "thunder/graphql") {
			if len(g) > 1500 {
				g = g[:1500]
			}
			keep = append(keep, g)
		}
		if len(keep) >= 12 {
			break
		}
	}
	return "\n--- goroutines ---\n" + strings.Join(keep, "\n\n")
}

// ---- playing a case ----

type player struct {
	c        Case
	rec      *Recorder
	w        *World
	sock     *Sock
	cancel   context.CancelFunc
	res      *Result
	fed      int
	closed   bool
	releases map[string]chan struct{}
	hits     map[string]chan struct{}
	timeout  time.Duration

	blockedSeen int
	runsSeen    int // completed computations when the last message was fed
	runMark     int // completed computations when the last `set` was played
}

func (p *player) problem(sig, detail string) {
	p.res.Problems = append(p.res.Problems, Problem{sig, detail})
}

// waitFor blocks until cond holds on the event log (re-evaluated at every new event).
func (p *player) waitFor(what string, cond func(*view) (bool, string)) bool {
	deadline := time.Now().Add(p.timeout)
	why := ""
	for {
		evs, ch := p.rec.Snapshot()
		ok, w := cond(analyze(evs))
		if ok {
			return true
		}
		why = w
		left := time.Until(deadline)
		if left <= 0 {
			break
		}
		if left > 500*time.Millisecond {
			left = 500 * time.Millisecond // conditions may also depend on how long nothing has happened
		}
		t := time.NewTimer(left)
		select {
		case <-ch:
		case <-t.C:
		}
		t.Stop()
	}
	p.problem("harness-wait-timeout", what+": "+why+stacks())
	p.timeout = 300 * time.Millisecond // the case is already lost; do not wait long again
	return false
}

// waitBrief waits up to d for cond, silently.
func (p *player) waitBrief(d time.Duration, cond func(*view) bool) {
	deadline := time.Now().Add(d)
	for {
		evs, ch := p.rec.Snapshot()
		if cond(analyze(evs)) {
			return
		}
		left := time.Until(deadline)
		if left <= 0 {
			return
		}
		t := time.NewTimer(left)
		select {
		case <-ch:
		case <-t.C:
		}
		t.Stop()
	}
}

// waitShort waits up to 3 s without reporting: what is still missing is for the oracle to say.
func (p *player) waitShort(what string, cond func(*view) (bool, string)) bool {
	deadline := time.Now().Add(3 * time.Second)
	for {
		evs, ch := p.rec.Snapshot()
		if ok, _ := cond(analyze(evs)); ok {
			return true
		}
		left := time.Until(deadline)
		if left <= 0 {
			return false
		}
		t := time.NewTimer(left)
		select {
		case <-ch:
		case <-t.C:
		}
		t.Stop()
	}
}

func (p *player) handled(v *view) (bool, string) {
	if v.served {
		return true, ""
	}
	if v.fedRead < p.fed || !v.readerIdle {
		return false, fmt.Sprintf("reader has consumed %d of %d messages", v.fedRead, p.fed)
	}
	return true, ""
}

// quiescent: reader idle, no computation in flight, no close task pending, every subscription the
// server still runs has read the current version of everything it depends on.
func (p *player) quiescent(v *view) (bool, string) {
	if ok, why := p.handled(v); !ok {
		return false, why
	}
	if busy, why := v.runsInFlight(); busy {
		return false, why
	}
	if v.spawned != v.asyncDone && len(p.releases) == 0 {
		return false, fmt.Sprintf("%d close tasks spawned, %d done", v.spawned, v.asyncDone)
	}
	if n := p.w.ShortTimers(); n > 0 {
		return false, fmt.Sprintf("%d short timers are armed", n)
	}
	if p.w.DeadlinePending() {
		return false, "the deadline of `phase` has not passed yet"
	}
	if v.cancelled {
		return true, ""
	}
	for _, g := range v.gens {
		if g.EndIdx >= 0 || g.Dead {
			continue
		}
		if g.Runs == 0 {
			return false, fmt.Sprintf("generation %d (%s) has not run yet", g.Gen, g.ID)
		}
		if g.IsMut {
			continue
		}
		if g.LastOK == nil {
			return false, fmt.Sprintf("generation %d (%s) has no successful run yet", g.Gen, g.ID)
		}
		for f, ver := range g.LastOK.Deps {
			if cur := p.w.Version(f); cur != ver {
				if f == "phase@clock" && p.idleSettle(v, f, g.Gen) {
					// the clock moved past the deadline and nothing has happened for two seconds: see below
					continue
				}
				return false, fmt.Sprintf("generation %d (%s) read %s at version %d, current %d", g.Gen, g.ID, f, ver, cur)
			}
		}
	}
	// memoised sub-results: a computation that finds a node's detail in the rerunner's cache does not execute the
	// resolver, so the last computation's reads say nothing about it. The generation must have executed it, in
	// whichever computation, at the current version. Should that never happen (a stale entry served for good) the
	// point is taken as quiescent once nothing at all has happened for two seconds: the snapshot then shows the
	// divergence (and the case is played twice before anything is reported, see Main).
	var cacheGens []int
	for _, g := range v.gens {
		if g.EndIdx >= 0 || g.Dead || g.IsMut || g.Msg < 0 || g.Msg >= len(p.res.Fed) {
			continue
		}
		if p.res.Fed[g.Msg].Op == "subscribe" && p.res.Fed[g.Msg].Q%len(SubQueries) >= FirstCacheSubQuery {
			cacheGens = append(cacheGens, g.Gen)
		}
	}
	if len(cacheGens) > 0 {
		// an invalidation may still be walking the dependency graph (a strobe visits the dependants one after the other,
		// and a re-run started by the first may find the second still valid in the cache: it is put right by one more
		// re-run, once the strobe gets there)
		if busy, why := p.rec.InvalidationsPending(cacheGens); busy {
			return false, why
		}
	}
	for _, g := range v.gens {
		if g.EndIdx >= 0 || g.Dead || g.IsMut || g.Msg < 0 || g.Msg >= len(p.res.Fed) {
			continue
		}
		for _, id := range CachedDetailIDs(p.res.Fed[g.Msg].Q, p.w.ItemsNow()) {
			f := DetailField(id)
			if ver, ok := g.Latest[f]; !ok || ver != p.w.Version(f) {
				if p.idleSettle(v, f, g.Gen) {
					return true, ""
				}
				return false, fmt.Sprintf("generation %d (%s) has executed %s at version %d (%v), current %d", g.Gen, g.ID, f, ver, ok, p.w.Version(f))
			}
		}
	}
	return true, ""
}

// idleSettle: nothing at all has happened for two seconds although a subscription has not caught up with the data: the
// point is taken as quiescent (what the snapshot shows is reported only if the case shows it twice, see Main).
func (p *player) idleSettle(v *view, field string, gen int) bool {
	if v.lastT.IsZero() || time.Since(v.lastT) <= 2*time.Second {
		return false
	}
	if !p.res.IdleSettled {
		p.res.IdleSettled = true
		p.rec.add(Event{Kind: "idle-settle", Field: field, Gen: gen})
	}
	return true
}

// clientLive: the client sent the subscribe that created g, got no error for it and has not sent an
// unsubscribe for its id since.
func (p *player) clientLive(g *genInfo) bool {
	if g.IsMut || g.Dead {
		return false
	}
	for k := g.Msg + 1; k < len(p.res.Fed); k++ {
		if f := p.res.Fed[k]; f.Op == "unsubscribe" && f.ID == g.ID {
			return false
		}
	}
	return true
}

func (p *player) snapshot(at int) {
	evs, _ := p.rec.Snapshot()
	v := analyze(evs)
	if v.writeFailed && !v.broken {
		// a write has just failed: writeOrClose is about to close the socket (give it a moment)
		p.waitBrief(50*time.Millisecond, func(v *view) bool { return v.broken })
		evs, _ = p.rec.Snapshot()
		v = analyze(evs)
	}
	if v.cancelled || v.broken {
		return
	}
	before := p.w.Versions()
	first := len(p.res.Snaps)
	defer func() {
		// data changed by itself (a timer) while the expected values were computed: not a quiescent point
		if !reflect.DeepEqual(before, p.w.Versions()) || p.w.ShortTimers() > 0 {
			p.res.Snaps = p.res.Snaps[:first]
		}
	}()
	for _, g := range v.gens {
		if !p.clientLive(g) || g.Msg < 0 || g.Msg >= len(p.res.Fed) {
			continue
		}
		if g.EndIdx < 0 && v.cur[g.ID] != g.Gen {
			continue // replaced in the map without being ended (original handleMutate): C17's business
		}
		if g.EndIdx >= 0 {
			// the client believes it is subscribed, the server has ended the subscription
			p.res.Snaps = append(p.res.Snaps, Snap{Gen: g.Gen, Updates: -1, Want: nil, At: at})
			continue
		}
		want, err := FreshExecute(p.w, SubQueries[p.res.Fed[g.Msg].Q%len(SubQueries)], p.res.Fed[g.Msg].Vars)
		if err != nil {
			continue
		}
		if _, err := json.Marshal(want); err != nil {
			continue // the current result cannot be sent at all (NaN, Inf)
		}
		p.res.Snaps = append(p.res.Snaps, Snap{Gen: g.Gen, Updates: g.Updates, Want: roundTrip(diff.StripKey(want)), At: at})
	}
}

func (p *player) applySet(o Op) {
	w := p.w
	w.mu.Lock()
	switch o.Field {
	case "a":
		w.A = o.Int
	case "s":
		w.S = o.Str
	case "flag":
		w.Flag = o.Int != 0
	case "obj":
		if o.Obj == nil {
			w.Obj = nil
		} else {
			c := *o.Obj
			if c.B == nil {
				c.B = []byte{}
			}
			w.Obj = &c
		}
	case "items":
		w.Items = append([]Item{}, o.Items...)
	default:
		var id int64
		if n, _ := fmt.Sscanf(o.Field, "detail:%d", &id); n == 1 {
			w.Details[id] = Detail{D: o.Int, E: fmt.Sprintf("e%d", o.Int)}
		}
	case "f":
		switch o.Str {
		case "nan":
			w.F = math.NaN()
		case "inf":
			w.F = math.Inf(1)
		case "-inf":
			w.F = math.Inf(-1)
		default:
			w.F = float64(o.Int)
		}
	}
	w.mu.Unlock()
	p.rec.add(Event{Kind: "touch", Field: o.Field})
	w.Touch(o.Field, o.Perm)
}

func (p *player) feed(o Op, raw []byte) {
	evs, _ := p.rec.Snapshot()
	p.runsSeen = 0
	for _, e := range evs {
		if e.Kind == "mwend" {
			p.runsSeen++
		}
	}
	p.res.Fed = append(p.res.Fed, o)
	p.fed++
	p.sock.Feed(raw)
}

func (p *player) play(i int, o Op) {
	switch o.Op {
	case "subscribe":
		m := map[string]interface{}{"query": SubQueries[o.Q%len(SubQueries)]}
		if o.Vars != nil {
			m["variables"] = o.Vars
		}
		p.feed(o, envelope(o.ID, "subscribe", m))
	case "mutate":
		p.feed(o, envelope(o.ID, "mutate", map[string]interface{}{"query": MutQueries[o.Q%len(MutQueries)]}))
	case "unsubscribe":
		p.feed(o, envelope(o.ID, "unsubscribe", nil))
	case "echo":
		p.feed(o, envelope(o.ID, "echo", nil))
	case "unknown":
		p.feed(o, envelope(o.ID, "frobnicate", nil))
	case "url":
		if o.Mode == "bad" {
			p.feed(o, envelope(o.ID, "url", map[string]interface{}{"not": "a string"}))
		} else {
			p.feed(o, envelope(o.ID, "url", "/page"))
		}
	case "badmsg":
		typ := "subscribe"
		if o.Mode == "mut" {
			typ = "mutate"
		}
		p.feed(o, envelope(o.ID, typ, "not an object"))
	case "malformed":
		p.closed = true
		p.sock.Feed([]byte(`{"id": 5, "type": [`))
	case "set":
		evs, _ := p.rec.Snapshot()
		p.runMark = 0
		for _, e := range evs {
			if e.Kind == "mwend" {
				p.runMark++
			}
		}
		p.applySet(o)
	case "deadline":
		// the field `phase` gets a new deadline (Int milliseconds from now, possibly in the past); its resolver will
		// work for N milliseconds between reading the clock and registering the deadline
		p.w.mu.Lock()
		p.w.Deadline = time.Now().Add(time.Duration(o.Int) * time.Millisecond)
		p.w.SlowMs = o.N
		p.w.mu.Unlock()
		p.rec.add(Event{Kind: "touch", Field: "phase"})
		p.w.Touch("phase", false)
	case "awaitruns":
		// wait (briefly) until N more computations have completed than when the last `set` was played
		deadline := time.Now().Add(400 * time.Millisecond)
		for time.Now().Before(deadline) {
			evs, ch := p.rec.Snapshot()
			n := 0
			for _, e := range evs {
				if e.Kind == "mwend" {
					n++
				}
			}
			if n >= p.runMark+o.N {
				break
			}
			select {
			case <-ch:
			case <-time.After(20 * time.Millisecond):
			}
		}
		return
	case "fail":
		p.w.SetFail(o.Field, o.N, o.Mode)
		p.rec.add(Event{Kind: "touch", Field: o.Field})
		p.w.Touch(o.Field, false)
	case "proceedhold":
		n := o.N
		if n <= 0 {
			n = 1
		}
		p.rec.ArmProceed(n)
		return
	case "proceedrelease":
		p.rec.ReleaseProceed()
	case "mwhold":
		n := o.N
		if n <= 0 {
			n = 1
		}
		p.w.ArmMiddleware(n)
		return
	case "mwrelease":
		p.w.ReleaseMiddleware()
		p.rec.ReleaseProceed()
	case "awaitrun":
		// wait (briefly) until one more computation has completed than before the previous message was fed
		deadline := time.Now().Add(400 * time.Millisecond)
		for time.Now().Before(deadline) {
			evs, ch := p.rec.Snapshot()
			n := 0
			for _, e := range evs {
				if e.Kind == "mwend" {
					n++
				}
			}
			if n > p.runsSeen {
				break
			}
			select {
			case <-ch:
			case <-time.After(20 * time.Millisecond):
			}
		}
		return
	case "tickarm":
		p.w.ArmTicks(o.N)
		return
	case "cancel":
		p.rec.add(Event{Kind: "cancel"})
		p.cancel()
	case "close":
		p.closed = true
		p.sock.Close()
	case "pause":
		if _, armed := p.releases[o.ID]; armed {
			return // one pause per id at a time (variants of a history may repeat the step)
		}
		hit, rel := p.rec.PauseAsyncClose(o.ID)
		p.hits[o.ID], p.releases[o.ID] = hit, rel
	case "awaitpause":
		// wait (briefly) until the asynchronous close of o.ID is held; if none was spawned the pause stays armed
		if hit := p.hits[o.ID]; hit != nil {
			select {
			case <-hit:
				p.rec.add(Event{Kind: "paused", ID: o.ID})
			case <-time.After(500 * time.Millisecond):
			}
		}
	case "awaitblock":
		// wait (briefly) until some resolver is held in "block" mode
		before := 0
		evs, _ := p.rec.Snapshot()
		for _, e := range evs {
			if e.Kind == "blocked" {
				before++
			}
		}
		if before <= p.blockedSeen {
			deadline := time.Now().Add(500 * time.Millisecond)
			for time.Now().Before(deadline) {
				evs, ch := p.rec.Snapshot()
				n := 0
				for _, e := range evs {
					if e.Kind == "blocked" {
						n++
					}
				}
				if n > p.blockedSeen {
					before = n
					break
				}
				select {
				case <-ch:
				case <-time.After(20 * time.Millisecond):
				}
			}
		}
		p.blockedSeen = before
	case "release":
		if rel := p.releases[o.ID]; rel != nil {
			close(rel)
			delete(p.releases, o.ID)
		}
	}
	if o.Op == "pause" || o.Op == "awaitpause" || o.Op == "awaitblock" {
		return
	}
	switch o.Sync {
	case "none":
	case "handled":
		p.waitFor(fmt.Sprintf("op %d (%s) handled", i, o.Op), p.handled)
	default:
		if p.closed {
			p.waitFor(fmt.Sprintf("op %d (%s): ServeJSONSocket returns", i, o.Op), func(v *view) (bool, string) {
				return v.served, "ServeJSONSocket has not returned"
			})
			return
		}
		if p.waitFor(fmt.Sprintf("op %d (%s) settles", i, o.Op), p.quiescent) && len(p.releases) == 0 {
			p.snapshot(i)
		}
	}
}

// RunCase plays one case against a fresh connection and returns everything that was observed.
func RunCase(c Case, timeout time.Duration) (res *Result) {
	rec := NewRecorder()
	w := NewWorld(rec)
	sock := NewSock(rec)
	sock.FailWrite, sock.FailMode = c.FailWrite, c.FailMode
	ctx, cancel := context.WithCancel(context.Background())
	defer cancel()
	res = &Result{Case: c}
	p := &player{c: c, rec: rec, w: w, sock: sock, cancel: cancel, res: res,
		releases: map[string]chan struct{}{}, hits: map[string]chan struct{}{}, timeout: timeout}
	max := c.Max
	if max <= 0 {
		max = 3
	}
	interval := time.Millisecond
	if c.IntervalMs > 0 {
		interval = time.Duration(c.IntervalMs) * time.Millisecond
	}
	opts := []graphql.ConnectionOption{
		graphql.WithSubscriptionLogger(subLogger{rec}),
		graphql.WithExecutionLogger(execLogger{rec}),
		graphql.WithMinRerunInterval(interval),
		graphql.WithMaxSubscriptions(max),
		graphql.WithMakeCtx(rec.makeCtx(w))}
	if c.Spawn {
		opts = append(opts, graphql.WithAlwaysSpawnGoroutineFunc(func(context.Context, *graphql.Query) bool { return true }))
	}
	conn := graphql.CreateConnection(ctx, sock, Schema(), opts...)
	conn.Use(rec.middleware)
	for i := 0; i < c.Middlewares && i < 7; i++ {
		conn.Use(w.UserMiddleware(i, c.MwHold))
	}
	register(conn, rec)
	defer unregister(conn)
	go func() {
		defer func() {
			if e := recover(); e != nil {
				p.rec.add(Event{Kind: "panic", ID: fmt.Sprint(e)})
			}
			rec.add(Event{Kind: "served"})
		}()
		conn.ServeJSONSocket()
	}()
	for i, o := range c.Ops {
		if p.closed && (o.Op != "set" && o.Op != "fail" && o.Op != "release" && o.Op != "cancel" && o.Op != "proceedrelease" && o.Op != "mwrelease") {
			continue
		}
		p.play(i, o)
	}
	// end of the case: release scripted pauses, close the socket, let everything drain
	p.w.ReleaseMiddleware()
	for id, rel := range p.releases {
		close(rel)
		delete(p.releases, id)
	}
	if !p.closed {
		p.waitFor("final settle", p.quiescent)
		p.snapshot(len(c.Ops))
		p.closed = true
		sock.Close()
	}
	p.waitFor("ServeJSONSocket returns", func(v *view) (bool, string) { return v.served, "ServeJSONSocket has not returned" })
	p.waitFor("close tasks drain", func(v *view) (bool, string) {
		if busy, why := v.runsInFlight(); busy && !v.cancelled {
			return false, why
		}
		return v.spawned == v.asyncDone, fmt.Sprintf("%d close tasks spawned, %d done", v.spawned, v.asyncDone)
	})
	// releases are asynchronous: let every registered resource get its Cleanup call
	p.waitShort("resources released", func(v *view) (bool, string) {
		for res := range v.registered {
			if v.cleanups[res] == 0 {
				return false, fmt.Sprintf("resource %d (generation %d) has had no Cleanup call", res, v.registered[res])
			}
		}
		return true, ""
	})
	// provoke anything that still lives: change and invalidate everything, then wait
	rec.Cut()
	w.ClearFails()
	for _, f := range Fields {
		w.mu.Lock()
		w.A++
		w.mu.Unlock()
		w.Touch(f, false)
	}
	wait := c.PostWait
	if wait <= 0 {
		wait = 30
	}
	time.Sleep(time.Duration(wait) * time.Millisecond)
	res.Events, _ = rec.Snapshot()
	return res
}
