package fakesock

import (
	"encoding/json"
	"fmt"
	"io/ioutil"
	"log"
	"os"
	"path/filepath"
	"reflect"
	"sort"
	"strings"
	"sync"
	"sync/atomic"
	"time"

	"github.com/samsarahq/thunder/reactive"
	"verifharness/pkg/vh"
)

type caseOut struct {
	idle int // 1: findings after an idle-settled point did not reproduce; 2: they did
	res         *Result
	trace       *Trace
	fs          []Finding
	stalls      int
	skipped     bool
	stallDetail string
}

// Main is the whole harness of property prop ("C17" or "C02").
func Main(prop string) {
	o := vh.ParseFlags()
	log.SetOutput(ioutil.Discard) // graphql/server.go logs every rejected message
	run := vh.NewRun(prop, o)
	if prop == "C17" {
		run.Rule = "histories of subscribe / unsubscribe / mutate / echo / url / unknown / malformed messages (30% colliding ids), data changes + invalidations, resolver failures (plain/safe/panic), context cancellation and socket close at any point; non-trivial = at least one subscription or mutation was accepted and ended and at least three different kinds of label occur; distinct by the JSON text of the case"
	} else {
		run.Rule = "the same histories, weighted towards data changes under long-lived subscriptions (scalars, nullable object, keyed list with inserts / deletes / reorders / key changes); non-trivial = some subscription delivered at least one update after its first message and a convergence snapshot was compared; distinct by the JSON text of the case"
	}
	r := vh.NewRng(o.Seed)
	timeout := 20 * time.Second

	var cases []Case
	searching := o.Search != ""
	if searching {
		// failing-input search: variants of the histories on which model and implementation disagreed
		var seeds []Case
		if b, err := ioutil.ReadFile(o.Search); err == nil {
			for _, line := range strings.Split(string(b), "\n") {
				var w struct {
					Case Case `json:"case"`
				}
				if strings.TrimSpace(line) != "" && json.Unmarshal([]byte(line), &w) == nil {
					seeds = append(seeds, w.Case)
				}
			}
		}
		for i := 0; i < o.N; i++ {
			cr := r.Fork()
			if len(seeds) == 0 {
				c := GenCase(cr, prop)
				c.Origin = "search-fresh"
				cases = append(cases, c)
				continue
			}
			cases = append(cases, Variant(cr, seeds[cr.Intn(len(seeds))]))
		}
	} else if o.Replay != "" {
		var c Case
		if vh.ReadReplayCase(o.Replay, &c) {
			c.Origin = "replay"
			cases = append(cases, c)
		} else {
			fmt.Println("replay file " + o.Replay + " cannot be read or holds no case (a file that only names a broken theorem or correspondence has nothing to re-run)")
			os.Exit(4)
		}
	} else {
		for _, f := range vh.CorpusFiles(o.Corpus) {
			var c Case
			if vh.ReadReplayCase(f, &c) {
				c.Origin = "corpus:" + filepath.Base(f)
				cases = append(cases, c)
			}
		}
		for i := 0; i < o.N; i++ {
			cr := r.Fork()
			// C02: one case in twenty moves the bytes fields of the live object between empty / null / bytes, one in
			// twenty changes a field again while the re-runs of several subscriptions on it are going on
			if prop == "C02" && i%20 == 11 {
				cases = append(cases, GenBytesCase(cr))
				continue
			}
			if (prop == "C02" && i%20 == 3) || (prop != "C02" && i%30 == 7) {
				cases = append(cases, GenDeadlineCase(cr))
				continue
			}
			if prop == "C02" && i%20 == 17 {
				cases = append(cases, GenBurstCase(cr))
				continue
			}
			// one case in nine (one in six for C02) is about memoised sub-results; the others are what they were
			if (prop == "C02" && i%6 == 4) || (prop != "C02" && i%9 == 4) {
				cases = append(cases, GenCacheCase(cr, prop))
				continue
			}
			cases = append(cases, GenCase(cr, prop))
		}
	}

	// the hook call sites must be there, otherwise nothing can be observed
	probe := RunCase(Case{Max: 3, PostWait: 1, Ops: []Op{{Op: "subscribe", ID: "s1", Q: 0}, {Op: "close"}}}, 5*time.Second)
	hooks := false
	for _, e := range probe.Events {
		if e.Kind == "hook" && e.Point == "conn.handleSubscribe.accept" {
			hooks = true
		}
	}
	if !hooks {
		fmt.Println("graphql/server.go has no verifhook call sites (or was not built with -tags verif): apply patches/C17-hooks.patch; the history of the connection cannot be observed")
		os.Exit(3)
	}

	outs := make([]*caseOut, len(cases))
	var lost int32
	workers := 6
	// reactive.WriteThenReadDelay is a package variable: the cases are run in groups of equal delay
	delays := map[int][]int{}
	var delayKeys []int
	for i, c := range cases {
		if _, ok := delays[c.DelayMs]; !ok {
			delayKeys = append(delayKeys, c.DelayMs)
		}
		delays[c.DelayMs] = append(delays[c.DelayMs], i)
	}
	sort.Ints(delayKeys)
	for _, dk := range delayKeys {
		reactive.WriteThenReadDelay = time.Duration(dk) * time.Millisecond
		var wg sync.WaitGroup
		next := make(chan int, len(cases))
		for _, i := range delays[dk] {
			next <- i
		}
		close(next)
		for w := 0; w < workers; w++ {
			wg.Add(1)
			go func() {
				defer wg.Done()
				for i := range next {
					co := &caseOut{}
					func() {
						defer func() {
							if e := recover(); e != nil {
								co.res = &Result{Case: cases[i]}
								co.fs = append(co.fs, Finding{"harness-panic", fmt.Sprint(e)})
							}
						}()
						to := timeout
						if n := atomic.LoadInt32(&lost); n >= 8 {
							// the connection hangs again and again: the verdict is settled, do not spend the time
							co.res = &Result{Case: cases[i]}
							co.skipped = true
							return
						} else if n >= 3 {
							to = 2 * time.Second
						}
						co.res = RunCase(cases[i], to)
						stalled := func(r *Result) bool {
							for _, p := range r.Problems {
								if p.Sig == "harness-wait-timeout" {
									return true
								}
							}
							return false
						}
						if stalled(co.res) && atomic.LoadInt32(&lost) < 3 {
							// A wait that times out is reported as a failure only if it does so twice: the case is
							// played once more on a fresh connection.  (Seen once in ~30 000 cases on a loaded box and
							// never reproduced; a deadlock caused by the code under test reproduces and is reported,
							// with the goroutines that were inside thunder.)  Counted in the histogram either way.
							first := co.res
							co.stalls = 1
							co.res = RunCase(cases[i], to)
							if stalled(co.res) {
								co.stalls = 2
								atomic.AddInt32(&lost, 1)
							} else {
								co.stallDetail = first.Problems[0].Detail
							}
						} else if stalled(co.res) {
							atomic.AddInt32(&lost, 1)
						}
						judge := func(r *Result) []Finding {
							if prop == "C17" {
								return OracleC17(r)
							}
							return OracleC02(r)
						}
						co.fs = judge(co.res)
						if co.res.IdleSettled && len(co.fs) > 0 {
							// a quiescent point was taken by the two-seconds-of-silence rule: what it shows is reported only
							// if the case shows it again when played once more
							co.idle = 1
							second := RunCase(cases[i], to)
							if fs2 := judge(second); len(fs2) > 0 {
								co.idle = 2
								co.res, co.fs = second, fs2
							} else {
								co.res, co.fs = second, nil
							}
						}
						co.trace = BuildTrace(co.res)
					}()
					outs[i] = co
				}
			}()
		}
		wg.Wait()
	}
	reactive.WriteThenReadDelay = 0

	// merge.ts client: one node process for all streams
	type key struct{ c, g int }
	var keys []key
	var streams [][]interface{}
	for i, co := range outs {
		if co.trace == nil {
			continue
		}
		var gens []int
		for g := range co.trace.Streams {
			gens = append(gens, g)
		}
		sort.Ints(gens)
		for _, g := range gens {
			keys = append(keys, key{i, g})
			streams = append(streams, co.trace.Streams[g])
		}
	}
	jsStates := map[key][]interface{}{}
	if len(streams) > 0 {
		states, errs, err := FoldJS(o.Out, o.Repo, streams)
		if err != nil {
			run.Fail(-1, "js-runner-failed", err.Error(), nil)
		} else {
			for k, kk := range keys {
				if errs[k] != "" {
					if prop == "C02" {
						run.Fail(kk.c, "c02-js-client-merge-error", errs[k], cases[kk.c])
					}
					continue
				}
				jsStates[kk] = states[k]
			}
		}
	}

	const shard = 60
	var terms []string
	start := 0
	flush := func() {
		if len(terms) == 0 {
			return
		}
		run.WriteCasesV(fmt.Sprintf("cases_%d.v", start), []string{"Lib.Json", "DiffMerge.Model", "Server.Model", "Server.Release", "Server.Queries", "Server.Iface", "Server.Check"}, "", "mismatches_from_sparse", 0, terms)
		terms = nil
	}
	for idx, co := range outs {
		c := cases[idx]
		run.LogCase(idx, c)
		if co.skipped {
			run.Hist("harness:skipped-after-repeated-timeouts")
			continue
		}
		for _, f := range co.fs {
			run.Fail(idx, f.Sig, f.Detail, c)
		}
		if co.idle == 1 {
			run.Hist("harness:idle-settled-not-reproduced")
		} else if co.idle == 2 {
			run.Hist("harness:idle-settled-reproduced")
		}
		if co.stalls == 1 {
			run.Hist("harness:wait-timeout-not-reproduced")
			if run.Extra == nil {
				run.Extra = map[string]interface{}{}
			}
			run.Extra[fmt.Sprintf("stall-%d", idx)] = map[string]interface{}{"case": c, "detail": co.stallDetail}
		} else if co.stalls == 2 {
			run.Hist("harness:wait-timeout-reproduced")
		}
		if co.trace == nil {
			continue
		}
		// merge.ts client against the snapshots (C02)
		if prop == "C02" {
			for _, s := range co.res.Snaps {
				st, ok := jsStates[key{idx, s.Gen}]
				if s.Updates <= 0 || !ok {
					continue
				}
				if s.Updates > len(st) {
					run.Fail(idx, "c02-js-client-diverged", fmt.Sprintf("generation %d: %d updates expected, %d seen", s.Gen, s.Updates, len(st)), c)
					continue
				}
				if got := st[s.Updates-1]; !reflect.DeepEqual(got, s.Want) {
					run.Fail(idx, "c02-js-client-diverged", fmt.Sprintf("after op %d generation %d: merge.ts client holds %s, fresh Execute gives %s", s.At, s.Gen, js(got), js(s.Want)), c)
				}
			}
		}
		// statistics
		kinds := map[string]bool{}
		for _, n := range co.trace.Names {
			kinds[n] = true
			run.Hist("label:" + n)
		}
		v := analyze(co.res.Events)
		ended, later := 0, false
		for _, g := range v.gens {
			if g.EndIdx >= 0 {
				ended++
			}
			if g.Updates > 1 {
				later = true
			}
		}
		for _, e := range co.res.Events {
			if e.Kind == "paused" {
				run.Hist("schedule:asynchronous-close-held")
			}
		}
		for _, ct := range closeTasks(co.res.Events) {
			if ct.ClosedGen < 0 {
				run.Hist("schedule:close-task-found-nothing")
			}
		}
		if c.Spawn {
			run.Hist("option:always-spawn-goroutine")
		}
		if c.IntervalMs > 0 {
			run.Hist("option:min-rerun-interval-20-30ms")
		}
		for _, e := range co.res.Events {
			if e.Kind == "rx" && e.Point != "locked" {
				run.Hist("rerunner:" + e.Point)
			}
		}
		// premises of the composed theorems, as far as a case can show them: a subscription that was live, with its
		// client present, at a point where everything had come to rest after a data change (live_convergence); a
		// subscription that ended and whose data changed afterwards (never_computes_after_end: every case, the
		// harness changes everything after the end)
		if later && len(co.res.Snaps) > 0 {
			run.Hist("premise:live-subscription-at-rest-after-change")
		}
		if ended > 0 {
			run.Hist("premise:ended-subscription-then-data-changed")
		}
		run.Hist(fmt.Sprintf("generations:%d", min(len(v.gens), 6)))
		run.Hist("origin:" + strings.SplitN(c.Origin, ":", 2)[0])
		nontrivial := ended > 0 && len(kinds) >= 3
		if prop == "C02" {
			nontrivial = later && len(co.res.Snaps) > 0
		}
		run.Count(js(c), nontrivial)
		if nontrivial {
			run.Sample(map[string]interface{}{"case": c, "labels": co.trace.Summary()})
		}
		if searching {
			continue // oracle only
		}
		// Coq case
		clients := map[int]interface{}{}
		var gens []int
		for g := range co.trace.Streams {
			if st, ok := jsStates[key{idx, g}]; ok && len(st) > 0 {
				clients[g] = st[len(st)-1]
				gens = append(gens, g)
			}
		}
		sort.Ints(gens)
		max := c.Max
		if max <= 0 {
			max = 3
		}
		terms = append(terms, fmt.Sprintf("(%d, %s)", idx, co.trace.CaseTerm(max, clients, gens)))
		if len(terms) >= shard {
			flush()
			start = idx + 1
		}
	}
	flush()
	run.Finish()
}

func min(a, b int) int {
	if a < b {
		return a
	}
	return b
}
