package sqlh

import (
	"fmt"
	"sort"
	"strings"
)

// The harness's own decision of "this filter is answered alike with and without batching, whatever the
// companions and the table contents" (Coq: Sql/ModelExact.v filter_transparent; proved sufficient and
// necessary in Sql/BatchExact.v).  Written from the Go side: per column, the set W of stored values the
// caller's own WHERE atom selects and the set M of stored values whose struct field, coerced and hashed,
// equals the coerced and hashed filter value under Go's ==.  The products over the filter's columns must
// coincide: every column agrees, or both products are empty.

// SV is a stored value in canonical form: K = "null" | "int" | "str" | "bytes" | "float" (Q quarter units).
type SV struct {
	K string
	Z int64
	S string
}

func (s SV) key() string { return fmt.Sprintf("%s|%d|%s", s.K, s.Z, s.S) }

func colClass(c *ColDesc) string { // "int" | "bool" | "float" | "str" | "bytes"
	switch BaseType(c.Ty) {
	case "string", "Label":
		return "str"
	case "bytes":
		return "bytes"
	case "bool":
		return "bool"
	case "float64":
		return "float"
	}
	return "int"
}

func intRange(ty string) (lo, hi int64, hiOpen bool) {
	switch ty {
	case "int8":
		return -128, 127, false
	case "int16":
		return -32768, 32767, false
	case "int32", "Kind":
		return -1 << 31, 1<<31 - 1, false
	case "uint8":
		return 0, 255, false
	case "uint16":
		return 0, 65535, false
	case "uint32":
		return 0, 1<<32 - 1, false
	case "uint", "uint64":
		return 0, 1<<63 - 1, false
	}
	return -1 << 63, 1<<63 - 1, false
}

func nullable(c *ColDesc) bool {
	return strings.HasPrefix(c.Ty, "*") || c.ImplicitNull || BaseType(c.Ty) == "bytes"
}

// Storable: the struct field represents the stored value faithfully (class, range, NULL only where the
// column can hold it, no zero value in an implicitnull column).
func Storable(c *ColDesc, d SV) bool {
	if d.K == "null" {
		return nullable(c)
	}
	zero := (d.K == "int" || d.K == "float") && d.Z == 0 || (d.K == "str" || d.K == "bytes") && d.S == ""
	if c.ImplicitNull && zero {
		return false
	}
	switch colClass(c) {
	case "int":
		lo, hi, _ := intRange(BaseType(c.Ty))
		return d.K == "int" && d.Z >= lo && d.Z <= hi
	case "bool":
		return d.K == "int" && (d.Z == 0 || d.Z == 1)
	case "float":
		return d.K == "float"
	case "str":
		return d.K == "str"
	}
	return d.K == "bytes"
}

// serialized: what the column's Valuer sends for the filter value: kind "null" | "num" (quarter units) | "text".
// A non-nil pointer stands for the value it points to (internal/fields/sql.go dereferences it first for a
// column that is not a pointer; a pointer column is never implicitnull, so one rule covers both).
func serialized(c *ColDesc, v GV) (kind string, q int64, s string) {
	if v.T == "ptr" {
		v = *v.Elem
		if v.T == "ptr" {
			return "null", 0, ""
		}
	}
	switch v.T {
	case "nil", "nilptr", "nilbytes":
		return "null", 0, ""
	case "Shifted", "Loud":
		return serializedScalar(v)
	}
	if c.ImplicitNull && IsZeroGV(v) {
		return "null", 0, ""
	}
	return serializedScalar(v)
}

func serializedScalar(v GV) (string, int64, string) {
	switch v.T {
	case "string", "Label", "bytes":
		return "text", 0, v.S
	case "Loud":
		return "text", 0, v.S + "!"
	case "bool":
		if v.B {
			return "num", 4, ""
		}
		return "num", 0, ""
	case "float64":
		return "num", v.Q, ""
	case "Shifted":
		return "num", 4 * (v.Z + 1), ""
	case "nil", "nilptr", "nilbytes", "ptr":
		return "null", 0, ""
	}
	return "num", 4 * v.Z, ""
}

// WSet: the storable values the caller's own atom selects; comparable=false when MySQL would compare the
// value with the column in a way the model does not describe (text against a numeric column, ...).
func WSet(c *ColDesc, v GV) (set []SV, comparable bool) {
	kind, q, s := serialized(c, v)
	var d SV
	switch kind {
	case "null":
		d = SV{K: "null"}
	case "num":
		switch colClass(c) {
		case "int", "bool":
			if q%4 != 0 {
				return nil, true
			}
			d = SV{K: "int", Z: q / 4}
		case "float":
			d = SV{K: "float", Z: q}
		default:
			return nil, false
		}
	case "text":
		switch colClass(c) {
		case "str":
			d = SV{K: "str", S: s}
		case "bytes":
			d = SV{K: "bytes", S: s}
		default:
			return nil, false
		}
	}
	if Storable(c, d) {
		return []SV{d}, true
	}
	return nil, true
}

// hashedType: the Go type and payload of the filter value after coerce and MakeHashable ("" = nil interface).
func hashed(v GV) (ty string, z int64, s string) {
	switch v.T {
	case "nil", "nilptr":
		return "", 0, ""
	case "ptr":
		e := *v.Elem
		if e.T == "ptr" || e.T == "nil" || e.T == "nilptr" {
			return "?", 0, ""
		}
		return hashed(e)
	case "bytes":
		return "string", 0, v.S
	case "nilbytes":
		return "string", 0, ""
	case "string", "Label", "Loud":
		return v.T, 0, v.S
	case "bool":
		if v.B {
			return "bool", 1, ""
		}
		return "bool", 0, ""
	case "float64":
		return "float64", v.Q, ""
	}
	return v.T, v.Z, ""
}

// driverKind: the Go kind of the driver value the Valuer produces for a (non-NULL) scalar.
func driverKind(v GV) string {
	switch v.T {
	case "string", "Label", "Loud":
		return "string"
	case "bytes":
		return "bytes"
	case "bool":
		return "bool"
	case "float64":
		return "float"
	}
	return "int"
}

// TSet: the storable values the row tester of the repaired batch function (C10-fix-2) accepts for the filter
// value: both sides serialized by the column's Valuer and compared by driverValuesEqual, i.e. same Go kind of
// driver value and same value.
func TSet(c *ColDesc, v GV) []SV {
	kind, q, s := serialized(c, v)
	var d SV
	switch kind {
	case "null":
		d = SV{K: "null"}
	default:
		u := v
		if u.T == "ptr" {
			u = *u.Elem
		}
		dk := driverKind(u)
		switch colClass(c) { // what a stored value of the column serializes to after the round trip through the field
		case "int":
			if dk != "int" {
				return nil
			}
			d = SV{K: "int", Z: q / 4}
		case "bool":
			if dk != "bool" {
				return nil
			}
			d = SV{K: "int", Z: q / 4}
		case "float":
			if dk != "float" {
				return nil
			}
			d = SV{K: "float", Z: q}
		case "str":
			if dk != "string" {
				return nil
			}
			d = SV{K: "str", S: s}
		default:
			if dk != "bytes" {
				return nil
			}
			d = SV{K: "bytes", S: s}
		}
	}
	if Storable(c, d) {
		return []SV{d}
	}
	return nil
}

func inter(a, b []SV) []SV {
	var out []SV
	for _, x := range a {
		for _, y := range b {
			if x.key() == y.key() {
				out = append(out, x)
				break
			}
		}
	}
	return out
}

// Fixed says whether the tree under test has C10-fix-2 (the batch function asks the row tester); set once
// per run from MatcherAsksTester.  The sets and predicates below describe the tree as it is.
var Fixed bool

// MSet: the storable values the batch function hands over for the filter value (matcher; and tester if Fixed).
func MSet(c *ColDesc, v GV) []SV {
	m := matcherSet(c, v)
	if Fixed {
		return inter(m, TSet(c, v))
	}
	return m
}

// matcherSet: the storable values the matcher associates with the filter value.
func matcherSet(c *ColDesc, v GV) []SV {
	ty, z, s := hashed(v)
	ptr := strings.HasPrefix(c.Ty, "*")
	if ty == "" {
		if ptr {
			return []SV{{K: "null"}}
		}
		return nil
	}
	fieldTy := BaseType(c.Ty)
	if fieldTy == "bytes" {
		fieldTy = "string" // MakeHashable
	}
	if ty != fieldTy {
		return nil
	}
	var d SV
	zero := false
	switch colClass(c) {
	case "int", "bool":
		d, zero = SV{K: "int", Z: z}, z == 0
	case "float":
		d, zero = SV{K: "float", Z: z}, z == 0
	case "str":
		d, zero = SV{K: "str", S: s}, s == ""
	case "bytes":
		d, zero = SV{K: "bytes", S: s}, s == ""
	}
	var out []SV
	if Storable(c, d) {
		out = append(out, d)
	}
	if zero && !ptr && nullable(c) { // a NULL scans into the zero value of a non-pointer field
		out = append(out, SV{K: "null"})
	}
	return out
}

func sameSet(a, b []SV) bool {
	ka, kb := []string{}, []string{}
	for _, x := range a {
		ka = append(ka, x.key())
	}
	for _, x := range b {
		kb = append(kb, x.key())
	}
	sort.Strings(ka)
	sort.Strings(kb)
	return strings.Join(ka, ";") == strings.Join(kb, ";")
}

func minus(a, b []SV) []SV {
	var out []SV
	for _, x := range a {
		in := false
		for _, y := range b {
			if x.key() == y.key() {
				in = true
			}
		}
		if !in {
			out = append(out, x)
		}
	}
	return out
}

// Transparent: (every value is comparable, the filter is transparent).
func Transparent(t *TableDesc, f Filter) (comparable, transparent bool) {
	comparable = true
	agree, wEmpty, mEmpty := true, false, false
	for k, v := range f {
		c := t.Col(k)
		if c == nil {
			continue // refused before any query is made
		}
		w, cmp := WSet(c, v)
		if !cmp {
			comparable = false
		}
		m := MSet(c, v)
		if !sameSet(w, m) {
			agree = false
		}
		wEmpty = wEmpty || len(w) == 0
		mEmpty = mEmpty || len(m) == 0
	}
	return comparable, comparable && (agree || (wEmpty && mEmpty))
}

func defaultStored(c *ColDesc) SV {
	if nullable(c) {
		return SV{K: "null"}
	}
	switch colClass(c) {
	case "str":
		return SV{K: "str"}
	case "float":
		return SV{K: "float"}
	}
	return SV{K: "int"}
}

// SeparatingRow: for a comparable filter that is not transparent, one stored row on which the matcher and
// the caller's own WHERE clause disagree (columns in table order); ok=false if the filter is transparent.
func SeparatingRow(t *TableDesc, f Filter) (row []SV, ok bool) {
	if cmp, tr := Transparent(t, f); !cmp || tr {
		return nil, false
	}
	// try "matcher accepts, WHERE refuses", then the converse
	for _, matcherSide := range []bool{true, false} {
		row = make([]SV, len(t.Cols))
		valid, separated := true, false
		for i := range t.Cols {
			c := &t.Cols[i]
			v, has := f[c.Name]
			if !has {
				row[i] = defaultStored(c)
				continue
			}
			w, _ := WSet(c, v)
			m := MSet(c, v)
			p, q := m, w
			if !matcherSide {
				p, q = w, m
			}
			if len(p) == 0 {
				valid = false
				break
			}
			if d := minus(p, q); len(d) > 0 {
				row[i] = d[0]
				separated = true
			} else {
				row[i] = p[0]
			}
			if len(q) == 0 {
				separated = true
			}
		}
		if valid && separated {
			return row, true
		}
	}
	return nil, false
}
