package sqlh

import (
	"go/ast"
	"go/parser"
	"go/token"
	"path/filepath"
	"sort"
	"strings"
)

// The exported methods of sqlgen.DB as the source of the tree under test shows them (go/ast; nothing is
// executed or type-checked): for each, whether it can reach a query call, an exec call, a transaction begin --
// transitively through the functions and methods of package sqlgen, resolved by name only.  Sinks are the
// database/sql calls by selector name; Invoke (the batch function) is a query.  The same extraction as
// tools/gensqlmethods (which writes the snapshot coq/theories/Gen/DbMethods.v); here it is done per run, on the
// run's own tree, and handed to the evaluator inside the run's directory.
var querySinks = map[string]bool{"QueryContext": true, "QueryRowContext": true, "PrepareContext": true, "Prepare": true, "Invoke": true}
var execSinks = map[string]bool{"ExecContext": true, "Exec": true}
var txSinks = map[string]bool{"BeginTx": true, "Begin": true}

type fn struct {
	calls map[string]bool
}

func recvName(fd *ast.FuncDecl) string {
	if fd.Recv == nil || len(fd.Recv.List) == 0 {
		return ""
	}
	t := fd.Recv.List[0].Type
	if s, ok := t.(*ast.StarExpr); ok {
		t = s.X
	}
	if id, ok := t.(*ast.Ident); ok {
		return id.Name
	}
	return ""
}


// MethodRow is one exported method of DB with the kinds of database call it can reach.
type MethodRow struct {
	Name            string
	Query, Exec, Tx bool
}

// ExtractDBMethods reads repo/sqlgen/*.go (no tests).
func ExtractDBMethods(repo string) (rows []MethodRow, problem string) {
	dir := filepath.Join(repo, "sqlgen")
	fset := token.NewFileSet()
	byName := map[string][]*fn{}
	var dbMethods []string
	dbFn := map[string]*fn{}
	files, err := filepath.Glob(filepath.Join(dir, "*.go"))
	if err != nil || len(files) == 0 {
		return nil, "no Go files in " + dir
	}
	sort.Strings(files)
	for _, path := range files {
		if strings.HasSuffix(path, "_test.go") {
			continue
		}
		f, err := parser.ParseFile(fset, path, nil, 0)
		if err != nil {
			problem = "cannot parse " + path + ": " + err.Error()
			continue
		}
		if f.Name.Name != "sqlgen" {
			continue
		}
		for _, d := range f.Decls {
			fd, ok := d.(*ast.FuncDecl)
			if !ok || fd.Body == nil {
				continue
			}
			x := &fn{calls: map[string]bool{}}
			ast.Inspect(fd.Body, func(n ast.Node) bool {
				if c, ok := n.(*ast.CallExpr); ok {
					switch f := c.Fun.(type) {
					case *ast.Ident:
						x.calls[f.Name] = true
					case *ast.SelectorExpr:
						x.calls[f.Sel.Name] = true
					}
				}
				return true
			})
			byName[fd.Name.Name] = append(byName[fd.Name.Name], x)
			if recvName(fd) == "DB" && ast.IsExported(fd.Name.Name) {
				if _, dup := dbFn[fd.Name.Name]; dup {
					problem = "method DB." + fd.Name.Name + " declared twice"
				}
				dbMethods = append(dbMethods, fd.Name.Name)
				dbFn[fd.Name.Name] = x
			}
		}
	}
	if len(dbMethods) == 0 && problem == "" {
		problem = "no exported method of DB found in " + dir
	}
	sort.Strings(dbMethods)
	for _, m := range dbMethods {
		var q, e, t bool
		seen := map[*fn]bool{}
		var walk func(x *fn)
		walk = func(x *fn) {
			if seen[x] {
				return
			}
			seen[x] = true
			for name := range x.calls {
				targets := byName[name]
				if len(targets) == 0 {
					q = q || querySinks[name]
					e = e || execSinks[name]
					t = t || txSinks[name]
					continue
				}
				for _, y := range targets {
					walk(y)
				}
			}
		}
		walk(dbFn[m])
		rows = append(rows, MethodRow{m, q, e, t})
	}
	return rows, problem
}
