package sqlh

import (
	"context"
	"database/sql"
	"database/sql/driver"
	"fmt"
	"reflect"
	"strings"
	"sync"
	"time"

	"github.com/samsarahq/thunder/batch"
	"github.com/samsarahq/thunder/sqlgen"
	"verifharness/pkg/fakesql"
	"verifharness/pkg/vh"
)

// Handle describes how the sqlgen.DB handle of a case is restricted.
type Handle struct {
	Shard       Filter `json:"shard"`        // nil = no WithShardLimit
	HasDyn      bool   `json:"has_dyn"`      // WithDynamicLimit called
	Dyn         Filter `json:"dyn"`          // what GetLimitFilter returns (nil = returns nil)
	DynCb       bool   `json:"dyn_cb"`       // ShouldContinueOnError is set
	DynContinue bool   `json:"dyn_continue"` // its answer
}

// Enforced returns the limits the handle must enforce (shard limit; dynamic limit whose callback rejects).
func (h Handle) Enforced() []Filter {
	var out []Filter
	if h.Shard != nil {
		out = append(out, h.Shard)
	}
	if h.HasDyn && h.Dyn != nil && h.DynCb && !h.DynContinue {
		out = append(out, h.Dyn)
	}
	return out
}

func coqOptFilter(f Filter, some bool) string {
	if !some {
		return "None"
	}
	return "(Some " + f.Coq() + ")"
}

func (h Handle) Coq() string {
	return fmt.Sprintf("(mk_handle %s %s %s %s)", coqOptFilter(h.Shard, h.Shard != nil),
		coqOptFilter(h.Dyn, h.HasDyn && h.Dyn != nil), vh.CoqBool(h.HasDyn && h.DynCb), vh.CoqBool(h.DynContinue))
}

// Opts describes sqlgen.SelectOptions (Values are int64).
type Opts struct {
	Where        string   `json:"where"`
	Values       []int64  `json:"values"`
	OrderBy      string   `json:"order_by"`
	Limit        int      `json:"limit"`
	ForUpdate    bool     `json:"for_update"`
	AllowNoIndex bool     `json:"allow_no_index,omitempty"` // only matters to the EXPLAIN check; not part of the statement
	ForceIdx     []string `json:"force_index,omitempty"`
	UseIdx       []string `json:"use_index,omitempty"`
}

func (o *Opts) Go() *sqlgen.SelectOptions {
	if o == nil {
		return nil
	}
	so := &sqlgen.SelectOptions{Where: o.Where, OrderBy: o.OrderBy, Limit: o.Limit, ForUpdate: o.ForUpdate, AllowNoIndex: o.AllowNoIndex,
		ForceIndex: append([]string{}, o.ForceIdx...), UseIndex: append([]string{}, o.UseIdx...)}
	for _, v := range o.Values {
		so.Values = append(so.Values, v)
	}
	return so
}

func (o *Opts) Coq() string {
	if o == nil {
		return "None"
	}
	vs := make([]string, len(o.Values))
	for i, v := range o.Values {
		vs[i] = "(DInt " + vh.CoqZ(v) + ")"
	}
	strs := func(xs []string) string {
		ys := make([]string, len(xs))
		for i, x := range xs {
			ys[i] = vh.CoqString(x)
		}
		return vh.CoqList(ys)
	}
	return fmt.Sprintf("(Some (mk_opts %s %s %s %d %s %s %s))", vh.CoqString(o.Where), vh.CoqList(vs), vh.CoqString(o.OrderBy), o.Limit,
		vh.CoqBool(o.ForUpdate), strs(o.ForceIdx), strs(o.UseIdx))
}

// CoqCall prints the options as the model's copts: the statement part and AllowNoIndex.
func (o *Opts) CoqCall() string {
	if o == nil {
		return "None"
	}
	inner := o.Coq() // (Some (mk_opts ...))
	inner = strings.TrimSuffix(strings.TrimPrefix(inner, "(Some "), ")")
	return "(Some (" + inner + ", " + vh.CoqBool(o.AllowNoIndex) + "))"
}

// Step is one With* call in the chain that derives a handle from a fresh DB: Kind "shard" (WithShardLimit
// Filter), "dyn" (WithDynamicLimit: GetLimitFilter answers Filter, nil included; Cb = ShouldContinueOnError
// is set, Cont = its answer), "explain" (WithPanicOnNoIndex).
type Step struct {
	Kind   string `json:"kind"`
	Filter Filter `json:"filter,omitempty"`
	Cb     bool   `json:"cb,omitempty"`
	Cont   bool   `json:"cont,omitempty"`
}

func (s Step) Coq() string {
	switch s.Kind {
	case "shard":
		f := s.Filter
		if f == nil {
			f = Filter{}
		}
		return "(StShard " + f.Coq() + ")"
	case "dyn":
		return fmt.Sprintf("(StDyn %s %s %s)", coqOptFilter(s.Filter, s.Filter != nil), vh.CoqBool(s.Cb), vh.CoqBool(s.Cont))
	}
	return "StExplain"
}

// StepsOf: the chain Restrict performs for a handle description (shard limit first, then the dynamic limit).
func StepsOf(h Handle) []Step {
	var out []Step
	if h.Shard != nil {
		out = append(out, Step{Kind: "shard", Filter: h.Shard})
	}
	if h.HasDyn {
		out = append(out, Step{Kind: "dyn", Filter: h.Dyn, Cb: h.DynCb, Cont: h.DynContinue})
	}
	return out
}

// HandleOf: the harness's own reading of a chain (independent of sqlgen and of the model): the first shard
// limit and the first dynamic limit stay, later ones are refused; explain = WithPanicOnNoIndex was called.
func HandleOf(steps []Step) (h Handle, explain bool, refused []bool) {
	for _, s := range steps {
		switch s.Kind {
		case "shard":
			if h.Shard != nil {
				refused = append(refused, true)
				continue
			}
			h.Shard = s.Filter
			if h.Shard == nil {
				h.Shard = Filter{}
			}
		case "dyn":
			if h.HasDyn {
				refused = append(refused, true)
				continue
			}
			h.HasDyn, h.Dyn, h.DynCb, h.DynContinue = true, s.Filter, s.Cb, s.Cont
		default:
			if explain {
				refused = append(refused, true)
				continue
			}
			explain = true
		}
		refused = append(refused, false)
	}
	return
}

// Derive applies the chain to the environment's base DB; refused[i] says that call i returned an error
// (the handle then stays as it was).
func (e *Env) Derive(steps []Step) (db *sqlgen.DB, refused []bool) {
	db = e.Base
	for _, s := range steps {
		var next *sqlgen.DB
		var err error
		switch s.Kind {
		case "shard":
			f := s.Filter
			if f == nil {
				f = Filter{}
			}
			next, err = db.WithShardLimit(f.Go(e.Pool))
		case "dyn":
			var dynF sqlgen.Filter
			if s.Filter != nil {
				dynF = s.Filter.Go(e.Pool)
			}
			dl := sqlgen.DynamicLimit{GetLimitFilter: func(context.Context, string) sqlgen.Filter { return dynF }}
			if s.Cb {
				cont := s.Cont
				dl.ShouldContinueOnError = func(error, string) bool { return cont }
			}
			next, err = db.WithDynamicLimit(dl)
		default:
			next, err = db.WithPanicOnNoIndex()
		}
		if err != nil || next == nil {
			refused = append(refused, true)
			continue
		}
		refused = append(refused, false)
		db = next
	}
	return db, refused
}

// DeriveOne makes one With* call on db and drops the derived handle: only whether it is refused matters.
// (WithPanicOnNoIndex changes db itself: the caller does this last.)
func DeriveOne(db *sqlgen.DB, s Step, pool Pool) error {
	var err error
	switch s.Kind {
	case "shard":
		f := s.Filter
		if f == nil {
			f = Filter{}
		}
		_, err = db.WithShardLimit(f.Go(pool))
	case "dyn":
		var dynF sqlgen.Filter
		if s.Filter != nil {
			dynF = s.Filter.Go(pool)
		}
		dl := sqlgen.DynamicLimit{GetLimitFilter: func(context.Context, string) sqlgen.Filter { return dynF }}
		if s.Cb {
			cont := s.Cont
			dl.ShouldContinueOnError = func(error, string) bool { return cont }
		}
		_, err = db.WithDynamicLimit(dl)
	default:
		_, err = db.WithPanicOnNoIndex()
	}
	return err
}

// MatcherAsksTester probes the tree under test for C10-fix-2 by calling the batch function directly (no
// timing involved): on a table whose only row has a NULL blob, the queries data = []byte{} and {} (everything)
// are handed to batch.Func.Many together.  The unrepaired matcher hands the NULL row to the first query too
// (MakeHashable turns a nil and an empty slice into the same string); the repaired function does not.
func MatcherAsksTester() (bool, error) {
	env, err := NewEnv(Handle{}, map[string][][]driver.Value{"items": {{int64(1), int64(1), int64(0), "a", nil, nil, float64(0)}}})
	if err != nil {
		return false, err
	}
	defer env.Close()
	bf := BatchFunc(env.DB)
	if bf == nil {
		return false, fmt.Errorf("sqlgen.DB has no batchFetch field")
	}
	t := TableByName("items")
	q0, err := env.DB.Schema.MakeSelect(t.NewResultSlice(), sqlgen.Filter{"data": []byte{}}, nil)
	if err != nil {
		return false, err
	}
	q1, err := env.DB.Schema.MakeSelect(t.NewResultSlice(), sqlgen.Filter{}, nil)
	if err != nil {
		return false, err
	}
	var res []interface{}
	e, p := Safely(func() error {
		var err error
		res, err = bf.Many(context.Background(), []interface{}{q0, q1})
		return err
	})
	if p != "" {
		return false, fmt.Errorf("batch function panicked: %s", p)
	}
	if e != nil {
		return false, e
	}
	if len(res) != 2 {
		return false, fmt.Errorf("batch function answered %d results for 2 queries", len(res))
	}
	all, ok1 := res[1].([]interface{})
	first, ok0 := res[0].([]interface{})
	if !ok0 || !ok1 || len(all) != 1 {
		return false, fmt.Errorf("batch function: unexpected results %v", res)
	}
	return len(first) == 0, nil
}

// Env is one fake server with the catalogue and a restricted sqlgen handle.
type Env struct {
	Srv  *fakesql.Server
	Base *sqlgen.DB // unrestricted
	DB   *sqlgen.DB // restricted per Handle
	Pool Pool
	conn *sql.DB
}

// NewEnv builds the environment.  contents are loaded directly (not logged).
func NewEnv(h Handle, contents map[string][][]driver.Value) (*Env, error) {
	e := &Env{Srv: NewServer(), Pool: Pool{}}
	for t, rows := range contents {
		for _, r := range rows {
			e.Srv.Insert(t, r)
		}
	}
	e.conn = e.Srv.DB()
	e.Base = sqlgen.NewDB(e.conn, NewSchema())
	db, err := e.Restrict(h)
	if err != nil {
		return nil, err
	}
	e.DB = db
	return e, nil
}

// Restrict derives a handle from the environment's base DB (all derived handles share its batch function).
func (e *Env) Restrict(h Handle) (*sqlgen.DB, error) {
	db := e.Base
	var err error
	if h.Shard != nil {
		if db, err = db.WithShardLimit(h.Shard.Go(e.Pool)); err != nil {
			return nil, err
		}
	}
	if h.HasDyn {
		var dynF sqlgen.Filter
		if h.Dyn != nil {
			dynF = h.Dyn.Go(e.Pool)
		}
		dl := sqlgen.DynamicLimit{GetLimitFilter: func(context.Context, string) sqlgen.Filter { return dynF }}
		if h.DynCb {
			cont := h.DynContinue
			dl.ShouldContinueOnError = func(error, string) bool { return cont }
		}
		if db, err = db.WithDynamicLimit(dl); err != nil {
			return nil, err
		}
	}
	return db, nil
}

// Begin opens a transaction on the environment's connection pool directly (not through sqlgen).
func (e *Env) Begin() (*sql.Tx, error) { return e.conn.Begin() }

func (e *Env) Close() {
	e.conn.Close()
	e.Srv.Close()
}

// Outcome classes (the model's [outcome]): 0 proceeds, 1 rejected by a limit check, 2 bad input; 3 panic
// (never expected: "returns an error" is what the property asks of a call that does not comply).
const (
	Proceeds = 0
	Rejected = 1
	BadInput = 2
	Panicked = 3
)

// Classify maps the error (or panic text) of a DB method to an outcome class.  stmtFailed says whether the
// server answered one of the call's statements with an error; dbErr reports that the error came from the
// database after a statement was issued.  An error that is neither a bad-input error nor a database error
// is a rejection: the class does not depend on the wording of the limit-check messages.
func Classify(err error, panicText string, stmtFailed bool) (class int, dbErr bool) {
	if panicText != "" {
		return Panicked, false
	}
	if err == nil {
		return Proceeds, false
	}
	m := err.Error()
	switch {
	case strings.Contains(m, "unknown column"), strings.Contains(m, "only supports unique value primary keys"),
		strings.Contains(m, "an empty list of rows given"):
		return BadInput, false
	case err == sql.ErrNoRows, strings.Contains(m, "expected no more than 1 result"):
		return Proceeds, false
	case stmtFailed:
		return Proceeds, true
	}
	return Rejected, false
}

// AnyFailed says whether the server answered a statement of the log with an error.
func AnyFailed(log []fakesql.Entry) bool {
	for _, e := range log {
		if e.Err != "" {
			return true
		}
	}
	return false
}

// Safely runs f, turning a panic into text.
func Safely(f func() error) (err error, panicText string) {
	defer func() {
		if p := recover(); p != nil {
			panicText = fmt.Sprint(p)
		}
	}()
	return f(), ""
}

// CoqEvents prints the log entries as observed events of the model (obs_event list).  ok=false if an
// argument lies outside the model.
func CoqEvents(log []fakesql.Entry) (string, bool) {
	var xs []string
	for _, e := range log {
		switch e.Kind {
		case "begin":
			xs = append(xs, "OBegin")
		case "commit":
			xs = append(xs, "OCommit")
		case "rollback":
			xs = append(xs, "ORollback")
		default:
			a, ok := CoqDvals(e.Args)
			if !ok {
				return "", false
			}
			xs = append(xs, "(OStmt "+vh.CoqString(e.SQL)+" "+a+")")
		}
	}
	return vh.CoqList(xs), true
}

// BatchResult is what RunBatched observed.
type BatchResult struct {
	Arrival [][]int         // per invocation of the batch function: the callers it combined, in order
	Errs    []error         // per caller
	Panics  []string        // per caller
	Rows    [][]interface{} // per caller: the []*T it received (nil on error)
	NoHook  bool            // the batch function could not be reached (field renamed?)
}

// RunBatched runs one DB.Query per filter concurrently under batch.WithBatching on db and reports which
// callers each invocation of the batch function combined.  The batch function is tuned (MaxSize = number
// of callers, long MaxDuration) so that all callers that reach it are normally combined into one
// invocation; whatever happens is observed, not assumed.
func RunBatched(db *sqlgen.DB, t *TableDesc, filters []sqlgen.Filter) *BatchResult {
	dbs := make([]*sqlgen.DB, len(filters))
	for i := range dbs {
		dbs[i] = db
	}
	return RunBatchedOn(dbs, t, filters)
}

// RunBatchedOn is RunBatched with one handle per caller; the handles must derive from the same DB (they
// share its batch function) and all callers use one batching context.
func RunBatchedOn(dbs []*sqlgen.DB, t *TableDesc, filters []sqlgen.Filter) *BatchResult {
	return RunBatchedCalls(dbs, t, filters, len(filters), nil)
}

// Call is one caller's DB method: it returns the rows it received.
type Call func(ctx context.Context, db *sqlgen.DB, filter sqlgen.Filter) ([]interface{}, error)

// QueryCall is DB.Query(ctx, &rows, filter, opts()) -- opts is called per use, sqlgen modifies the options.
func QueryCall(t *TableDesc, opts func() *sqlgen.SelectOptions) Call {
	return func(ctx context.Context, db *sqlgen.DB, f sqlgen.Filter) ([]interface{}, error) {
		out := t.NewResultSlice()
		if err := db.Query(ctx, out, f, opts()); err != nil {
			return nil, err
		}
		var rows []interface{}
		s := reflect.ValueOf(out).Elem()
		for k := 0; k < s.Len(); k++ {
			rows = append(rows, s.Index(k).Interface())
		}
		return rows, nil
	}
}

// RunBatchedCalls is RunBatchedOn with one method per caller (nil = Query without options); expect is the
// number of callers expected to reach the batch function (used as its MaxSize so that the batch runs as
// soon as they have all arrived; whatever happens is observed).
func RunBatchedCalls(dbs []*sqlgen.DB, t *TableDesc, filters []sqlgen.Filter, expect int, calls []Call) *BatchResult {
	db := dbs[0]
	n := len(filters)
	res := &BatchResult{Errs: make([]error, n), Panics: make([]string, n), Rows: make([][]interface{}, n)}
	bf := BatchFunc(db)
	if bf == nil {
		res.NoHook = true
		return res
	}
	ids := map[uintptr]int{}
	for i, f := range filters {
		ids[reflect.ValueOf(f).Pointer()] = i
	}
	var mu sync.Mutex
	origMany, origMax, origWait, origDur := bf.Many, bf.MaxSize, bf.WaitInterval, bf.MaxDuration
	bf.Many = func(ctx context.Context, items []interface{}) ([]interface{}, error) {
		var who []int
		for _, it := range items {
			i := -1
			if q, ok := it.(*sqlgen.BaseSelectQuery); ok {
				if k, ok := ids[reflect.ValueOf(q.Filter).Pointer()]; ok {
					i = k
				}
			}
			who = append(who, i)
		}
		// Invocations are serialised so that the order of the recorded invocations is the order of the
		// statements in the server log even if the callers were split into several batches.
		mu.Lock()
		defer mu.Unlock()
		res.Arrival = append(res.Arrival, who)
		return origMany(ctx, items)
	}
	if expect < 1 {
		expect = 1
	}
	bf.MaxSize, bf.WaitInterval, bf.MaxDuration = expect, 40*time.Millisecond, 3*time.Second
	defer func() { bf.Many, bf.MaxSize, bf.WaitInterval, bf.MaxDuration = origMany, origMax, origWait, origDur }()

	ctx := batch.WithBatching(context.Background())
	var wg sync.WaitGroup
	for i := range filters {
		wg.Add(1)
		go func(i int) {
			defer wg.Done()
			call := QueryCall(t, func() *sqlgen.SelectOptions { return nil })
			if calls != nil && calls[i] != nil {
				call = calls[i]
			}
			var rows []interface{}
			res.Errs[i], res.Panics[i] = Safely(func() error {
				var err error
				rows, err = call(ctx, dbs[i], filters[i])
				return err
			})
			if res.Errs[i] == nil && res.Panics[i] == "" {
				res.Rows[i] = rows
			}
		}(i)
	}
	done := make(chan struct{})
	go func() { wg.Wait(); close(done) }()
	select {
	case <-done:
	case <-time.After(20 * time.Second):
		for i := range res.Errs {
			if res.Errs[i] == nil && res.Panics[i] == "" && res.Rows[i] == nil {
				res.Panics[i] = "harness: caller still blocked after 20s"
			}
		}
	}
	return res
}

// CoqArrival prints [[0;2];[1]].
func CoqArrival(a [][]int) string {
	xs := make([]string, len(a))
	for i, b := range a {
		ys := make([]string, len(b))
		for j, k := range b {
			ys[j] = fmt.Sprint(k)
		}
		xs[i] = vh.CoqList(ys)
	}
	return vh.CoqList(xs)
}
