package sqlh

import (
	"strings"

	"verifharness/pkg/vh"
)

// Gen generates Go values; all randomness comes from R.
type Gen struct {
	R    *vh.Rng
	Addr int
}

func (g *Gen) NewAddr() int { g.Addr++; return g.Addr }

var SmallStrings = []string{"a", "b", "bob", "", "x y", "Ab", "1", "a2"}

// scalar makes a value of Go type ty with a small payload.
func (g *Gen) Scalar(ty string) GV {
	switch ty {
	case "string", "Label":
		return GV{T: ty, S: g.R.Pick(SmallStrings)}
	case "bool":
		return GV{T: ty, B: g.R.Bool()}
	case "float64":
		return GV{T: ty, Q: int64(g.R.Intn(9) - 2)}
	case "bytes":
		return GV{T: ty, S: g.R.Pick(SmallStrings)}
	}
	z := int64(g.R.Intn(5))
	if g.R.Chance(10) && !strings.HasPrefix(ty, "uint") {
		z = -z
	}
	return GV{T: ty, Z: z}
}

// fieldValue makes a value of exactly the column's field type.
func (g *Gen) FieldValue(c *ColDesc) GV {
	if strings.HasPrefix(c.Ty, "*") {
		if g.R.Chance(30) {
			return GV{T: "nilptr", PT: c.Ty[1:]}
		}
		e := g.Scalar(c.Ty[1:])
		return GV{T: "ptr", Addr: g.NewAddr(), Elem: &e}
	}
	if c.Ty == "bytes" && g.R.Chance(20) {
		return GV{T: "nilbytes"}
	}
	return g.Scalar(c.Ty)
}

func BaseType(ty string) string { return strings.TrimPrefix(ty, "*") }

// driverTyped: the type a driver value of this column has in Go (what a write check compares with).
func DriverType(c *ColDesc) string {
	switch BaseType(c.Ty) {
	case "string", "Label":
		return "string"
	case "bool":
		return "bool"
	case "float64":
		return "float64"
	case "bytes":
		return "bytes"
	}
	return "int64"
}

var intTypes = []string{"int", "int8", "int16", "int32", "int64", "uint", "uint8", "uint16", "uint32", "uint64", "Kind"}

// retype returns a value denoting the same column value with another Go type.
func (g *Gen) Retype(v GV) GV {
	switch v.T {
	case "ptr":
		if g.R.Bool() {
			return *v.Elem
		}
		e := *v.Elem
		return GV{T: "ptr", Addr: g.NewAddr(), Elem: &e} // same content, another pointer
	case "nilbytes":
		return GV{T: "nil"}
	case "nil":
		return GV{T: "nilptr", PT: "int64"}
	case "nilptr":
		return GV{T: "nil"}
	case "string":
		if g.R.Bool() {
			return GV{T: "Label", S: v.S}
		}
		return GV{T: "bytes", S: v.S}
	case "Label":
		return GV{T: "string", S: v.S}
	case "bytes":
		return GV{T: "string", S: v.S}
	case "bool", "float64":
		e := v
		return GV{T: "ptr", Addr: g.NewAddr(), Elem: &e}
	}
	if g.R.Chance(25) {
		e := v
		return GV{T: "ptr", Addr: g.NewAddr(), Elem: &e}
	}
	for {
		t := intTypes[g.R.Intn(len(intTypes))]
		if t != v.T && !(strings.HasPrefix(t, "uint") && v.Z < 0) {
			return GV{T: t, Z: v.Z}
		}
	}
}

// other returns a value of the same type denoting another column value.
func (g *Gen) Other(v GV) GV {
	switch v.T {
	case "ptr":
		e := g.Other(*v.Elem)
		return GV{T: "ptr", Addr: g.NewAddr(), Elem: &e}
	case "nilbytes":
		if g.R.Bool() {
			return GV{T: "bytes"} // empty, not nil: '' rather than NULL
		}
		return GV{T: "bytes", S: "z"}
	case "nil", "nilptr":
		return GV{T: "int64", Z: 7}
	case "string", "Label", "bytes":
		return GV{T: v.T, S: v.S + "z"}
	case "bool":
		return GV{T: v.T, B: !v.B}
	case "float64":
		return GV{T: v.T, Q: v.Q + 1}
	}
	return GV{T: v.T, Z: v.Z + 1 + int64(g.R.Intn(3))}
}
