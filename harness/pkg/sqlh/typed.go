package sqlh

// IsZeroGV: isZero of internal/fields on the described value.
func IsZeroGV(v GV) bool {
	switch v.T {
	case "string", "Label", "bytes", "Loud":
		return v.S == "" && v.T != "bytes"
	case "bool":
		return !v.B
	case "float64":
		return v.Q == 0
	case "nil", "nilptr", "nilbytes":
		return true
	case "ptr":
		return false
	}
	return v.Z == 0
}

// ExactlyTyped: the filter value has the Go type of the column's struct field (or is a pointer to it, or
// nil for a column that is not implicitnull).  Its negation is the known finding c10-batch-matcher-go-type.
func ExactlyTyped(c *ColDesc, v GV) bool {
	bt := BaseType(c.Ty)
	switch v.T {
	case "nil", "nilptr":
		// nil on a []byte column: the NULL scans into a nil slice, which MakeHashable turns into ""
		return !c.ImplicitNull && bt != "bytes"
	case "nilbytes":
		return false // hashed as "", like an empty slice
	case "ptr":
		return v.Elem.T == bt && !(c.ImplicitNull && IsZeroGV(*v.Elem)) && !(bt == "bytes" && v.Elem.S == "")
	case "bytes":
		return bt == "bytes" && v.S != "" // an empty []byte is hashed like a NULL one
	}
	return v.T == bt
}
