// Package sqlh is shared by the C10 and C12 harnesses: the table catalogue (Go struct types registered
// with sqlgen, their fakesql tables and their description as Coq terms of Thunder.Sql.Model), a
// JSON-serialisable description of Go values (GV) with a builder of the real Go value and a printer of
// the Coq term, observation of the statements the fake server received, and access to the batch
// function of a sqlgen.DB.
package sqlh

import (
	"database/sql/driver"
	"fmt"
	"reflect"
	"sort"
	"strings"
	"unsafe"

	"github.com/samsarahq/thunder/batch"
	"github.com/samsarahq/thunder/sqlgen"
	"verifharness/pkg/fakesql"
	"verifharness/pkg/vh"
)

// ---- Go struct types of the catalogue ----

type Kind int32
type Label string

// Shifted and Loud are named scalar types that implement driver.Valuer with a Value() that is NOT their
// underlying value: Shifted(7) serializes to 8, Loud("a") to "a!".  As filter / limit values they look like
// int64(7) / "a" to anything that compares underlying values, but the SQL carries what Value() returns.
type Shifted int64

func (s Shifted) Value() (driver.Value, error) { return int64(s) + 1, nil }

type Loud string

func (l Loud) Value() (driver.Value, error) { return string(l) + "!", nil }

// users: auto-increment single primary key; the shard column is an ordinary column.
type User struct {
	Id    int64 `sql:",primary"`
	Shard int64
	Name  string
	Nick  *string
	Age   int32
	Flag  bool
}

// items: composite primary key (shard, id), named types, an implicitnull column, a blob, a float.
type Item struct {
	Shard int64 `sql:",primary"`
	Id    int64 `sql:",primary"`
	Kind  Kind
	Label Label
	Note  string `sql:",implicitnull"`
	Data  []byte
	Score float64
}

// events: string primary key, nullable pointer column, unsigned column.
type Event struct {
	Id    string `sql:",primary"`
	OrgId *int64
	Tag   Label
	Seq   uint32
}

// tags: column names that are concatenations of other column names (name + space = namespace, a + b = ab):
// the sorted names of the column sets {namespace} and {name, space} (and {ab}, {a, b}) concatenate to the same
// text, so only the separator in columnsKey keeps their groups apart.
type Tag struct {
	Id        int64 `sql:",primary"`
	Name      string
	Space     string
	Namespace string
	A         int64
	B         int64
	Ab        int64
}

// ColDesc describes a column to the harness and to the model.
type ColDesc struct {
	Name         string
	Field        string // Go struct field
	Ty           string // Go type of the field: "int64", "int32", "uint32", "string", "*string", "*int64", "Kind", "Label", "bool", "float64", "bytes"
	Primary      bool
	ImplicitNull bool
	SQL          fakesql.ColType
}

// TableDesc describes one table of the catalogue.
type TableDesc struct {
	Name   string
	Auto   bool
	Cols   []ColDesc
	Proto  interface{} // zero struct value
	PtrTyp reflect.Type
}

var Tables = []*TableDesc{
	{Name: "users", Auto: true, Proto: User{}, Cols: []ColDesc{
		{"id", "Id", "int64", true, false, fakesql.Int},
		{"shard", "Shard", "int64", false, false, fakesql.Int},
		{"name", "Name", "string", false, false, fakesql.Text},
		{"nick", "Nick", "*string", false, false, fakesql.Text},
		{"age", "Age", "int32", false, false, fakesql.Int},
		{"flag", "Flag", "bool", false, false, fakesql.Bool},
	}},
	{Name: "items", Auto: false, Proto: Item{}, Cols: []ColDesc{
		{"shard", "Shard", "int64", true, false, fakesql.Int},
		{"id", "Id", "int64", true, false, fakesql.Int},
		{"kind", "Kind", "Kind", false, false, fakesql.Int},
		{"label", "Label", "Label", false, false, fakesql.Text},
		{"note", "Note", "string", false, true, fakesql.Text},
		{"data", "Data", "bytes", false, false, fakesql.Blob},
		{"score", "Score", "float64", false, false, fakesql.Float},
	}},
	{Name: "events", Auto: false, Proto: Event{}, Cols: []ColDesc{
		{"id", "Id", "string", true, false, fakesql.Text},
		{"org_id", "OrgId", "*int64", false, false, fakesql.Int},
		{"tag", "Tag", "Label", false, false, fakesql.Text},
		{"seq", "Seq", "uint32", false, false, fakesql.Int},
	}},
	{Name: "tags", Auto: true, Proto: Tag{}, Cols: []ColDesc{
		{"id", "Id", "int64", true, false, fakesql.Int},
		{"name", "Name", "string", false, false, fakesql.Text},
		{"space", "Space", "string", false, false, fakesql.Text},
		{"namespace", "Namespace", "string", false, false, fakesql.Text},
		{"a", "A", "int64", false, false, fakesql.Int},
		{"b", "B", "int64", false, false, fakesql.Int},
		{"ab", "Ab", "int64", false, false, fakesql.Int},
	}},
}

// CollidingSets: column sets of a table whose sorted names concatenate to the same text.
var CollidingSets = map[string][][][]string{
	"tags": {{{"namespace"}, {"name", "space"}}, {{"ab"}, {"a", "b"}}},
}

func TableByName(n string) *TableDesc {
	for _, t := range Tables {
		if t.Name == n {
			return t
		}
	}
	return nil
}

func (t *TableDesc) Col(name string) *ColDesc {
	for i := range t.Cols {
		if t.Cols[i].Name == name {
			return &t.Cols[i]
		}
	}
	return nil
}

// NewSchema registers the catalogue with sqlgen.
func NewSchema() *sqlgen.Schema {
	s := sqlgen.NewSchema()
	for _, t := range Tables {
		k := sqlgen.UniqueId
		if t.Auto {
			k = sqlgen.AutoIncrement
		}
		s.MustRegisterType(t.Name, k, t.Proto)
	}
	return s
}

// NewServer creates the catalogue's tables on a fresh fake server.
func NewServer() *fakesql.Server {
	srv := fakesql.NewServer()
	for _, t := range Tables {
		var cols []fakesql.Column
		for _, c := range t.Cols {
			nullable := strings.HasPrefix(c.Ty, "*") || c.ImplicitNull || c.Ty == "bytes" // a NULL blob scans into a nil slice
			cols = append(cols, fakesql.Column{Name: c.Name, Type: c.SQL, Primary: c.Primary,
				AutoIncrement: t.Auto && c.Primary, Nullable: nullable})
		}
		srv.CreateTable(t.Name, cols)
	}
	return srv
}

// ---- Go values ----

// GV describes a Go value.  T is one of: "nil", "int", "int8", "int16", "int32", "int64", "uint", "uint8",
// "uint16", "uint32", "uint64", "Kind" (named int32), "string", "Label" (named string), "bool", "float64"
// (Q quarter units), "bytes" (non-nil []byte), "nilbytes" ([]byte(nil)), "ptr" (non-nil pointer to Elem; Addr identifies the pointer object within a
// case), "nilptr" (nil pointer to a value of type PT).
type GV struct {
	T    string `json:"t"`
	Z    int64  `json:"z,omitempty"`
	S    string `json:"s,omitempty"`
	B    bool   `json:"b,omitempty"`
	Q    int64  `json:"q,omitempty"`
	Addr int    `json:"addr,omitempty"`
	Elem *GV    `json:"elem,omitempty"`
	PT   string `json:"pt,omitempty"`
}

var intKinds = map[string]string{"int": "KI", "int8": "KI8", "int16": "KI16", "int32": "KI32", "int64": "KI64",
	"uint": "KU", "uint8": "KU8", "uint16": "KU16", "uint32": "KU32", "uint64": "KU64"}

func scalarType(t string) reflect.Type {
	switch t {
	case "int":
		return reflect.TypeOf(int(0))
	case "int8":
		return reflect.TypeOf(int8(0))
	case "int16":
		return reflect.TypeOf(int16(0))
	case "int32":
		return reflect.TypeOf(int32(0))
	case "int64":
		return reflect.TypeOf(int64(0))
	case "uint":
		return reflect.TypeOf(uint(0))
	case "uint8":
		return reflect.TypeOf(uint8(0))
	case "uint16":
		return reflect.TypeOf(uint16(0))
	case "uint32":
		return reflect.TypeOf(uint32(0))
	case "uint64":
		return reflect.TypeOf(uint64(0))
	case "Kind":
		return reflect.TypeOf(Kind(0))
	case "Shifted":
		return reflect.TypeOf(Shifted(0))
	case "Loud":
		return reflect.TypeOf(Loud(""))
	case "string":
		return reflect.TypeOf("")
	case "Label":
		return reflect.TypeOf(Label(""))
	case "bool":
		return reflect.TypeOf(false)
	case "float64":
		return reflect.TypeOf(float64(0))
	case "bytes":
		return reflect.TypeOf([]byte(nil))
	}
	panic("sqlh: unknown scalar type " + t)
}

// Pool keeps the pointer objects of one case, so that equal Addr means the same pointer.
type Pool map[int]reflect.Value

// Go builds the Go value.
func (g GV) Go(p Pool) interface{} {
	switch g.T {
	case "nil":
		return nil
	case "nilptr":
		return reflect.Zero(reflect.PtrTo(scalarType(g.PT))).Interface()
	case "ptr":
		if v, ok := p[g.Addr]; ok {
			return v.Interface()
		}
		v := reflect.New(scalarType(g.Elem.T))
		v.Elem().Set(reflect.ValueOf(g.Elem.Go(p)))
		p[g.Addr] = v
		return v.Interface()
	case "string", "Label", "Loud":
		return reflect.ValueOf(g.S).Convert(scalarType(g.T)).Interface()
	case "bool":
		return g.B
	case "float64":
		return float64(g.Q) / 4
	case "bytes":
		return []byte(g.S)
	case "nilbytes":
		return []byte(nil)
	}
	if strings.HasPrefix(g.T, "uint") {
		return reflect.ValueOf(uint64(g.Z)).Convert(scalarType(g.T)).Interface()
	}
	return reflect.ValueOf(g.Z).Convert(scalarType(g.T)).Interface()
}

func coqTy(t string) string {
	switch t {
	case "Kind":
		return `(TyInt KI32 "Kind")`
	case "string":
		return `(TyStr "")`
	case "Label":
		return `(TyStr "Label")`
	case "bool":
		return "TyBool"
	case "float64":
		return "TyFloat"
	case "bytes":
		return "TyBytes"
	}
	if strings.HasPrefix(t, "*") {
		return "(TyPtr " + coqTy(t[1:]) + ")"
	}
	if k, ok := intKinds[t]; ok {
		return "(TyInt " + k + ` "")`
	}
	panic("sqlh: unknown type " + t)
}

// Coq prints the value as a Thunder.Sql.Model goval.
func (g GV) Coq() string {
	switch g.T {
	case "nil":
		return "GNil"
	case "nilptr":
		return "(GNilPtr " + coqTy(g.PT) + ")"
	case "ptr":
		return fmt.Sprintf("(GPtr %d %s)", g.Addr, g.Elem.Coq())
	case "string":
		return `(GStr "" ` + vh.CoqString(g.S) + ")"
	case "Label":
		return `(GStr "Label" ` + vh.CoqString(g.S) + ")"
	case "bool":
		return "(GBool " + vh.CoqBool(g.B) + ")"
	case "float64":
		return "(GFloat " + vh.CoqZ(g.Q) + ")"
	case "bytes":
		return "(GBytes " + vh.CoqString(g.S) + ")"
	case "nilbytes":
		return "GNilBytes"
	case "Kind":
		return `(GInt KI32 "Kind" ` + vh.CoqZ(g.Z) + ")"
	case "Shifted":
		return `(GCustom "Shifted" (GInt KI64 "" ` + vh.CoqZ(g.Z) + `) (DInt ` + vh.CoqZ(g.Z+1) + `))`
	case "Loud":
		return `(GCustom "Loud" (GStr "" ` + vh.CoqString(g.S) + `) (DStr ` + vh.CoqString(g.S+"!") + `))`
	}
	if k, ok := intKinds[g.T]; ok {
		return "(GInt " + k + ` "" ` + vh.CoqZ(g.Z) + ")"
	}
	panic("sqlh: unknown GV type " + g.T)
}

// Filter is a sqlgen filter in description form (keys unique).
type Filter map[string]GV

func (f Filter) Go(p Pool) sqlgen.Filter {
	if f == nil {
		return nil
	}
	out := sqlgen.Filter{}
	for k, v := range f {
		out[k] = v.Go(p)
	}
	return out
}

func (f Filter) Keys() []string {
	ks := make([]string, 0, len(f))
	for k := range f {
		ks = append(ks, k)
	}
	sort.Strings(ks)
	return ks
}

func (f Filter) Coq() string {
	var xs []string
	for _, k := range f.Keys() {
		xs = append(xs, "("+vh.CoqString(k)+", "+f[k].Coq()+")")
	}
	return vh.CoqList(xs)
}

// Row is one struct value in description form: a GV per column, in struct order.
type Row []GV

// Struct builds a pointer to the table's struct with the row's field values.
func (t *TableDesc) Struct(r Row, p Pool) interface{} {
	ptr := reflect.New(reflect.TypeOf(t.Proto))
	for i, c := range t.Cols {
		v := r[i].Go(p)
		f := ptr.Elem().FieldByName(c.Field)
		if v == nil {
			continue
		}
		f.Set(reflect.ValueOf(v))
	}
	return ptr.Interface()
}

// SliceOf builds a []*T of the table's struct type.
func (t *TableDesc) SliceOf(rows []Row, p Pool) interface{} {
	pt := reflect.PtrTo(reflect.TypeOf(t.Proto))
	s := reflect.MakeSlice(reflect.SliceOf(pt), 0, len(rows))
	for _, r := range rows {
		s = reflect.Append(s, reflect.ValueOf(t.Struct(r, p)))
	}
	return s.Interface()
}

// NewResultSlice returns a pointer to an empty []*T (the result argument of DB.Query).
func (t *TableDesc) NewResultSlice() interface{} {
	pt := reflect.PtrTo(reflect.TypeOf(t.Proto))
	return reflect.New(reflect.SliceOf(pt)).Interface()
}

// NewResultRow returns a pointer to a nil *T (the result argument of DB.QueryRow).
func (t *TableDesc) NewResultRow() interface{} {
	return reflect.New(reflect.PtrTo(reflect.TypeOf(t.Proto))).Interface()
}

func (r Row) Coq() string {
	xs := make([]string, len(r))
	for i, v := range r {
		xs[i] = v.Coq()
	}
	return vh.CoqList(xs)
}

// Coq prints the table as a Thunder.Sql.Model table.
func (t *TableDesc) Coq() string {
	var cs []string
	for _, c := range t.Cols {
		cs = append(cs, fmt.Sprintf("(mk_col %s %s %s %s)", vh.CoqString(c.Name), vh.CoqBool(c.Primary), vh.CoqBool(c.ImplicitNull), coqTy(c.Ty)))
	}
	return fmt.Sprintf("(mk_table %s %s %s)", vh.CoqString(t.Name), vh.CoqBool(t.Auto), vh.CoqList(cs))
}

// ---- driver values ----

// CoqDval prints a value received by / stored in the fake server as a Thunder.Sql.Model dval.
// ok=false for values outside the model (times, floats that are not quarter units).
func CoqDval(v interface{}) (string, bool) {
	switch x := v.(type) {
	case nil:
		return "DNull", true
	case int64:
		return "(DInt " + vh.CoqZ(x) + ")", true
	case float64:
		q := x * 4
		if q != float64(int64(q)) {
			return "", false
		}
		return "(DFloat " + vh.CoqZ(int64(q)) + ")", true
	case bool:
		return "(DBool " + vh.CoqBool(x) + ")", true
	case string:
		return "(DStr " + vh.CoqString(x) + ")", true
	case []byte:
		return "(DBytes " + vh.CoqString(string(x)) + ")", true
	}
	return "", false
}

func CoqDvals(vs []interface{}) (string, bool) {
	xs := make([]string, len(vs))
	for i, v := range vs {
		s, ok := CoqDval(v)
		if !ok {
			return "", false
		}
		xs[i] = s
	}
	return vh.CoqList(xs), true
}

// CoqStored prints a stored row (canonical fakesql values) as a drow: [(column, dval)].
func (t *TableDesc) CoqStored(row []driver.Value) string {
	xs := make([]string, len(row))
	for i, v := range row {
		d, ok := CoqDval(v)
		if !ok {
			panic(fmt.Sprintf("sqlh: stored value %T outside the model", v))
		}
		xs[i] = "(" + vh.CoqString(t.Cols[i].Name) + ", " + d + ")"
	}
	return vh.CoqList(xs)
}

// DriverOf is the harness's own notion of the column value a Go value denotes (independent of
// sqlgen and of the Coq model): nil and nil pointers are NULL, pointers are dereferenced, integers become
// int64, named strings string, the zero value of an implicitnull column (also behind a pointer) is NULL.
func DriverOf(c *ColDesc, v interface{}) interface{} {
	if v == nil {
		return nil
	}
	if dv, ok := v.(driver.Valuer); ok && !(reflect.ValueOf(v).Kind() == reflect.Ptr && reflect.ValueOf(v).IsNil()) {
		if out, err := dv.Value(); err == nil {
			return out
		}
	}
	rv := reflect.ValueOf(v)
	if rv.Kind() == reflect.Ptr {
		if rv.IsNil() {
			return nil
		}
		rv = rv.Elem() // a pointer stands for the value it points to
		if dv, ok := rv.Interface().(driver.Valuer); ok {
			if out, err := dv.Value(); err == nil {
				return out
			}
		}
	}
	if c != nil && c.ImplicitNull && rv.IsZero() {
		return nil
	}
	switch rv.Kind() {
	case reflect.Int, reflect.Int8, reflect.Int16, reflect.Int32, reflect.Int64:
		return rv.Int()
	case reflect.Uint, reflect.Uint8, reflect.Uint16, reflect.Uint32, reflect.Uint64:
		return int64(rv.Uint())
	case reflect.String:
		return rv.String()
	case reflect.Bool:
		return rv.Bool()
	case reflect.Float32, reflect.Float64:
		return rv.Float()
	case reflect.Slice:
		if rv.IsNil() {
			return nil
		}
		if b, ok := rv.Interface().([]byte); ok {
			return b
		}
	}
	return rv.Interface()
}

// SQLEqual says whether two driver values are the same SQL value for the purposes of the oracles:
// NULL equals NULL here (the caller decides what NULL means), numbers numerically, text bytewise.
func SQLEqual(a, b interface{}) bool {
	if a == nil || b == nil {
		return a == nil && b == nil
	}
	c, ok := fakesql.Compare(a, b)
	return ok && c == 0
}

// ---- batch function access ----

// BatchFunc returns the unexported batchFetch of a sqlgen.DB (nil if the field is gone).
func BatchFunc(db *sqlgen.DB) *batch.Func {
	f := reflect.ValueOf(db).Elem().FieldByName("batchFetch")
	if !f.IsValid() || f.Kind() != reflect.Ptr {
		return nil
	}
	p := reflect.NewAt(f.Type(), unsafe.Pointer(f.UnsafeAddr())).Elem().Interface()
	bf, _ := p.(*batch.Func)
	return bf
}
