package livesim

import (
	"context"
	"database/sql"
	"database/sql/driver"
	"errors"
	"io"
	"strings"

	"verifharness/pkg/fakesql"
)

// WrapDB returns a *sql.DB on the fake server in which the livesql column query
// (SELECT column_name FROM information_schema.columns WHERE table_schema = ? AND table_name = ?) is
// answered by columns(table) - the current version of the table in the harness - and everything else
// goes to fakesql unchanged.
func WrapDB(srv *fakesql.Server, columns func(table string) []string) *sql.DB {
	probe, err := sql.Open("fakesql", srv.Name())
	if err != nil {
		panic(err)
	}
	drv := probe.Driver()
	probe.Close()
	return sql.OpenDB(&wrapConnector{drv: drv, dsn: srv.Name(), columns: columns})
}

type wrapConnector struct {
	drv     driver.Driver
	dsn     string
	columns func(string) []string
}

func (c *wrapConnector) Connect(context.Context) (driver.Conn, error) {
	inner, err := c.drv.Open(c.dsn)
	if err != nil {
		return nil, err
	}
	return &wrapConn{Conn: inner, columns: c.columns}, nil
}
func (c *wrapConnector) Driver() driver.Driver { return c.drv }

type wrapConn struct {
	driver.Conn
	columns func(string) []string
}

func (c *wrapConn) QueryContext(ctx context.Context, q string, args []driver.NamedValue) (driver.Rows, error) {
	if strings.Contains(strings.ToLower(q), "information_schema.columns") && len(args) == 2 {
		name := ""
		switch x := args[1].Value.(type) {
		case string:
			name = x
		case []byte:
			name = string(x)
		}
		return &nameRows{names: c.columns(name)}, nil
	}
	if qc, ok := c.Conn.(driver.QueryerContext); ok {
		return qc.QueryContext(ctx, q, args)
	}
	return nil, errors.New("livesim: inner connection cannot query")
}

func (c *wrapConn) ExecContext(ctx context.Context, q string, args []driver.NamedValue) (driver.Result, error) {
	if ec, ok := c.Conn.(driver.ExecerContext); ok {
		return ec.ExecContext(ctx, q, args)
	}
	return nil, errors.New("livesim: inner connection cannot exec")
}

func (c *wrapConn) BeginTx(ctx context.Context, o driver.TxOptions) (driver.Tx, error) {
	if bc, ok := c.Conn.(driver.ConnBeginTx); ok {
		return bc.BeginTx(ctx, o)
	}
	return c.Conn.Begin()
}

type nameRows struct {
	names []string
	i     int
}

func (r *nameRows) Columns() []string { return []string{"column_name"} }
func (r *nameRows) Close() error      { return nil }
func (r *nameRows) Next(dest []driver.Value) error {
	if r.i >= len(r.names) {
		return io.EOF
	}
	dest[0] = []byte(r.names[r.i])
	r.i++
	return nil
}
