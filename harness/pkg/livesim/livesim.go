// Package livesim is the shared part of the C07 (live SQL) harness: a catalogue of table structs with
// their MySQL column metadata, a fakesql server set up for them, the stand-in for the go-mysql binlog
// decoder (how a committed row image comes back in a RowsEvent), and printers of Coq terms for the model
// in Sql/Codec.v and Sql/Live.v.
package livesim

import (
	"database/sql/driver"
	"fmt"
	"math"
	"math/big"
	"reflect"
	"sort"
	"strconv"
	"strings"
	"time"

	"github.com/go-sql-driver/mysql"
	"github.com/samsarahq/thunder/sqlgen"
	"github.com/siddontang/go-mysql/replication"
	"verifharness/pkg/fakesql"
	"verifharness/pkg/vh"
)

// ---- catalogue ----

type Level uint8
type Title string

// LUser: integers of several widths, pointers, implicitnull, bool, named scalars, []byte, and an unsigned
// 64-bit field stored in an INT UNSIGNED column (F24).
type LUser struct {
	Id     int64 `sql:",primary"`
	Owner  int32
	Name   string
	Nick   *string
	Score  *int64
	Tag    string `sql:",implicitnull"`
	Active bool
	Level  Level
	Blob   []byte
	Big    uint64
}

// LItem: string key, unsigned and float columns, time, pointer to bool, named string, implicitnull int.
type LItem struct {
	Key   string `sql:",primary"`
	Qty   uint16
	Price float64
	Note  *Title
	When  time.Time
	Flag  *bool
	Count int32 `sql:",implicitnull"`
	Small *int8
}

// LOrder lives in a table whose name, column names and values are words that also occur in error-handling
// code ("closed", "timeout", "EOF" ...): decode errors quote all three.
type LOrder struct {
	Id       int64  `sql:",primary"`
	ClosedAt *int64 `sql:"closed_at"`
	State    string
	Timeout  int32
	Consent  Consent
}

// Consent is a tri-state answer that is its own driver.Valuer / sql.Scanner and stands for SQL NULL by a value
// that is not its zero value: Unanswered <-> NULL, No (the zero value) <-> 0, Yes <-> 1.  fields.Scanner hands
// NULL to a non-pointer column of such a type; a row image decoded without doing so reads Unanswered as No, and
// a live query on `consent IS NULL` misses the write.
type Consent int8

const (
	No         Consent = 0
	Yes        Consent = 1
	Unanswered Consent = 2
)

func (c Consent) Value() (driver.Value, error) {
	if c == Unanswered {
		return nil, nil
	}
	return int64(c), nil
}

func (c *Consent) Scan(v interface{}) error {
	var z int64
	switch x := v.(type) {
	case nil:
		*c = Unanswered
		return nil
	case int8:
		z = int64(x)
	case int16:
		z = int64(x)
	case int32:
		z = int64(x)
	case int64:
		z = x
	case []byte:
		return c.Scan(string(x))
	case string:
		switch x {
		case "0":
			z = 0
		case "1":
			z = 1
		default:
			return fmt.Errorf("Consent: cannot scan %q", x)
		}
	default:
		return fmt.Errorf("Consent: cannot scan %T", v)
	}
	if z != 0 && z != 1 {
		return fmt.Errorf("Consent: %d is not an answer", z)
	}
	*c = Consent(z)
	return nil
}

// ColMeta is the MySQL side of one struct column.
type ColMeta struct {
	Name     string
	Type     fakesql.ColType
	Width    int  // integer columns: 8,16,32,64
	Unsigned bool // integer columns
	Varchar  bool // text/blob columns: VARCHAR (binlog hands back string) or BLOB/TEXT ([]byte)
	Nullable bool
	Primary  bool
}

type TableDef struct {
	Name string
	Zero interface{}
	Type reflect.Type
	Cols []ColMeta // in struct column order
}

var Catalogue = []*TableDef{
	{Name: "users", Zero: LUser{}, Cols: []ColMeta{
		{Name: "id", Type: fakesql.Int, Width: 64, Primary: true},
		{Name: "owner", Type: fakesql.Int, Width: 32},
		{Name: "name", Type: fakesql.Text, Varchar: true},
		{Name: "nick", Type: fakesql.Text, Varchar: true, Nullable: true},
		{Name: "score", Type: fakesql.Int, Width: 64, Nullable: true},
		{Name: "tag", Type: fakesql.Text, Nullable: true},
		{Name: "active", Type: fakesql.Bool, Width: 8},
		{Name: "level", Type: fakesql.Int, Width: 8, Unsigned: true},
		{Name: "blob", Type: fakesql.Blob, Nullable: true},
		{Name: "big", Type: fakesql.Int, Width: 32, Unsigned: true},
	}},
	{Name: "items", Zero: LItem{}, Cols: []ColMeta{
		{Name: "key", Type: fakesql.Text, Varchar: true, Primary: true},
		{Name: "qty", Type: fakesql.Int, Width: 16, Unsigned: true},
		{Name: "price", Type: fakesql.Float},
		{Name: "note", Type: fakesql.Text, Nullable: true},
		{Name: "when", Type: fakesql.Time},
		{Name: "flag", Type: fakesql.Bool, Width: 8, Nullable: true},
		{Name: "count", Type: fakesql.Int, Width: 32, Nullable: true},
		{Name: "small", Type: fakesql.Int, Width: 8, Nullable: true},
	}},
	{Name: "closed_orders", Zero: LOrder{}, Cols: []ColMeta{
		{Name: "id", Type: fakesql.Int, Width: 64, Primary: true},
		{Name: "closed_at", Type: fakesql.Int, Width: 64, Nullable: true},
		{Name: "state", Type: fakesql.Text, Varchar: true},
		{Name: "timeout", Type: fakesql.Int, Width: 32},
		{Name: "consent", Type: fakesql.Int, Width: 8, Nullable: true},
	}},
}

func NewSchema() *sqlgen.Schema {
	s := sqlgen.NewSchema()
	for _, d := range Catalogue {
		d.Type = reflect.TypeOf(d.Zero)
		s.MustRegisterType(d.Name, sqlgen.UniqueId, d.Zero)
	}
	return s
}

func Def(name string) *TableDef {
	for _, d := range Catalogue {
		if d.Name == name {
			return d
		}
	}
	return nil
}

// MySQLOrder is one version of a table as MySQL has it: the struct's columns in some order, possibly
// with extra columns, possibly without some.  The rows live in fakesql in struct column order; the
// database order is a view used for the information_schema answer and for the binlog row images, so an
// ALTER TABLE is a new MySQLOrder with a new TableID.
type MySQLOrder struct {
	Def     *TableDef
	Cols    []ColMeta // database order; a column named "x_extra..." is unknown to the struct
	TableID uint64
}

func shuffle(r *vh.Rng, cols []ColMeta) {
	for i := len(cols) - 1; i > 0; i-- {
		j := r.Intn(i + 1)
		cols[i], cols[j] = cols[j], cols[i]
	}
}

// Layout picks the first database column order for the table: a permutation, sometimes with an extra column.
func Layout(r *vh.Rng, d *TableDef) *MySQLOrder {
	cols := append([]ColMeta{}, d.Cols...)
	if r.Chance(60) {
		shuffle(r, cols)
	}
	if r.Chance(30) {
		at := r.Intn(len(cols) + 1)
		extra := ColMeta{Name: "x_extra", Type: fakesql.Int, Width: 32, Nullable: true}
		cols = append(cols[:at], append([]ColMeta{extra}, cols[at:]...)...)
	}
	return &MySQLOrder{Def: d, Cols: cols, TableID: 1}
}

// Reopen returns the same table under a new TableID (as after FLUSH TABLES).
func (m *MySQLOrder) Reopen() *MySQLOrder {
	return &MySQLOrder{Def: m.Def, Cols: append([]ColMeta{}, m.Cols...), TableID: m.TableID + 1}
}

// Alter returns the table after an ALTER TABLE (new TableID) and says what kind it was:
// "reorder" (columns moved, count kept), "swap" (two columns of the same MySQL type trade places: the old
// column map still decodes without error), "add" (one more column), "drop" (an extra column removed) or
// "reopen" (nothing changed but the id, as after FLUSH TABLES).
func (m *MySQLOrder) Alter(r *vh.Rng) (*MySQLOrder, string) {
	cols := append([]ColMeta{}, m.Cols...)
	n := &MySQLOrder{Def: m.Def, TableID: m.TableID + 1}
	kind := "reorder"
	switch k := r.Intn(10); {
	case k < 3:
		shuffle(r, cols)
	case k < 6:
		kind = "swap"
		var pairs [][2]int
		for i := range cols {
			for j := i + 1; j < len(cols); j++ {
				a, b := cols[i], cols[j]
				if a.Type == b.Type && a.Width == b.Width && a.Varchar == b.Varchar && !a.Primary && !b.Primary {
					pairs = append(pairs, [2]int{i, j})
				}
			}
		}
		if len(pairs) == 0 {
			shuffle(r, cols)
			kind = "reorder"
		} else {
			p := pairs[r.Intn(len(pairs))]
			cols[p[0]], cols[p[1]] = cols[p[1]], cols[p[0]]
		}
	case k < 8:
		kind = "add"
		at := r.Intn(len(cols) + 1)
		extra := ColMeta{Name: fmt.Sprintf("x_extra%d", n.TableID), Type: fakesql.Int, Width: 32, Nullable: true}
		cols = append(cols[:at], append([]ColMeta{extra}, cols[at:]...)...)
	case k < 9:
		kind = "reopen"
		for i, c := range cols {
			if strings.HasPrefix(c.Name, "x_extra") {
				cols = append(cols[:i], cols[i+1:]...)
				kind = "drop"
				break
			}
		}
	default:
		kind = "reopen"
	}
	n.Cols = cols
	return n, kind
}

// Create makes the fakesql table (struct column order).
func (m *MySQLOrder) Create(srv *fakesql.Server) {
	var cs []fakesql.Column
	for _, c := range m.Def.Cols {
		cs = append(cs, fakesql.Column{Name: c.Name, Type: c.Type, Primary: c.Primary, Nullable: c.Nullable || !c.Primary})
	}
	srv.CreateTable(m.Def.Name, cs)
}

// ColumnNames is the information_schema.columns answer for this version.
func (m *MySQLOrder) ColumnNames() []string {
	out := make([]string, len(m.Cols))
	for i, c := range m.Cols {
		out[i] = c.Name
	}
	return out
}

// Source is columnMap.source: for every struct column its position in database order.
func (m *MySQLOrder) Source() []int {
	out := make([]int, len(m.Def.Cols))
	for i, c := range m.Def.Cols {
		out[i] = -1
		for j, dc := range m.Cols {
			if dc.Name == c.Name {
				out[i] = j
			}
		}
	}
	return out
}

// BinlogRow turns a committed row image (fakesql canonical values, struct column order) into what the
// go-mysql row decoder of this repository's go.mod hands back for this version of the table: values in
// database order; the signed integer of the column's width (also for UNSIGNED columns), float64, string
// for VARCHAR, []byte for BLOB/TEXT, "2006-01-02 15:04:05" for DATETIME; extra columns hold NULL.
func (m *MySQLOrder) BinlogRow(image []driver.Value) []interface{} {
	out := make([]interface{}, len(m.Cols))
	for j, c := range m.Cols {
		var v driver.Value
		for i, sc := range m.Def.Cols {
			if sc.Name == c.Name {
				v = image[i]
			}
		}
		switch x := v.(type) {
		case nil:
			out[j] = nil
		case int64:
			switch c.Width {
			case 8:
				out[j] = int8(x)
			case 16:
				out[j] = int16(x)
			case 32:
				out[j] = int32(x)
			default:
				out[j] = x
			}
		case bool:
			if x {
				out[j] = int8(1)
			} else {
				out[j] = int8(0)
			}
		case float64:
			out[j] = x
		case string:
			if c.Varchar {
				out[j] = x
			} else {
				out[j] = []byte(x)
			}
		case []byte:
			if c.Varchar {
				out[j] = string(x)
			} else {
				out[j] = append([]byte{}, x...)
			}
		case time.Time:
			out[j] = x.UTC().Format("2006-01-02 15:04:05")
		default:
			out[j] = v
		}
	}
	return out
}

// TableMapEvent is the event that precedes the rows events of a table and carries its current id.
func TableMapEvent(database, table string, id uint64, columns int) *replication.BinlogEvent {
	return &replication.BinlogEvent{
		Header: &replication.EventHeader{EventType: replication.TABLE_MAP_EVENT},
		Event:  &replication.TableMapEvent{Schema: []byte(database), Table: []byte(table), TableID: id, ColumnCount: uint64(columns)},
	}
}

// RowsEvent builds the event the binlog syncer would deliver for one changed row.
func RowsEvent(database, table string, id uint64, before, after []interface{}) *replication.BinlogEvent {
	var typ replication.EventType
	var rows [][]interface{}
	n := 0
	switch {
	case before == nil:
		typ, rows, n = replication.WRITE_ROWS_EVENTv2, [][]interface{}{after}, len(after)
	case after == nil:
		typ, rows, n = replication.DELETE_ROWS_EVENTv2, [][]interface{}{before}, len(before)
	default:
		typ, rows, n = replication.UPDATE_ROWS_EVENTv2, [][]interface{}{before, after}, len(after)
	}
	return &replication.BinlogEvent{
		Header: &replication.EventHeader{EventType: typ},
		Event: &replication.RowsEvent{
			Table:       &replication.TableMapEvent{Schema: []byte(database), Table: []byte(table), TableID: id, ColumnCount: uint64(n)},
			ColumnCount: uint64(n),
			Rows:        rows,
		},
	}
}

// ---- Coq terms (Sql/Codec.v vocabulary) ----

type Terms struct {
	times map[string]bool // time texts that parse
	ptab  map[string]string
}

func NewTerms() *Terms { return &Terms{ptab: map[string]string{}} }

func zlit(s string) string {
	if strings.HasPrefix(s, "-") {
		return "(" + s + ")%Z"
	}
	return s + "%Z"
}

func Tid(t time.Time) string {
	z := new(big.Int).Mul(big.NewInt(t.Unix()), big.NewInt(1000000000))
	z.Add(z, big.NewInt(int64(t.Nanosecond())))
	return z.String()
}

func printable(s string) bool {
	for i := 0; i < len(s); i++ {
		if s[i] < 32 || s[i] > 126 {
			return false
		}
	}
	return true
}

func (g *Terms) Str(s string) string {
	nt := mysql.NullTime{}
	if err := nt.Scan(s); err == nil && nt.Valid {
		g.ptab[s] = Tid(nt.Time)
	}
	if printable(s) {
		return vh.CoqString(s)
	}
	xs := make([]string, len(s))
	for i := 0; i < len(s); i++ {
		xs[i] = strconv.Itoa(int(s[i])) + "%nat"
	}
	return "(bytes_of " + vh.CoqList(xs) + ")"
}

// Prelude defines the environment E (only mysql.parseDateTime is needed by the C07 catalogue).
func (g *Terms) Prelude() string {
	var ks []string
	for s := range g.ptab {
		ks = append(ks, s)
	}
	sort.Strings(ks)
	var pt []string
	for _, s := range ks {
		pt = append(pt, fmt.Sprintf("(%s, Some %s)", vh.CoqString(s), zlit(g.ptab[s])))
	}
	// times are concrete in the model (Sql/TimeText.v): the table Go computed is only compared with the model's own parser
	return "Definition PT : list (string * option Z) := " + vh.CoqList(pt) + ".\n"
}

func BaseOf(t reflect.Type) string {
	if t == reflect.TypeOf(time.Time{}) {
		return "BTime"
	}
	if t == reflect.TypeOf([]byte(nil)) {
		return "BBytes"
	}
	if t == reflect.TypeOf(Consent(0)) {
		return "(BCustom CTri)"
	}
	switch t.Kind() {
	case reflect.Int, reflect.Int64:
		return "(BInt 64)"
	case reflect.Int8:
		return "(BInt 8)"
	case reflect.Int16:
		return "(BInt 16)"
	case reflect.Int32:
		return "(BInt 32)"
	case reflect.Uint, reflect.Uint64:
		return "(BUint 64)"
	case reflect.Uint8:
		return "(BUint 8)"
	case reflect.Uint16:
		return "(BUint 16)"
	case reflect.Uint32:
		return "(BUint 32)"
	case reflect.Float64:
		return "BF64"
	case reflect.Bool:
		return "BBool"
	case reflect.String:
		return "BStr"
	}
	panic("livesim.BaseOf: unsupported " + t.String())
}

func TableTerm(tbl *sqlgen.Table) string {
	var xs []string
	for _, c := range tbl.Columns {
		d := c.Descriptor
		tag := "TNone"
		if d.Tags.Contains("implicitnull") {
			tag = "TImplicitNull"
		}
		xs = append(xs, fmt.Sprintf("(%s, mk_desc %s %s %s)", vh.CoqString(c.Name), BaseOf(d.Type), vh.CoqBool(d.Ptr), tag))
	}
	return vh.CoqList(xs)
}

func (g *Terms) gval(v reflect.Value) string {
	if v.Type() == reflect.TypeOf(time.Time{}) {
		return "(GTime " + zlit(Tid(v.Interface().(time.Time))) + ")"
	}
	if v.Type() == reflect.TypeOf([]byte(nil)) {
		if v.IsNil() {
			return "(GBytes None)"
		}
		return "(GBytes (Some " + g.Str(string(v.Bytes())) + "))"
	}
	switch v.Kind() {
	case reflect.Int, reflect.Int8, reflect.Int16, reflect.Int32, reflect.Int64:
		return "(GInt " + vh.CoqZ(v.Int()) + ")"
	case reflect.Uint, reflect.Uint8, reflect.Uint16, reflect.Uint32, reflect.Uint64:
		return "(GInt " + zlit(strconv.FormatUint(v.Uint(), 10)) + ")"
	case reflect.Float64:
		return "(GFloat " + zlit(strconv.FormatUint(math.Float64bits(v.Float()), 10)) + ")"
	case reflect.Bool:
		return "(GBool " + vh.CoqBool(v.Bool()) + ")"
	case reflect.String:
		return "(GStr " + g.Str(v.String()) + ")"
	}
	panic("livesim.gval: unsupported " + v.Type().String())
}

func (g *Terms) Fval(v reflect.Value) string {
	if v.Kind() == reflect.Ptr {
		if v.IsNil() {
			return "FNil"
		}
		v = v.Elem()
	}
	return "(FVal " + g.gval(v) + ")"
}

func (g *Terms) Dyn(x interface{}) string {
	if x == nil {
		return "DynNil"
	}
	v := reflect.ValueOf(x)
	t := v.Type()
	ptr := t.Kind() == reflect.Ptr
	if ptr {
		t = t.Elem()
	}
	return fmt.Sprintf("(Dyn %s %s %s)", BaseOf(t), vh.CoqBool(ptr), g.Fval(v))
}

func (g *Terms) Filter(f sqlgen.Filter) string {
	var ns []string
	for n := range f {
		ns = append(ns, n)
	}
	sort.Strings(ns)
	var xs []string
	for _, n := range ns {
		xs = append(xs, "("+vh.CoqString(n)+", "+g.Dyn(f[n])+")")
	}
	return vh.CoqList(xs)
}

func (g *Terms) Src(v interface{}) string {
	switch x := v.(type) {
	case nil:
		return "SNull"
	case int8:
		return "(SInt 8 " + vh.CoqZ(int64(x)) + ")"
	case int16:
		return "(SInt 16 " + vh.CoqZ(int64(x)) + ")"
	case int32:
		return "(SInt 32 " + vh.CoqZ(int64(x)) + ")"
	case int64:
		return "(SInt 64 " + vh.CoqZ(x) + ")"
	case float64:
		return "(SF64 " + zlit(strconv.FormatUint(math.Float64bits(x), 10)) + ")"
	case []byte:
		return "(SBytes " + g.Str(string(x)) + ")"
	case string:
		return "(SStr " + g.Str(x) + ")"
	case time.Time:
		return "(STime " + zlit(Tid(x)) + ")"
	case bool:
		return "(SBool " + vh.CoqBool(x) + ")"
	}
	panic(fmt.Sprintf("livesim.Src: unsupported %T", v))
}

func (g *Terms) Srcs(row []interface{}) string {
	xs := make([]string, len(row))
	for i, s := range row {
		xs[i] = g.Src(s)
	}
	return vh.CoqList(xs)
}

func (g *Terms) Struct(tbl *sqlgen.Table, ptr interface{}) string {
	e := reflect.ValueOf(ptr).Elem()
	xs := make([]string, len(tbl.Columns))
	for i, c := range tbl.Columns {
		xs[i] = g.Fval(e.FieldByIndex(c.Index))
	}
	return vh.CoqList(xs)
}
