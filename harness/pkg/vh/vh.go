// Package vh holds what every property harness shares: flags, the PRNG, the run.json protocol
// with /verif/check, and printers of Coq terms.
package vh

import (
	"encoding/json"
	"flag"
	"fmt"
	"io/ioutil"
	"os"
	"path/filepath"
	"sort"
	"strings"
)

// ---- flags ----

type Opts struct {
	Seed   uint64
	N      int
	Out    string
	Repo   string
	Tier   string
	Verif  string
	Corpus string
	Replay string
	Search string // file of cases (cases.jsonl lines) around which to search for a failing input; oracle only
}

func ParseFlags() *Opts {
	o := &Opts{}
	flag.Uint64Var(&o.Seed, "seed", 1, "seed")
	flag.IntVar(&o.N, "n", 100, "number of generated cases")
	flag.StringVar(&o.Out, "out", ".", "output directory")
	flag.StringVar(&o.Repo, "repo", "/repo", "repository under test")
	flag.StringVar(&o.Tier, "tier", "quick", "tier")
	flag.StringVar(&o.Verif, "verif", "/verif", "verif dir")
	flag.StringVar(&o.Corpus, "corpus", "", "corpus directory (run first)")
	flag.StringVar(&o.Replay, "replay", "", "replay file: run only its case")
	flag.StringVar(&o.Search, "search", "", "failing-input search: file with cases to vary (oracle only, no Coq cases)")
	flag.Parse()
	return o
}

// ---- PRNG: splitmix64 ----

type Rng struct{ s uint64 }

// NewRng mixes the seed first, so that neighbouring seeds give unrelated streams.
func NewRng(seed uint64) *Rng {
	z := seed + 0x9E3779B97F4A7C15
	z = (z ^ (z >> 30)) * 0xBF58476D1CE4E5B9
	z = (z ^ (z >> 27)) * 0x94D049BB133111EB
	return &Rng{s: z ^ (z >> 31)}
}

func (r *Rng) U64() uint64 {
	r.s += 0x9E3779B97F4A7C15
	z := r.s
	z = (z ^ (z >> 30)) * 0xBF58476D1CE4E5B9
	z = (z ^ (z >> 27)) * 0x94D049BB133111EB
	return z ^ (z >> 31)
}
func (r *Rng) Intn(n int) int {
	if n <= 0 {
		return 0
	}
	return int(r.U64() % uint64(n))
}
func (r *Rng) Bool() bool          { return r.U64()&1 == 1 }
func (r *Rng) Chance(p int) bool   { return r.Intn(100) < p }
func (r *Rng) Fork() *Rng          { return NewRng(r.U64()) }
func (r *Rng) Pick(xs []string) string { return xs[r.Intn(len(xs))] }

// ---- run.json ----

type Failure struct {
	Index     int         `json:"index"`
	Signature string      `json:"signature"`
	Detail    string      `json:"detail"`
	Case      interface{} `json:"case"`
}

type Run struct {
	Property           string                 `json:"property"`
	Seed               uint64                 `json:"seed"`
	Evaluations        int                    `json:"evaluations"`
	DistinctNontrivial int                    `json:"distinct_nontrivial"`
	Rule               string                 `json:"rule"`
	Histogram          map[string]int         `json:"histogram"`
	Samples            []interface{}          `json:"samples"`
	Failures           []Failure              `json:"failures"`
	CasesV             []string               `json:"cases_v"`
	ModelCases         int                    `json:"model_cases"`
	Extra              map[string]interface{} `json:"extra,omitempty"`

	out      string
	casesLog *os.File
	distinct map[string]bool
}

func NewRun(prop string, o *Opts) *Run {
	os.MkdirAll(o.Out, 0o755)
	f, err := os.Create(filepath.Join(o.Out, "cases.jsonl"))
	if err != nil {
		panic(err)
	}
	return &Run{Property: prop, Seed: o.Seed, Histogram: map[string]int{}, out: o.Out, casesLog: f,
		distinct: map[string]bool{}, Failures: []Failure{}, Samples: []interface{}{}, CasesV: []string{}}
}

// LogCase records the structured input of case idx (used for replay files).
func (r *Run) LogCase(idx int, c interface{}) {
	b, _ := json.Marshal(map[string]interface{}{"index": idx, "case": c})
	r.casesLog.Write(append(b, '\n'))
}

// Count notes a generated case: key identifies it for distinctness, nontrivial per the property's rule.
func (r *Run) Count(key string, nontrivial bool) {
	r.Evaluations++
	if nontrivial && !r.distinct[key] {
		r.distinct[key] = true
		r.DistinctNontrivial++
	}
}
func (r *Run) Hist(k string) { r.Histogram[k]++ }
func (r *Run) Fail(idx int, sig, detail string, c interface{}) {
	if len(r.Failures) < 200 {
		r.Failures = append(r.Failures, Failure{idx, sig, detail, c})
	}
}
func (r *Run) Sample(c interface{}) {
	if len(r.Samples) < 5 {
		r.Samples = append(r.Samples, c)
	}
}

// WriteCasesV writes one Coq file evaluating `mismatches_from offset [cases]`.
func (r *Run) WriteCasesV(name string, imports []string, prelude string, fn string, offset int, cases []string) {
	var b strings.Builder
	b.WriteString("From Coq Require Import List ZArith String.\n")
	for _, im := range imports {
		b.WriteString("From Thunder Require Import " + im + ".\n")
	}
	b.WriteString("Import ListNotations.\nOpen Scope string_scope.\nOpen Scope list_scope.\n")
	b.WriteString(prelude)
	b.WriteString("Definition cases := [\n")
	b.WriteString(strings.Join(cases, ";\n"))
	b.WriteString("\n].\n")
	fmt.Fprintf(&b, "Definition M := Eval vm_compute in %s %d cases.\nPrint M.\n", fn, offset)
	ioutil.WriteFile(filepath.Join(r.out, name), []byte(b.String()), 0o644)
	r.CasesV = append(r.CasesV, name)
	r.ModelCases += len(cases)
}

func (r *Run) Finish() {
	r.casesLog.Close()
	b, _ := json.MarshalIndent(r, "", " ")
	ioutil.WriteFile(filepath.Join(r.out, "run.json"), b, 0o644)
}

// ReadReplayCase loads the "case" member of a replay file into v; ok=false when the file has none.
func ReadReplayCase(path string, v interface{}) bool {
	b, err := ioutil.ReadFile(path)
	if err != nil {
		return false
	}
	var top map[string]json.RawMessage
	if json.Unmarshal(b, &top) != nil {
		return false
	}
	c, ok := top["case"]
	if !ok || string(c) == "null" {
		return false
	}
	return json.Unmarshal(c, v) == nil
}

// CorpusFiles lists *.json in dir, sorted.
func CorpusFiles(dir string) []string {
	m, _ := filepath.Glob(filepath.Join(dir, "*.json"))
	sort.Strings(m)
	return m
}

// ---- Coq terms ----

func CoqString(s string) string {
	return "\"" + strings.ReplaceAll(s, "\"", "\"\"") + "\""
}
func CoqZ(z int64) string {
	if z < 0 {
		return fmt.Sprintf("(%d)%%Z", z)
	}
	return fmt.Sprintf("%d%%Z", z)
}
func CoqBool(b bool) string {
	if b {
		return "true"
	}
	return "false"
}
func CoqList(xs []string) string { return "[" + strings.Join(xs, "; ") + "]" }
func CoqOpt(s string, some bool) string {
	if !some {
		return "None"
	}
	return "(Some " + s + ")"
}

// CoqJSON prints a decoded JSON value (float64 numbers must be integral) as a Thunder.Lib.Json term
// with object keys sorted (the canonical form the model's [norm] produces).
func CoqJSON(v interface{}) string {
	switch x := v.(type) {
	case nil:
		return "JNull"
	case bool:
		return "(JBool " + CoqBool(x) + ")"
	case float64:
		return "(JNum " + CoqZ(int64(x)) + ")"
	case int:
		return "(JNum " + CoqZ(int64(x)) + ")"
	case int64:
		return "(JNum " + CoqZ(x) + ")"
	case string:
		return "(JStr " + CoqString(x) + ")"
	case []interface{}:
		xs := make([]string, len(x))
		for i, e := range x {
			xs[i] = CoqJSON(e)
		}
		return "(JArr " + CoqList(xs) + ")"
	case map[string]interface{}:
		keys := make([]string, 0, len(x))
		for k := range x {
			keys = append(keys, k)
		}
		sort.Strings(keys)
		xs := make([]string, len(keys))
		for i, k := range keys {
			xs[i] = "(" + CoqString(k) + ", " + CoqJSON(x[k]) + ")"
		}
		return "(JObj " + CoqList(xs) + ")"
	}
	panic(fmt.Sprintf("CoqJSON: unsupported %T", v))
}
