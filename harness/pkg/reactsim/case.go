// Package reactsim is the shared harness of C04 and C08: it builds random dependency trees of
// reactive.Rerunner / reactive.Cache / reactive.Resource, injects Invalidate / Strobe / Stop / PurgeCache
// under seeded perturbation and scripted pauses at the verifhook points of reactive/graph.go and
// reactive/rerunner.go, records one event per critical section (inside the lock), evaluates the
// property oracle directly on the implementation and prints the event log as a Coq term for
// Thunder.Reactive.Replay.check_case.
package reactsim

import (
	"fmt"
	"strings"

	"verifharness/pkg/vh"
)

// Op is one step of a compute function (Coq: Reactive.Rerunner.op).
type Op struct {
	Branches [][]Op `json:"branches,omitempty"` // par: goroutines inside the compute function
	Kind     string `json:"k"`                  // dep | timer | cache | fail | retry
	Slot     int    `json:"slot"`               // dep
	Key      int    `json:"key"`                // cache
	Body     []Op   `json:"body"`               // cache
	Alt      bool   `json:"alt,omitempty"`      // cache: the call is left out on every second compute of the rerunner
}

type RR struct {
	Prog       []Op `json:"prog"`
	Spawn      bool `json:"spawn"`       // alwaysSpawnGoroutine
	IntervalUs int  `json:"interval_us"` // minRerunInterval
}

// Inj is an action of the environment.
type Inj struct {
	Kind    string `json:"k"` // strobe | invalidate | stop | purge | flush (RerunImmediately) | outside (AddDependency without a rerunner)
	Target  int    `json:"t"` // slot or rerunner
	DelayUs int    `json:"delay_us"`
}

// Rule is a scripted pause: the Nth time any goroutine passes hook point Point it (optionally) starts the
// injection Inject in a fresh goroutine and then holds – inside the critical section the point lies in –
// until hook point Wait has been passed once more or HoldUs elapsed.
type Rule struct {
	Point  string `json:"point"`
	Nth    int    `json:"nth"`
	Inject *Inj   `json:"inject,omitempty"`
	Wait   string `json:"wait,omitempty"`
	HoldUs int    `json:"hold_us"`
}

type Case struct {
	Slots    int    `json:"slots"`
	RRs      []RR   `json:"rrs"`
	Injs     []Inj  `json:"injs"`
	Rules    []Rule `json:"rules"`
	Perturb  int    `json:"perturb"` // percent of hook passages that yield / sleep
	PSeed    uint64 `json:"pseed"`
	TimerBud int    `json:"timer_budget"`
	FailBud  int    `json:"fail_budget"`
	DelayUs  int    `json:"wtr_delay_us,omitempty"` // reactive.WriteThenReadDelay for this case
	Origin   string `json:"origin"`
}

// ---- generation ----

// HooksKeyLock says whether the tree under test has the observation points of the per-key lock of
// reactive.Cache (patch C04-hooks-2); without them no goroutines are started inside compute functions
// (the lock is then never contended and its events are synthesised).
var HooksKeyLock = false

// genProg draws a compute function.  Keys grow strictly along the nesting of Cache calls (a fixed lock order:
// no key inside itself, no two branches taking two keys in opposite orders – both would deadlock on the
// per-key lock, a usage error); sibling calls and parallel branches may use the same key.
func genProg(r *vh.Rng, slots int, depth int, minKey int, top bool) []Op {
	n := 1 + r.Intn(3)
	var p []Op
	for i := 0; i < n; i++ {
		k := r.Intn(100)
		switch {
		case k < 40 || depth == 0 && k < 80:
			p = append(p, Op{Kind: "dep", Slot: r.Intn(slots)})
		case k < 70:
			key := minKey + r.Intn(2)
			if key > 7 {
				p = append(p, Op{Kind: "dep", Slot: r.Intn(slots)})
				continue
			}
			p = append(p, Op{Kind: "cache", Key: key, Alt: r.Chance(20), Body: genProg(r, slots, depth-1, key+1, false)})
		case k < 80:
			if !HooksKeyLock {
				p = append(p, Op{Kind: "dep", Slot: r.Intn(slots)})
				continue
			}
			nb := 2 + r.Intn(2)
			var bs [][]Op
			for b := 0; b < nb; b++ {
				bs = append(bs, genProg(r, slots, depth-1, minKey, false))
			}
			p = append(p, Op{Kind: "par", Branches: bs})
		case k < 88:
			p = append(p, Op{Kind: "timer"})
		case k < 94:
			p = append(p, Op{Kind: "fail"})
		default:
			p = append(p, Op{Kind: "retry"})
		}
	}
	if top {
		// a rerunner without any dependency is trivial: make sure there is one
		has := false
		var walk func([]Op)
		walk = func(q []Op) {
			for _, o := range q {
				if o.Kind == "dep" {
					has = true
				}
				walk(o.Body)
				for _, b := range o.Branches {
					walk(b)
				}
			}
		}
		walk(p)
		if !has {
			p = append([]Op{{Kind: "dep", Slot: r.Intn(slots)}}, p...)
		}
	}
	return p
}

func inPath(path []int, k int) bool {
	for _, x := range path {
		if x == k {
			return true
		}
	}
	return false
}

var rulePoints = []string{"pick", "read", "reactive.addOut", "reactive.run.publish", "reactive.handleInvalidate",
	"reactive.release.mark", "reactive.release.dep", "reactive.release.enter", "reactive.invalidate.mark",
	"reactive.cache.get", "reactive.cache.set", "reactive.run.locked", "reactive.cache.clean", "reactive.node.Invalidated",
	"reactive.compute.begin", "reactive.strobe.snapshot", "reactive.stop.cancel", "reactive.run.unlock"}

var waitPoints = []string{"", "reactive.invalidate.mark", "reactive.addOut", "reactive.cache.get", "reactive.release.dep",
	"reactive.release.mark", "reactive.handleInvalidate", "reactive.run.locked", "pick", "reactive.run.publish"}

func genInj(r *vh.Rng, c *Case, stopPct int) Inj {
	k := r.Intn(100)
	switch {
	case k < 40:
		return Inj{Kind: "strobe", Target: r.Intn(c.Slots), DelayUs: r.Intn(400)}
	case k < 75:
		return Inj{Kind: "invalidate", Target: r.Intn(c.Slots), DelayUs: r.Intn(400)}
	case k < 75+stopPct:
		return Inj{Kind: "stop", Target: r.Intn(len(c.RRs)), DelayUs: r.Intn(400)}
	case k < 90:
		return Inj{Kind: "purge", Target: r.Intn(len(c.RRs)), DelayUs: r.Intn(400)}
	case k < 94:
		return Inj{Kind: "outside", Target: r.Intn(c.Slots), DelayUs: r.Intn(400)}
	case k < 97:
		return Inj{Kind: "cancelparent", Target: r.Intn(len(c.RRs)), DelayUs: r.Intn(400)}
	default:
		return Inj{Kind: "flush", Target: r.Intn(len(c.RRs)), DelayUs: r.Intn(400)}
	}
}

// firstDep is the slot of the first dependency a program registers (-1: none on its first path).
func firstDep(p []Op) int {
	for _, o := range p {
		switch o.Kind {
		case "dep":
			return o.Slot
		case "cache":
			if !o.Alt {
				if s := firstDep(o.Body); s >= 0 {
					return s
				}
			}
		case "par":
			for _, b := range o.Branches {
				if s := firstDep(b); s >= 0 {
					return s
				}
			}
		case "fail", "retry":
			return -1
		}
	}
	return -1
}

// Gen draws one case.  flavour "C04" leans to plain dependencies, Stop and the run/arm windows;
// "C08" to nested caches, PurgeCache and release windows.
func Gen(r *vh.Rng, flavour string) Case {
	c := Case{Slots: 1 + r.Intn(3), Origin: "generated"}
	nr := 1 + r.Intn(3)
	maxDepth := r.Intn(4) // 0..3 levels of Cache
	if flavour == "C04" && r.Chance(40) {
		maxDepth = 0
	}
	if flavour == "C08" && maxDepth == 0 {
		maxDepth = 1 + r.Intn(3)
	}
	for i := 0; i < nr; i++ {
		c.RRs = append(c.RRs, RR{Prog: genProg(r, c.Slots, maxDepth, 0, true), Spawn: r.Chance(60), IntervalUs: []int{0, 100, 200, 2000, 20000}[r.Intn(5)]})
	}
	late := r.Chance(25)
	var lateRule Rule
	if late {
		// a share of the histories registers a resource late in a run, after a dependency registered earlier in the
		// same run has been strobed / invalidated: the run is held right after its first read
		ri := r.Intn(nr)
		s0 := firstDep(c.RRs[ri].Prog)
		if s0 < 0 {
			s0 = 0
			c.RRs[ri].Prog = append([]Op{{Kind: "dep", Slot: 0}}, c.RRs[ri].Prog...)
		}
		if c.Slots < 2 {
			c.Slots = 2
		}
		s1 := (s0 + 1 + r.Intn(c.Slots-1)) % c.Slots
		c.RRs[ri].Prog = append(c.RRs[ri].Prog, Op{Kind: "dep", Slot: s1})
		in := Inj{Kind: []string{"strobe", "invalidate"}[r.Intn(2)], Target: s0}
		lateRule = Rule{Point: "read", Nth: 1 + r.Intn(3), Inject: &in, HoldUs: 800 + r.Intn(1700)}
	}
	stopPct := 8
	if flavour == "C04" {
		stopPct = 15
	}
	ni := 2 + r.Intn(10)
	if r.Chance(12) {
		// a share of the histories uses a cached sub-computation in one run, leaves it out in the next (the child
		// is released with the superseded computation), changes the child's resource meanwhile and asks for the
		// key again: a released entry must not be served
		ri := r.Intn(nr)
		if c.Slots < 2 {
			c.Slots = 2
		}
		s0 := r.Intn(c.Slots)
		s1 := (s0 + 1 + r.Intn(c.Slots-1)) % c.Slots
		key := 50 + r.Intn(3)
		c.RRs[ri].Prog = append([]Op{{Kind: "dep", Slot: s0}}, c.RRs[ri].Prog...)
		c.RRs[ri].Prog = append(c.RRs[ri].Prog, Op{Kind: "cache", Key: key, Alt: true, Body: []Op{{Kind: "dep", Slot: s1}}})
		gap := 1500 + r.Intn(3000) + 2*c.RRs[ri].IntervalUs
		kind := func() string { return []string{"strobe", "invalidate"}[r.Intn(2)] }
		c.Injs = append(c.Injs, Inj{Kind: kind(), Target: s0, DelayUs: gap}, Inj{Kind: kind(), Target: s1, DelayUs: gap},
			Inj{Kind: kind(), Target: s0, DelayUs: gap})
		ni = r.Intn(4)
	}
	if r.Chance(15) {
		// a share of the histories nests reactive.Cache calls deeply over a wide key alphabet (distinct keys drawn
		// from several hundred, in no particular order): the per-key locks of all the levels are held at once
		ri := r.Intn(nr)
		depth := 5 + r.Intn(4)
		seen := map[int]bool{}
		var keys []int
		for len(keys) < depth {
			k := 100 + r.Intn(900)
			if !seen[k] {
				seen[k] = true
				keys = append(keys, k)
			}
		}
		body := []Op{{Kind: "dep", Slot: r.Intn(c.Slots)}}
		for i := depth - 1; i >= 0; i-- {
			lvl := []Op{{Kind: "cache", Key: keys[i], Body: body}}
			if r.Chance(40) {
				lvl = append([]Op{{Kind: "dep", Slot: r.Intn(c.Slots)}}, lvl...)
			}
			body = lvl
		}
		c.RRs[ri].Prog = append(c.RRs[ri].Prog, body...)
	}
	for i := 0; i < ni; i++ {
		c.Injs = append(c.Injs, genInj(r, &c, stopPct))
	}
	if r.Chance(70) {
		for k := 1 + r.Intn(3); k > 0; k-- {
			ru := Rule{Point: r.Pick(rulePoints), Nth: 1 + r.Intn(4), Wait: r.Pick(waitPoints), HoldUs: 200 + r.Intn(1500)}
			if r.Chance(70) {
				in := genInj(r, &c, stopPct)
				in.DelayUs = 0
				ru.Inject = &in
			}
			c.Rules = append(c.Rules, ru)
		}
	}
	if r.Chance(20) {
		// a share of the histories runs with a real write-then-read delay (the re-run sleeps with r.mu held);
		// Stop is then aimed at a run that has just taken r.mu
		c.DelayUs = 3000 + r.Intn(9000)
		in := Inj{Kind: "stop", Target: r.Intn(len(c.RRs))}
		c.Rules = append(c.Rules, Rule{Point: "reactive.run.locked", Nth: 2 + r.Intn(4), Inject: &in, HoldUs: 100 + r.Intn(400)})
	}
	if late {
		c.Rules = append(c.Rules, lateRule)
	}
	c.Perturb = []int{0, 10, 30, 60}[r.Intn(4)]
	c.PSeed = r.U64()
	c.TimerBud = r.Intn(4)
	c.FailBud = r.Intn(3)
	return c
}

// ---- Coq printing ----

func coqOps(p []Op) string {
	xs := make([]string, len(p))
	for i, o := range p {
		switch o.Kind {
		case "dep":
			xs[i] = fmt.Sprintf("ODep %d", o.Slot)
		case "timer":
			xs[i] = "OTimer"
		case "cache":
			xs[i] = fmt.Sprintf("OCache %d %s", o.Key, coqOps(o.Body))
		case "fail":
			xs[i] = "OFail"
		case "retry":
			xs[i] = "ORetry"
		case "par":
			bs := make([]string, len(o.Branches))
			for k, b := range o.Branches {
				bs[k] = coqOps(b)
			}
			xs[i] = "OPar [" + strings.Join(bs, "; ") + "]"
		default:
			panic("op " + o.Kind)
		}
	}
	return "[" + strings.Join(xs, "; ") + "]"
}

// sharedSlots counts the slots that at least two rerunners depend on (shared resources between rerunners).
func (c *Case) sharedSlots() int {
	users := map[int]map[int]bool{}
	var walk func([]Op, int)
	walk = func(p []Op, ri int) {
		for _, o := range p {
			if o.Kind == "dep" {
				if users[o.Slot] == nil {
					users[o.Slot] = map[int]bool{}
				}
				users[o.Slot][ri] = true
			}
			walk(o.Body, ri)
			for _, b := range o.Branches {
				walk(b, ri)
			}
		}
	}
	for i, r := range c.RRs {
		walk(r.Prog, i)
	}
	n := 0
	for _, u := range users {
		if len(u) > 1 {
			n++
		}
	}
	return n
}

// hasPar says whether some compute function starts goroutines.
func (c *Case) hasPar() bool {
	var walk func([]Op) bool
	walk = func(p []Op) bool {
		for _, o := range p {
			if o.Kind == "par" || walk(o.Body) {
				return true
			}
			for _, b := range o.Branches {
				if walk(b) {
					return true
				}
			}
		}
		return false
	}
	for _, r := range c.RRs {
		if walk(r.Prog) {
			return true
		}
	}
	return false
}

func (c *Case) shape() string {
	depth := 0
	var walk func([]Op, int)
	walk = func(p []Op, d int) {
		if d > depth {
			depth = d
		}
		for _, o := range p {
			if o.Kind == "cache" {
				walk(o.Body, d+1)
			}
			for _, b := range o.Branches {
				walk(b, d)
			}
		}
	}
	for _, r := range c.RRs {
		walk(r.Prog, 0)
	}
	return fmt.Sprintf("rr%d-slots%d-cache%d", len(c.RRs), c.Slots, depth)
}
