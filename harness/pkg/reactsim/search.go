package reactsim

import (
	"encoding/json"
	"io/ioutil"
	"strings"

	"verifharness/pkg/vh"
)

// Failing-input search (FRAMEWORK.md): variants of the histories on which model and implementation
// disagreed; only the oracle is evaluated on them.

func readSeeds(path string) []Case {
	var seeds []Case
	b, err := ioutil.ReadFile(path)
	if err != nil {
		return nil
	}
	for _, line := range strings.Split(string(b), "\n") {
		var w struct {
			Case Case `json:"case"`
		}
		if strings.TrimSpace(line) != "" && json.Unmarshal([]byte(line), &w) == nil && len(w.Case.RRs) > 0 {
			seeds = append(seeds, w.Case)
		}
	}
	return seeds
}

func cloneCase(c Case) Case {
	b, _ := json.Marshal(c)
	var d Case
	json.Unmarshal(b, &d)
	return d
}

func pointIndex(p string) int {
	for i, x := range rulePoints {
		if x == p {
			return i
		}
	}
	return -1
}

// nearbyInj draws the injection a variant adds: mostly one more invalidation / strobe, sometimes Stop / PurgeCache / flush.
func nearbyInj(r *vh.Rng, c *Case) Inj {
	switch k := r.Intn(100); {
	case k < 35:
		return Inj{Kind: "strobe", Target: r.Intn(c.Slots)}
	case k < 70:
		return Inj{Kind: "invalidate", Target: r.Intn(c.Slots)}
	case k < 82:
		return Inj{Kind: "stop", Target: r.Intn(len(c.RRs))}
	case k < 90:
		return Inj{Kind: "purge", Target: r.Intn(len(c.RRs))}
	case k < 94:
		return Inj{Kind: "outside", Target: r.Intn(c.Slots)}
	case k < 97:
		return Inj{Kind: "cancelparent", Target: r.Intn(len(c.RRs))}
	default:
		return Inj{Kind: "flush", Target: r.Intn(len(c.RRs))}
	}
}

// Variant makes one to three small edits to a history.
func Variant(r *vh.Rng, seed Case) Case {
	c := cloneCase(seed)
	c.Origin = "search"
	for k := 1 + r.Intn(3); k > 0; k-- {
		switch e := r.Intn(10); {
		case e < 2 && len(c.Rules) > 0:
			// a pause moved to the neighbouring hook point
			ru := &c.Rules[r.Intn(len(c.Rules))]
			if i := pointIndex(ru.Point); i >= 0 {
				if r.Bool() {
					i++
				} else {
					i += len(rulePoints) - 1
				}
				ru.Point = rulePoints[i%len(rulePoints)]
			}
		case e < 3 && len(c.Rules) > 0:
			// the same pause one occurrence earlier / later, or waiting for something else
			ru := &c.Rules[r.Intn(len(c.Rules))]
			switch r.Intn(3) {
			case 0:
				ru.Nth++
			case 1:
				if ru.Nth > 1 {
					ru.Nth--
				}
			default:
				ru.Wait = r.Pick(waitPoints)
			}
		case e < 6:
			// one more invalidation / strobe / Stop / PurgeCache issued from inside a critical section
			in := nearbyInj(r, &c)
			ru := Rule{Point: r.Pick(rulePoints), Nth: 1 + r.Intn(5), Inject: &in, Wait: r.Pick(waitPoints), HoldUs: 100 + r.Intn(1500)}
			if len(c.Rules) > 0 && r.Chance(60) {
				// right at, just before or just after an existing pause
				o := c.Rules[r.Intn(len(c.Rules))]
				ru.Point, ru.Nth = o.Point, o.Nth+r.Intn(3)-1
				if ru.Nth < 1 {
					ru.Nth = 1
				}
			}
			if len(c.Rules) < 6 {
				c.Rules = append(c.Rules, ru)
			}
		case e < 8:
			// one more action of the environment, right before / after an existing one
			in := nearbyInj(r, &c)
			in.DelayUs = r.Intn(200)
			i := r.Intn(len(c.Injs) + 1)
			c.Injs = append(c.Injs[:i], append([]Inj{in}, c.Injs[i:]...)...)
		case e < 9:
			c.Perturb = []int{0, 10, 30, 60}[r.Intn(4)]
			c.PSeed = r.U64()
		default:
			if len(c.Injs) > 1 {
				i := r.Intn(len(c.Injs))
				c.Injs = append(c.Injs[:i], c.Injs[i+1:]...)
			}
		}
	}
	return c
}
