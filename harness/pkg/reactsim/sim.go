package reactsim

import (
	"context"
	"errors"
	"fmt"
	"reflect"
	"runtime"
	"sync"
	"sync/atomic"
	"time"

	"github.com/samsarahq/thunder/reactive"
	"github.com/samsarahq/thunder/verifhook"
	"verifharness/pkg/vh"
)

type pair struct{ Slot, Ver, Depth int }

// ev is one recorded event; ids are small integers (nodes in order of allocation, rerunners by index,
// goroutines renumbered densely at emission time).
type ev struct {
	gid        int64
	kind       string
	a, b, c    int
	f1, f2, f3 bool
	list       []int
	val        []pair
	env        bool
	snap       *snap
}

type slot struct {
	mu  sync.Mutex
	ver int
	res *reactive.Resource
	id  int // node id of res
}

type rrState struct {
	inCompute  int32
	stopCalled bool
	stopReturn int32
	failed     bool
	pendingOut []pair
	published  []pair
	hasPub     bool
	ctx        context.Context
	computes   int

	cancelled    bool // the context the rerunner was created with was cancelled (by its owner, not through Stop)
	cancelParent context.CancelFunc

	// resources the rerunner's computations registered through AddDependency (directly or by adopting a cached
	// sub-computation) at a time when their release had not been decided: of the running, the returned and the
	// published computation
	runClaims                map[int]int
	pendingClaims, pubClaims map[int]bool
}

type failure struct{ sig, detail string }

// cval is what a cached sub-computation returns: the pairs it read and the resources it registered.
type cval struct {
	pairs  []pair
	claims []int
}

type addOutInfo struct {
	n    int
	late bool // the release of n had been decided before this addOut
}

type depEdge struct {
	to   int
	late bool // registered after the release of the dependency had been decided
}

type Sim struct {
	c  *Case
	mu sync.Mutex

	ids        map[uintptr]int
	nodeOf     []interface{} // node id -> the pointer it was allocated for
	dumpBroken bool
	keep       []interface{}
	nextID     int
	harnessRes map[uintptr]bool
	rrPtr      map[uintptr]int
	cachePtr   map[uintptr]int
	creating   int
	events     []ev
	counts     map[string]int
	harnessGid map[int64]bool
	ruleDone   []bool
	prng       *vh.Rng

	slots    []*slot
	rrs      []*reactive.Rerunner
	st       []*rrState
	timers   map[int]int // node id -> 0 pending, 1 fired or cleaned
	relMarks map[int]int
	cleanups map[int]int // harness resources: callback count
	used     map[int]bool
	current  map[int]bool // node ids that are some slot's current resource
	fails    []failure

	timerBud, failBud int32
	forks             int

	// liveness of computations and who registered what, for the clause "a resource is not released while a
	// computation that registered it has not been superseded or stopped"
	depEdges   map[int][]depEdge    // dependency node -> dependants, as registered by addOut
	decided    map[int]bool         // release of the node has been decided (shouldRelease seen)
	liveRoot   map[int]bool         // computation of a rerunner: begun, and neither failed nor superseded nor stopped
	inProgress map[int]bool         // cached sub-computation: its function is running
	pubNode    map[int]int          // rerunner -> node of its published computation
	expectRoot map[int64]bool       // goroutine is between r.mu.Lock and the compute.begin of the rerunner's computation
	resNode    map[int]bool         // node ids of Resources (slots and InvalidateAfter)
	lastAddOut map[int64]addOutInfo // per goroutine: the last addOut it performed
	phPtr      map[uintptr]bool     // placeholder dependants of AddDependency outside a rerunner (&node{released: true})
	sawKeyLock bool
	hung       bool // a Stop did not return: goroutines of this case are blocked for ever
	active     int32
}

var errFail = errors.New("harness: compute failed")

// how long Stop may take (it waits for the run in progress: compute functions of the harness take microseconds,
// scripted pauses a few milliseconds, WriteThenReadDelay at most 12 ms)
const stopDeadline = 4 * time.Second

func curGid() int64 {
	var buf [40]byte
	n := runtime.Stack(buf[:], false)
	// "goroutine 123 ["
	var id int64
	for i := 10; i < n; i++ {
		ch := buf[i]
		if ch < '0' || ch > '9' {
			break
		}
		id = id*10 + int64(ch-'0')
	}
	return id
}

func ptrOf(x interface{}) uintptr {
	v := reflect.ValueOf(x)
	if !v.IsValid() {
		return 0
	}
	switch v.Kind() {
	case reflect.Ptr, reflect.UnsafePointer, reflect.Map, reflect.Chan, reflect.Func, reflect.Slice:
		return v.Pointer()
	}
	return 0
}

// id returns the node id of a pointer, allocating the next one on first sight (must hold s.mu).
func (s *Sim) id(x interface{}) int {
	p := ptrOf(x)
	if p == 0 {
		return -1
	}
	if i, ok := s.ids[p]; ok {
		return i
	}
	i := s.nextID
	s.nextID++
	s.ids[p] = i
	s.keep = append(s.keep, x)
	s.nodeOf = append(s.nodeOf, x)
	return i
}

func (s *Sim) known(x interface{}) bool {
	_, ok := s.ids[ptrOf(x)]
	return ok
}

func (s *Sim) idList(x interface{}) []int {
	v := reflect.ValueOf(x)
	out := make([]int, v.Len())
	for i := 0; i < v.Len(); i++ {
		p := v.Index(i).Pointer()
		id, ok := s.ids[p]
		if !ok {
			id = 9999 // unknown node: the model will not agree
		}
		out[i] = id
	}
	return out
}

func (s *Sim) fail(sig, detail string) {
	if len(s.fails) < 20 {
		s.fails = append(s.fails, failure{sig, detail})
	}
}

func keyInt(x interface{}) int {
	if k, ok := x.(int); ok {
		return k
	}
	return -1
}

// liveDependant looks for a computation that is current (its function is running, or it is the published
// computation of a rerunner that was not stopped) and that registered node n - directly or through cached
// sub-computations - before the release of the node it registered on had been decided.
func (s *Sim) liveDependant(n int) (int, bool) {
	seen := map[int]bool{n: true}
	work := []int{n}
	for len(work) > 0 {
		x := work[0]
		work = work[1:]
		for _, e := range s.depEdges[x] {
			if e.late || seen[e.to] {
				continue
			}
			if s.liveRoot[e.to] || s.inProgress[e.to] {
				return e.to, true
			}
			seen[e.to] = true
			work = append(work, e.to)
		}
	}
	return 0, false
}

// releaseDecided is called when the code under test decides to release node n (shouldRelease).
func (s *Sim) releaseDecided(n int, how string) {
	if s.decided[n] {
		return
	}
	if s.resNode[n] {
		if x, ok := s.liveDependant(n); ok {
			s.fail("resource-released-while-current-computation-depends-on-it",
				fmt.Sprintf("release of resource node %d decided (%s) while computation node %d, which registered it and is neither superseded nor stopped nor failed, still depends on it", n, how, x))
		}
	}
	s.decided[n] = true
}

// record translates a hook passage into an event (s.mu held).
func (s *Sim) record(gid int64, point string, args []interface{}) {
	e := ev{gid: gid, kind: point}
	switch point {
	case "reactive.node.Invalidated":
		e.a, e.f1 = s.id(args[0]), args[1].(bool)
	case "reactive.strobe.snapshot":
		e.a, e.list = s.id(args[0]), s.idList(args[1])
	case "reactive.invalidate.noop", "reactive.release.enter", "reactive.release.noop":
		if s.phPtr[ptrOf(args[0])] {
			e.kind = "phinv"
			break
		}
		e.a = s.id(args[0])
	case "reactive.invalidate.mark":
		if s.phPtr[ptrOf(args[0])] {
			e.kind = "phinv"
			break
		}
		e.a, e.list, e.f1 = s.id(args[0]), s.idList(args[1]), args[2].(bool)
	case "reactive.release.mark":
		e.a, e.f1, e.b = s.id(args[0]), args[1].(bool), args[2].(int)
		s.relMarks[e.a]++
		if _, ok := s.timers[e.a]; ok {
			s.timers[e.a] = 1
		}
	case "reactive.release.dep":
		e.a, e.b, e.f1 = s.id(args[0]), s.id(args[1]), args[2].(bool)
		if e.f1 {
			s.releaseDecided(e.a, "the release of a dependant found it should go")
		}
	case "reactive.addOut":
		if p := ptrOf(args[1]); !args[2].(bool) && !s.known(args[1]) {
			// a released dependant nobody has seen before: the placeholder of AddDependency outside a rerunner
			s.phPtr[p] = true
			s.keep = append(s.keep, args[1])
			e.kind, e.a, e.f2, e.f3 = "outadd", s.id(args[0]), args[3].(bool), args[4].(bool)
			s.used[e.a] = true
			s.lastAddOut[gid] = addOutInfo{n: e.a, late: s.decided[e.a]}
			if e.f3 {
				s.releaseDecided(e.a, "addOut of a released dependant")
			}
			break
		}
		e.a, e.b, e.f1, e.f2, e.f3 = s.id(args[0]), s.id(args[1]), args[2].(bool), args[3].(bool), args[4].(bool)
		s.used[e.a] = true
		s.lastAddOut[gid] = addOutInfo{n: e.a, late: s.decided[e.a]}
		if e.f1 {
			s.depEdges[e.a] = append(s.depEdges[e.a], depEdge{to: e.b, late: s.decided[e.a]})
		}
		if e.f3 {
			s.releaseDecided(e.a, "addOut found no dependant")
		}
	case "reactive.handleInvalidate":
		e.a, e.f1 = s.id(args[0]), args[1].(bool)
	case "reactive.InvalidateAfter.new":
		e.kind = "timer.new"
		e.a = s.id(args[0])
		s.timers[e.a] = 0
		s.resNode[e.a] = true
	case "reactive.handleRelease":
		if s.harnessRes[ptrOf(args[0])] {
			return
		}
		if _, ok := s.timers[s.id(args[0])]; !ok {
			s.fail("harness-unexpected-handleRelease", "handleRelease on a node that is neither a slot resource nor an InvalidateAfter resource")
		}
		e.kind = "timer.reg"
		e.a, e.f1 = s.id(args[0]), args[1].(bool)
	case "reactive.cache.get":
		e.a, e.b, e.c = s.cachePtr[ptrOf(args[0])], keyInt(args[1]), s.id(args[2])
		if !HooksKeyLock {
			// no observation point at cache.locker.Lock in this tree: the lock was taken (uncontended: compute
			// functions are sequential then) some time before this cache.get
			s.events = append(s.events, ev{gid: gid, kind: "keylock", a: e.a, b: e.b})
		}
	case "reactive.cache.set":
		e.a, e.b, e.c, e.f1 = s.cachePtr[ptrOf(args[0])], keyInt(args[1]), s.id(args[2]), args[3].(bool)
	case "reactive.cache.clean":
		e.a, e.b = s.cachePtr[ptrOf(args[0])], args[1].(int)
	case "reactive.cache.cleaned", "reactive.cache.purge":
		e.a = s.cachePtr[ptrOf(args[0])]
		if point == "reactive.cache.purge" && s.harnessGid[gid] {
			e.kind, e.env = "env.purge", true
		}
	case "reactive.cache.lockerr":
		e.a = s.cachePtr[ptrOf(args[0])]
	case "reactive.cache.locked":
		e.kind, e.a, e.b = "keylock", s.cachePtr[ptrOf(args[0])], keyInt(args[1])
		s.sawKeyLock = true
	case "reactive.cache.unlock":
		e.kind, e.a, e.b = "keyunlock", s.cachePtr[ptrOf(args[0])], keyInt(args[1])
	case "reactive.Resource.Invalidate":
		if s.harnessRes[ptrOf(args[0])] {
			return
		}
		e.kind, e.env, e.a = "env.timer", true, s.id(args[0])
		s.timers[e.a] = 1
	case "reactive.Resource.Strobe":
		return
	case "reactive.compute.end":
		delete(s.inProgress, s.id(args[0]))
		return
	case "reactive.compute.begin", "reactive.compute.fail":
		e.a = s.id(args[0])
		if point == "reactive.compute.begin" {
			if s.expectRoot[gid] {
				delete(s.expectRoot, gid)
				s.liveRoot[e.a] = true
			} else {
				s.inProgress[e.a] = true
			}
		} else {
			delete(s.liveRoot, e.a)
			delete(s.inProgress, e.a)
		}
	case "reactive.rerunner.new":
		s.rrPtr[ptrOf(args[0])] = s.creating
		s.cachePtr[ptrOf(args[1])] = s.creating
		s.keep = append(s.keep, args[0], args[1])
		return
	case "reactive.run.proceed", "reactive.run.unlock", "reactive.run.failed", "reactive.run.retry", "reactive.stop.cancel":
		e.a = s.rrPtr[ptrOf(args[0])]
		if point == "reactive.run.failed" {
			s.st[e.a].failed = true
		}
	case "reactive.run.locked", "reactive.stop.mark":
		e.a, e.f1 = s.rrPtr[ptrOf(args[0])], args[1].(bool)
		if point == "reactive.run.locked" {
			if !e.f1 {
				s.expectRoot[gid] = true
			}
		} else {
			s.st[e.a].pubClaims = nil
			if n, ok := s.pubNode[e.a]; ok { // Stop: the published computation is stopped
				delete(s.liveRoot, n)
				delete(s.pubNode, e.a)
			}
		}
	case "reactive.run.publish":
		e.a, e.f1, e.b = s.rrPtr[ptrOf(args[0])], args[1].(bool), s.id(args[2])
		st := s.st[e.a]
		e.val = st.pendingOut
		st.published, st.hasPub = st.pendingOut, true
		st.pubClaims, st.pendingClaims = st.pendingClaims, nil
		if n, ok := s.pubNode[e.a]; ok { // the previous computation is superseded
			delete(s.liveRoot, n)
		}
		s.pubNode[e.a] = e.b
	default:
		s.fail("harness-unknown-hook-point", point)
		return
	}
	s.events = append(s.events, e)
}

// pass is called at every hook point (thunder's and the harness's own), after the event was recorded:
// scripted pauses and perturbation.
func (s *Sim) pass(point string) {
	var rule *Rule
	s.counts[point]++
	n := s.counts[point]
	for i := range s.c.Rules {
		r := &s.c.Rules[i]
		if !s.ruleDone[i] && r.Point == point && r.Nth == n {
			s.ruleDone[i] = true
			rule = r
			break
		}
	}
	pert := 0
	if rule == nil && s.c.Perturb > 0 && s.prng.Intn(100) < s.c.Perturb {
		pert = 1 + s.prng.Intn(3)
	}
	var target int
	if rule != nil && rule.Wait != "" {
		target = s.counts[rule.Wait] + 1
	}
	s.mu.Unlock()
	if rule != nil {
		if rule.Inject != nil {
			s.goInject(*rule.Inject)
		}
		deadline := time.Now().Add(time.Duration(rule.HoldUs) * time.Microsecond)
		for time.Now().Before(deadline) {
			if rule.Wait != "" {
				s.mu.Lock()
				ok := s.counts[rule.Wait] >= target
				s.mu.Unlock()
				if ok {
					break
				}
			}
			time.Sleep(20 * time.Microsecond)
		}
	} else {
		switch pert {
		case 1:
			runtime.Gosched()
		case 2:
			time.Sleep(time.Duration(5+s.prngIntn(60)) * time.Microsecond)
		case 3:
			time.Sleep(time.Duration(100+s.prngIntn(300)) * time.Microsecond)
		}
	}
	s.mu.Lock()
}

func (s *Sim) prngIntn(n int) int {
	s.mu.Lock()
	defer s.mu.Unlock()
	return s.prng.Intn(n)
}

func (s *Sim) hook(point string, args ...interface{}) {
	if atomic.LoadInt32(&s.active) == 0 {
		return
	}
	gid := curGid()
	s.mu.Lock()
	s.record(gid, point, args)
	s.pass(point)
	s.mu.Unlock()
}

// own logs an event of the harness's own code and passes the point (caller holds whatever lock makes
// the event atomic with the action it describes).
func (s *Sim) own(e ev, point string) {
	e.gid = curGid()
	s.mu.Lock()
	s.events = append(s.events, e)
	s.pass(point)
	s.mu.Unlock()
}

// newRes creates a resource for a slot and registers its node id (s.mu held by caller for id assignment).
func (s *Sim) newResLocked(sl int) (*reactive.Resource, int) {
	r := reactive.NewResource()
	id := s.id(r)
	s.harnessRes[ptrOf(r)] = true
	s.resNode[id] = true
	return r, id
}

func (s *Sim) cleanupFunc(sl int, r *reactive.Resource, id int) func() {
	return func() {
		x := s.slots[sl]
		x.mu.Lock()
		var fresh *reactive.Resource
		freshID := -1
		s.mu.Lock()
		s.cleanups[id]++
		if s.cleanups[id] > 1 {
			s.fail("cleanup-ran-twice", fmt.Sprintf("resource node %d of slot %d", id, sl))
		}
		for ri, st := range s.st {
			if st.runClaims[id] > 0 || st.pendingClaims[id] || st.pubClaims[id] {
				s.fail("cleanup-while-current-computation-depends-on-it",
					fmt.Sprintf("Cleanup of resource node %d (slot %d) ran while the current computation of rerunner %d, which registered it through AddDependency before its release was decided, is neither superseded nor stopped nor failed", id, sl, ri))
			}
		}
		if x.res == r {
			fresh, freshID = s.newResLocked(sl)
			delete(s.current, id)
			s.current[freshID] = true
		}
		s.events = append(s.events, ev{gid: curGid(), kind: "cleanup", a: id, b: freshID})
		s.pass("cleanup")
		s.mu.Unlock()
		if fresh != nil {
			fresh.Cleanup(s.cleanupFunc(sl, fresh, freshID))
			x.res, x.id = fresh, freshID
		}
		x.mu.Unlock()
	}
}

// claim notes that the running computation of rerunner ri depends on resource node id: AddDependency (or the
// adoption of a cached sub-computation that had registered it) returned, and the release of the node the calling
// goroutine attached had not been decided before the attachment.  unclaim drops the notes of a part of the run that
// failed (the nodes it built are released by the failure).
func (s *Sim) claim(ri int, ids []int, of int, viaAddOut bool) []int {
	s.mu.Lock()
	defer s.mu.Unlock()
	la, ok := s.lastAddOut[curGid()]
	if viaAddOut && (!ok || la.late || (of >= 0 && la.n != of)) {
		return nil
	}
	st := s.st[ri]
	if st.runClaims == nil {
		st.runClaims = map[int]int{}
	}
	for _, id := range ids {
		st.runClaims[id]++
	}
	return ids
}

func (s *Sim) unclaim(ri int, ids []int) {
	s.mu.Lock()
	defer s.mu.Unlock()
	st := s.st[ri]
	for _, id := range ids {
		if st.runClaims[id] > 0 {
			st.runClaims[id]--
		}
	}
}

func (s *Sim) exec(ctx context.Context, ri int, prog []Op, depth int, nth int) (out []pair, claims []int, err error) {
	defer func() {
		if err != nil {
			s.unclaim(ri, claims)
			claims = nil
		}
	}()
	for _, o := range prog {
		switch o.Kind {
		case "dep":
			x := s.slots[o.Slot]
			x.mu.Lock()
			res := x.res
			rid := x.id
			s.own(ev{kind: "pick", a: o.Slot, b: x.id}, "pick")
			x.mu.Unlock()
			reactive.AddDependency(ctx, res, nil)
			claims = append(claims, s.claim(ri, []int{rid}, rid, true)...)
			x.mu.Lock()
			v := x.ver
			s.own(ev{kind: "read", a: o.Slot, b: v}, "read")
			x.mu.Unlock()
			out = append(out, pair{o.Slot, v, depth})
		case "timer":
			if atomic.AddInt32(&s.timerBud, -1) >= 0 {
				reactive.InvalidateAfter(ctx, time.Duration(200+100*ri)*time.Microsecond)
			} else {
				s.own(ev{kind: "skip"}, "skip")
			}
		case "cache":
			if o.Alt && nth%2 == 0 {
				s.own(ev{kind: "skip"}, "skip")
				continue
			}
			body := o.Body
			v, err := reactive.Cache(ctx, o.Key, func(ctx context.Context) (interface{}, error) {
				ps, cl, err := s.exec(ctx, ri, body, depth+1, nth)
				if err != nil {
					return nil, err
				}
				// the body's notes now travel with the cached value; whoever adopts it notes them again
				s.unclaim(ri, cl)
				return &cval{pairs: ps, claims: cl}, nil
			})
			if err != nil {
				return nil, claims, err
			}
			claims = append(claims, s.claim(ri, v.(*cval).claims, -1, true)...)
			if !HooksKeyLock {
				s.own(ev{kind: "keyunlock", a: ri, b: o.Key}, "keyunlock")
			}
			for _, p := range v.(*cval).pairs {
				if p.Depth <= depth {
					p.Depth = depth + 1
				}
				out = append(out, p)
			}
		case "par":
			// goroutines inside the compute function, all on the same ctx / computation; the function waits for
			// them and returns an error if one of them did
			s.mu.Lock()
			jid := s.forks
			s.forks++
			s.events = append(s.events, ev{gid: curGid(), kind: "fork", a: jid, b: len(o.Branches)})
			s.pass("fork")
			s.mu.Unlock()
			outs := make([][]pair, len(o.Branches))
			cls := make([][]int, len(o.Branches))
			errs := make([]error, len(o.Branches))
			var wg sync.WaitGroup
			for bi := range o.Branches {
				wg.Add(1)
				go func(bi int) {
					defer wg.Done()
					s.own(ev{kind: "branch.begin", a: jid, b: bi}, "branch.begin")
					outs[bi], cls[bi], errs[bi] = s.exec(ctx, ri, o.Branches[bi], depth, nth)
					if errs[bi] != nil {
						s.own(ev{kind: "branch.fail", f1: errs[bi] == reactive.RetrySentinelError}, "branch.fail")
					}
					s.own(ev{kind: "branch.end", a: jid}, "branch.end")
				}(bi)
			}
			wg.Wait()
			failed := false
			for _, e := range errs {
				if e != nil {
					failed = true
				}
			}
			s.own(ev{kind: "join", a: jid, f1: failed}, "join")
			for _, cl := range cls {
				claims = append(claims, cl...)
			}
			if failed {
				return nil, claims, errFail
			}
			for _, bo := range outs {
				out = append(out, bo...)
			}
		case "fail", "retry":
			if atomic.AddInt32(&s.failBud, -1) >= 0 {
				s.own(ev{kind: "fail.decision"}, "fail.decision")
				if o.Kind == "fail" {
					return nil, claims, errFail
				}
				return nil, claims, reactive.RetrySentinelError
			}
			s.own(ev{kind: "skip"}, "skip")
		}
	}
	if out == nil {
		out = []pair{}
	}
	return out, claims, nil
}

func (s *Sim) computeFunc(ri int) reactive.ComputeFunc {
	st := s.st[ri]
	return func(ctx context.Context) (interface{}, error) {
		if atomic.AddInt32(&st.inCompute, 1) > 1 {
			s.mu.Lock()
			s.fail("runs-overlap", fmt.Sprintf("rerunner %d: compute entered while another run of it is in progress", ri))
			s.mu.Unlock()
		}
		if atomic.LoadInt32(&st.stopReturn) != 0 {
			s.mu.Lock()
			s.fail("compute-after-stop", fmt.Sprintf("rerunner %d: compute started after Stop returned", ri))
			s.mu.Unlock()
		}
		s.mu.Lock()
		st.ctx = ctx
		st.computes++
		nth := st.computes
		s.mu.Unlock()
		s.mu.Lock()
		st.runClaims = map[int]int{}
		s.mu.Unlock()
		out, _, err := s.exec(ctx, ri, s.c.RRs[ri].Prog, 0, nth)
		s.mu.Lock()
		if err == nil {
			st.pendingOut = out
			st.pendingClaims = map[int]bool{}
			for id, n := range st.runClaims {
				if n > 0 {
					st.pendingClaims[id] = true
				}
			}
		}
		st.runClaims = nil
		s.mu.Unlock()
		atomic.AddInt32(&st.inCompute, -1)
		return out, err
	}
}

func (s *Sim) inject(in Inj) {
	switch in.Kind {
	case "strobe":
		x := s.slots[in.Target]
		x.mu.Lock()
		x.ver++
		res := x.res
		s.own(ev{kind: "env.strobe", env: true, a: in.Target, b: x.ver}, "env.strobe")
		x.mu.Unlock()
		res.Strobe()
	case "invalidate":
		x := s.slots[in.Target]
		x.mu.Lock()
		x.ver++
		old := x.res
		s.mu.Lock()
		fresh, id := s.newResLocked(in.Target)
		delete(s.current, x.id)
		s.current[id] = true
		s.events = append(s.events, ev{gid: curGid(), kind: "env.invalidate", env: true, a: in.Target, b: x.ver, c: id})
		s.pass("env.invalidate")
		s.mu.Unlock()
		fresh.Cleanup(s.cleanupFunc(in.Target, fresh, id))
		x.res, x.id = fresh, id
		x.mu.Unlock()
		old.Invalidate()
	case "stop":
		st := s.st[in.Target]
		var rr *reactive.Rerunner
		for i := 0; i < 2000 && rr == nil; i++ { // a scripted injection may come before NewRerunner returned
			s.mu.Lock()
			if in.Target < len(s.rrs) {
				rr = s.rrs[in.Target]
			}
			s.mu.Unlock()
			if rr == nil {
				time.Sleep(50 * time.Microsecond)
			}
		}
		if rr == nil {
			return
		}
		s.mu.Lock()
		st.stopCalled = true
		s.events = append(s.events, ev{gid: curGid(), kind: "env.stop", env: true, a: in.Target})
		s.mu.Unlock()
		// Stop on a goroutine of its own with a deadline: a Stop that never returns (r.mu never released: a run
		// that deadlocked) must become an oracle failure with this case as its replay, not a harness that hangs
		done := make(chan struct{})
		go func() {
			s.mu.Lock()
			s.harnessGid[curGid()] = true
			s.mu.Unlock()
			rr.Stop()
			close(done)
		}()
		select {
		case <-done:
		case <-time.After(stopDeadline):
			s.mu.Lock()
			s.hung = true
			s.fail("stop-does-not-return", fmt.Sprintf("Stop of rerunner %d (alwaysSpawnGoroutine=%v) has not returned after %v: r.mu is never released (a run is blocked for ever), the stale computation is never run again",
				in.Target, s.c.RRs[in.Target].Spawn, stopDeadline))
			s.mu.Unlock()
			return
		}
		if atomic.LoadInt32(&st.inCompute) != 0 {
			s.mu.Lock()
			s.fail("run-in-progress-when-stop-returned", fmt.Sprintf("rerunner %d", in.Target))
			s.mu.Unlock()
		}
		atomic.StoreInt32(&st.stopReturn, 1)
	case "cancelparent":
		// the context the rerunner was created with is cancelled by its owner (not through Stop): no further run
		// starts; the computation stays until Stop
		st := s.st[in.Target]
		var cancel context.CancelFunc
		for i := 0; i < 2000 && cancel == nil; i++ {
			s.mu.Lock()
			if in.Target < len(s.rrs) {
				cancel = st.cancelParent
			}
			s.mu.Unlock()
			if cancel == nil {
				time.Sleep(50 * time.Microsecond)
			}
		}
		if cancel == nil {
			return
		}
		s.mu.Lock()
		st.cancelled = true
		s.events = append(s.events, ev{gid: curGid(), kind: "env.cancel", env: true, a: in.Target})
		cancel() // under s.mu: no observation of the rerunner can be recorded between the event and the cancellation
		s.mu.Unlock()
	case "purge":
		s.mu.Lock()
		ctx := s.st[in.Target].ctx
		s.mu.Unlock()
		if ctx != nil {
			reactive.PurgeCache(ctx)
		}
	case "outside":
		// AddDependency from a context without a rerunner: registers nothing, but must not disturb those who did
		x := s.slots[in.Target]
		x.mu.Lock()
		res := x.res
		s.own(ev{kind: "env.outside", env: true, a: in.Target, b: x.id}, "env.outside")
		x.mu.Unlock()
		reactive.AddDependency(context.Background(), res, nil)
	case "flush":
		// RerunImmediately only shortens the wait of the next run (flushCh); in the model a waiting run is
		// enabled at any time, so the call has no label of its own
		s.mu.Lock()
		var rr *reactive.Rerunner
		if in.Target < len(s.rrs) {
			rr = s.rrs[in.Target]
		}
		s.mu.Unlock()
		if rr != nil {
			rr.RerunImmediately()
		}
	}
}

// goInject runs an injection on a fresh harness goroutine.
func (s *Sim) goInject(in Inj) {
	// no WaitGroup: these goroutines are counted by runtime.NumGoroutine in waitQuiet
	go func() {
		s.mu.Lock()
		s.harnessGid[curGid()] = true
		s.mu.Unlock()
		s.inject(in)
	}()
}

func (s *Sim) pendingTimers() int {
	n := 0
	for _, v := range s.timers {
		if v == 0 {
			n++
		}
	}
	return n
}

func (s *Sim) waitQuiet(base int, timeout time.Duration) bool {
	deadline := time.Now().Add(timeout)
	stable, last := 0, -1
	for time.Now().Before(deadline) {
		g := runtime.NumGoroutine()
		s.mu.Lock()
		n, pt := len(s.events), s.pendingTimers()
		s.mu.Unlock()
		if g <= base && pt == 0 && n == last {
			stable++
			if stable >= 3 {
				return true
			}
		} else {
			stable = 0
		}
		last = n
		time.Sleep(150 * time.Microsecond)
	}
	return false
}

// Result of running one case.
type Result struct {
	Events                      []ev
	Fails                       []failure
	Outs                        [][]pair // published value per rerunner (nil: none)
	HasOut                      []bool
	Vers                        []int
	Computes                    int
	Quiet                       bool
	LiveAtQuiet, CleanedAtQuiet int
	DumpBroken                  bool
	NEvents                     int
	Kinds                       map[string]int
}

// RunCase executes the case against the implementation and evaluates the oracle.
func RunCase(c *Case) (res *Result) {
	s := &Sim{c: c, ids: map[uintptr]int{}, harnessRes: map[uintptr]bool{}, rrPtr: map[uintptr]int{}, cachePtr: map[uintptr]int{},
		counts: map[string]int{}, harnessGid: map[int64]bool{}, ruleDone: make([]bool, len(c.Rules)), prng: vh.NewRng(c.PSeed),
		timers: map[int]int{}, relMarks: map[int]int{}, cleanups: map[int]int{}, used: map[int]bool{}, current: map[int]bool{},
		timerBud: int32(c.TimerBud), failBud: int32(c.FailBud),
		depEdges: map[int][]depEdge{}, decided: map[int]bool{}, liveRoot: map[int]bool{}, inProgress: map[int]bool{}, pubNode: map[int]int{},
		expectRoot: map[int64]bool{}, resNode: map[int]bool{}, phPtr: map[uintptr]bool{}, lastAddOut: map[int64]addOutInfo{}}
	res = &Result{Kinds: map[string]int{}}
	defer func() {
		if e := recover(); e != nil {
			s.mu.TryLock()
			s.mu.Unlock()
			res.Fails = append(res.Fails, failure{"panic-in-harness-or-code-under-test", fmt.Sprint(e)})
		}
	}()
	old := reactive.WriteThenReadDelay
	reactive.WriteThenReadDelay = time.Duration(c.DelayUs) * time.Microsecond
	defer func() { reactive.WriteThenReadDelay = old }()

	base := runtime.NumGoroutine()
	s.harnessGid[curGid()] = true
	s.mu.Lock()
	for i := 0; i < c.Slots; i++ {
		r, id := s.newResLocked(i)
		s.slots = append(s.slots, &slot{res: r, id: id})
		s.current[id] = true
	}
	s.mu.Unlock()
	for range c.RRs {
		s.st = append(s.st, &rrState{})
	}
	atomic.StoreInt32(&s.active, 1)
	verifhook.Set(s.hook)
	defer verifhook.Set(nil)
	for i, x := range s.slots {
		x.res.Cleanup(s.cleanupFunc(i, x.res, x.id))
	}
	for i, r := range c.RRs {
		s.mu.Lock()
		s.creating = i
		s.mu.Unlock()
		pctx, pcancel := context.WithCancel(context.Background())
		defer pcancel()
		rr := reactive.NewRerunner(pctx, s.computeFunc(i), time.Duration(r.IntervalUs)*time.Microsecond, r.Spawn)
		s.mu.Lock()
		s.st[i].cancelParent = pcancel
		s.rrs = append(s.rrs, rr)
		s.mu.Unlock()
	}
	// the environment
	for _, in := range c.Injs {
		if in.DelayUs > 0 {
			time.Sleep(time.Duration(in.DelayUs) * time.Microsecond)
		}
		s.inject(in)
	}
	quiet := s.waitQuiet(base, 6*time.Second)
	s.mu.Lock()
	if !quiet {
		s.fail("no-quiescence", "activity did not stop within 6s after the last injection (livelock or deadlock)")
	} else {
		// C04 / C08 first half: the last published output is built from current versions only
		for ri, st := range s.st {
			if st.stopCalled || st.failed || st.cancelled {
				continue
			}
			res.LiveAtQuiet++ // premise of no_lost_invalidation / final_output_has_no_superseded_version holds of this rerunner
			if !st.hasPub {
				s.fail("no-output-at-quiescence", fmt.Sprintf("rerunner %d neither stopped nor failed but published nothing", ri))
				continue
			}
			for _, p := range st.published {
				if p.Ver != s.slots[p.Slot].ver {
					how := "read directly"
					if p.Depth > 0 {
						how = fmt.Sprintf("through %d level(s) of reactive.Cache", p.Depth)
					}
					s.fail("stale-output-at-quiescence", fmt.Sprintf("rerunner %d: final output holds slot %d at version %d (%s), current version is %d",
						ri, p.Slot, p.Ver, how, s.slots[p.Slot].ver))
				}
			}
		}
		// superseded resources nobody can depend on any more have been cleaned up (unless a failed rerunner, or one whose context was cancelled without Stop, pins them)
		pinned := false
		for _, st := range s.st {
			if (st.failed || st.cancelled) && !st.stopCalled {
				pinned = true
			}
		}
		for p, id := range s.ids {
			if s.harnessRes[p] && s.used[id] && !s.current[id] && s.cleanups[id] == 1 {
				res.CleanedAtQuiet++ // premise of cleanup_exactly_once_at_quiescence held of this superseded resource
			}
		}
		if !pinned {
			for p, id := range s.ids {
				if s.harnessRes[p] && s.used[id] && !s.current[id] && s.cleanups[id] != 1 {
					s.fail("superseded-resource-not-cleaned", fmt.Sprintf("resource node %d: cleanup ran %d times at quiescence", id, s.cleanups[id]))
				}
			}
		}
	}
	if quiet {
		s.dumpLocked()
	}
	res.Vers = make([]int, len(s.slots))
	s.mu.Unlock()
	// final phase: stop everything; every resource that was ever depended upon must then be cleaned exactly once
	for ri, st := range s.st {
		s.mu.Lock()
		sc := st.stopCalled || s.hung // after one Stop that does not return the others are not worth their deadline
		s.mu.Unlock()
		if !sc {
			s.inject(Inj{Kind: "stop", Target: ri})
		}
	}
	s.mu.Lock()
	hung := s.hung
	s.mu.Unlock()
	quiet2 := false
	if !hung {
		quiet2 = s.waitQuiet(base, 6*time.Second)
	}
	atomic.StoreInt32(&s.active, 0)
	s.mu.Lock()
	defer s.mu.Unlock()
	if quiet && !quiet2 {
		s.fail("no-quiescence", "activity did not stop within 6s after stopping every rerunner")
	}
	if quiet && quiet2 {
		s.dumpLocked()
		for p, id := range s.ids {
			if s.harnessRes[p] && s.used[id] && s.cleanups[id] != 1 {
				s.fail("cleanup-not-exactly-once", fmt.Sprintf("resource node %d: cleanup ran %d times after everything stopped", id, s.cleanups[id]))
			}
		}
		for id := range s.timers {
			if s.relMarks[id] != 1 {
				s.fail("timer-cleanup-not-exactly-once", fmt.Sprintf("InvalidateAfter resource node %d released %d times", id, s.relMarks[id]))
			}
		}
	}
	for i, x := range s.slots {
		res.Vers[i] = x.ver
	}
	for _, st := range s.st {
		res.Outs = append(res.Outs, st.published)
		res.HasOut = append(res.HasOut, st.hasPub)
		res.Computes += st.computes
	}
	res.Events = s.events
	res.Fails = append(res.Fails, s.fails...)
	res.Quiet = quiet && quiet2
	res.DumpBroken = s.dumpBroken
	res.NEvents = len(s.events)
	for _, e := range s.events {
		res.Kinds[e.kind]++
	}
	return res
}

// probeKeyLock runs one reactive.Cache call and reports whether the tree under test announces the per-key
// lock (observation points reactive.cache.locked / reactive.cache.unlock).
func probeKeyLock() bool {
	var seen int32
	verifhook.Set(func(point string, args ...interface{}) {
		if point == "reactive.cache.locked" {
			atomic.StoreInt32(&seen, 1)
		}
	})
	defer verifhook.Set(nil)
	done := make(chan struct{}, 1)
	rr := reactive.NewRerunner(context.Background(), func(ctx context.Context) (interface{}, error) {
		reactive.Cache(ctx, 0, func(ctx context.Context) (interface{}, error) { return 0, nil })
		select {
		case done <- struct{}{}:
		default:
		}
		return 0, nil
	}, 0, true)
	select {
	case <-done:
	case <-time.After(2 * time.Second):
	}
	rr.Stop()
	time.Sleep(2 * time.Millisecond)
	return atomic.LoadInt32(&seen) == 1
}
