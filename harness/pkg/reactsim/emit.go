package reactsim

import (
	"fmt"
	"path/filepath"
	"sort"
	"strings"

	"verifharness/pkg/vh"
)

func b(x bool) string { return vh.CoqBool(x) }

func natList(xs []int) string {
	ss := make([]string, len(xs))
	for i, x := range xs {
		ss[i] = fmt.Sprint(x)
	}
	return "[" + strings.Join(ss, "; ") + "]"
}

func valList(v []pair) string {
	ss := make([]string, len(v))
	for i, p := range v {
		ss[i] = fmt.Sprintf("(%d, %d)", p.Slot, p.Ver)
	}
	return "[" + strings.Join(ss, "; ") + "]"
}

func optNat(x int) string {
	if x < 0 {
		return "None"
	}
	return fmt.Sprintf("(Some %d)", x)
}

// coqEvents turns the raw log into the model's event list.  The error-return path of a compute function
// (harness decision or reactive.cache.lockerr, then reactive.compute.fail for every open computation,
// then reactive.run.failed / reactive.run.retry, with the retry path's purgeCache in between) is one
// model step: it is emitted as one KFail at the position of its first event.
func coqEvents(events []ev) ([]string, string) {
	gids := map[int64]int{}
	g := func(id int64) int {
		if k, ok := gids[id]; ok {
			return k
		}
		k := len(gids)
		gids[id] = k
		return k
	}
	type pend struct {
		idx  int
		cs   []int
		join int // >= 0: the sequence started at a join whose branch failed
	}
	pending := map[int64]*pend{}
	var out []string
	problem := ""
	for _, e := range events {
		t := func(k string) { out = append(out, fmt.Sprintf("ETask %d (%s)", g(e.gid), k)) }
		switch e.kind {
		case "reactive.invalidate.noop":
			t(fmt.Sprintf("KInvNoop %d", e.a))
		case "reactive.invalidate.mark":
			t(fmt.Sprintf("KInvMark %d %s %s", e.a, natList(e.list), b(e.f1)))
		case "reactive.strobe.snapshot":
			t(fmt.Sprintf("KStrobe %d %s", e.a, natList(e.list)))
		case "reactive.release.enter":
			t(fmt.Sprintf("KRelEnter %d", e.a))
		case "reactive.release.noop":
			t(fmt.Sprintf("KRelNoop %d", e.a))
		case "reactive.release.mark":
			t(fmt.Sprintf("KRelMark %d %s %d", e.a, b(e.f1), e.b))
		case "reactive.release.dep":
			t(fmt.Sprintf("KRelDep %d %d %s", e.a, e.b, b(e.f1)))
		case "cleanup":
			t(fmt.Sprintf("KCleanup %d %s", e.a, optNat(e.b)))
		case "reactive.addOut":
			t(fmt.Sprintf("KAddOut %d %d %s %s %s", e.a, e.b, b(e.f1), b(e.f2), b(e.f3)))
		case "reactive.run.proceed":
			t(fmt.Sprintf("KRunProceed %d", e.a))
		case "reactive.run.locked":
			t(fmt.Sprintf("KRunLocked %d %s", e.a, b(e.f1)))
		case "reactive.cache.clean":
			t(fmt.Sprintf("KCleanStart %d %d", e.a, e.b))
		case "reactive.node.Invalidated":
			t(fmt.Sprintf("KCleanEntry %d %s", e.a, b(e.f1)))
		case "reactive.cache.cleaned":
			t(fmt.Sprintf("KCleanEnd %d", e.a))
		case "reactive.compute.begin":
			t(fmt.Sprintf("KBegin %d", e.a))
		case "pick":
			t(fmt.Sprintf("KPick %d %d", e.a, e.b))
		case "read":
			t(fmt.Sprintf("KRead %d %d", e.a, e.b))
		case "timer.new":
			t(fmt.Sprintf("KTimerNew %d", e.a))
		case "timer.reg":
			t(fmt.Sprintf("KTimerReg %d %s", e.a, b(e.f1)))
		case "skip":
			t("KSkip")
		case "reactive.cache.get":
			t(fmt.Sprintf("KCacheGet %d %s", e.b, optNat(e.c)))
		case "reactive.cache.set":
			t(fmt.Sprintf("KCacheSet %d %d %s", e.b, e.c, b(e.f1)))
		case "reactive.run.publish":
			t(fmt.Sprintf("KPublish %d %d %s %s", e.a, e.b, b(e.f1), valList(e.val)))
		case "reactive.handleInvalidate":
			t(fmt.Sprintf("KArm %d %s", e.a, b(e.f1)))
		case "reactive.run.unlock":
			t(fmt.Sprintf("KUnlock %d", e.a))
		case "reactive.stop.cancel":
			t(fmt.Sprintf("KStopCancel %d", e.a))
		case "reactive.stop.mark":
			t(fmt.Sprintf("KStopMark %d %s", e.a, b(e.f1)))
		case "env.strobe":
			out = append(out, fmt.Sprintf("EStrobe %d %d", e.a, e.b))
		case "env.invalidate":
			out = append(out, fmt.Sprintf("EInvalidate %d %d %d", e.a, e.b, e.c))
		case "dump":
			out = append(out, coqSnap(e.snap))
		case "env.stop":
			out = append(out, fmt.Sprintf("EStop %d", e.a))
		case "env.cancel":
			out = append(out, fmt.Sprintf("ECancel %d", e.a))
		case "env.purge":
			out = append(out, fmt.Sprintf("EPurge %d", e.a))
		case "env.timer":
			out = append(out, fmt.Sprintf("ETimer %d", e.a))
		case "env.outside":
			out = append(out, fmt.Sprintf("EOutside %d %d", e.a, e.b))
		case "outadd":
			t(fmt.Sprintf("KOutAdd %d %s %s", e.a, b(e.f2), b(e.f3)))
		case "phinv":
			t("KPhInv")
		case "fail.decision", "reactive.cache.lockerr":
			if pending[e.gid] != nil {
				problem = "nested failure sequence"
			}
			pending[e.gid] = &pend{idx: len(out), join: -1}
			out = append(out, "")
		case "reactive.compute.fail":
			if p := pending[e.gid]; p != nil {
				p.cs = append(p.cs, e.a)
			} else {
				problem = "compute.fail without a failure decision"
			}
		case "reactive.cache.purge":
			if pending[e.gid] == nil {
				problem = "purgeCache from a non-harness goroutine outside the retry path"
			}
		case "reactive.run.failed", "reactive.run.retry", "branch.fail":
			if p := pending[e.gid]; p != nil {
				retry := e.kind == "reactive.run.retry" || (e.kind == "branch.fail" && e.f1)
				if p.join >= 0 {
					out[p.idx] = fmt.Sprintf("ETask %d (KJoinFail %d %s)", g(e.gid), p.join, natList(p.cs))
				} else {
					out[p.idx] = fmt.Sprintf("ETask %d (KFail %s %s)", g(e.gid), natList(p.cs), b(retry))
				}
				delete(pending, e.gid)
			} else {
				problem = "run.failed / branch.fail without a failure decision"
			}
		case "keylock":
			t(fmt.Sprintf("KKeyLock %d", e.b))
		case "keyunlock":
			if pending[e.gid] == nil { // on the error path the deferred unlocks belong to the Fail step
				t(fmt.Sprintf("KKeyUnlock %d", e.b))
			}
		case "fork":
			t(fmt.Sprintf("KFork %d %d", e.a, e.b))
		case "branch.begin":
			t(fmt.Sprintf("KBranchBegin %d %d", e.a, e.b))
		case "branch.end":
			t(fmt.Sprintf("KBranchEnd %d", e.a))
		case "join":
			if e.f1 {
				if pending[e.gid] != nil {
					problem = "nested failure sequence"
				}
				pending[e.gid] = &pend{idx: len(out), join: e.a}
				out = append(out, "")
			} else {
				t(fmt.Sprintf("KJoin %d", e.a))
			}
		default:
			problem = "unknown event kind " + e.kind
		}
	}
	if len(pending) > 0 {
		problem = "failure sequence never reached run.failed/run.retry"
		var keep []string
		for _, s := range out {
			if s != "" {
				keep = append(keep, s)
			}
		}
		out = keep
	}
	return out, problem
}

func coqCase(c *Case, res *Result) (string, string) {
	evs, problem := coqEvents(res.Events)
	progs := make([]string, len(c.RRs))
	for i, r := range c.RRs {
		progs[i] = fmt.Sprintf("(%s, %s)", coqOps(r.Prog), b(r.Spawn))
	}
	outs := make([]string, len(res.Outs))
	for i := range res.Outs {
		if res.HasOut[i] {
			outs[i] = "Some " + valList(res.Outs[i])
		} else {
			outs[i] = "None"
		}
	}
	return fmt.Sprintf("mk_case %d [%s]\n  [%s]\n  [%s] %s", c.Slots, strings.Join(progs, "; "),
		strings.Join(evs, ";\n   "), strings.Join(outs, "; "), natList(res.Vers)), problem
}

// clauses of the oracle each property reports (both run the whole oracle; failures of the other
// property's clauses are reported by that property's command).
var clauses = map[string]map[string]bool{
	"C04": {"stale-output-at-quiescence": true, "no-output-at-quiescence": true, "runs-overlap": true, "compute-after-stop": true,
		"run-in-progress-when-stop-returned": true, "no-quiescence": true, "stop-does-not-return": true, "panic-in-harness-or-code-under-test": true},
	"C08": {"stale-output-at-quiescence": true, "cleanup-ran-twice": true, "cleanup-not-exactly-once": true,
		"superseded-resource-not-cleaned": true, "timer-cleanup-not-exactly-once": true,
		"resource-released-while-current-computation-depends-on-it": true,
		"cleanup-while-current-computation-depends-on-it":           true, "no-quiescence": true,
		"panic-in-harness-or-code-under-test": true},
}

// Main is the whole command; prop is "C04" or "C08".
func Main(prop string) {
	o := vh.ParseFlags()
	HooksKeyLock = probeKeyLock()
	run := vh.NewRun(prop, o)
	run.Rule = "a case = dependency tree (1-3 rerunners, 1-3 slots whose resources are shared, 0-3 nested reactive.Cache levels, InvalidateAfter timers, failing/retrying computes) + 2-11 injections (Strobe/Invalidate/Stop/PurgeCache) + 0-3 scripted pauses + perturbation level; non-trivial = at least one re-run happened (computes > rerunners) and at least one invalidation reached a computation; distinct by the case's structure"
	r := vh.NewRng(o.Seed*2 + map[string]uint64{"C04": 0, "C08": 1}[prop])

	var cases []Case
	searching := o.Search != ""
	if searching {
		seeds := readSeeds(o.Search)
		for i := 0; i < o.N; i++ {
			cr := r.Fork()
			if len(seeds) == 0 {
				c := Gen(cr, prop)
				c.Origin = "search-fresh"
				cases = append(cases, c)
			} else {
				cases = append(cases, Variant(cr, seeds[cr.Intn(len(seeds))]))
			}
		}
	} else if o.Replay != "" {
		var c Case
		if vh.ReadReplayCase(o.Replay, &c) {
			c.Origin = "replay"
			cases = append(cases, c)
		}
	} else {
		for _, f := range vh.CorpusFiles(o.Corpus) {
			var c Case
			if vh.ReadReplayCase(f, &c) {
				c.Origin = "corpus:" + filepath.Base(f)
				cases = append(cases, c)
			}
		}
		for i := 0; i < o.N; i++ {
			cases = append(cases, Gen(r.Fork(), prop))
		}
	}

	const shardEvents = 12000
	var terms []string
	shardStart, evCount := 0, 0
	flush := func(end int) {
		if len(terms) == 0 {
			return
		}
		run.WriteCasesV(fmt.Sprintf("cases_%d.v", shardStart), []string{"Reactive.Graph", "Reactive.Rerunner", "Reactive.Replay"}, "",
			"mismatches_from_sparse", 0, terms)
		terms, evCount, shardStart = nil, 0, end
	}
	totalEvents := 0
	livelocks := 0
	for idx := range cases {
		if livelocks >= 3 {
			// every further case would cost two quiescence timeouts; the failures found so far are reported
			run.Hist("aborted-after-3-cases-without-quiescence")
			break
		}
		c := &cases[idx]
		run.LogCase(idx, c)
		if c.hasPar() && !HooksKeyLock {
			// without the observation points of the per-key lock its order under contention is not recorded
			run.Hist("skipped:goroutines-inside-compute-need-patch-C04-hooks-2")
			continue
		}
		res := RunCase(c)
		seen := map[string]bool{}
		for _, f := range res.Fails {
			if strings.HasPrefix(f.sig, "harness-") || clauses[prop][f.sig] {
				if !seen[f.sig] {
					run.Fail(idx, f.sig, f.detail, c)
					seen[f.sig] = true
				}
			} else {
				run.Hist("other-property-oracle-failure:" + f.sig)
			}
		}
		inval := res.Kinds["reactive.invalidate.mark"]
		key := fmt.Sprintf("%v|%v|%v|%v", c.RRs, c.Injs, c.Rules, c.Slots)
		run.Count(key, res.Computes > len(c.RRs) && inval > 0)
		run.Hist("shape:" + c.shape())
		run.Hist(fmt.Sprintf("rules:%d", len(c.Rules)))
		if c.sharedSlots() > 0 {
			run.Hist("resource-shared-between-rerunners")
		}
		run.Hist(fmt.Sprintf("perturb:%d", c.Perturb))
		switch {
		case res.NEvents < 100:
			run.Hist("events:<100")
		case res.NEvents < 400:
			run.Hist("events:100-399")
		default:
			run.Hist("events:>=400")
		}
		if c.DelayUs > 0 {
			run.Hist("write-then-read-delay>0")
		}
		for _, rr := range c.RRs {
			for _, o := range rr.Prog {
				if o.Kind == "cache" && o.Key >= 100 {
					run.Hist("shape:deep-nesting-of-cache-calls-over-a-wide-key-alphabet")
				}
			}
		}
		for _, rr := range c.RRs {
			for _, o := range rr.Prog {
				if o.Kind == "cache" && o.Alt && len(o.Body) == 1 {
					run.Hist("shape:cache-key-left-out-for-a-run-then-asked-for-again")
				}
			}
		}
		if res.LiveAtQuiet > 0 {
			run.Hist("premise:some-rerunner-neither-stopped-nor-failed-at-the-first-quiescent-point")
		}
		if res.CleanedAtQuiet > 0 {
			run.Hist("premise:some-superseded-resource-without-dependants-at-the-first-quiescent-point")
		}
		if res.Kinds["reactive.run.proceed"] > len(c.RRs) {
			run.Hist("premise:re-run-interval-expired-after-the-first-runs")
		}
		if res.DumpBroken {
			run.Hist("dump:unavailable")
		} else if res.Kinds["dump"] > 0 {
			run.Hist(fmt.Sprintf("dump:state-compared-at-%d-quiescent-points", res.Kinds["dump"]))
		}
		for _, k := range []string{"outadd", "reactive.invalidate.noop", "reactive.cache.lockerr", "env.timer", "reactive.run.retry", "reactive.run.failed"} {
			if res.Kinds[k] > 0 {
				run.Hist("saw:" + k)
			}
		}
		comps, relStarted := map[int]bool{}, map[int]bool{}
		lockers := map[[2]int]int64{}
		if res.Kinds["fork"] > 0 {
			run.Hist("goroutines-inside-compute")
		}
		for _, e := range res.Events {
			if e.kind == "keylock" {
				k := [2]int{e.a, e.b}
				if g0, ok := lockers[k]; ok && g0 != e.gid {
					run.Hist("window:cache-key-locked-by-different-goroutines")
				}
				lockers[k] = e.gid
			}
			if e.kind == "branch.fail" {
				run.Hist("window:branch-goroutine-returned-error")
			}
			switch {
			case e.kind == "reactive.compute.begin":
				comps[e.a] = true
			case e.kind == "reactive.release.dep" && e.f1:
				relStarted[e.a] = true
			}
			if e.kind == "reactive.addOut" && e.f1 && comps[e.a] && relStarted[e.a] {
				run.Hist("window:cached-child-readopted-after-its-release-began")
			}
			if e.kind == "reactive.invalidate.mark" && e.f1 && comps[e.a] {
				run.Hist("window:armed-computation-invalidated")
			}
			if e.kind == "timer.reg" && e.f1 {
				run.Hist("window:timer-resource-released-before-Cleanup-registered")
			}
			switch {
			case e.kind == "reactive.addOut" && e.f2:
				run.Hist("window:addOut-of-already-invalid-dependency")
			case e.kind == "reactive.handleInvalidate" && e.f1:
				run.Hist("window:invalidated-between-return-and-arming")
			case e.kind == "reactive.addOut" && !e.f1:
				run.Hist("window:addOut-to-released-node")
			case e.kind == "reactive.run.locked" && e.f1:
				run.Hist("window:run-found-stop-set")
			}
		}
		totalEvents += res.NEvents
		if idx < 3 {
			run.Sample(map[string]interface{}{"case": c, "events": res.NEvents, "computes": res.Computes, "kinds": res.Kinds})
		}
		if searching {
			if !res.Quiet {
				livelocks++
			}
			continue // oracle only
		}
		if !res.Quiet {
			livelocks++
			continue // the log was not taken at quiescence; the oracle failure is already reported
		}
		term, problem := coqCase(c, res)
		if problem != "" {
			run.Fail(idx, "harness-log-malformed", problem, c)
			continue
		}
		terms = append(terms, fmt.Sprintf("(%d, %s)", idx, term))
		evCount += res.NEvents
		if evCount >= shardEvents {
			flush(idx + 1)
		}
	}
	flush(len(cases))
	run.Extra = map[string]interface{}{"total_events": totalEvents, "hooks_key_lock": HooksKeyLock}
	keys := make([]string, 0, len(run.Histogram))
	for k := range run.Histogram {
		keys = append(keys, k)
	}
	sort.Strings(keys)
	run.Finish()
}
