package reactsim

// State dumps at quiescent points: the real graph (per node: invalidated, released, out, in, handlers), the
// real rerunners (computation, stop, context) and the real caches (entries, held per-key locks) are read by
// reflection from the pointers the hooks have handed over, and compared with the model's state at the same
// position of the event log (Replay.v, component 8).  Nothing in /repo is needed for this; if the field names
// of reactive.node / Rerunner / cache change, the dump is silently left out (histogram "dump:unavailable").

import (
	"context"
	"fmt"
	"reflect"
	"sort"
	"strings"
	"unsafe"
)

type nodeSnap struct {
	inv, rel, hinv, hrel bool
	out, ins             []int
}

type rrSnap struct {
	comp            int // -1: nil
	stop, cancelled bool
	cache           [][2]int
	held            []int
}

type snap struct {
	nodes []nodeSnap
	rrs   []rrSnap
}

func (s *Sim) idOfPtr(p uintptr) int {
	if id, ok := s.ids[p]; ok {
		return id
	}
	return 9999
}

func field(v reflect.Value, name string) reflect.Value {
	f := v.FieldByName(name)
	if !f.IsValid() {
		panic("field " + name + " missing")
	}
	return f
}

// snapshotLocked reads the whole state (s.mu held, no goroutine of the code under test alive).
func (s *Sim) snapshotLocked() (sn *snap) {
	defer func() {
		if e := recover(); e != nil {
			sn = nil
		}
	}()
	sn = &snap{}
	for i := 0; i < s.nextID; i++ {
		v := reflect.ValueOf(s.nodeOf[i]).Elem()
		if v.Type().Name() == "Resource" {
			v = v.Field(0)
		}
		var ns nodeSnap
		ns.inv = field(v, "invalidated").Bool()
		ns.rel = field(v, "released").Bool()
		ns.hinv = !field(v, "afterInvalidate").IsNil()
		ns.hrel = !field(v, "afterRelease").IsNil()
		out := field(v, "out")
		for _, k := range out.MapKeys() {
			ns.out = append(ns.out, s.idOfPtr(k.Pointer()))
		}
		sort.Ints(ns.out)
		in := field(v, "in")
		for j := 0; j < in.Len(); j++ {
			ns.ins = append(ns.ins, s.idOfPtr(in.Index(j).Pointer()))
		}
		sort.Ints(ns.ins)
		sn.nodes = append(sn.nodes, ns)
	}
	for _, rr := range s.rrs {
		v := reflect.ValueOf(rr).Elem()
		var rs rrSnap
		rs.comp = -1
		if c := field(v, "computation"); !c.IsNil() {
			rs.comp = s.idOfPtr(c.Pointer())
		}
		rs.stop = field(v, "stop").Bool()
		cf := field(v, "ctx")
		ctx := reflect.NewAt(cf.Type(), unsafe.Pointer(cf.UnsafeAddr())).Elem().Interface().(context.Context)
		rs.cancelled = ctx.Err() != nil
		cache := field(v, "cache").Elem()
		it := field(cache, "computations").MapRange()
		for it.Next() {
			k := it.Key()
			if k.Kind() == reflect.Interface {
				k = k.Elem()
			}
			rs.cache = append(rs.cache, [2]int{int(k.Int()), s.idOfPtr(it.Value().Pointer())})
		}
		sort.Slice(rs.cache, func(i, j int) bool { return rs.cache[i][0] < rs.cache[j][0] })
		lit := field(field(cache, "locker").Elem(), "m").MapRange()
		for lit.Next() {
			k := lit.Key()
			if k.Kind() == reflect.Interface {
				k = k.Elem()
			}
			q := field(field(lit.Value().Elem(), "mu"), "queue")
			if !q.IsNil() && q.Len() > 0 {
				rs.held = append(rs.held, int(k.Int()))
			}
		}
		sort.Ints(rs.held)
		sn.rrs = append(sn.rrs, rs)
	}
	return sn
}

// dumpLocked appends a dump event (s.mu held); called at quiescent points only.
func (s *Sim) dumpLocked() {
	if len(s.rrs) != len(s.c.RRs) {
		return
	}
	if sn := s.snapshotLocked(); sn != nil {
		s.events = append(s.events, ev{kind: "dump", env: true, snap: sn})
	} else {
		s.dumpBroken = true
	}
}

func pairList(xs [][2]int) string {
	ss := make([]string, len(xs))
	for i, x := range xs {
		ss[i] = fmt.Sprintf("(%d, %d)", x[0], x[1])
	}
	return "[" + strings.Join(ss, "; ") + "]"
}

func coqSnap(sn *snap) string {
	ns := make([]string, len(sn.nodes))
	for i, n := range sn.nodes {
		ns[i] = fmt.Sprintf("mk_nobs %s %s %s %s %s %s", b(n.inv), b(n.rel), natList(n.out), natList(n.ins), b(n.hinv), b(n.hrel))
	}
	rs := make([]string, len(sn.rrs))
	for i, r := range sn.rrs {
		rs[i] = fmt.Sprintf("mk_robs %s %s %s %s %s", optNat(r.comp), b(r.stop), b(r.cancelled), pairList(r.cache), natList(r.held))
	}
	return fmt.Sprintf("EDump [%s] [%s]", strings.Join(ns, "; "), strings.Join(rs, "; "))
}
