package gqlgen

import (
	"context"
	"fmt"
	"strings"

	"github.com/samsarahq/thunder/graphql"
	"verifharness/pkg/vh"
)

// ParsedView parses and prepares the query text the way Exec does and prints the selection sets
// graphql.Parse built - every field selection with alias, name, data key and evaluated @skip/@include,
// every fragment (inline fragments, and the shared fragment of a spread) with its type condition and
// directives - as a list of Federation.Normalize nodes (field selections before fragments, as Go keeps
// them in two slices).  ok = false when the query is rejected.
func ParsedView(b *Built, text string, vars map[string]interface{}) (term string, ok bool) {
	defer func() {
		if e := recover(); e != nil {
			term, ok = "", false
		}
	}()
	q, err := graphql.Parse(text, vars)
	if err != nil {
		return "", false
	}
	StripPlaceholders(q.SelectionSet, map[*graphql.SelectionSet]bool{})
	if err := graphql.PrepareQuery(context.Background(), b.Schema.Query, q.SelectionSet); err != nil {
		return "", false
	}
	good := true
	var set func(ss *graphql.SelectionSet, depth int) string
	dirs := func(ds []*graphql.Directive) string {
		var xs []string
		for _, d := range ds {
			if d.Name != "skip" && d.Name != "include" {
				continue
			}
			args, _ := d.Args.(map[string]interface{})
			bv, isBool := args["if"].(bool)
			if !isBool {
				continue
			}
			xs = append(xs, fmt.Sprintf("(%s, %v)", vh.CoqString(d.Name), bv))
		}
		return vh.CoqList(xs)
	}
	set = func(ss *graphql.SelectionSet, depth int) string {
		if ss == nil || depth > 40 {
			if depth > 40 {
				good = false
			}
			return "[]"
		}
		var xs []string
		for _, s := range ss.Selections {
			key := s.Name
			raw := s.UnparsedArgs
			if raw == nil {
				raw, _ = s.Args.(map[string]interface{})
			}
			if n, has := raw["n"]; has {
				switch v := n.(type) {
				case float64:
					key = ArgKey(s.Name, int64(v))
				case int64:
					key = ArgKey(s.Name, v)
				case int:
					key = ArgKey(s.Name, int64(v))
				default:
					good = false
				}
			}
			xs = append(xs, fmt.Sprintf("Federation.Normalize.NField %s %s (JObj []) %s %s %v %s",
				vh.CoqString(s.Alias), vh.CoqString(s.Name), vh.CoqString(key), dirs(s.Directives), s.SelectionSet != nil, set(s.SelectionSet, depth+1)))
		}
		for _, f := range ss.Fragments {
			xs = append(xs, fmt.Sprintf("Federation.Normalize.NFrag %s %s %s", vh.CoqString(f.On), dirs(f.Directives), set(f.SelectionSet, depth+1)))
		}
		return vh.CoqList(xs)
	}
	term = set(q.SelectionSet, 0)
	if !good || strings.Count(term, "NField") > 4000 {
		return "", false
	}
	return term, true
}
