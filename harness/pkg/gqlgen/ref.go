package gqlgen

import (
	"strconv"
)

// Reference evaluator: naive sequential evaluation of a directive-free (pruned) structured query
// over the data graph.  Written independently of thunder's executor and of the Coq model: one
// object at a time, one field at a time, selections with the same alias and all fragments merged.

type RefFailure struct {
	Kind string // err | safe | wrapped | panic
	Msg  string
	Path []string // aliases and list indices, root first (without the query name)
	// Batchable: the failing field is not on the root object (could be executed as a batch)
	Type, Field string
	// AfterNil: some list on the way holds a nil entry before the element the failure lies under
	AfterNil bool
}

// BadEnumMsg stands for the text of thunder's own error about an enum value without a name; the text
// itself is never compared.
const BadEnumMsg = "<enum value without a name>"

// Reached is one resolver result the evaluation used: a function field of an object at a response path.
type Reached struct {
	Obj      *Obj
	Key      string
	Path     []string
	AfterNil bool
}

type RefResult struct {
	JSON     interface{}
	Failures []RefFailure
	Reached  []Reached
	Enums    []*Val // the enum values the evaluation read
}

type refEval struct {
	spec  *SchemaSpec
	frags map[string]*FragDef
	fails []RefFailure
	afterNil bool
	reached  []Reached
	enums    []*Val
}

func RefEval(spec *SchemaSpec, d *Data, q *Query) RefResult {
	e := &refEval{spec: spec, frags: map[string]*FragDef{}}
	for _, f := range q.Frags {
		e.frags[f.Name] = f
	}
	j := e.object("Query", d.Root, [][]*Node{q.Body}, nil, false)
	return RefResult{JSON: j, Failures: e.fails, Reached: e.reached, Enums: e.enums}
}

// fields collects the field nodes that apply to an object of type typ: those of the sets and of
// every fragment in them.  topUnion: the sets are the selection set of a union-typed field, where
// only fragments on the member apply.
func (e *refEval) fields(typ string, sets [][]*Node, topUnion bool, out *[]*Node) {
	for _, ns := range sets {
		for _, n := range ns {
			switch n.Kind {
			case "field":
				*out = append(*out, n)
			case "inline":
				if topUnion && n.On != typ && n.On != "" {
					continue
				}
				// without a type condition the fragment applies to the enclosing type
				e.fields(typ, [][]*Node{n.Sub}, topUnion && n.On == "", out)
			case "spread":
				f := e.frags[n.Frag]
				if topUnion && f.On != typ {
					continue
				}
				e.fields(typ, [][]*Node{f.Body}, false, out)
			}
		}
	}
}

func (e *refEval) object(typ string, o *Obj, sets [][]*Node, path []string, topUnion bool) interface{} {
	var fs []*Node
	e.fields(typ, sets, topUnion, &fs)
	ts := e.spec.Type(typ)
	res := map[string]interface{}{}
	var order []string
	groups := map[string][]*Node{}
	for _, n := range fs {
		if _, ok := groups[n.Alias]; !ok {
			order = append(order, n.Alias)
		}
		groups[n.Alias] = append(groups[n.Alias], n)
	}
	for _, alias := range order {
		g := groups[alias]
		first := g[0]
		if first.Name == "__typename" {
			res[alias] = typ
			continue
		}
		f := ts.Field(first.Name)
		key := first.Name
		if first.Arg != nil {
			key = ArgKey(first.Name, *first.Arg)
		}
		oc := o.Res[key]
		p := append(append([]string{}, path...), alias)
		if !f.Struct {
			e.reached = append(e.reached, Reached{Obj: o, Key: key, Path: p, AfterNil: e.afterNil})
		}
		if oc.Fail != "" {
			e.fails = append(e.fails, RefFailure{Kind: oc.Fail, Msg: oc.Msg, Path: p, Type: typ, Field: first.Name, AfterNil: e.afterNil})
			res[alias] = nil
			continue
		}
		var subs [][]*Node
		for _, n := range g {
			if n.HasSub {
				subs = append(subs, n.Sub)
			}
		}
		res[alias] = e.value(f.Ret, oc.Val, subs, p)
	}
	if k := ts.KeyField(); k != nil {
		res["__key"] = e.value(k.Ret, o.Res[k.Name].Val, nil, nil)
	}
	return res
}

func (e *refEval) value(t TRef, v *Val, subs [][]*Node, path []string) interface{} {
	switch t.K {
	case "list":
		out := []interface{}{}
		if v != nil && v.K == "list" {
			saved := e.afterNil
			for i, x := range v.L {
				out = append(out, e.value(*t.Elem, x, subs, append(append([]string{}, path...), strconv.Itoa(i))))
				if x == nil || x.K == "null" {
					e.afterNil = true
				}
			}
			e.afterNil = saved
		}
		return out
	}
	if v == nil || v.K == "null" {
		return nil
	}
	switch t.K {
	case "int", "nint":
		return float64(v.I)
	case "str":
		return v.S
	case "bool":
		return v.B
	case "enum":
		e.enums = append(e.enums, v)
		if v.I < 0 || int(v.I) >= len(ColorNames) {
			// not in the enum's map: the executor fails the query at this element
			e.fails = append(e.fails, RefFailure{Kind: "badenum", Msg: BadEnumMsg, Path: append([]string{}, path...), AfterNil: e.afterNil})
			return nil
		}
		return ColorNames[v.I]
	case "obj":
		return e.object(t.Name, v.O, subs, path, false)
	case "union":
		return e.object(v.O.Type, v.O, subs, path, true)
	}
	panic("ref value " + t.K)
}
