package gqlgen

import (
	"context"
	"fmt"
	"sort"
	"strings"

	"github.com/samsarahq/thunder/graphql"
	"verifharness/pkg/vh"
)

// ---- schema: walked from what schemabuilder built ----

func coqType(t graphql.Type) string {
	switch t := t.(type) {
	case *graphql.Scalar:
		return "(TScalar " + vh.CoqString(t.Type) + ")"
	case *graphql.Enum:
		return "(TEnum " + vh.CoqString(t.Type) + ")"
	case *graphql.Object:
		return "(TObject " + vh.CoqString(t.Name) + ")"
	case *graphql.Union:
		return "(TUnion " + vh.CoqString(t.Name) + ")"
	case *graphql.List:
		return "(TList " + coqType(t.Type) + ")"
	case *graphql.NonNull:
		return "(TNonNull " + coqType(t.Type) + ")"
	}
	panic(fmt.Sprintf("coqType %T", t))
}

// CoqSchema emits the built schema as a Gql.Types.schema term.
func CoqSchema(s *graphql.Schema) string {
	objs := map[string]*graphql.Object{}
	unions := map[string]*graphql.Union{}
	var walk func(t graphql.Type)
	walk = func(t graphql.Type) {
		switch t := t.(type) {
		case *graphql.Object:
			if objs[t.Name] != nil {
				return
			}
			objs[t.Name] = t
			for _, f := range t.Fields {
				walk(f.Type)
			}
		case *graphql.Union:
			if unions[t.Name] != nil {
				return
			}
			unions[t.Name] = t
			for _, o := range t.Types {
				walk(o)
			}
		case *graphql.List:
			walk(t.Type)
		case *graphql.NonNull:
			walk(t.Type)
		}
	}
	walk(s.Query)
	ctx := context.Background()
	var onames []string
	for n := range objs {
		onames = append(onames, n)
	}
	sort.Strings(onames)
	var os []string
	for _, n := range onames {
		o := objs[n]
		var fnames []string
		for fn := range o.Fields {
			fnames = append(fnames, fn)
		}
		sort.Strings(fnames)
		var fs []string
		key := "None"
		for _, fn := range fnames {
			f := o.Fields[fn]
			if f == o.KeyField {
				key = "(Some " + vh.CoqString(fn) + ")"
			}
			use := false
			if f.UseBatchFunc != nil {
				use = f.UseBatchFunc(ctx)
			}
			par := "None"
			if f.NumParallelInvocationsFunc != nil {
				var xs []string
				for n := 0; n <= 12; n++ {
					v := f.NumParallelInvocationsFunc(ctx, n)
					if v < 0 {
						v = 0
					}
					xs = append(xs, fmt.Sprint(v))
				}
				par = "(Some " + vh.CoqList(xs) + ")"
			}
			fs = append(fs, fmt.Sprintf("mk_field %s %s %s %s %s %s %s", vh.CoqString(fn), coqType(f.Type),
				vh.CoqBool(f.Batch), vh.CoqBool(f.Expensive), vh.CoqBool(f.External), vh.CoqBool(use), par))
		}
		os = append(os, fmt.Sprintf("mk_object %s %s %s", vh.CoqString(n), vh.CoqList(fs), key))
	}
	var unames []string
	for n := range unions {
		unames = append(unames, n)
	}
	sort.Strings(unames)
	var us []string
	for _, n := range unames {
		var ms []string
		for m := range unions[n].Types {
			ms = append(ms, m)
		}
		sort.Strings(ms)
		for i := range ms {
			ms[i] = vh.CoqString(ms[i])
		}
		us = append(us, fmt.Sprintf("mk_union %s %s", vh.CoqString(n), vh.CoqList(ms)))
	}
	qn := s.Query.(*graphql.Object).Name
	return fmt.Sprintf("(mk_schema %s %s %s)", vh.CoqList(os), vh.CoqList(us), vh.CoqString(qn))
}

// ---- data ----

func coqClass(k string) string {
	switch k {
	case "err":
		return "EPlain"
	case "safe":
		return "ESafe"
	case "wrapped":
		return "EWrapped"
	case "panic":
		return "EPanic"
	case "client":
		return "EClient"
	case "wrapsafe":
		return "EWrapsSafe"
	case "custom":
		return "ECustom"
	case "cancelwrap":
		return "EPlain" // an ordinary error, whatever it wraps
	}
	return "EPlain"
}

func CoqVal(v *Val) string {
	if v == nil {
		return "VNull"
	}
	switch v.K {
	case "null":
		return "VNull"
	case "int":
		return "(VLeaf (LNum " + vh.CoqZ(v.I) + "))"
	case "str":
		return "(VLeaf (LStr " + vh.CoqString(v.S) + "))"
	case "bool":
		return "(VLeaf (LBool " + vh.CoqBool(v.B) + "))"
	case "enum":
		if v.I < 0 || int(v.I) >= len(ColorNames) {
			return "VNull" // invalid enum values are outside the model; cases that read one are not sent to it
		}
		return "(VLeaf (LStr " + vh.CoqString(ColorNames[v.I]) + "))"
	case "list":
		xs := make([]string, len(v.L))
		for i, e := range v.L {
			xs[i] = CoqVal(e)
		}
		return "(VList " + vh.CoqList(xs) + ")"
	case "obj":
		return CoqObj(v.O)
	}
	panic("CoqVal " + v.K)
}

func CoqObj(o *Obj) string {
	var fs []string
	for _, k := range sortedKeys(o.Res) {
		oc := o.Res[k]
		if oc.Fail != "" {
			fs = append(fs, fmt.Sprintf("(%s, OFail (mk_err %s %s))", vh.CoqString(k), coqClass(oc.Fail), vh.CoqString(FailText(oc.Fail, oc.Msg))))
		} else {
			fs = append(fs, fmt.Sprintf("(%s, OOk %s)", vh.CoqString(k), CoqVal(oc.Val)))
		}
	}
	return "(VObj " + vh.CoqString(o.Type) + " " + vh.CoqList(fs) + ")"
}

// ---- queries ----

func coqDirs(ds []Dir) string {
	var xs []string
	for _, d := range ds {
		c := "CNone"
		switch {
		case d.Bad == "noif":
		case d.Bad == "nonbool":
			c = "(CLit (JNum 3%Z))"
		case d.Var != "":
			c = "(CVar " + vh.CoqString(d.Var) + ")"
		case d.Lit != nil:
			c = "(CLit (JBool " + vh.CoqBool(*d.Lit) + "))"
		}
		xs = append(xs, "SDir "+vh.CoqString(d.Name)+" "+c)
	}
	return vh.CoqList(xs)
}

func coqNodes(ns []*Node) string {
	var b strings.Builder
	for _, n := range ns {
		b.WriteString("(SCons ")
		switch n.Kind {
		case "field":
			key := n.Name
			if n.Arg != nil {
				key = ArgKey(n.Name, *n.Arg)
			}
			sub := "None"
			if n.HasSub {
				sub = fmt.Sprintf("(Some (%d, %s))", n.ID, coqNodes(n.Sub))
			}
			fmt.Fprintf(&b, "(SField %s %s %s %s %s)", vh.CoqString(n.Alias), vh.CoqString(n.Name), vh.CoqString(key), coqDirs(n.Dirs), sub)
		case "inline":
			fmt.Fprintf(&b, "(SInline %s %s %d %s)", vh.CoqString(n.On), coqDirs(n.Dirs), n.ID, coqNodes(n.Sub))
		case "spread":
			fmt.Fprintf(&b, "(SSpread %s %s %d)", vh.CoqString(n.Frag), coqDirs(n.Dirs), n.ID)
		}
		b.WriteString(" ")
	}
	b.WriteString("SNil")
	b.WriteString(strings.Repeat(")", len(ns)))
	return b.String()
}

// CoqQuery emits the structured query as a Gql.Query.squery term (unused fragments left out, as in Text).
func CoqQuery(q *Query) string {
	used := q.usedFrags()
	var fs []string
	for _, f := range q.Frags {
		if used[f.Name] {
			fs = append(fs, fmt.Sprintf("mk_fragdef %s %s %d %s", vh.CoqString(f.Name), vh.CoqString(f.On), f.ID, coqNodes(f.Body)))
		}
	}
	return fmt.Sprintf("(mk_squery %s %d %s %s)", vh.CoqString(q.Name), q.ID, coqNodes(q.Body), vh.CoqList(fs))
}

func CoqVars(vars map[string]interface{}) string {
	var ks []string
	for k := range vars {
		ks = append(ks, k)
	}
	sort.Strings(ks)
	var xs []string
	for _, k := range ks {
		xs = append(xs, "("+vh.CoqString(k)+", "+vh.CoqJSON(vars[k])+")")
	}
	return vh.CoqList(xs)
}

func CoqPath(p []string) string {
	var xs []string
	for _, s := range p {
		isNum := s != ""
		for _, c := range s {
			if c < '0' || c > '9' {
				isNum = false
			}
		}
		if isNum {
			xs = append(xs, "PIdx "+s)
		} else {
			xs = append(xs, "PKey "+vh.CoqString(s))
		}
	}
	return vh.CoqList(xs)
}

func CoqObs(o Observed) string {
	if o.OK {
		return "(OJson " + vh.CoqJSON(o.JSON) + ")"
	}
	return fmt.Sprintf("(OErr %s %s %s)", coqClass(o.Class), vh.CoqString(o.Text), CoqPath(o.Path))
}

// Run describes one execution for Gql.Check.grun.
func CoqRun(schemaIdx, queryIdx int, choices []int, o Observed) string {
	xs := make([]string, len(choices))
	for i, c := range choices {
		xs[i] = fmt.Sprint(c)
	}
	return fmt.Sprintf("mk_grun %d %d %s %s", schemaIdx, queryIdx, vh.CoqList(xs), CoqObs(o))
}

func CoqCase(schemas []string, d *Data, vars map[string]interface{}, queries []string, runs []string) string {
	return fmt.Sprintf("mk_gcase %s %s %s %s %s", vh.CoqList(schemas), CoqObj(d.Root), CoqVars(vars), vh.CoqList(queries), vh.CoqList(runs))
}
