package gqlgen

import (
	"bytes"
	"context"
	"encoding/json"
	"errors"
	"fmt"
	"io/ioutil"
	"net/http/httptest"
	"reflect"
	"strings"
	"sync"
	"time"

	"github.com/samsarahq/thunder/batch"
	"github.com/samsarahq/thunder/graphql"
	"github.com/samsarahq/thunder/reactive"
	"verifharness/pkg/vh"
)

// ---- schedulers ----

type Step struct {
	Alias     string `json:"alias"`
	Batch     bool   `json:"batch"`
	Expensive bool   `json:"expensive"`
	Pool      int    `json:"pool"`
	Pick      int    `json:"pick"`
}

// Scripted runs, one at a time, pending unit number choices[k] mod |pool| (0 once the choices are
// used up); new units join the end of the pool.
type Scripted struct {
	Choices []int
	LIFO    bool
	Log     []Step
}

func (s *Scripted) Run(resolver graphql.UnitResolver, units ...*graphql.WorkUnit) {
	pool := append([]*graphql.WorkUnit{}, units...)
	k := 0
	for len(pool) > 0 {
		i := 0
		if s.LIFO {
			i = len(pool) - 1
		} else if k < len(s.Choices) {
			i = s.Choices[k] % len(pool)
		}
		k++
		u := pool[i]
		pool = append(pool[:i:i], pool[i+1:]...)
		st := Step{Batch: u.IsBatch(), Expensive: u.IsExpensive(), Pool: len(pool) + 1, Pick: i}
		if sel := u.Selection(); sel != nil {
			st.Alias = sel.Alias
		}
		s.Log = append(s.Log, st)
		pool = append(pool, resolver(u)...)
	}
}

// PanicMark precedes the message in the value the harness's resolvers panic with.
const PanicMark = "harness-panic:"

// ExecDeadline: how long one Parse / PrepareQuery / Execute may take before it is reported as hanging
// (cases normally take milliseconds).
var ExecDeadline = 30 * time.Second

// ---- execution ----

// Observed is what Execute returned, canonicalised.
type Observed struct {
	OK    bool        `json:"ok"`
	JSON  interface{} `json:"json,omitempty"` // after a JSON round trip
	Class string      `json:"class,omitempty"`  // err | safe | wrapped | client | panic | wrapsafe
	Text  string      `json:"text,omitempty"`   // message of the cause (panic: the panic value)
	Path  []string    `json:"path,omitempty"`   // response path without the query name
	Full  string      `json:"full,omitempty"`   // err.Error(), stack removed
	Stage string      `json:"stage,omitempty"`  // parse | prepare | execute | harness
	// Mutated: what Execute changed in the parsed query (spare capacity of its slices included)
	Mutated string `json:"mutated,omitempty"`
	// Reexec: how a second Execute of the same parsed query differed from the first
	Reexec string `json:"reexec,omitempty"`
}

func (o Observed) String() string {
	if o.OK {
		b, _ := json.Marshal(o.JSON)
		return string(b)
	}
	return fmt.Sprintf("error[%s %s] %q path=%v", o.Stage, o.Class, o.Text, o.Path)
}

// StripPlaceholders removes the placeholder selections Text() printed for empty selection sets.
func StripPlaceholders(ss *graphql.SelectionSet, seen map[*graphql.SelectionSet]bool) {
	if ss == nil || seen[ss] {
		return
	}
	seen[ss] = true
	kept := ss.Selections[:0:0]
	for _, s := range ss.Selections {
		if s.Name == Placeholder {
			continue
		}
		kept = append(kept, s)
		StripPlaceholders(s.SelectionSet, seen)
	}
	ss.Selections = kept
	for _, f := range ss.Fragments {
		StripPlaceholders(f.SelectionSet, seen)
	}
}

func classify(err error, qname string) Observed {
	o := Observed{Stage: "execute"}
	full := err.Error()
	cause := graphql.ErrorCause(err)
	ctext := cause.Error()
	// path = what precedes ": " + cause text
	if strings.HasSuffix(full, ": "+ctext) && full != ctext {
		p := strings.TrimSuffix(full, ": "+ctext)
		segs := strings.Split(p, ".")
		if qname != "" && len(segs) > 0 && segs[0] == qname {
			segs = segs[1:]
		}
		o.Path = segs
	}
	switch c := cause.(type) {
	case graphql.SafeError:
		o.Class = "safe"
		if c.Unwrap() != nil {
			o.Class = "wrapped"
		}
		o.Text = c.Error()
	case CustomErr:
		o.Class = "custom"
		o.Text = c.SanitizedError()
	case graphql.ClientError:
		// a client error raised by thunder itself: its wording is not compared
		o.Class = "client"
		o.Text = ""
	default:
		var inner graphql.SanitizedError
		if cause == context.Canceled {
			o.Class = "cancel"
			o.Text = ctext
		} else if errors.Is(cause, context.Canceled) || errors.Is(cause, context.DeadlineExceeded) {
			o.Class = "cancelwrap"
			o.Text = ctext
		} else if errors.As(cause, &inner) {
			// not a SanitizedError itself, but one is somewhere in its chain
			o.Class = "wrapsafe"
			o.Text = ctext
		} else if i := strings.Index(ctext, PanicMark); i >= 0 {
			// recognised by the value the harness's resolver panicked with, not by thunder's wording
			o.Class = "panic"
			t := ctext[i+len(PanicMark):]
			if j := strings.IndexAny(t, " \n\t"); j >= 0 {
				t = t[:j]
			}
			o.Text = t
		} else {
			o.Class = "err"
			o.Text = ctext
		}
	}
	if i := strings.Index(full, "\ngoroutine "); i >= 0 {
		full = full[:i]
	}
	o.Full = full
	return o
}

// Exec parses, prepares and executes the query text against the built schema under the scheduler.
func Exec(b *Built, text string, vars map[string]interface{}, sched graphql.WorkScheduler) (obs Observed) {
	return exec(b, text, vars, sched, false)
}

// ExecRerunner does the same inside a reactive.Rerunner, as the HTTP handler and the websocket
// connection do: expensive fields then go through the reactive cache.
func ExecRerunner(b *Built, text string, vars map[string]interface{}, sched graphql.WorkScheduler) (obs Observed) {
	return exec(b, text, vars, sched, true)
}

// ExecTwice executes the parsed query a second time (FIFO) and reports a difference in Reexec.
func ExecTwice(b *Built, text string, vars map[string]interface{}, sched graphql.WorkScheduler) (obs Observed) {
	return execOpt(b, text, vars, sched, false, true)
}

func exec(b *Built, text string, vars map[string]interface{}, sched graphql.WorkScheduler, rerun bool) (obs Observed) {
	return execOpt(b, text, vars, sched, rerun, false)
}

// ---- the parsed query must come back from Execute as it went in ----

type setSnap struct {
	sels  []*graphql.Selection // the whole backing array, spare capacity included
	frags []*graphql.Fragment
}
type querySnap struct {
	sets  map[*graphql.SelectionSet]setSnap
	sels  map[*graphql.Selection]graphql.Selection
	frags map[*graphql.Fragment]graphql.Fragment
}

func snapshot(root *graphql.SelectionSet) *querySnap {
	qs := &querySnap{sets: map[*graphql.SelectionSet]setSnap{}, sels: map[*graphql.Selection]graphql.Selection{}, frags: map[*graphql.Fragment]graphql.Fragment{}}
	var walk func(ss *graphql.SelectionSet)
	walk = func(ss *graphql.SelectionSet) {
		if ss == nil {
			return
		}
		if _, ok := qs.sets[ss]; ok {
			return
		}
		full := ss.Selections[:cap(ss.Selections)]
		fullF := ss.Fragments[:cap(ss.Fragments)]
		qs.sets[ss] = setSnap{sels: append([]*graphql.Selection{}, full...), frags: append([]*graphql.Fragment{}, fullF...)}
		for _, s := range ss.Selections {
			qs.sels[s] = *s
			walk(s.SelectionSet)
		}
		for _, f := range ss.Fragments {
			qs.frags[f] = *f
			walk(f.SelectionSet)
		}
	}
	walk(root)
	return qs
}

func (qs *querySnap) diff() string {
	for ss, sn := range qs.sets {
		if len(ss.Selections) > len(sn.sels) || cap(ss.Selections) != len(sn.sels) || len(ss.Fragments) > len(sn.frags) || cap(ss.Fragments) != len(sn.frags) {
			return "a selection set's slices were replaced or resized"
		}
		full := ss.Selections[:cap(ss.Selections)]
		for i := range full {
			if full[i] != sn.sels[i] {
				return fmt.Sprintf("slot %d of a Selections backing array (len %d, cap %d) was overwritten", i, len(ss.Selections), cap(ss.Selections))
			}
		}
		fullF := ss.Fragments[:cap(ss.Fragments)]
		for i := range fullF {
			if fullF[i] != sn.frags[i] {
				return fmt.Sprintf("slot %d of a Fragments backing array (len %d, cap %d) was overwritten", i, len(ss.Fragments), cap(ss.Fragments))
			}
		}
	}
	for s, was := range qs.sels {
		if s.Name != was.Name || s.Alias != was.Alias || s.SelectionSet != was.SelectionSet || len(s.Directives) != len(was.Directives) {
			return "selection " + was.Alias + " was modified"
		}
	}
	for f, was := range qs.frags {
		if f.On != was.On || f.SelectionSet != was.SelectionSet || len(f.Directives) != len(was.Directives) {
			return "a fragment on " + was.On + " was modified"
		}
	}
	return ""
}

func execOpt(b *Built, text string, vars map[string]interface{}, sched graphql.WorkScheduler, rerun, twice bool) (obs Observed) {
	done := make(chan Observed, 1)
	go func() {
		var o Observed
		defer func() {
			if e := recover(); e != nil {
				o = Observed{Stage: "harness", Class: "escaped-panic", Text: fmt.Sprint(e)}
			}
			done <- o
		}()
		q, err := graphql.Parse(text, vars)
		if err != nil {
			o = classify(err, "")
			o.Stage = "parse"
			return
		}
		StripPlaceholders(q.SelectionSet, map[*graphql.SelectionSet]bool{})
		if err := graphql.PrepareQuery(context.Background(), b.Schema.Query, q.SelectionSet); err != nil {
			o = classify(err, q.Name)
			o.Stage = "prepare"
			return
		}
		ex := graphql.NewExecutor(sched)
		snap := snapshot(q.SelectionSet)
		defer func() { o.Mutated = snap.diff() }()
		var val interface{}
		if rerun {
			fin := make(chan struct{})
			var once sync.Once
			rr := reactive.NewRerunner(context.Background(), func(ctx context.Context) (interface{}, error) {
				v, e := ex.Execute(batch.WithBatching(ctx), b.Schema.Query, nil, q)
				once.Do(func() { val, err = v, e; close(fin) })
				return nil, nil
			}, time.Hour, false)
			select {
			case <-fin:
			case <-time.After(15 * time.Second):
				rr.Stop()
				o = Observed{Stage: "harness", Class: "timeout", Text: "rerunner never ran"}
				return
			}
			rr.Stop()
		} else {
			val, err = ex.Execute(context.Background(), b.Schema.Query, nil, q)
		}
		if err != nil {
			o = classify(err, q.Name)
			if val != nil {
				o.Stage = "execute-partial-data"
			}
			return
		}
		raw, err := json.Marshal(val)
		if err != nil {
			o = Observed{Stage: "harness", Class: "marshal", Text: err.Error()}
			return
		}
		var back interface{}
		json.Unmarshal(raw, &back)
		o = Observed{OK: true, JSON: back}
		if twice {
			val2, err2 := graphql.NewExecutor(&Scripted{}).Execute(context.Background(), b.Schema.Query, nil, q)
			if err2 != nil {
				o.Reexec = "second execution failed: " + err2.Error()
			} else {
				raw2, _ := json.Marshal(val2)
				var back2 interface{}
				json.Unmarshal(raw2, &back2)
				if !reflect.DeepEqual(back, back2) {
					o.Reexec = "second execution returned " + string(raw2)
				}
			}
		}
	}()
	select {
	case o := <-done:
		return o
	case <-time.After(ExecDeadline):
		return Observed{Stage: "harness", Class: "timeout", Text: "Execute did not return within " + ExecDeadline.String()}
	}
}

// ---- cases ----

// Case is the structured input of one check case (replay format).
type Case struct {
	Spec    *SchemaSpec `json:"spec"`
	Modes   []Modes     `json:"modes"`
	Data    *Data       `json:"data"`
	Query   *Query      `json:"query"`
	Choices [][]int     `json:"choices"`
	Origin  string      `json:"origin,omitempty"`
}

// Fix restores what JSON dropped.
func (c *Case) Fix() {
	if c.Data != nil {
		c.Data.Index()
	}
}

// Shrink removes nodes and directives from the query while fails(q) stays true.
func Shrink(q *Query, fails func(*Query) bool) *Query {
	cur := q
	for round := 0; round < 6; round++ {
		changed := false
		// enumerate edit positions by walking a fresh copy each time
		for pos := 0; ; pos++ {
			cand, ok := editAt(cur, pos)
			if !ok {
				break
			}
			if fails(cand) {
				cur = cand
				changed = true
				pos--
			}
		}
		if !changed {
			break
		}
	}
	return cur
}

func copyNodes(ns []*Node) []*Node {
	out := make([]*Node, len(ns))
	for i, n := range ns {
		c := *n
		c.Dirs = append([]Dir{}, n.Dirs...)
		c.Sub = copyNodes(n.Sub)
		out[i] = &c
	}
	return out
}

func copyQuery(q *Query) *Query {
	c := &Query{Name: q.Name, ID: q.ID, Vars: q.Vars, Defaults: q.Defaults, Body: copyNodes(q.Body)}
	for _, f := range q.Frags {
		c.Frags = append(c.Frags, &FragDef{Name: f.Name, On: f.On, ID: f.ID, Body: copyNodes(f.Body)})
	}
	return c
}

// editAt applies the pos-th elementary reduction (drop a node, drop a node's directives, drop one directive).
func editAt(q *Query, pos int) (*Query, bool) {
	c := copyQuery(q)
	k := 0
	done := false
	var walk func(ns []*Node) []*Node
	walk = func(ns []*Node) []*Node {
		for i := 0; i < len(ns) && !done; i++ {
			n := ns[i]
			if k == pos {
				done = true
				return append(append([]*Node{}, ns[:i]...), ns[i+1:]...)
			}
			k++
			if len(n.Dirs) > 0 {
				if k == pos {
					done = true
					n.Dirs = nil
					return ns
				}
				k++
				if len(n.Dirs) > 1 {
					if k == pos {
						done = true
						n.Dirs = n.Dirs[1:]
						return ns
					}
					k++
					if k == pos {
						done = true
						n.Dirs = n.Dirs[:1]
						return ns
					}
					k++
				}
			}
			n.Sub = walk(n.Sub)
		}
		return ns
	}
	c.Body = walk(c.Body)
	for _, f := range c.Frags {
		if done {
			break
		}
		f.Body = walk(f.Body)
	}
	if !done {
		return nil, false
	}
	if len(c.Body) == 0 {
		return c, true
	}
	return c, true
}

// ---- failing-input search ----

// ReadSeeds loads the cases of a -search file (cases.jsonl lines).
func ReadSeeds(path string) []*Case {
	var out []*Case
	b, err := ioutil.ReadFile(path)
	if err != nil {
		return nil
	}
	for _, line := range strings.Split(string(b), "\n") {
		var w struct {
			Case *Case `json:"case"`
		}
		if strings.TrimSpace(line) != "" && json.Unmarshal([]byte(line), &w) == nil && w.Case != nil && w.Case.Spec != nil {
			w.Case.Fix()
			out = append(out, w.Case)
		}
	}
	return out
}

// Variant is a small edit of a case on which model and implementation disagreed: another query, data,
// mode assignment or schedule on the same schema, a node or a directive less, a condition negated, or
// (inject) one more failing resolver among those the query uses.
func Variant(r *vh.Rng, seed *Case, qo QOpts, pFail int, inject bool) *Case {
	b, _ := json.Marshal(seed)
	c := &Case{}
	json.Unmarshal(b, c)
	c.Fix()
	c.Origin = "search"
	for k := 1 + r.Intn(2); k > 0; k-- {
		switch r.Intn(8) {
		case 0:
			c.Query = GenQuery(r, c.Spec, qo)
		case 1:
			c.Data = GenData(r, c.Spec, pFail)
		case 2:
			for i := range c.Modes {
				c.Modes[i] = GenModes(r, c.Spec)
			}
		case 3:
			for i := range c.Choices {
				for j := range c.Choices[i] {
					c.Choices[i][j] = r.Intn(9)
				}
			}
		case 4, 5:
			// drop a node / a node's directives
			n := 0
			for {
				if _, ok := editAt(c.Query, n); !ok {
					break
				}
				n++
			}
			if n > 0 {
				if q, ok := editAt(c.Query, r.Intn(n)); ok && !hasEmptySet(q) {
					c.Query = q
				}
			}
		case 6:
			// negate the literal conditions of the directives, or bind the variables the other way
			if r.Bool() {
				negateLits(c.Query.Body, r)
				for _, f := range c.Query.Frags {
					negateLits(f.Body, r)
				}
			} else {
				for k, v := range c.Query.Vars {
					if bv, ok := v.(bool); ok && r.Bool() {
						c.Query.Vars[k] = !bv
					}
				}
				for k, v := range c.Query.Defaults {
					if bv, ok := v.(bool); ok && r.Bool() {
						c.Query.Defaults[k] = !bv
					}
				}
			}
		default:
			if inject && c.Query.DirsWellFormed() {
				rr := RefEval(c.Spec, c.Data, c.Query.Prune())
				InjectFailure(r, rr.Reached, rr.Enums)
			} else {
				c.Data = GenData(r, c.Spec, pFail)
			}
		}
	}
	return c
}

func negateLits(ns []*Node, r *vh.Rng) {
	for _, n := range ns {
		for i := range n.Dirs {
			if n.Dirs[i].Lit != nil && r.Chance(40) {
				v := !*n.Dirs[i].Lit
				n.Dirs[i].Lit = &v
			}
		}
		negateLits(n.Sub, r)
	}
}

// hasEmptySet: some selection set of the query has no member (cannot be written as GraphQL text).
func hasEmptySet(q *Query) bool {
	var walk func(ns []*Node, isSet bool) bool
	walk = func(ns []*Node, isSet bool) bool {
		if isSet && len(ns) == 0 {
			return true
		}
		for _, n := range ns {
			if (n.Kind == "field" && n.HasSub || n.Kind == "inline") && walk(n.Sub, true) {
				return true
			}
		}
		return false
	}
	if walk(q.Body, true) {
		return true
	}
	used := q.usedFrags()
	for _, f := range q.Frags {
		if used[f.Name] && walk(f.Body, true) {
			return true
		}
	}
	return false
}

// ---- HTTP ----

// HTTPResult is what one POST to graphql.HTTPHandlerWithExecutor answered.
type HTTPResult struct {
	Status   int         `json:"status"`
	Body     string      `json:"body"`
	Data     interface{} `json:"data"`
	Errors   []string    `json:"errors"`
	TimedOut bool        `json:"timed_out,omitempty"`
}

func HTTPPost(b *Built, text string, vars map[string]interface{}, sched graphql.WorkScheduler) HTTPResult {
	done := make(chan HTTPResult, 1)
	go func() {
		var res HTTPResult
		defer func() {
			if e := recover(); e != nil {
				res.Body = "panic: " + fmt.Sprint(e)
				res.Status = -1
			}
			done <- res
		}()
		body, _ := json.Marshal(map[string]interface{}{"query": text, "variables": vars})
		req := httptest.NewRequest("POST", "/graphql", bytes.NewReader(body))
		rec := httptest.NewRecorder()
		graphql.HTTPHandlerWithExecutor(b.Schema, graphql.NewExecutor(sched)).ServeHTTP(rec, req)
		res.Status = rec.Code
		res.Body = rec.Body.String()
		var parsed struct {
			Data   interface{} `json:"data"`
			Errors []string    `json:"errors"`
		}
		json.Unmarshal(rec.Body.Bytes(), &parsed)
		res.Data, res.Errors = parsed.Data, parsed.Errors
	}()
	select {
	case r := <-done:
		return r
	case <-time.After(ExecDeadline):
		return HTTPResult{TimedOut: true}
	}
}
