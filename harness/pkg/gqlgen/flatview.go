package gqlgen

import (
	"context"
	"fmt"
	"sort"

	"github.com/samsarahq/thunder/graphql"
	"verifharness/pkg/vh"
)

// FlatView parses and prepares the query text as Exec does, then walks it along the built schema the way
// the executor does, calling graphql.Flatten where the executor calls it: on the selection set of every
// object-typed selection, and under a union-typed selection once per member on the union-level
// selections plus the fragments on that member.  The result is a Gql.CheckFlat ftree list, sorted by
// alias (Flatten iterates a Go map), wrapped in Some; "None" when Flatten reports an error somewhere.
// ok = false when the query is rejected before execution.
func FlatView(b *Built, text string, vars map[string]interface{}) (term string, ok bool) {
	defer func() {
		if e := recover(); e != nil {
			term, ok = "", false
		}
	}()
	q, err := graphql.Parse(text, vars)
	if err != nil {
		return "", false
	}
	StripPlaceholders(q.SelectionSet, map[*graphql.SelectionSet]bool{})
	if err := graphql.PrepareQuery(context.Background(), b.Schema.Query, q.SelectionSet); err != nil {
		return "", false
	}
	failed := false
	keyOf := func(s *graphql.Selection) string {
		raw := s.UnparsedArgs
		if raw == nil {
			raw, _ = s.Args.(map[string]interface{})
		}
		if n, has := raw["n"]; has {
			switch v := n.(type) {
			case float64:
				return ArgKey(s.Name, int64(v))
			case int64:
				return ArgKey(s.Name, v)
			case int:
				return ArgKey(s.Name, int64(v))
			}
		}
		return s.Name
	}
	var walk func(t graphql.Type, ss *graphql.SelectionSet, depth int) string
	obj := func(o *graphql.Object, ss *graphql.SelectionSet, depth int) string {
		sels, err := graphql.Flatten(ss)
		if err != nil {
			failed = true
			return "[]"
		}
		sort.Slice(sels, func(i, j int) bool { return sels[i].Alias < sels[j].Alias })
		var xs []string
		for _, s := range sels {
			sub := "[]"
			if s.Name != "__typename" {
				f, has := o.Fields[s.Name]
				if !has {
					failed = true
					continue
				}
				sub = walk(f.Type, s.SelectionSet, depth+1)
			}
			xs = append(xs, fmt.Sprintf("FT %s %s %s %v %s", vh.CoqString(s.Alias), vh.CoqString(s.Name), vh.CoqString(keyOf(s)), s.SelectionSet != nil, sub))
		}
		return vh.CoqList(xs)
	}
	walk = func(t graphql.Type, ss *graphql.SelectionSet, depth int) string {
		if depth > 40 {
			failed = true
			return "[]"
		}
		switch t := t.(type) {
		case *graphql.Scalar, *graphql.Enum:
			if ss != nil {
				failed = true
			}
			return "[]"
		case *graphql.NonNull:
			return walk(t.Type, ss, depth+1)
		case *graphql.List:
			return walk(t.Type, ss, depth+1)
		case *graphql.Object:
			if ss == nil {
				failed = true
				return "[]"
			}
			return obj(t, ss, depth)
		case *graphql.Union:
			if ss == nil {
				failed = true
				return "[]"
			}
			var ms []string
			for m := range t.Types {
				ms = append(ms, m)
			}
			sort.Strings(ms)
			var xs []string
			for _, m := range ms {
				merged := &graphql.SelectionSet{Selections: ss.Selections}
				for _, f := range ss.Fragments {
					if f.On == m {
						merged.Fragments = append(merged.Fragments, f)
					}
				}
				xs = append(xs, fmt.Sprintf("FT %s \"\" \"\" true %s", vh.CoqString(m), obj(t.Types[m], merged, depth)))
			}
			return vh.CoqList(xs)
		}
		failed = true
		return "[]"
	}
	term = walk(b.Schema.Query, q.SelectionSet, 0)
	if failed {
		return "(@None (list ftree))", true
	}
	return "(Some " + term + ")", true
}
