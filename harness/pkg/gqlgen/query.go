package gqlgen

import (
	"fmt"
	"sort"
	"strings"

	"verifharness/pkg/vh"
)

// Dir is @skip / @include (or another name) with a literal, a variable, or a malformed condition.
type Dir struct {
	Name string `json:"name"`
	Lit  *bool  `json:"lit,omitempty"`
	Var  string `json:"var,omitempty"`
	Bad  string `json:"bad,omitempty"` // "noif" | "nonbool"
}

// Node kinds: field | inline | spread
type Node struct {
	Kind   string  `json:"kind"`
	Alias  string  `json:"alias,omitempty"`
	Name   string  `json:"name,omitempty"`
	Arg    *int64  `json:"arg,omitempty"`
	ArgVar string  `json:"arg_var,omitempty"`
	On     string  `json:"on,omitempty"`
	Frag   string  `json:"frag,omitempty"`
	Dirs   []Dir   `json:"dirs,omitempty"`
	HasSub bool    `json:"has_sub,omitempty"`
	Sub    []*Node `json:"sub,omitempty"`
	ID     int     `json:"id,omitempty"` // identity of the selection set (field/inline) or of the spread
}

type FragDef struct {
	Name string  `json:"name"`
	On   string  `json:"on"`
	ID   int     `json:"id"`
	Body []*Node `json:"body"`
}

type Query struct {
	Name  string                 `json:"name"`
	ID    int                    `json:"id"`
	Body  []*Node                `json:"body"`
	Frags []*FragDef             `json:"frags"`
	Vars  map[string]interface{} `json:"vars"` // the variables sent with the request
	// Defaults: default values declared in the operation ($v: Boolean = true); a variable that is
	// not sent takes its default.
	Defaults map[string]interface{} `json:"defaults,omitempty"`
}

// Eff is the value every variable has during execution: what was sent, else the declared default.
func (q *Query) Eff() map[string]interface{} {
	m := map[string]interface{}{}
	for k, v := range q.Defaults {
		m[k] = v
	}
	for k, v := range q.Vars {
		if v != nil {
			m[k] = v
		}
	}
	return m
}

// ---- generation ----

type QOpts struct {
	PDir     int  // percent of nodes that get directives
	PBadDir  int  // percent of directives that are malformed
	Depth    int
	AllowDup bool
	PUntyped int // percent of inline fragments written without a type condition (`... @include(if: $v) { a b }`)
}

type qgen struct {
	r      *vh.Rng
	spec   *SchemaSpec
	o      QOpts
	q      *Query
	nextID int
	// fragments by type condition
	byType   map[string][]*FragDef
	inFrag   bool
	aliasSig map[string]string // (response path of the parent, parent type, alias) -> field signature it stands for
	path     string            // response path of the selection set being generated
	force    string            // alias the next field must take (re-selection of an earlier field)
	eff      map[string]interface{}
	mergeFrag map[string]*FragDef // (type.field) -> fragment selecting that composite field, spread wherever the pattern recurs
}

func GenQuery(r *vh.Rng, spec *SchemaSpec, o QOpts) *Query {
	g := &qgen{r: r, spec: spec, o: o, byType: map[string][]*FragDef{}, aliasSig: map[string]string{}, mergeFrag: map[string]*FragDef{}}
	g.q = &Query{Vars: map[string]interface{}{}}
	if r.Chance(50) {
		g.q.Name = "Q" + fmt.Sprint(r.Intn(3))
	}
	// variables: v0..v3 booleans, n0..n1 ints; each is sent, or left to its declared default, or both
	g.q.Defaults = map[string]interface{}{}
	bind := func(name string, draw func() interface{}) {
		switch r.Intn(3) {
		case 0:
			g.q.Vars[name] = draw()
		case 1:
			g.q.Defaults[name] = draw()
		default:
			g.q.Vars[name] = draw()
			g.q.Defaults[name] = draw()
		}
	}
	for i := 0; i < 4; i++ {
		bind(fmt.Sprintf("v%d", i), func() interface{} { return r.Bool() })
	}
	bind("n0", func() interface{} { return float64(r.Intn(3)) })
	bind("n1", func() interface{} { return float64(r.Intn(3)) })
	g.eff = g.q.Eff()
	g.q.ID = g.id()
	g.q.Body = g.set("Query", o.Depth)
	if len(g.q.Body) == 0 {
		g.q.Body = []*Node{g.field(spec.Type("Query"), &spec.Type("Query").Fields[0], o.Depth)}
	}
	return g.q
}

// GenQueryWide is GenQuery plus a selection of the given root list field under alias "w" that goes
// one to three function fields deep below every element.
func GenQueryWide(r *vh.Rng, spec *SchemaSpec, o QOpts, rootField string) *Query {
	q := GenQuery(r, spec, o)
	g := &qgen{r: r, spec: spec, o: o, byType: map[string][]*FragDef{}, aliasSig: map[string]string{}, mergeFrag: map[string]*FragDef{}, q: q, eff: q.Eff()}
	g.nextID = 100000
	g.inFrag = true // default aliases only, no new fragments
	qt := spec.Type("Query")
	f := qt.Field(rootField)
	rt := f.Ret
	for rt.K == "list" {
		rt = *rt.Elem
	}
	n := &Node{Kind: "field", Name: f.Name, Alias: "w", HasSub: true, ID: g.id()}
	if f.Arg {
		a := int64(r.Intn(3))
		n.Arg = &a
	}
	g.path = "/w"
	n.Sub = append(g.chain(rt.Name, 1+r.Intn(3)), g.set(rt.Name, 1)...)
	q.Body = append(q.Body, n)
	return q
}

// chain selects a function field of typ that returns objects (if there is one) and, below it, goes on
// the same way for depth levels; at the bottom some leaf.
func (g *qgen) chain(typ string, depth int) []*Node {
	t := g.spec.Type(typ)
	var comps, funcs []*FieldSpec
	for i := range t.Fields {
		f := &t.Fields[i]
		rt := f.Ret
		for rt.K == "list" {
			rt = *rt.Elem
		}
		if !f.Struct {
			if rt.K == "obj" {
				comps = append(comps, f)
			} else if rt.K != "union" {
				funcs = append(funcs, f)
			}
		}
	}
	var out []*Node
	if len(funcs) > 0 {
		out = append(out, g.field(t, funcs[g.r.Intn(len(funcs))], 0))
	}
	if depth > 0 && len(comps) > 0 {
		f := comps[g.r.Intn(len(comps))]
		rt := f.Ret
		for rt.K == "list" {
			rt = *rt.Elem
		}
		n := &Node{Kind: "field", Name: f.Name, Alias: f.Name, HasSub: true, ID: g.id()}
		if f.Arg {
			a := int64(g.r.Intn(3))
			n.Arg = &a
			n.Alias = fmt.Sprintf("%s_%d", f.Name, a)
		}
		old := g.path
		g.path = old + "/" + n.Alias
		n.Sub = g.chain(rt.Name, depth-1)
		g.path = old
		if len(n.Sub) == 0 {
			n.Sub = []*Node{{Kind: "field", Name: "__typename", Alias: "__typename"}}
		}
		out = append(out, n)
	}
	if len(out) == 0 {
		out = append(out, &Node{Kind: "field", Name: "__typename", Alias: "__typename"})
	}
	return out
}

func (g *qgen) id() int { g.nextID++; return g.nextID }

func (g *qgen) dirs() []Dir {
	if !g.r.Chance(g.o.PDir) {
		return nil
	}
	one := func(name string) Dir {
		d := Dir{Name: name}
		if g.r.Chance(g.o.PBadDir) {
			switch g.r.Intn(3) {
			case 0:
				d.Bad = "noif"
			case 1:
				d.Bad = "nonbool"
			default:
				d.Var = "missing"
			}
			return d
		}
		if g.r.Chance(40) {
			d.Var = fmt.Sprintf("v%d", g.r.Intn(4))
		} else {
			b := g.r.Bool()
			d.Lit = &b
		}
		return d
	}
	switch k := g.r.Intn(100); {
	case k < 35:
		return []Dir{one("skip")}
	case k < 70:
		return []Dir{one("include")}
	case k < 83:
		return []Dir{one("skip"), one("include")}
	case k < 96:
		return []Dir{one("include"), one("skip")}
	default:
		return []Dir{one("deprecated")}
	}
}

// dirsForced: directives for certain, wherever the generator uses directives at all.
func (g *qgen) dirsForced() []Dir {
	if g.o.PDir == 0 {
		return nil
	}
	save := g.o.PDir
	g.o.PDir = 100
	ds := g.dirs()
	g.o.PDir = save
	return ds
}

// An alias stands for one (field, argument) per parent type in the whole query, so that selections
// merged by Flatten never conflict.
func (g *qgen) field(t *TypeSpec, f *FieldSpec, depth int) *Node {
	n := &Node{Kind: "field", Name: f.Name, Alias: f.Name, Dirs: g.dirs()}
	sig := f.Name
	if f.Arg {
		a := int64(g.r.Intn(3))
		if g.r.Chance(30) {
			n.ArgVar = []string{"n0", "n1"}[g.r.Intn(2)]
			a = int64(g.eff[n.ArgVar].(float64))
		}
		n.Arg = &a
		n.Alias = fmt.Sprintf("%s_%d", f.Name, a)
		sig = ArgKey(f.Name, a)
	}
	if g.force != "" {
		n.Alias = g.force
		g.force = ""
	} else if !g.inFrag && g.r.Chance(20) {
		al := []string{"a1", "a2", "zz"}[g.r.Intn(3)]
		// selections merge only under the same response path: an alias stands for one field there
		k := g.path + "|" + t.Name + "." + al
		if cur, ok := g.aliasSig[k]; !ok || cur == sig {
			n.Alias = al
			g.aliasSig[k] = sig
		}
	}
	old := g.path
	g.path = old + "/" + n.Alias
	defer func() { g.path = old }()
	rt := f.Ret
	for rt.K == "list" {
		rt = *rt.Elem
	}
	switch rt.K {
	case "obj":
		n.HasSub = true
		n.ID = g.id()
		n.Sub = g.set(rt.Name, depth-1)
	case "union":
		n.HasSub = true
		n.ID = g.id()
		n.Sub = g.unionSet(rt.Name, depth-1)
	}
	return n
}

func (g *qgen) set(typ string, depth int) []*Node {
	t := g.spec.Type(typ)
	var out []*Node
	var leaves, comps []*FieldSpec
	for i := range t.Fields {
		f := &t.Fields[i]
		rt := f.Ret
		for rt.K == "list" {
			rt = *rt.Elem
		}
		if rt.K == "obj" || rt.K == "union" {
			comps = append(comps, f)
		} else {
			leaves = append(leaves, f)
		}
	}
	// once a type has the shared-merge pattern, later selection sets of that type mostly have it too
	pm := 22
	for k := range g.mergeFrag {
		if strings.HasPrefix(k, typ+".") {
			pm = 65
		}
	}
	if depth > 0 && typ != "Query" && !g.inFrag && g.r.Chance(pm) {
		out = append(out, g.sharedMerge(t, depth)...)
	}
	n := 1 + g.r.Intn(4)
	if typ == "Query" {
		n = 2 + g.r.Intn(3)
	}
	for i := 0; i < n; i++ {
		switch k := g.r.Intn(100); {
		case k < 30 && len(leaves) > 0 && typ != "Query":
			out = append(out, g.field(t, leaves[g.r.Intn(len(leaves))], depth))
		case k < 62 && len(comps) > 0 && depth > 0:
			out = append(out, g.field(t, comps[g.r.Intn(len(comps))], depth))
		case k < 70 && g.o.AllowDup && len(out) > 0:
			// re-select an earlier field (same alias, other sub-selection)
			prev := out[g.r.Intn(len(out))]
			if prev.Kind == "field" && prev.Name != "__typename" {
				f := t.Field(prev.Name)
				if !f.Arg {
					g.force = prev.Alias
				}
				out = append(out, g.field(t, f, depth))
			}
		case k < 76 && depth > 0 && len(out) > 0 && !g.inFrag:
			// the same composite field once more under another alias: the two response paths lead
			// to the same objects
			prev := out[g.r.Intn(len(out))]
			if prev.Kind == "field" && prev.HasSub {
				f := t.Field(prev.Name)
				al := []string{"a1", "a2", "zz"}[g.r.Intn(3)]
				sig := f.Name
				if prev.Arg != nil {
					sig = ArgKey(f.Name, *prev.Arg)
				}
				k := g.path + "|" + t.Name + "." + al
				if cur, ok := g.aliasSig[k]; (!ok || cur == sig) && al != prev.Alias {
					g.aliasSig[k] = sig
					c := *prev
					c.Alias = al
					c.Dirs = g.dirs()
					c.ID = g.id()
					oldp := g.path
					g.path = oldp + "/" + al
					rt := f.Ret
					for rt.K == "list" {
						rt = *rt.Elem
					}
					if rt.K == "obj" {
						c.Sub = g.set(rt.Name, depth-1)
					} else {
						c.Sub = g.unionSet(rt.Name, depth-1)
					}
					g.path = oldp
					out = append(out, &c)
				}
			}
		case k < 80 && depth > 0:
			on := typ
			if g.r.Chance(g.o.PUntyped) {
				on = "" // applies to the enclosing type
			}
			ds := g.dirs()
			if on == "" && len(ds) == 0 && g.o.PDir > 0 && g.r.Chance(80) {
				// a fragment without type condition is there for its directives
				save := g.o.PDir
				g.o.PDir = 100
				ds = g.dirs()
				g.o.PDir = save
			}
			out = append(out, &Node{Kind: "inline", On: on, Dirs: ds, ID: g.id(), Sub: g.set(typ, depth-1)})
		case k < 92 && depth > 0 && typ != "Query":
			if sp := g.spread(typ, depth); sp != nil {
				out = append(out, sp)
			}
		case k < 97 && typ != "Query":
			out = append(out, &Node{Kind: "field", Name: "__typename", Alias: "__typename", Dirs: g.dirs()})
		default:
			if len(leaves) > 0 {
				out = append(out, g.field(t, leaves[g.r.Intn(len(leaves))], depth))
			}
		}
	}
	if len(out) == 0 {
		if len(leaves) > 0 {
			out = append(out, g.field(t, leaves[0], depth))
		} else if typ != "Query" {
			out = append(out, &Node{Kind: "field", Name: "__typename", Alias: "__typename"})
		} else {
			out = append(out, g.field(t, &t.Fields[0], depth))
		}
	}
	return out
}

// sharedMerge: a named fragment that selects a composite field with a few sub-selections, spread here,
// followed by an inline fragment selecting the same field with other sub-selections.  Wherever the
// pattern recurs for the same field the same fragment is spread, so the merged sub-selection starts,
// in several places, from one shared selection set.
func (g *qgen) sharedMerge(t *TypeSpec, depth int) []*Node {
	var comps []*FieldSpec
	for i := range t.Fields {
		f := &t.Fields[i]
		rt := f.Ret
		for rt.K == "list" {
			rt = *rt.Elem
		}
		if rt.K == "obj" {
			comps = append(comps, f)
		}
	}
	if len(comps) == 0 {
		return nil
	}
	f := comps[g.r.Intn(len(comps))]
	rt := f.Ret
	for rt.K == "list" {
		rt = *rt.Elem
	}
	key := t.Name + "." + f.Name
	fd := g.mergeFrag[key]
	if fd == nil {
		if len(g.q.Frags) >= 7 {
			return nil
		}
		tt := g.spec.Type(rt.Name)
		var leaves []*FieldSpec
		for i := range tt.Fields {
			l := &tt.Fields[i]
			lt := l.Ret
			for lt.K == "list" {
				lt = *lt.Elem
			}
			if lt.K != "obj" && lt.K != "union" {
				leaves = append(leaves, l)
			}
		}
		g.inFrag = true
		oldp := g.path
		node := &Node{Kind: "field", Name: f.Name, Alias: f.Name, HasSub: true, ID: g.id()}
		if f.Arg {
			a := int64(g.r.Intn(3))
			node.Arg = &a
			node.Alias = fmt.Sprintf("%s_%d", f.Name, a)
		}
		g.path = "frag/" + key
		k := []int{3, 3, 3, 5, 6, 2, 7}[g.r.Intn(7)]
		for i := 0; i < k; i++ {
			if len(leaves) > 0 && g.r.Chance(85) {
				node.Sub = append(node.Sub, g.field(tt, leaves[g.r.Intn(len(leaves))], 0))
			} else {
				node.Sub = append(node.Sub, &Node{Kind: "field", Name: "__typename", Alias: "__typename"})
			}
		}
		g.path = oldp
		g.inFrag = false
		fd = &FragDef{Name: fmt.Sprintf("M%d", len(g.q.Frags)), On: t.Name, ID: g.id(), Body: []*Node{node}}
		g.q.Frags = append(g.q.Frags, fd)
		g.mergeFrag[key] = fd
	}
	first := fd.Body[0]
	extra := &Node{Kind: "field", Name: first.Name, Alias: first.Alias, Arg: first.Arg, HasSub: true, ID: g.id()}
	oldp := g.path
	g.path = oldp + "/" + extra.Alias
	extra.Sub = g.set(rt.Name, depth-1)
	if g.r.Chance(60) {
		// a single extra selection: fits the spare capacity of the fragment's selection list
		for _, x := range extra.Sub {
			if x.Kind == "field" {
				extra.Sub = []*Node{x}
				break
			}
		}
	}
	g.path = oldp
	return []*Node{
		{Kind: "spread", Frag: fd.Name, Dirs: g.dirs(), ID: g.id()},
		{Kind: "inline", On: t.Name, Dirs: g.dirs(), ID: g.id(), Sub: []*Node{extra}},
	}
}

// spread returns a spread of an existing fragment on typ (so that fragments are used several times
// with different directives) or of a new one.  Fragment bodies only use default aliases and only
// spread fragments defined before them.
func (g *qgen) spread(typ string, depth int) *Node {
	var f *FragDef
	if fs := g.byType[typ]; len(fs) > 0 && g.r.Chance(70) {
		f = fs[g.r.Intn(len(fs))]
	} else if !g.inFrag && len(g.q.Frags) < 4 {
		f = &FragDef{Name: fmt.Sprintf("F%d", len(g.q.Frags)), On: typ, ID: g.id()}
		g.inFrag = true
		d := depth - 1
		if d > 1 {
			d = 1
		}
		f.Body = g.set(typ, d)
		g.inFrag = false
		g.q.Frags = append(g.q.Frags, f)
		g.byType[typ] = append(g.byType[typ], f)
	}
	if f == nil {
		return nil
	}
	return &Node{Kind: "spread", Frag: f.Name, Dirs: g.dirs(), ID: g.id()}
}

func (g *qgen) unionSet(uname string, depth int) []*Node {
	var out []*Node
	if g.r.Chance(35) {
		out = append(out, &Node{Kind: "field", Name: "__typename", Alias: "__typename"})
	}
	ms := unionMembers[uname]
	if !g.inFrag && len(g.q.Frags) < 4 && g.r.Chance(22) {
		// member fragments nested inside a named fragment: fragment Fk on M { ... on M @d1 { leaves
		// ... on M @d2 { leaves } } leaves }, spread under the union with directives of its own,
		// sometimes twice with different ones
		m := ms[g.r.Intn(len(ms))]
		f := &FragDef{Name: fmt.Sprintf("F%d", len(g.q.Frags)), On: m, ID: g.id()}
		g.inFrag = true
		inner := &Node{Kind: "inline", On: m, Dirs: g.dirsForced(), ID: g.id(), Sub: g.set(m, 0)}
		outer := &Node{Kind: "inline", On: m, Dirs: g.dirsForced(), ID: g.id()}
		outer.Sub = append(g.set(m, 0), inner)
		f.Body = []*Node{outer}
		if g.r.Chance(50) {
			f.Body = append(f.Body, g.set(m, 0)...)
		}
		g.inFrag = false
		g.q.Frags = append(g.q.Frags, f)
		g.byType[m] = append(g.byType[m], f)
		out = append(out, &Node{Kind: "spread", Frag: f.Name, Dirs: g.dirsForced(), ID: g.id()})
		if g.r.Chance(45) {
			out = append(out, &Node{Kind: "spread", Frag: f.Name, Dirs: g.dirs(), ID: g.id()})
		}
	}
	n := 1 + g.r.Intn(4)
	for i := 0; i < n; i++ {
		m := ms[g.r.Intn(len(ms))]
		if g.r.Chance(25) {
			if sp := g.spread(m, depth+1); sp != nil {
				out = append(out, sp)
				continue
			}
		}
		d := depth
		if d < 0 {
			d = 0
		}
		out = append(out, &Node{Kind: "inline", On: m, Dirs: g.dirs(), ID: g.id(), Sub: g.set(m, d)})
	}
	return out
}

// ---- printing ----

func printDirs(ds []Dir) string {
	var b strings.Builder
	for _, d := range ds {
		b.WriteString(" @" + d.Name)
		switch {
		case d.Bad == "noif":
		case d.Bad == "nonbool":
			b.WriteString("(if: 3)")
		case d.Var != "":
			b.WriteString("(if: $" + d.Var + ")")
		case d.Lit != nil:
			fmt.Fprintf(&b, "(if: %v)", *d.Lit)
		}
	}
	return b.String()
}

const Placeholder = "zzEmpty"

func printNodes(b *strings.Builder, ns []*Node) {
	b.WriteString("{ ")
	if len(ns) == 0 {
		b.WriteString(Placeholder + " ")
	}
	for _, n := range ns {
		switch n.Kind {
		case "field":
			if n.Alias != n.Name {
				b.WriteString(n.Alias + ": ")
			}
			b.WriteString(n.Name)
			if n.Arg != nil {
				if n.ArgVar != "" {
					b.WriteString("(n: $" + n.ArgVar + ")")
				} else {
					fmt.Fprintf(b, "(n: %d)", *n.Arg)
				}
			}
			b.WriteString(printDirs(n.Dirs))
			if n.HasSub {
				b.WriteString(" ")
				printNodes(b, n.Sub)
			}
		case "inline":
			if n.On == "" {
				b.WriteString("..." + printDirs(n.Dirs) + " ")
			} else {
				b.WriteString("... on " + n.On + printDirs(n.Dirs) + " ")
			}
			printNodes(b, n.Sub)
		case "spread":
			b.WriteString("..." + n.Frag + printDirs(n.Dirs))
		}
		b.WriteString(" ")
	}
	b.WriteString("}")
}

func usedVars(q *Query) []string {
	seen := map[string]bool{}
	var walk func(ns []*Node)
	walk = func(ns []*Node) {
		for _, n := range ns {
			for _, d := range n.Dirs {
				if d.Var != "" {
					seen[d.Var] = true
				}
			}
			if n.ArgVar != "" {
				seen[n.ArgVar] = true
			}
			walk(n.Sub)
		}
	}
	walk(q.Body)
	for _, f := range q.Frags {
		walk(f.Body)
	}
	var out []string
	for v := range seen {
		out = append(out, v)
	}
	sort.Strings(out)
	return out
}

// Text prints the query; fragment definitions that are never spread are left out (an unused
// fragment is a parse error), empty selection sets are printed with a placeholder field that
// StripPlaceholders removes from the parsed query.
func (q *Query) Text() string {
	var b strings.Builder
	vs := usedVars(q)
	if q.Name != "" || len(vs) > 0 {
		b.WriteString("query " + q.Name)
		if len(vs) > 0 {
			b.WriteString("(")
			for i, v := range vs {
				if i > 0 {
					b.WriteString(", ")
				}
				if strings.HasPrefix(v, "n") {
					b.WriteString("$" + v + ": Int")
				} else {
					b.WriteString("$" + v + ": Boolean")
				}
				if d, ok := q.Defaults[v]; ok {
					switch x := d.(type) {
					case bool:
						fmt.Fprintf(&b, " = %v", x)
					case float64:
						fmt.Fprintf(&b, " = %d", int64(x))
					}
				}
			}
			b.WriteString(")")
		}
		b.WriteString(" ")
	}
	printNodes(&b, q.Body)
	used := q.usedFrags()
	for _, f := range q.Frags {
		if !used[f.Name] {
			continue
		}
		b.WriteString("\nfragment " + f.Name + " on " + f.On + " ")
		printNodes(&b, f.Body)
	}
	return b.String()
}

func (q *Query) usedFrags() map[string]bool {
	used := map[string]bool{}
	byName := map[string]*FragDef{}
	for _, f := range q.Frags {
		byName[f.Name] = f
	}
	var walk func(ns []*Node)
	walk = func(ns []*Node) {
		for _, n := range ns {
			if n.Kind == "spread" && !used[n.Frag] {
				used[n.Frag] = true
				if f := byName[n.Frag]; f != nil {
					walk(f.Body)
				}
			}
			walk(n.Sub)
		}
	}
	walk(q.Body)
	return used
}

// ---- textual deletion (independent of the Coq model) ----

func (q *Query) condValue(d Dir) (bool, bool) {
	switch {
	case d.Bad != "":
		return false, false
	case d.Var != "":
		v, ok := q.Eff()[d.Var].(bool)
		return v, ok
	case d.Lit != nil:
		return *d.Lit, true
	}
	return false, false
}

// DirsWellFormed: every @skip/@include has a boolean condition.
func (q *Query) DirsWellFormed() bool {
	ok := true
	var walk func(ns []*Node)
	walk = func(ns []*Node) {
		for _, n := range ns {
			for _, d := range n.Dirs {
				if d.Name == "skip" || d.Name == "include" {
					if _, good := q.condValue(d); !good {
						ok = false
					}
				}
			}
			walk(n.Sub)
		}
	}
	walk(q.Body)
	for _, f := range q.Frags {
		walk(f.Body)
	}
	return ok
}

func (q *Query) allowed(ds []Dir) bool {
	for _, d := range ds {
		v, _ := q.condValue(d)
		if d.Name == "skip" && v {
			return false
		}
		if d.Name == "include" && !v {
			return false
		}
	}
	return true
}

func (q *Query) pruneNodes(ns []*Node) []*Node {
	out := []*Node{}
	for _, n := range ns {
		if !q.allowed(n.Dirs) {
			continue
		}
		c := *n
		c.Dirs = nil
		if n.Kind != "spread" && (n.HasSub || n.Kind == "inline") {
			c.Sub = q.pruneNodes(n.Sub)
		}
		out = append(out, &c)
	}
	return out
}

// Prune deletes every node its directives exclude and drops the directives from the rest.
func (q *Query) Prune() *Query {
	p := &Query{Name: q.Name, ID: q.ID, Vars: q.Vars, Defaults: q.Defaults, Body: q.pruneNodes(q.Body)}
	for _, f := range q.Frags {
		p.Frags = append(p.Frags, &FragDef{Name: f.Name, On: f.On, ID: f.ID, Body: q.pruneNodes(f.Body)})
	}
	return p
}

// HasUntyped: some inline fragment has no type condition.
func (q *Query) HasUntyped() bool {
	var walk func(ns []*Node) bool
	walk = func(ns []*Node) bool {
		for _, n := range ns {
			if n.Kind == "inline" && n.On == "" || walk(n.Sub) {
				return true
			}
		}
		return false
	}
	if walk(q.Body) {
		return true
	}
	for _, f := range q.Frags {
		if walk(f.Body) {
			return true
		}
	}
	return false
}

// HasDirectives reports whether any node carries @skip or @include.
func (q *Query) CountDirs() (n int, both int, spreadsMulti int) {
	uses := map[string]int{}
	var walk func(ns []*Node)
	walk = func(ns []*Node) {
		for _, x := range ns {
			k := 0
			for _, d := range x.Dirs {
				if d.Name == "skip" || d.Name == "include" {
					k++
				}
			}
			n += k
			if k >= 2 {
				both++
			}
			if x.Kind == "spread" && k > 0 {
				uses[x.Frag]++
			}
			walk(x.Sub)
		}
	}
	walk(q.Body)
	for _, f := range q.Frags {
		walk(f.Body)
	}
	for _, c := range uses {
		if c >= 2 {
			spreadsMulti++
		}
	}
	return
}
